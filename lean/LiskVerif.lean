-- Root of the `LiskVerif` library: models and property theorems.
import LiskVerif.Model.Util
import LiskVerif.Model.DiffDB
