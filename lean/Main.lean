import Driver.DiffDB

def main (args : List String) : IO UInt32 := do
  match args with
  | ["C12"] => Driver.DiffDB.main; return 0
  | _ => IO.eprintln "usage: ldriver <property-id>"; return 2
