import Driver.DiffDB
import Driver.Fns
import Driver.Codec

def main (args : List String) : IO UInt32 := do
  match args with
  | ["C12"] => Driver.DiffDB.main; return 0
  | ["C07"] => Driver.Fns.main; return 0
  | ["C08"] => Driver.Codec.main; return 0
  | _ => IO.eprintln "usage: ldriver <property-id>"; return 2
