import Driver.DiffDB
import Driver.DiffDBDur
import Driver.Fns
import Driver.Codec
import Driver.BFT
import Driver.Hash
import Driver.TxPool
import Driver.ConnGater
import Driver.Exec
import Driver.SMT
import Driver.RMT
import Driver.Verify
import Driver.Validators
import Driver.Sync
import Driver.Generator
import Driver.Cert
import Driver.Node
import Driver.Cache
import Driver.ReqResp
import Driver.Emitter
import Driver.GenStatus
import Driver.Lifecycle
import Driver.Collection
import Driver.GoHeap
import Driver.Roots
import Driver.BLSAgg
import Driver.Text
import Driver.ExecEvents
import Driver.ReqCtx
import Driver.ReqLives
import Driver.ReqFresh
import Driver.SMTImpl
import Driver.CodecNFC
import Driver.Convert

def main (args : List String) : IO UInt32 := do
  match args with
  | ["C12"] => Driver.DiffDB.main; return 0
  | ["C12DUR"] => Driver.DiffDBDur.main; return 0
  | ["C07"] => Driver.Fns.main; return 0
  | ["C08"] => Driver.Codec.main; return 0
  | ["C02"] => Driver.BFT.main; return 0
  | ["hash"] => Driver.Hash.main; return 0
  | ["C14"] => Driver.TxPool.main; return 0
  | ["C18"] => Driver.ConnGater.main; return 0
  | ["C16"] => Driver.Exec.main; return 0
  | ["C10"] => Driver.SMT.main; return 0
  | ["C11"] => Driver.RMT.main; return 0
  | ["C03"] => Driver.Verify.main; return 0
  | ["C09"] => Driver.Validators.main; return 0
  | ["C19"] => Driver.Sync.main; return 0
  | ["C15"] => Driver.Generator.main; return 0
  | ["C06"] => Driver.Cert.main; return 0
  | ["C04"] => Driver.Node.main; return 0
  | ["C05"] => Driver.Node.main; return 0
  | ["C07NODE"] => Driver.Node.main; return 0
  | ["C20CACHE"] => Driver.Cache.main; return 0
  | ["EMITTER"] => Driver.Emitter.main; return 0
  | ["C15STATUS"] => Driver.GenStatus.main; return 0
  | ["C18LIFE"] => Driver.Lifecycle.main; return 0
  | ["LIBCOLL"] => Driver.Collection.main; return 0
  | ["LIBHEAP"] => Driver.GoHeap.main; return 0
  | ["ROOTS"] => Driver.Roots.main; return 0
  | ["C06BLS"] => Driver.BLSAgg.main; return 0
  | ["C09TEXT"] => Driver.Text.main; return 0
  | ["C16WIDE"] => Driver.ExecEvents.main; return 0
  | ["C17CTX"] => Driver.ReqCtx.main; return 0
  | ["C17LIVES"] => Driver.ReqLives.main; return 0
  | ["C17FRESH"] => Driver.ReqFresh.main; return 0
  | ["C10IMPL"] => Driver.SMTImpl.main; return 0
  | ["C08NFC"] => Driver.CodecNFC.main; return 0
  | ["C03CONV"] => Driver.Convert.main; return 0
  | ["C17"] => Driver.ReqResp.main; return 0
  | ["C01"] => Driver.BFT.main; return 0
  | _ => IO.eprintln "usage: ldriver <property-id>"; return 2
