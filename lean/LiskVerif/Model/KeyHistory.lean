/-
Physical key histories of a log-structured store (what pebble keeps below the map the other models talk about).

The models of C05 / C12 / C13 treat the database as a finite map; pebble, however, stores for every key the HISTORY
of the entries written to it (newest first) and only flush / compaction reduce a history. A read looks at the
newest entry. `DB.Flush` + a manual compaction of the whole key range (no open snapshot, bottom level) rewrites the
history by pebble's compaction rules:

  SET v       shadows everything older:            the history becomes [SET v]
  DELETE      shadows everything older, and is dropped at the bottom level: the history becomes []
  SINGLEDEL   annihilates with the NEXT older SET only - whatever is older than that SET survives and is judged
              on its own; meeting a DELETE it becomes a DELETE; two SINGLEDELs in a row count as one; at the
              bottom with nothing below it is dropped

(pebble `compactionIter.singleDeleteNext`). So a history-erasing delete makes storage maintenance invisible, a
single delete only for keys that were written once.
-/
import LiskVerif.Model.Util

namespace LiskVerif.KeyHistory

/-- one physical entry of a key -/
inductive Entry where
  | set (v : Bytes)
  | del
  | sdel
  deriving DecidableEq, Repr

/-- which entry a pebble write call appends (`Merge` / `DeleteRange` / `LogData` are outside this model) -/
def entryOfCall (call : String) (v : Bytes) : Option Entry :=
  if call = "Set" then some (.set v)
  else if call = "Delete" then some .del
  else if call = "SingleDelete" then some .sdel
  else none

/-- calls whose entries erase the history of the key -/
def plainCall (call : String) : Bool := call = "Set" || call = "Delete"

/-- what a read returns: the newest entry decides -/
def visible : List Entry → Option Bytes
  | [] => none
  | .set v :: _ => some v
  | .del :: _ => none
  | .sdel :: _ => none

/-- flush + full compaction of one key's history (newest first); `pending` = a SINGLEDEL is looking for its SET -/
def compactAux : Bool → List Entry → List Entry
  | _, [] => []
  | false, .set v :: _ => [.set v]
  | false, .del :: _ => []
  | false, .sdel :: rest => compactAux true rest
  | true, .set _ :: rest => compactAux false rest
  | true, .del :: _ => []
  | true, .sdel :: rest => compactAux true rest

def compact (es : List Entry) : List Entry := compactAux false es

/-- a history written only with SET / DELETE -/
def Plain (es : List Entry) : Prop := ∀ e ∈ es, e ≠ .sdel

/-- the store: every key with its history -/
abbrev Store := Bytes → List Entry

def emptyStore : Store := fun _ => []

def putKey (k v : Bytes) (s : Store) : Store := fun k' => if k' = k then .set v :: s k' else s k'
def deleteKey (k : Bytes) (s : Store) : Store := fun k' => if k' = k then .del :: s k' else s k'
def singleDeleteKey (k : Bytes) (s : Store) : Store := fun k' => if k' = k then .sdel :: s k' else s k'

/-- several writes of one key, the head of the list last (newest) -/
def puts (k : Bytes) : List Bytes → Store → Store
  | [], s => s
  | v :: vs, s => putKey k v (puts k vs s)

def readKey (s : Store) (k : Bytes) : Option Bytes := visible (s k)

/-- memtable flush + compaction of the whole key range (+ reopen: the files are the state) -/
def settle (s : Store) : Store := fun k => compact (s k)

/-- write operations of the engine's database API -/
inductive Op where
  | put (k v : Bytes)
  | del (k : Bytes)

def Op.apply : Op → Store → Store
  | .put k v, s => putKey k v s
  | .del k, s => deleteKey k s

/-- a history of write batches, oldest first -/
def run (s : Store) : List Op → Store
  | [] => s
  | o :: os => run (o.apply s) os

end LiskVerif.KeyHistory
