/-
The contract between the APPLICATION's validator list and what the engine stores / uses
(property C03: "... the slot's assigned generator and its signature ...").

Transcribed from /repo:

* `pkg/consensus/liskbft/convert.go`   `GetBFTValidatorAndGenerators` (the application's list — the
  `NextValidators` of `InitGenesisState` / `AfterTransactionsExecute` — is split into the BFT validators
  and the generator list) and `GetLabiValidators` (the way back: `CurrentValidators` handed to the
  application in `labi.Consensus`);
* the consumers of the two results (`pkg/consensus/abi_caller.go` `stateExecuter.Execute`,
  `genesisStateExecuter.ExecuteGenesis`, `pkg/consensus/execute.go` `Executer.SetBFTParameters`):
  result #0 is the `validators` argument of `API.SetBFTParameters` (which refuses weight 0, counts the
  entries against the batch size, sums the weights and hashes (BLS key, weight) into `validatorsHash`),
  result #1 is the argument of `API.SetGeneratorKeys`; `verifyBlock` reads it back with
  `GetGeneratorKeys(height)` and takes `Generators.AtTimestamp` = `vs[slot % len(vs)]` — over the
  FULL ordered list.

The loop of `GetBFTValidatorAndGenerators` is transcribed statement by statement (`step`, `convert` is
the fold over the list); `Gen/ConvertFacts.lean` (tools/convgen) regenerates the loop-body facts from the
source on every run and `Props/C03_Convert.lean` ties them to `step`. `stepSkip` / `convertSkip` is the
conversion with the early `continue` for weight 0 (seeded change C03-16), kept for the counterexample.
Core Lean only.
-/
import LiskVerif.Model.Verify
import LiskVerif.Model.Roots

namespace LiskVerif.Convert
open LiskVerif

/-- `labi.Validator`: one entry of the application's list -/
structure AppValidator where
  address : Bytes
  weight : Nat            -- `BFTWeight` (uint64); 0 = standby validator: generates, does not vote
  generatorKey : Bytes
  blsKey : Bytes
deriving Repr, DecidableEq

/-- `liskbft.BFTValidator` as built by `NewValidator(address, bftWeight, blsKey)` -/
structure BFTValidator where
  address : Bytes
  weight : Nat
  blsKey : Bytes
deriving Repr, DecidableEq

/-- `liskbft.Generator` as built by `NewGenerator(address, generatorKey)` -/
structure Generator where
  address : Bytes
  generatorKey : Bytes
deriving Repr, DecidableEq

def newValidator (v : AppValidator) : BFTValidator := ⟨v.address, v.weight, v.blsKey⟩
def newGenerator (v : AppValidator) : Generator := ⟨v.address, v.generatorKey⟩

/-- the two accumulators `bftValidators`, `generators` -/
abbrev Acc := List BFTValidator × List Generator

/-- the body of `for _, validator := range validators`:
`if validator.BFTWeight > 0 { bftValidators = append(bftValidators, NewValidator(…)) }` and then,
unconditionally, `generators = append(generators, NewGenerator(…))` -/
def step (acc : Acc) (v : AppValidator) : Acc :=
  let bft := if v.weight > 0 then acc.1 ++ [newValidator v] else acc.1
  (bft, acc.2 ++ [newGenerator v])

/-- `GetBFTValidatorAndGenerators` -/
def convert (vs : List AppValidator) : Acc := vs.foldl step ([], [])

/-- the loop body with `if validator.BFTWeight == 0 { continue }` in front of BOTH appends -/
def stepSkip (acc : Acc) (v : AppValidator) : Acc :=
  if v.weight = 0 then acc else (acc.1 ++ [newValidator v], acc.2 ++ [newGenerator v])

def convertSkip (vs : List AppValidator) : Acc := vs.foldl stepSkip ([], [])

/-! ### consumers -/

/-- `Generators.AtTimestamp` after `GetSlotNumber`: `vs[currentSlot % len(vs)]`; `none` is the run-time
panic (integer division by zero) on an empty list -/
def atSlot (gens : List Generator) (slot : Nat) : Option Generator :=
  if gens.length = 0 then none else gens[slot % gens.length]?

/-- the owner of a slot according to the APPLICATION: every entry of its list, in its order, owns the
slots congruent to its position -/
def slotOwner (app : List AppValidator) (slot : Nat) : Option AppValidator :=
  if app.length = 0 then none else app[slot % app.length]?

/-- the generator the ENGINE expects in a slot: `SetGeneratorKeys` stored result #1, `verifyBlock` reads it back -/
def engineOwner (app : List AppValidator) (slot : Nat) : Option Generator := atSlot (convert app).2 slot

/-- the same through the conversion that skips weight 0 -/
def engineOwnerSkip (app : List AppValidator) (slot : Nat) : Option Generator := atSlot (convertSkip app).2 slot

/-- the `validators` argument of `API.SetBFTParameters` as `Model/BFT.lean` sees it (address, weight) -/
def bftInput (app : List AppValidator) : List BFT.Validator :=
  (convert app).1.map fun v => { address := v.address, weight := v.weight }

/-- the argument of `API.SetGeneratorKeys` as `Model/BFT.lean` sees it (addresses) -/
def generatorAddrs (app : List AppValidator) : List Bytes := (convert app).2.map (·.address)

/-- what `SetBFTParameters` hashes: `hashValidators[i] = validator` (BLS key, BFT weight) of result #0 -/
def hashInput (app : List AppValidator) : List Roots.Validator :=
  (convert app).1.map fun v => { key := v.blsKey, weight := v.weight }

/-- the `validatorsHash` the engine stores for the application's list
(`validator.ComputeValidatorsHash(hashValidators, certificateThreshold)`) -/
def engineValidatorsHash (t : Codec.Table) (nfc : Codec.NFC) (H : Roots.HashFn) (app : List AppValidator)
    (certThreshold : Nat) : Bytes :=
  Roots.validatorsHash t nfc H (hashInput app) certThreshold

/-- the height from which a list written now is valid (`SetGeneratorKeys` / `SetBFTParameters`:
`blockBFTInfos[0].height + 1`, or `maxHeightPrevoted + 1` while there is no block info) -/
def keyHeight (s : BFT.State) : Nat :=
  match s.infos with
  | [] => s.mhp + 1
  | n :: _ => n.height + 1

/-- the answer of the application as the acceptance model (`Verify.Change`) takes it -/
def changeOf (precommit cert : Nat) (app : List AppValidator) : Verify.Change :=
  { precommit := precommit, cert := cert, validators := bftInput app, generators := generatorAddrs app }

/-- `SetBFTParameters` + `SetGeneratorKeys` for a list of the application (genesis and block execution) -/
def applyApp (s : BFT.State) (precommit cert : Nat) (app : List AppValidator) : Option BFT.State :=
  Verify.applyChange s (some (changeOf precommit cert app))

/-! ### the way back -/

/-- `BFTValidators.Find` -/
def findBFT (vals : List BFTValidator) (a : Bytes) : Option BFTValidator := vals.find? (·.address = a)

/-- `GetLabiValidators(validators, generators)`: one entry per GENERATOR, weight and BLS key from the BFT
validator of that address, `0` / empty otherwise -/
def toLabi (vals : List BFTValidator) (gens : List Generator) : List AppValidator :=
  gens.map fun g =>
    match findBFT vals g.address with
    | some v => { address := g.address, weight := v.weight, generatorKey := g.generatorKey, blsKey := v.blsKey }
    | none => { address := g.address, weight := 0, generatorKey := g.generatorKey, blsKey := [] }

/-- what the application gets back for its own list (`labi.Consensus.CurrentValidators`) -/
def roundTrip (app : List AppValidator) : List AppValidator := toLabi (convert app).1 (convert app).2

/-- what it should get back: its list, the BLS key of a standby entry dropped -/
def normalise (app : List AppValidator) : List AppValidator :=
  app.map fun v => if v.weight > 0 then v else { v with blsKey := [] }

end LiskVerif.Convert
