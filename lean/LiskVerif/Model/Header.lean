/-
Records used by the regenerated decision functions (`LiskVerif/Gen/Fns.lean`) and the BFT model.
Go `uint32` fields are `Nat`; the bound `< 2^32` is an explicit hypothesis where arithmetic matters.
-/
import LiskVerif.Model.Util

namespace LiskVerif

/-- the part of a block header the consensus rules look at -/
structure Hdr where
  version : Nat := 2
  height : Nat
  generatorAddress : Bytes
  maxHeightGenerated : Nat
  maxHeightPrevoted : Nat
  id : Bytes := []
  previousBlockID : Bytes := []
  timestamp : Nat := 0
deriving Repr, DecidableEq

/-- `validator.BlockSlot` as far as fork choice uses it -/
structure Slot where
  getSlotNumber : Nat → Int

/-- `forkchoice.forkChoice`; the two wall-clock dependent helpers are opaque inputs -/
structure FC where
  lastHeader : Hdr
  currentHeader : Hdr
  slot : Slot
  receivedBlockWithinForgingSlot : Bool
  receivedLastBlockWithinForgingSlot : Bool

end LiskVerif
