/-
Wait-for semantics of goroutines that communicate through a bounded queue and through synchronous event
delivery (property C20: "no lock re-entrancy or ordering deadlocks" — here the waiting is on channels, not
on mutexes, which `Model/Locks.lean` treats as communications with an environment that always answers).

The system (pkg/consensus `Executer`, pkg/event `EventEmitter`, pkg/generator `Generator`, the p2p handler):

  * ONE consumer — the loop of `Executer.Start` on the consensus goroutine: takes a job from the process
    queue (`case ctx := <-c.processCh`), processes it, and raises any number of events; raising an event is
    `EventEmitter.Publish`: take the emitter lock, send the message on the UNBUFFERED channel of every
    subscriber of the topic, one after the other, release the lock. A send completes only when the
    subscriber is receiving.
  * Subscribers — goroutines with an event loop (`Generator.Start`: `select` over its subscription channels
    and a ticker). A subscriber is either at its `select` (ready to receive) or busy handing a job of its own
    to the consumer (`forge` → `AddInternal`): it ENQUEUES. It has a finite budget of such submissions.
  * Pure producers — goroutines that are not subscribers (the p2p `postBlock` handler `onBlockReceived`, the
    `chain_postBlock` RPC endpoint): for each job they first raise an event themselves (same emitter, same
    lock: `EventNetworkBlockNew`) and then enqueue.
  * The process queue with capacity `cap`.
An enqueue is NON-BLOCKING (`select { case q <- x: default: }` — the job is dropped when the queue is full)
or BLOCKING (`q <- x`, or a `select` without `default`: waits for a free place). `Cfg` says which, separately
for subscribers and pure producers.

`step` gives the labelled transition relation; a label that is not enabled yields `none`. Deliveries to a
subscriber index that does not exist are skipped (so no well-formedness invariant is needed). Theorems:
`Props/C20_WaitFor.lean`.
-/

namespace LiskVerif.WaitFor

structure Cfg where
  cap : Nat            -- capacity of the process queue
  subBlocking : Bool   -- an enqueue made by an event subscriber waits for a free place
  prodBlocking : Bool  -- an enqueue made by a pure producer waits for a free place
  deriving DecidableEq, Repr

/-- an event subscriber: at its `select` (`submitting = false`) or inside the enqueue of a job of its own -/
structure Sub where
  submitting : Bool
  budget : Nat         -- submissions it may still start
  deriving DecidableEq, Repr

/-- the consumer loop -/
inductive Cons where
  | idle                                        -- at `<-processCh`
  | working (evs : Nat)                         -- processing a job; `evs` events still to raise
  | publishing (targets : List Nat) (evs : Nat) -- holds the emitter lock, delivering to `targets` in order
  deriving DecidableEq, Repr

/-- a pure producer -/
inductive Phase where
  | ready                              -- between jobs
  | publishing (targets : List Nat)    -- holds the emitter lock
  | enqueueing                         -- at the send to the process queue
  deriving DecidableEq, Repr

structure Prod where
  phase : Phase
  jobs : Nat            -- jobs it will still hand in
  deriving DecidableEq, Repr

structure State where
  queue : Nat           -- number of jobs waiting in the process queue
  cons : Cons
  subs : List Sub
  prods : List Prod
  deriving DecidableEq, Repr

inductive Label where
  | take (evs : Nat)                        -- consumer: take the next job (it will raise `evs` events)
  | consAcquire (targets : List Nat)        -- consumer: Publish — take the emitter lock
  | consDeliver (submit : Bool)             -- consumer: send to the next target (which may then decide to submit)
  | consRelease                             -- consumer: Publish returns
  | consDone                                -- consumer: job finished, back to the queue
  | subTick (j : Nat)                       -- subscriber j: its ticker fires, it starts a submission
  | subEnqueue (j : Nat)                    -- subscriber j: the enqueue completes (or drops)
  | prodStart (p : Nat) (targets : List Nat) -- producer p: next job, Publish — take the emitter lock
  | prodDeliver (p : Nat) (submit : Bool)
  | prodRelease (p : Nat)
  | prodEnqueue (p : Nat)
  deriving DecidableEq, Repr

def Cons.isPublishing : Cons → Bool
  | .publishing _ _ => true
  | _ => false

def Phase.isPublishing : Phase → Bool
  | .publishing _ => true
  | _ => false

/-- the emitter lock is held (by the consumer or by a producer inside Publish) -/
def lockHeld (s : State) : Bool :=
  s.cons.isPublishing || s.prods.any (fun p => p.phase.isPublishing)

/-- synchronous delivery to subscriber `i`: possible only while it is at its `select`; afterwards it may start
a submission of its own (`submit`, if it has budget). A subscriber that does not exist is skipped. -/
def deliver (subs : List Sub) (i : Nat) (submit : Bool) : Option (List Sub) :=
  match subs[i]? with
  | none => some subs
  | some sb =>
    if sb.submitting then none
    else if submit && sb.budget != 0 then some (subs.set i ⟨true, sb.budget - 1⟩)
    else some subs

/-- an enqueue: blocking — possible only with a free place; non-blocking — always possible, the job is
dropped when the queue is full -/
def enqueue (blocking : Bool) (cap queue : Nat) : Option Nat :=
  if queue < cap then some (queue + 1) else if blocking then none else some queue

def step (c : Cfg) (s : State) : Label → Option State
  | .take evs =>
    match s.cons with
    | .idle => if s.queue = 0 then none else some { s with queue := s.queue - 1, cons := .working evs }
    | _ => none
  | .consAcquire targets =>
    match s.cons with
    | .working (evs + 1) => if lockHeld s then none else some { s with cons := .publishing targets evs }
    | _ => none
  | .consDeliver submit =>
    match s.cons with
    | .publishing (i :: rest) evs =>
      (deliver s.subs i submit).map fun subs => { s with cons := .publishing rest evs, subs := subs }
    | _ => none
  | .consRelease =>
    match s.cons with
    | .publishing [] evs => some { s with cons := .working evs }
    | _ => none
  | .consDone =>
    match s.cons with
    | .working 0 => some { s with cons := .idle }
    | _ => none
  | .subTick j =>
    match s.subs[j]? with
    | some sb =>
      if sb.submitting || sb.budget = 0 then none
      else some { s with subs := s.subs.set j ⟨true, sb.budget - 1⟩ }
    | none => none
  | .subEnqueue j =>
    match s.subs[j]? with
    | some sb =>
      if sb.submitting then
        (enqueue c.subBlocking c.cap s.queue).map fun q => { s with queue := q, subs := s.subs.set j ⟨false, sb.budget⟩ }
      else none
    | none => none
  | .prodStart p targets =>
    match s.prods[p]? with
    | some pr =>
      match pr.phase with
      | .ready =>
        if pr.jobs = 0 || lockHeld s then none
        else some { s with prods := s.prods.set p ⟨.publishing targets, pr.jobs - 1⟩ }
      | _ => none
    | none => none
  | .prodDeliver p submit =>
    match s.prods[p]? with
    | some pr =>
      match pr.phase with
      | .publishing (i :: rest) =>
        (deliver s.subs i submit).map fun subs =>
          { s with prods := s.prods.set p ⟨.publishing rest, pr.jobs⟩, subs := subs }
      | _ => none
    | none => none
  | .prodRelease p =>
    match s.prods[p]? with
    | some pr =>
      match pr.phase with
      | .publishing [] => some { s with prods := s.prods.set p ⟨.enqueueing, pr.jobs⟩ }
      | _ => none
    | none => none
  | .prodEnqueue p =>
    match s.prods[p]? with
    | some pr =>
      match pr.phase with
      | .enqueueing =>
        (enqueue c.prodBlocking c.cap s.queue).map fun q =>
          { s with queue := q, prods := s.prods.set p ⟨.ready, pr.jobs⟩ }
      | _ => none
    | none => none

/-- execute a schedule; `none` if a scheduled step is not enabled -/
def run (c : Cfg) (s : State) : List Label → Option State
  | [] => some s
  | l :: ls => match step c s l with
    | none => none
    | some s' => run c s' ls

def Reachable (c : Cfg) (s0 s : State) : Prop := ∃ ls, run c s0 ls = some s

/-- some step is enabled -/
def CanStep (c : Cfg) (s : State) : Prop := ∃ l, (step c s l).isSome = true

/-- nothing left to do: the consumer waits at an empty queue, no producer has a job left, every subscriber
is at its `select` and will not submit again -/
def terminal (s : State) : Bool :=
  s.queue == 0 && s.cons == .idle &&
  s.prods.all (fun p => p.phase == .ready && p.jobs == 0) &&
  s.subs.all (fun sb => !sb.submitting && sb.budget == 0)

/-- no step is enabled although something is left to do -/
def Deadlocked (c : Cfg) (s : State) : Prop := ¬ CanStep c s ∧ terminal s = false

/-- `q0` jobs already wait in the queue (blocks received from the network), the consumer is at the queue,
`nsub` subscribers each with a budget of `budget` submissions, producers with the given numbers of jobs -/
def init (q0 nsub budget : Nat) (jobs : List Nat) : State :=
  ⟨q0, .idle, List.replicate nsub ⟨false, budget⟩, jobs.map fun j => ⟨.ready, j⟩⟩

end LiskVerif.WaitFor
