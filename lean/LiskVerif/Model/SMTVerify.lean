/-
Transcription of the proof side of pkg/trie/smt:

* `verify` / `calculateRoot` : verify.go `Verify`, `CalculateRoot` (with `QueryProofs.sort`, `isSiblingOf`,
  `stripPrefixFalse`, `collection.BinarySearch`, `insertAndMergeQueries`) — the code AFTER the fixes
  fixes/C10-verify-*.patch (key length of proven nodes, height bound, position filter keyed on the exact
  path and requiring equal node hashes, merge check when a climbing query reaches another query, all
  sibling hashes used);
* `prove` : smt.go `Prove`.  The per-key walk of `generateQueryProof`/`calculateQueryHashes` over the stored
  8-bit subtrees is replaced by the same walk over the canonical tree of the map (`buildH`, hash = the
  specification root); `calculateSiblingHashes` and `insertAndFilterQueries` are transcribed.

Outcomes: `ok true/false` for `(bool, nil)`, `err` for any non-nil error. Core Lean only.
-/
import LiskVerif.Model.SMTSpec

namespace LiskVerif.SMTVerify
open LiskVerif LiskVerif.SMT

/-! ### bytes.ToBools / bytes.FromBools / stripPrefixFalse -/

def toBools (b : Bytes) : Bits := keyBits b

def bit (b : Bool) (n : Nat) : Nat := if b then n else 0

def packBits : Bits → Bytes
  | b7 :: b6 :: b5 :: b4 :: b3 :: b2 :: b1 :: b0 :: r =>
    UInt8.ofNat (bit b7 128 + bit b6 64 + bit b5 32 + bit b4 16 + bit b3 8 + bit b2 4 + bit b1 2 + bit b0 1)
      :: packBits r
  | _ => []

/-- `bytes.FromBools`: left-pad with `false` to a multiple of 8, then pack MSB first -/
def fromBools (l : Bits) : Bytes :=
  packBits (List.replicate ((8 - l.length % 8) % 8) false ++ l)

def stripPrefixFalse : Bits → Bits
  | false :: r => stripPrefixFalse r
  | l => l

/-! ### proofs -/

structure Query where
  key : Bytes
  value : Bytes
  bitmap : Bytes
deriving DecidableEq, Repr

structure Proof where
  siblings : List Bytes
  queries : List Query
deriving Repr

inductive Verdict where
  | ok (b : Bool)
  | err
deriving DecidableEq, Repr

/-- `QueryProof` with its private fields as `CalculateRoot` uses them (`bm` = binaryBitmap, deepest level
first) -/
structure QP where
  key : Bytes
  value : Bytes
  bm : Bits
  hash : Bytes
deriving Repr

def QP.height (q : QP) : Nat := q.bm.length
def QP.binaryKey (q : QP) : Bits := toBools q.key
def QP.binaryPath (q : QP) : Bits := q.binaryKey.take q.height

/-- `newQueryProof` -/
def mkQP (H : HashFn) (key value : Bytes) (bm : Bits) : QP :=
  ⟨key, value, bm, if value.isEmpty then emptyHash H else leafHash H key value⟩

/-- the `less` of `QueryProofs.sort` -/
def qpLess (a b : QP) : Bool :=
  if a.height != b.height then decide (a.height > b.height) else blt a.key b.key

def sortQPs (l : List QP) : List QP := isort (fun a b => !(qpLess b a)) l

/-- `collection.BinarySearch` (low = lo - 1) -/
def bsLoop {α : Type} (less : α → Bool) (l : List α) (dflt : α) : Nat → Nat → Nat → Nat
  | 0, _, hi => hi
  | f + 1, lo, hi =>
    if lo < hi then
      let mid := lo + (hi - lo + 1) / 2 - 1
      if less (l.getD mid dflt) then bsLoop less l dflt f lo mid else bsLoop less l dflt f (mid + 1) hi
    else hi

def binarySearch {α : Type} (less : α → Bool) (l : List α) (dflt : α) : Nat :=
  bsLoop less l dflt (l.length + 1) 0 l.length

def insertAt {α : Type} (l : List α) (i : Nat) (a : α) : List α := l.take i ++ a :: l.drop i

def searchPos (query : QP) (queries : List QP) : Nat :=
  binarySearch (fun val => (query.height == val.height && blt query.key val.key) ||
    decide (query.height > val.height)) queries query

/-- `insertAndMergeQueries` (fixed code): a climbing query that reaches the position of another query must
carry the same hash and remaining bitmap; `none` = error. -/
def insertAndMerge (query : QP) (queries : List QP) : Option (List QP) :=
  let index := searchPos query queries
  let check (i : Nat) : Option Bool :=  -- some true = same node, some false = clash, none = other position
    match queries[i]? with
    | none => none
    | some original =>
      if query.binaryPath = original.binaryPath then some (query.hash = original.hash && query.bm = original.bm) else none
  let first := if index = 0 then none else check (index - 1)
  match first with
  | some true => some queries
  | some false => none
  | none =>
    match check index with
    | some true => some queries
    | some false => none
    | none => some (insertAt queries index query)

/-- `QueryProof.isSiblingOf` (called with height ≥ 1) -/
def isSiblingOf (p q : QP) : Bool :=
  if p.bm.length != q.bm.length then false
  else if p.binaryKey.take (p.height - 1) != q.binaryKey.take (q.height - 1) then false
  else
    let a := p.binaryKey.getD (p.height - 1) false
    let b := q.binaryKey.getD (p.height - 1) false
    (!a && b) || (a && !b)

/-- the loop of `CalculateRoot`; `sibs` = the sibling hashes not yet consumed. `none` = error. -/
def calcLoop (H : HashFn) : Nat → List Bytes → List QP → Option Bytes
  | 0, _, _ => none
  | _ + 1, _, [] => none  -- "fail to compute root"
  | f + 1, sibs, query :: queries =>
    match query.bm with
    | [] => if sibs.isEmpty then some query.hash else none  -- "not all sibling hashes were used"
    | b0 :: bmRest =>
      -- pick the sibling hash
      let pick : Option (Bytes × List Bytes × List QP) :=
        match queries with
        | sibling :: rest =>
          if isSiblingOf query sibling then
            let isSiblingEmpty := sibling.hash = emptyHash H
            if (isSiblingEmpty && b0) || (!isSiblingEmpty && !b0) then none
            else
              let isQueryEmpty := query.hash = emptyHash H
              let s0 := sibling.bm.headD false
              if (isQueryEmpty && s0) || (!isQueryEmpty && !s0) then none
              else if fromBools bmRest != fromBools sibling.bm.tail then none
              else some (sibling.hash, sibs, rest)
          else if !b0 then some (emptyHash H, sibs, queries)
          else match sibs with
            | [] => none
            | s :: ss => some (s, ss, queries)
        | [] =>
          if !b0 then some (emptyHash H, sibs, queries)
          else match sibs with
            | [] => none
            | s :: ss => some (s, ss, queries)
      match pick with
      | none => none
      | some (siblingHash, sibs', queries') =>
        if siblingHash.isEmpty then none
        else
          let dir := query.binaryKey.getD (query.height - 1) false
          let h' := if !dir then branchHash H query.hash siblingHash else branchHash H siblingHash query.hash
          let q' : QP := { query with hash := h', bm := bmRest }
          match insertAndMerge q' queries' with
          | none => none
          | some qs => calcLoop H f sibs' qs

def calcFuel (qs : List QP) : Nat := (qs.map fun q => q.height + 1).sum + 1

/-- `CalculateRoot` -/
def calculateRoot (H : HashFn) (siblings : List Bytes) (queries : List QP) : Option Bytes :=
  let qs := sortQPs queries
  calcLoop H (calcFuel qs) siblings qs

/-- one iteration of the first loop of `Verify` for `queryKeys[i]`, `proof.Queries[i]`; `seen` = the
`queries` map. `none` = passed. -/
def checkOne (keyLen : Nat) (key : Bytes) (query : Query) (seen : List Query) : Option Verdict :=
  if key.length != keyLen then some (.ok false)
  else if query.key.length != keyLen then some (.ok false)
  else if (seen.find? (fun q => q.key = query.key)).any
      (fun d => d.bitmap != query.bitmap || d.value != query.value) then some .err
  else if query.bitmap.headD 1 == 0 then some (.ok false)
  else if (stripPrefixFalse (toBools query.bitmap)).length > 8 * keyLen then some (.ok false)
  else if key = query.key then none
  else if (stripPrefixFalse (toBools query.bitmap)).length > commonPrefixLen (toBools key) (toBools query.key) then
    some (.ok false)
  else none

/-- first loop of `Verify`; `none` = all queries passed. -/
def checkQueries (keyLen : Nat) : List Bytes → List Query → List Query → Option Verdict
  | key :: keys, query :: qs, seen =>
    match checkOne keyLen key query seen with
    | some v => some v
    | none => checkQueries keyLen keys qs (query :: seen)
  | _, _, _ => none

/-- second loop of `Verify`: one query per position (height and path); same position ⇒ same node hash and bitmap.
`none` = a clash (`false, nil`). -/
def filterQueries (H : HashFn) : List Query → List QP → Option (List QP)
  | [], acc => some acc.reverse
  | query :: qs, acc =>
    let qp := mkQP H query.key query.value (stripPrefixFalse (toBools query.bitmap))
    match acc.find? (fun e => e.binaryPath = qp.binaryPath) with
    | none => filterQueries H qs (qp :: acc)
    | some existing =>
      if existing.hash = qp.hash && existing.bm = qp.bm then filterQueries H qs acc else none

/-- `Verify` -/
def verify (H : HashFn) (queryKeys : List Bytes) (proof : Proof) (rt : Bytes) (keyLen : Nat) : Verdict :=
  if queryKeys.length != proof.queries.length then .ok false
  else
    match checkQueries keyLen queryKeys proof.queries [] with
    | some v => v
    | none =>
      match filterQueries H proof.queries [] with
      | none => .ok false
      | some filtered =>
        match calculateRoot H proof.siblings filtered with
        | none => .err
        | some r => .ok (r = rt)

/-- what an accepted proof says about `queryKeys[i]` -/
def claim (key : Bytes) (q : Query) : Option Bytes :=
  if q.key = key ∧ q.value ≠ [] then some q.value else none

/-- a single-query proof of `Verify` in the top-down format of `SMT.verify1` -/
def toProof1 (q : Query) (siblings : List Bytes) : Proof1 :=
  ⟨q.key, q.value, (stripPrefixFalse (toBools q.bitmap)).reverse, siblings.reverse⟩

/-- `SMT.verify1` on a single-query proof of the wire format (a bitmap with a leading zero byte is not a
canonical encoding and rejected, as in `Verify`) -/
def verifySingle (H : HashFn) (keyLen : Nat) (qk : Bytes) (q : Query) (siblings : List Bytes) (rt : Bytes) : Bool :=
  q.bitmap.headD 1 != 0 && verify1 H keyLen qk (toProof1 q siblings) rt

/-! ### Prove -/

/-- canonical tree of the map with cached node hashes -/
inductive HT where
  | empty
  | leaf (key value hash : Bytes)
  | branch (hash : Bytes) (l r : HT)
deriving Repr

def HT.hash (H : HashFn) : HT → Bytes
  | .empty => emptyHash H
  | .leaf _ _ h => h
  | .branch h _ _ => h

def HT.isEmpty : HT → Bool
  | .empty => true
  | _ => false

def buildH (H : HashFn) : Nat → List Entry → HT
  | _, [] => .empty
  | _, [e] => .leaf e.key e.value (leafHash H e.key e.value)
  | 0, _ :: _ :: _ => .empty
  | d + 1, e₁ :: e₂ :: es =>
    let l := buildH H d (goL (e₁ :: e₂ :: es))
    let r := buildH H d (goR (e₁ :: e₂ :: es))
    .branch (branchHash H (l.hash H) (r.hash H)) l r

/-- `QueryProof` as `generateQueryProof` returns it: `bm` deepest level first, `sibs` (non-empty sibling
hashes) and `anc` (hashes of the nodes on the path, the leaf included) top first. -/
structure PQ where
  key : Bytes
  value : Bytes
  bm : Bits
  sibs : List Bytes
  anc : List Bytes
deriving Repr

def PQ.height (q : PQ) : Nat := q.bm.length
def PQ.binaryPath (q : PQ) : Bits := (toBools q.key).take q.height

def queryInfo (H : HashFn) (qk : Bytes) : HT → Bits → PQ
  | .empty, _ => ⟨qk, [], [], [], []⟩
  | .leaf k v h, _ => ⟨k, v, [], [], [h]⟩
  | .branch _ _ _, [] => ⟨qk, [], [], [], []⟩
  | .branch h l r, b :: rest =>
    let sub := if b then r else l
    let sib := if b then l else r
    let p := queryInfo H qk sub rest
    { p with bm := p.bm ++ [!sib.isEmpty],
             sibs := (if sib.isEmpty then [] else [sib.hash H]) ++ p.sibs,
             anc := h :: p.anc }

def pqLess (a b : PQ) : Bool :=
  if a.height != b.height then decide (a.height > b.height) else blt a.key b.key

/-- `insertAndFilterQueries` -/
def insertAndFilter (query : PQ) (queries : List PQ) : List PQ :=
  if queries.isEmpty then [query]
  else
    let index := binarySearch (fun val => (query.height == val.height && blt query.key val.key) ||
      decide (query.height > val.height)) queries query
    match queries[index]? with
    | none => queries ++ [query]
    | some original =>
      if query.binaryPath != original.binaryPath then insertAt queries index query else queries

/-- `calculateSiblingHashes` -/
def sibLoop (ancestors : List Bytes) : Nat → List PQ → List Bytes → List Bytes
  | 0, _, out => out
  | _ + 1, [], out => out
  | f + 1, query :: rest, out =>
    match query.bm with
    | [] => sibLoop ancestors f rest out
    | b0 :: bmRest =>
      let (sibs', out') :=
        if b0 then
          let nodeHash := query.sibs.getLastD []
          let out' := if !out.contains nodeHash && !ancestors.contains nodeHash then out ++ [nodeHash] else out
          (query.sibs.dropLast, out')
        else (query.sibs, out)
      let q' : PQ := { query with bm := bmRest, sibs := sibs' }
      sibLoop ancestors f (insertAndFilter q' rest) out'

/-- `trie.Prove` over the trie holding exactly `m`; `none` = error (a query key of the wrong length) -/
def prove (H : HashFn) (keyLen : Nat) (t : HT) (queryKeys : List Bytes) : Option Proof :=
  if queryKeys.any (fun k => k.length != keyLen) then none
  else
    let pqs := queryKeys.map fun k => queryInfo H k t (toBools k)
    let ancestors := pqs.flatMap (·.anc)
    let sorted := isort (fun a b => !(pqLess b a)) pqs
    let fuel := (sorted.map fun q => q.height + 1).sum + 1
    some { siblings := sibLoop ancestors fuel sorted [],
           queries := pqs.map fun q => ⟨q.key, q.value, fromBools q.bm⟩ }

end LiskVerif.SMTVerify
