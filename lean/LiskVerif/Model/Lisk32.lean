/-
Model of the Lisk32 address functions of pkg/codec/bytes.go (LIP-0018): `convertUIntArray`,
`polymod`, `createChecksum`, `BytesToLisk32`, `Lisk32ToBytes`, `ValidateLisk32`.
Text is a byte string (the accepted alphabet is ASCII; any other byte is "invalid character").
The Go accumulator in `convertUIntArray` is a 64-bit int that silently loses high bits; only bits
below `bits + toBits ≤ 12` are ever read, so an unbounded `Nat` accumulator returns the same values.
-/
import LiskVerif.Model.Util

namespace LiskVerif.Lisk32

def charset : List UInt8 := "zxvcpmbn3465o978uyrtkqew2adsjhfg".toUTF8.toList

def generator : List Nat := [0x3b6a57b2, 0x26508e6d, 0x1ea119fa, 0x3d4233dd, 0x2a1462b3]

/-- inner loop of `convertUIntArray`: emit while `bits ≥ toBits` -/
def emit (toBits : Nat) : Nat → Nat → Nat → List Nat → Nat × List Nat
  | 0, _, bits, out => (bits, out)
  | fuel + 1, acc, bits, out =>
    if bits ≥ toBits ∧ toBits > 0 then
      emit toBits fuel acc (bits - toBits) (out ++ [(acc >>> (bits - toBits)) &&& (2 ^ toBits - 1)])
    else (bits, out)

/-- `convertUIntArray`; `none` is the "invalid entry ⇒ empty result" exit -/
def convertLoop (fromBits toBits : Nat) : List Nat → Nat → Nat → List Nat → Option (List Nat)
  | [], _, _, out => some out
  | v :: rest, acc, bits, out =>
    if v >>> fromBits ≠ 0 then none
    else
      let acc' := (acc <<< fromBits) ||| v
      let (bits', out') := emit toBits (bits + fromBits + 1) acc' (bits + fromBits) out
      convertLoop fromBits toBits rest acc' bits' out'

def convertUIntArray (l : List Nat) (fromBits toBits : Nat) : List Nat :=
  (convertLoop fromBits toBits l 0 0 []).getD []

def polymodStep (chk value : Nat) : Nat :=
  let top := chk >>> 25
  let chk1 := ((chk &&& 0x1ffffff) <<< 5) ^^^ value
  (List.range 5).foldl (fun c i => if (top >>> i) &&& 1 ≠ 0 then c ^^^ generator.getD i 0 else c) chk1

def polymod (l : List Nat) : Nat := l.foldl polymodStep 1

def createChecksum (u5 : List Nat) : List Nat :=
  let m := polymod (u5 ++ [0, 0, 0, 0, 0, 0]) ^^^ 1
  (List.range 6).map fun p => (m >>> (5 * (5 - p))) &&& 31

def lskPrefix : List UInt8 := "lsk".toUTF8.toList

/-- `BytesToLisk32`: `none` = error (wrong length) -/
def bytesToLisk32 (b : Bytes) : Option Bytes :=
  if b.length = 0 then some []
  else if b.length ≠ 20 then none
  else
    let u5 := convertUIntArray (b.map (·.toNat)) 8 5
    let all := u5 ++ createChecksum u5
    some (lskPrefix ++ all.map fun v => charset.getD v 0)

def charIndex (c : UInt8) : Option Nat :=
  let i := charset.findIdx (· == c)
  if i < charset.length then some i else none

/-- `ValidateLisk32` -/
def validate (s : Bytes) : Bool :=
  if s.length ≠ 41 then false
  else
    match (s.drop 3).mapM charIndex with
    | none => false
    | some u5 => polymod u5 == 1

/-- `Lisk32ToBytes`: `none` = error -/
def lisk32ToBytes (s : Bytes) : Option Bytes :=
  if s.length = 0 then some []
  else if !validate s then none
  else
    match ((s.drop 3).take 32).mapM charIndex with
    | none => none
    | some u5 => some ((convertUIntArray u5 5 8).map UInt8.ofNat)

end LiskVerif.Lisk32
