/-
Byte-level transcription of the NON-CRYPTOGRAPHIC logic of pkg/crypto/bls.go:

  Bits.read / Bits.write                  bitmap access (byte i/8, bit i%8 counted from the least significant bit)
  validAggregationBitsLength              len(aggregationBits) == (len(keysList)+7)/8
  BLSVerifyAggSig                         length guard, selection loop, FastAggregateVerify
  BLSVerifyWeightedAggSig                 both guards, selection loop with the uint64 weight sum, threshold, FastAggregateVerify
  BLSCreateAggSig                         bitmap of the found keys, aggregate of ALL supplied signatures

Which keys are selected, which weights are summed, the threshold comparison and the length checks are
inside this model; blst's `FastAggregateVerify` and the signature aggregation are the only trusted
calls and enter as PARAMETERS (`fav`, `agg`): the definitions are generic in the type of keys,
signatures and messages.  The driver (Driver/BLSAgg.lean) instantiates them with the ideal
aggregate-signature functionality of Model/Cert.lean.

Go semantics that matter:
* `weightSum` is a `uint64`: the sum WRAPS (`(s + w) % 2^64`).  Inside the engine the weights of one
  parameter set add up to less than 2^64 (`SetBFTParameters` rejects an overflowing total), so a
  sub-sum never wraps there; as a function of its arguments `BLSVerifyWeightedAggSig` rejects a
  fully signed commit whose weights wrap below the threshold (theorem
  `C06_bls_weighted_wrap_rejects_full_commit`).
* an index outside the bitmap / weight slice panics: `none`.  With the guards in place neither loop
  can panic (theorems `C06_bls_weighted_never_panics`, `C06_bls_agg_never_panics`).
* bits at positions `≥ len(keysList)` (padding of the last byte) are never read.
-/
import LiskVerif.Model.Util

namespace LiskVerif.BLSAgg

/-- 2^64 -/
def u64 : Nat := 18446744073709551616

/-- `Bits.read(i)` for `i ≥ 0`: `(b[i/8] >> (i%8)) % 2 == 1`; `none` = index out of range (panic) -/
def bitsRead (b : Bytes) (i : Nat) : Option Bool :=
  match b[i / 8]? with
  | none => none
  | some x => some ((x.toNat >>> (i % 8)) % 2 == 1)

/-- `Bits.write(i, val)` for `i ≥ 0`: `b[i/8] |= 1 << (i%8)` resp. `b[i/8] &= ^(1 << (i%8))` -/
def bitsWrite (b : Bytes) (i : Nat) (val : Bool) : Option Bytes :=
  match b[i / 8]? with
  | none => none
  | some x =>
    some (b.set (i / 8)
      (if val then UInt8.ofNat (x.toNat ||| 2 ^ (i % 8)) else UInt8.ofNat (x.toNat &&& (255 - 2 ^ (i % 8)))))

/-- `validAggregationBitsLength(keysList, aggregationBits)` -/
def validBitsLength (nKeys nBytes : Nat) : Bool := nBytes == (nKeys + 7) / 8

/-- the loop of `BLSVerifyAggSig`: `for i := 0; i < len(keysList); i++ { if Bits(bits).read(i) { keys = append(keys, keysList[i]) } }`;
arguments: `i`, `keysList[i:]`, the keys selected so far -/
def selectLoop {κ : Type} (bits : Bytes) : Nat → List κ → List κ → Option (List κ)
  | _, [], acc => some acc
  | i, k :: ks, acc =>
    match bitsRead bits i with
    | none => none
    | some false => selectLoop bits (i + 1) ks acc
    | some true => selectLoop bits (i + 1) ks (acc ++ [k])

/-- the loop of `BLSVerifyWeightedAggSig`:
`for i := 0; i < len(keysList); i++ { if Bits(bits).read(i) { keys = append(keys, keysList[i]); weightSum += weights[i] } }`;
arguments: `i`, `keysList[i:]`, the keys selected so far, `weightSum` (uint64) -/
def weightedLoop {κ : Type} (bits : Bytes) (weights : List Nat) : Nat → List κ → List κ → Nat → Option (List κ × Nat)
  | _, [], acc, s => some (acc, s)
  | i, k :: ks, acc, s =>
    match bitsRead bits i with
    | none => none
    | some false => weightedLoop bits weights (i + 1) ks acc s
    | some true =>
      match weights[i]? with
      | none => none
      | some w => weightedLoop bits weights (i + 1) ks (acc ++ [k]) ((s + w) % u64)

/-- `BLSVerifyAggSig(keysList, aggregationBits, signature, message)`; `none` = panic -/
def verifyAggSig {κ σ μ : Type} (fav : List κ → μ → σ → Bool)
    (keys : List κ) (bits : Bytes) (sig : σ) (m : μ) : Option Bool :=
  if !validBitsLength keys.length bits.length then some false
  else
    match selectLoop bits 0 keys [] with
    | none => none
    | some sel => some (fav sel m sig)

/-- `BLSVerifyWeightedAggSig(keysList, aggregationBits, signature, weights, threshold, message)`; `none` = panic -/
def verifyWeightedAggSig {κ σ μ : Type} (fav : List κ → μ → σ → Bool)
    (keys : List κ) (bits : Bytes) (sig : σ) (weights : List Nat) (thr : Nat) (m : μ) : Option Bool :=
  if !validBitsLength keys.length bits.length || weights.length != keys.length then some false
  else
    match weightedLoop bits weights 0 keys [] 0 with
    | none => none
    | some (sel, s) => if s < thr then some false else some (fav sel m sig)

/-- THE SEEDED SHAPE (kept for the counterexample theorem): keys selected by the bitmap, but the weight
sum taken over the first `len(keys)` positions: `for i := range keys { weightSum += weights[i] }` -/
def verifyWeightedPrefixSum {κ σ μ : Type} (fav : List κ → μ → σ → Bool)
    (keys : List κ) (bits : Bytes) (sig : σ) (weights : List Nat) (thr : Nat) (m : μ) : Option Bool :=
  if !validBitsLength keys.length bits.length || weights.length != keys.length then some false
  else
    match selectLoop bits 0 keys [] with
    | none => none
    | some sel =>
      let s := (weights.take sel.length).foldl (fun a w => (a + w) % u64) 0
      if s < thr then some false else some (fav sel m sig)

/-- `bytes.FindIndex(keysList, key)`: first position, `none` = -1 -/
def findIndex {κ : Type} [DecidableEq κ] : List κ → κ → Option Nat
  | [], _ => none
  | k :: r, x => if k = x then some 0 else (findIndex r x).map (· + 1)

/-- the bitmap loop of `BLSCreateAggSig`: `aggregationBits.write(keyIndex, true)` for every pair whose
public key is in the key list; `none` = panic (cannot happen: `keyIndex < len(keysList) ≤ 8·len(bits)`) -/
def createBitsLoop {κ : Type} [DecidableEq κ] (keys : List κ) : List κ → Bytes → Option Bytes
  | [], b => some b
  | pk :: r, b =>
    match findIndex keys pk with
    | none => createBitsLoop keys r b
    | some i =>
      match bitsWrite b i true with
      | none => none
      | some b' => createBitsLoop keys r b'

/-- `BLSCreateAggSig(keysList, pairs)`: bitmap of `⌈n/8⌉` bytes with the bits of the found public keys,
and the aggregate (`agg`) of the signatures of ALL pairs (also of pairs whose key is not in the list) -/
def createAggSig {κ σ : Type} [DecidableEq κ] (agg : List σ → σ) (keys : List κ) (pairs : List (κ × σ)) : Option (Bytes × σ) :=
  match createBitsLoop keys (pairs.map (·.1)) (List.replicate ((keys.length + 7) / 8) 0) with
  | none => none
  | some b => some (b, agg (pairs.map (·.2)))

/-! ## Specification vocabulary (independent of the loops) -/

/-- bit `i` of the bitmap in the LIP-0061 convention; positions outside the bitmap count as unset -/
def bitSet (bits : Bytes) (i : Nat) : Bool := ((bits.getD (i / 8) 0).toNat / 2 ^ (i % 8)) % 2 == 1

/-- the elements of `l` (which sit at positions `i, i+1, …`) whose bit is set -/
def flaggedFrom {α : Type} (bits : Bytes) : Nat → List α → List α
  | _, [] => []
  | i, a :: r => if bitSet bits i then a :: flaggedFrom bits (i + 1) r else flaggedFrom bits (i + 1) r

/-- the elements of `l` at the positions flagged in the bitmap, in list order -/
def flagged {α : Type} (bits : Bytes) (l : List α) : List α := flaggedFrom bits 0 l

end LiskVerif.BLSAgg
