/-
Transcription of Go's `container/heap` (GOROOT/src/container/heap/heap.go: Init, Push, Pop, Remove, Fix, up,
down) over an array, for the heap types of /repo (pkg/txpool/heap.go `NonceMinHeap`, `FeeMinHeap`,
`FeeMaxHeap`; pkg/generator `FeePriorityTransactions`): their `Push` appends, their `Pop` removes the last
element, `Swap` exchanges two positions and `Less i j` is `less a[i] a[j]` for a comparison of two ELEMENTS.

The model keeps the exact array layout of the Go code after every operation (ties included), so that it can be
compared with the real package position by position (pseudo-property LIBHEAP).

Loops:
* `up`   — `for { i := (j-1)/2; if i == j || !Less(j,i) {break}; Swap(i,j); j = i }`.  Go's integer division
  truncates towards zero, so for j = 0 the parent is (0-1)/2 = 0 = j and the loop stops; for j > 0 the parent
  is strictly smaller.  Fuel `j` therefore always suffices (`upF` with fuel j, structural recursion).
* `down` — the child index at least doubles and stays below `n`; fuel `n` suffices.  The `j1 < 0` overflow
  guard of the Go code cannot fire for lengths below 2^62 and is not modelled.
Panics of the Go code (index out of range in `Swap` / the container's `Pop` on an empty heap, `Remove` / `Fix`
with an index outside the heap) are the result `none`.
-/

namespace LiskVerif.GoHeap

variable {α : Type}

/-- `h.Less(j, i)` for in-range indexes (out of range cannot happen inside `up` / `down`) -/
def lessAt (less : α → α → Bool) (a : Array α) (j i : Nat) : Bool :=
  match a[j]?, a[i]? with
  | some x, some y => less x y
  | _, _ => false

/-- the loop of `up` with fuel -/
def upF (less : α → α → Bool) : Nat → Array α → Nat → Array α
  | 0, a, _ => a
  | f + 1, a, j =>
    if j = 0 then a
    else
      let i := (j - 1) / 2
      if lessAt less a j i then upF less f (a.swapIfInBounds i j) i else a

/-- `up(h, j)` -/
def up (less : α → α → Bool) (a : Array α) (j : Nat) : Array α := upF less j a j

/-- the loop of `down` with fuel; returns the array and the final position `i` -/
def downF (less : α → α → Bool) : Nat → Array α → Nat → Nat → Array α × Nat
  | 0, a, i, _ => (a, i)
  | f + 1, a, i, n =>
    let j1 := 2 * i + 1
    if j1 ≥ n then (a, i)
    else
      let j := if j1 + 1 < n && lessAt less a (j1 + 1) j1 then j1 + 1 else j1
      if !lessAt less a j i then (a, i)
      else downF less f (a.swapIfInBounds i j) j n

/-- `down(h, i0, n)`: the array and `i > i0` -/
def down (less : α → α → Bool) (a : Array α) (i0 n : Nat) : Array α × Bool :=
  let r := downF less n a i0 n
  (r.1, decide (r.2 > i0))

/-- `heap.Init`: `for i := n/2 - 1; i >= 0; i-- { down(h, i, n) }` -/
def init (less : α → α → Bool) (a : Array α) : Array α :=
  (List.range (a.size / 2)).reverse.foldl (fun acc i => (down less acc i a.size).1) a

/-- `heap.Push` -/
def push (less : α → α → Bool) (a : Array α) (x : α) : Array α :=
  up less (a.push x) a.size

/-- `heap.Pop`; `none` = panic (empty heap) -/
def pop (less : α → α → Bool) (a : Array α) : Option (Array α × α) :=
  if a.size = 0 then none
  else
    let n := a.size - 1
    let a1 := a.swapIfInBounds 0 n
    let a2 := (down less a1 0 n).1
    match a2.back? with
    | some x => some (a2.pop, x)
    | none => none

/-- `heap.Fix`; `none` = panic (Go panics for an index outside the heap only when a comparison or swap touches
it: `down` with `i ≥ Len` compares nothing, then `up` calls `Less(i, parent)` which indexes out of range) -/
def fix (less : α → α → Bool) (a : Array α) (i : Nat) : Option (Array α) :=
  if i ≥ a.size then (if i = 0 then some a else none)   -- `Fix(h, 0)` on an empty heap compares nothing
  else
    let r := down less a i a.size
    if r.2 then some r.1 else some (up less r.1 i)

/-- `heap.Remove`; `none` = panic (index outside the heap) -/
def remove (less : α → α → Bool) (a : Array α) (i : Nat) : Option (Array α × α) :=
  if i ≥ a.size then none
  else
    let n := a.size - 1
    let a2 :=
      if n ≠ i then
        let a1 := a.swapIfInBounds i n
        let r := down less a1 i n
        if r.2 then r.1 else up less r.1 i
      else a
    match a2.back? with
    | some x => some (a2.pop, x)
    | none => none

/-- the heap invariant on the first `n` positions: no child is `less` than its parent -/
def isHeapUpTo (less : α → α → Bool) (a : Array α) (n : Nat) : Bool :=
  (List.range n).all fun j => j = 0 || !lessAt less a j ((j - 1) / 2)

def isHeap (less : α → α → Bool) (a : Array α) : Bool := isHeapUpTo less a a.size

/-- popping until empty (heap sort); fuel = size -/
def drainF (less : α → α → Bool) : Nat → Array α → List α
  | 0, _ => []
  | f + 1, a =>
    match pop less a with
    | none => []
    | some (a', x) => x :: drainF less f a'

def drain (less : α → α → Bool) (a : Array α) : List α := drainF less a.size a

end LiskVerif.GoHeap
