/-
Model of the shared helper library `pkg/collection` (all exported functions of
/repo/pkg/collection/**: the generic copy/equal/find/insert/prefix/reverse/search .go, bytes/*.go,
ints/*.go, strings/strings.go), transcribed from the Go source line by line.

Transcription conventions
* A Go slice is a `List`.  Go's `nil` slice and the empty slice are both `[]`: every function of the
  package only takes `len` / ranges over its slice arguments, so a nil argument behaves exactly as an
  empty one; and EVERY slice-returning function of the package returns a NON-nil slice (`make(...)`,
  `[]T{}` literals, `[]byte(key)`), also for nil / empty input.  The harness prints a nil result as
  `nil`, which the model never prints, so the non-nil claim is part of the correspondence.
  (`Find` returns the zero value of `T` when nothing matches — for `T = []byte` that IS nil: the zero
  value is the explicit argument `zero`.)
* A Go panic is an explicit outcome `Except.error <kind>` (index out of range, negative shift count,
  negative length for `make`, `panic(...)` of ints.Max/Min on zero arguments, bytes.Repeat).
* Integer widths.  `uint16/32/64` arguments and results are Lean `UInt16/32/64` (arithmetic wraps as in
  Go).  Go `int` values (indices, sizes, counts; 64 bit) are `Int`; the package does no `int`
  arithmetic that can wrap for slices that fit in memory (`len+1`, `8*len`, `(len+7)/8`,
  `low + (high-low)>>1` with `-1 <= low < high <= len`), except the explicit overflow check of
  `bytes.Repeat` which is transcribed.  Allocation of a huge slice is a fatal error of the Go
  runtime (not a panic) and is outside the model; the harness keeps sizes small.
* The generic `ints.Integer` functions do no arithmetic, only comparisons; every Go integer type
  embeds in `Int`, so they are modelled over `Int`.
* Sorting: Go's `sort.Sort` / `sort.Slice` (pdqsort, NOT stable) is modelled by the stable insertion
  sort `isort`.  Where stability could be observable:
  - `bytes.Sort`: elements that compare equal under `bytes.Compare` have identical contents, except
    that a nil element equals an empty non-nil one; so only the relative order of nil vs empty
    elements (and the identity / capacity of the backing arrays) could differ.  The model has no nil.
  - `ints.Max` / `ints.Min`: only element 0 of the sorted copy is returned, equal integers are
    indistinguishable: not observable.
* `bytes.Unique`, `ints.Unique`, `strings.Unique` collect the elements in a Go map and range over it:
  the ORDER of the result is unspecified (Go randomises map iteration).  The model returns the
  canonical representative: the distinct elements in ascending order (`uniqueCanon`); the relation
  every real result satisfies is `IsUniqueOf`.  The harness sorts the real result before diffing.
* `strings.GenerateRandom` draws from the global `math/rand` source: the model takes the stream of
  `rand.Intn(62)` results as an argument.
-/
import LiskVerif.Model.Util

namespace LiskVerif.Collection

/-- kinds of Go run-time panics raised inside the package -/
inductive Panic where
  | indexOutOfRange    -- `s[i]` with i outside [0, len)
  | negativeShift      -- `x << n` with a negative signed n
  | negativeLen        -- `make([]T, n)` with n < 0
  | emptyArgs          -- ints.Max / ints.Min: `panic("Cannot determine max with empty slice")`
  | repeatNegative     -- bytes.Repeat: `panic("bytes: negative Repeat count")`
  | repeatOverflow     -- bytes.Repeat: `panic("bytes: Repeat output length overflow")`
deriving Repr, BEq, DecidableEq

abbrev R (α : Type) := Except Panic α

instance {α : Type} [DecidableEq α] : DecidableEq (Except Panic α) := fun a b =>
  match a, b with
  | .ok x, .ok y => if h : x = y then isTrue (by rw [h]) else isFalse (by intro e; cases e; exact h rfl)
  | .error x, .error y => if h : x = y then isTrue (by rw [h]) else isFalse (by intro e; cases e; exact h rfl)
  | .ok _, .error _ => isFalse (by intro e; cases e)
  | .error _, .ok _ => isFalse (by intro e; cases e)

/-- `math.MaxInt` of the 64-bit platforms the engine runs on -/
def maxInt : Nat := 2 ^ 63 - 1

/-! ## package collection (generic) -/

section generic
variable {α : Type}

/-- copy.go `Copy`: `dest := make([]T, len(val)); copy(dest, val); return dest` — a fresh slice with
the same elements (freshness = no aliasing is checked by the harness oracle). -/
def copy (val : List α) : List α := val

/-- equal.go `Equal`: `len(a) != len(b)` → false; then `for i, val := range a { if val != b[i] ...`
(`b[i]` is in range because the lengths agree: `zip` visits exactly the index pairs of the loop). -/
def equal [DecidableEq α] (a b : List α) : Bool :=
  if a.length ≠ b.length then false
  else (a.zip b).all (fun p => decide (p.1 = p.2))

/-- find.go `Find`: the first element satisfying the predicate, `var result T` (zero value) if none -/
def find (zero : α) : List α → (α → Bool) → α
  | [], _ => zero
  | v :: r, p => if p v then v else find zero r p

/-- loop of `FindIndex` started at index `i` -/
def findIndexFrom (p : α → Bool) : Nat → List α → Int
  | _, [] => -1
  | i, v :: r => if p v then (i : Int) else findIndexFrom p (i + 1) r

/-- find.go `FindIndex`: first index whose element satisfies the predicate, `-1` if none -/
def findIndex (list : List α) (p : α → Bool) : Int := findIndexFrom p 0 list

/-- insert.go `Insert`:
```
result := make([]T, len(list)+1)
for i := 0; i < index; i++ { result[i] = list[i] }      -- panics at i = len(list) if index > len(list)
result[index] = val                                      -- panics if index < 0 (first loop is empty)
for i := index + 1; i < len(result); i++ { result[i] = list[i-1] }
```
For `0 <= index <= len(list)` the three steps write `list[:index]`, `val`, `list[index:]`. -/
def insert (list : List α) (index : Int) (val : α) : R (List α) :=
  if index < 0 then .error .indexOutOfRange
  else if index > list.length then .error .indexOutOfRange
  else .ok (list.take index.toNat ++ val :: list.drop index.toNat)

/-- loop of `CommonPrefix` over `shorter` (first component) zipped with `longer` -/
def commonPrefixLoop [DecidableEq α] : List (α × α) → List α
  | [] => []
  | (val, l) :: r => if val ≠ l then [] else val :: commonPrefixLoop r

/-- prefix.go `CommonPrefix`:
```
longer, shorter := a, b
if len(longer) < len(shorter) { longer, shorter = shorter, longer }
result := []T{}
for i, val := range shorter { if val != longer[i] { return result }; result = append(result, val) }
```
(`longer[i]` is in range: `zip` visits exactly these index pairs.) -/
def commonPrefix [DecidableEq α] (a b : List α) : List α :=
  let (longer, shorter) := if a.length < b.length then (b, a) else (a, b)
  commonPrefixLoop (shorter.zip longer)

/-- `copied[i], copied[opp] = copied[opp], copied[i]` (both indices are in range when called from
`reverse`; out of range = no change, never reached) -/
def swapAt (l : List α) (i j : Nat) : List α :=
  match l[i]?, l[j]? with
  | some x, some y => (l.set i y).set j x
  | _, _ => l

/-- `for i := k-1; i >= 0; i-- { opp := len(copied)-1-i; swap(i, opp) }` -/
def reverseLoop : Nat → List α → List α
  | 0, c => c
  | k + 1, c => reverseLoop k (swapAt c k (c.length - 1 - k))

/-- reverse.go `Reverse` (and bytes/sort.go `Reverse`): copy, then swap `i` with `len-1-i` for
`i = len/2 - 1` down to `0`. -/
def reverse (value : List α) : List α := reverseLoop (value.length / 2) (copy value)

/-- search.go `BinarySearch` loop; `fuel` bounds the number of iterations (`len(list)+1` suffices:
`high - low` strictly decreases each round; `C10_lib_binarySearch_boundary` shows that the fuel is
never exhausted and that `list[mid]` is always in range):
```
for 1+low < high {
  mid := low + ((high - low) >> 1)
  if less(list[mid]) { high = mid } else { low = mid }
}
return high
``` -/
def binarySearchLoop (list : List α) (less : α → Bool) : Nat → Int → Int → R Int
  | 0, _, high => .ok high
  | fuel + 1, low, high =>
    if 1 + low < high then
      let mid := low + (high - low) / 2
      if mid < 0 then .error .indexOutOfRange
      else match list[mid.toNat]? with
        | none => .error .indexOutOfRange
        | some x =>
          if less x then binarySearchLoop list less fuel low mid
          else binarySearchLoop list less fuel mid high
    else .ok high

/-- search.go `BinarySearch`: `low := -1; high := len(list)` -/
def binarySearch (list : List α) (less : α → Bool) : R Int :=
  binarySearchLoop list less (list.length + 1) (-1) list.length

end generic

/-! ## package collection/bytes -/

/-- bytes.go `Equal` = stdlib `bytes.Equal` (nil ≡ empty) -/
def bytesEqual (a b : Bytes) : Bool := decide (a = b)

/-- bytes.go `Compare` = stdlib `bytes.Compare`: -1 / 0 / +1 -/
def bytesCompare (a b : Bytes) : Int :=
  match bcmp a b with
  | .lt => -1
  | .eq => 0
  | .gt => 1

/-- bytes.go `Repeat` = stdlib `bytes.Repeat` (go1.23):
`count == 0` → `[]byte{}`; `count < 0` → panic; `len(b) > maxInt/count` → panic; `len(b) == 0` →
`[]byte{}`; else `count` copies. -/
def bytesRepeat (b : Bytes) (count : Int) : R Bytes :=
  if count = 0 then .ok []
  else if count < 0 then .error .repeatNegative
  else if b.length > maxInt / count.toNat then .error .repeatOverflow
  else if b.length = 0 then .ok []
  else .ok (List.replicate count.toNat b).flatten

/-- stdlib `bytes.Reader` as far as `NewReader` initialises it: `&Reader{s: b, i: 0, prevRune: -1}` -/
structure Reader where
  s : Bytes
  i : Nat
  prevRune : Int
deriving Repr, BEq, DecidableEq

/-- bytes.go `NewReader` -/
def newReader (b : Bytes) : Reader := { s := b, i := 0, prevRune := -1 }
/-- `(*Reader).Len`: unread bytes -/
def Reader.len (r : Reader) : Nat := if r.i ≥ r.s.length then 0 else r.s.length - r.i
/-- `(*Reader).Size` -/
def Reader.size (r : Reader) : Nat := r.s.length
/-- everything `io.ReadAll` returns -/
def Reader.readAll (r : Reader) : Bytes := r.s.drop r.i

/-- `(x << n) & 0x80 == 0x80` on a `byte` (the shift result is truncated to 8 bits), `0 <= n < 8` -/
def topBitAfterShift (x : UInt8) (n : Nat) : Bool := ((x <<< n.toUInt8) &&& 0x80) == 0x80

/-- bit.go `IsBitSet`: `((bits[index/8] << (index % 8)) & 0x80) == 0x80` with Go's truncated `/`, `%`
on the signed `index`; `bits[index/8]` is evaluated first (index panic), then the shift (a negative
signed shift count panics). -/
def isBitSet (bits : Bytes) (index : Int) : R Bool :=
  let q := index.tdiv 8
  let r := index.tmod 8
  if q < 0 then .error .indexOutOfRange
  else match bits[q.toNat]? with
    | none => .error .indexOutOfRange
    | some x =>
      if r < 0 then .error .negativeShift
      else .ok (topBitAfterShift x r.toNat)

/-- `res[k] |= m` (k in range when called from `fromBools`) -/
def orAt : Bytes → Nat → UInt8 → Bytes
  | [], _, _ => []
  | x :: r, 0, m => (x ||| m) :: r
  | x :: r, k + 1, m => x :: orAt r k m

/-- `for i, x := range target { if x { res[i/8] |= 0x80 >> uint(i%8) } }` from index `i` on -/
def fromBoolsLoop : List Bool → Nat → Bytes → Bytes
  | [], _, res => res
  | x :: t, i, res =>
    fromBoolsLoop t (i + 1) (if x then orAt res (i / 8) ((0x80 : UInt8) >>> (i % 8).toUInt8) else res)

/-- bool.go `FromBools`:
```
res := make([]byte, (len(input)+7)/8)
targetSize := len(input); if targetSize%8 != 0 { targetSize += 8 - targetSize%8 }
target := make([]bool, targetSize); diff := len(target) - len(input); copy(target[diff:], input)
for i, x := range target { if x { res[i/8] |= 0x80 >> uint(i%8) } }
```
i.e. the input is padded with `false` AT THE FRONT to a multiple of 8 and packed MSB first. -/
def fromBools (input : List Bool) : Bytes :=
  let res : Bytes := List.replicate ((input.length + 7) / 8) 0
  let targetSize := if input.length % 8 ≠ 0 then input.length + (8 - input.length % 8) else input.length
  let diff := targetSize - input.length
  let target := List.replicate diff false ++ input
  fromBoolsLoop target 0 res

/-- the 8 booleans of one byte: `res[8*i+j] = (x<<uint(j))&0x80 == 0x80` for `j = 0..7` -/
def byteBools (x : UInt8) : List Bool :=
  [topBitAfterShift x 0, topBitAfterShift x 1, topBitAfterShift x 2, topBitAfterShift x 3,
   topBitAfterShift x 4, topBitAfterShift x 5, topBitAfterShift x 6, topBitAfterShift x 7]

/-- bool.go `ToBools`: `res := make([]bool, 8*len(val))`, byte `i` fills `res[8i .. 8i+7]` MSB first -/
def toBools : Bytes → List Bool
  | [] => []
  | x :: r => byteBools x ++ toBools r

/-- copy.go (bytes) `Copy` -/
def bytesCopy (val : Bytes) : Bytes := val

/-- find.go (bytes) `FindIndex`: first `i` with `Equal(values[i], target)`, else `-1` -/
def bytesFindIndex (values : List Bytes) (target : Bytes) : Int :=
  findIndex values (fun v => bytesEqual v target)

/-- int.go `FromUint32` = `binary.BigEndian.PutUint32`: `b[0] = byte(v >> 24) ... b[3] = byte(v)` -/
def fromUint32 (v : UInt32) : Bytes :=
  [(v >>> 24).toUInt8, (v >>> 16).toUInt8, (v >>> 8).toUInt8, v.toUInt8]

/-- int.go `FromUint64` = `binary.BigEndian.PutUint64` -/
def fromUint64 (v : UInt64) : Bytes :=
  [(v >>> 56).toUInt8, (v >>> 48).toUInt8, (v >>> 40).toUInt8, (v >>> 32).toUInt8,
   (v >>> 24).toUInt8, (v >>> 16).toUInt8, (v >>> 8).toUInt8, v.toUInt8]

/-- int.go `FromUint16` = `binary.BigEndian.PutUint16` -/
def fromUint16 (v : UInt16) : Bytes := [(v >>> 8).toUInt8, v.toUInt8]

/-- int.go `ToUint32` = `binary.BigEndian.Uint32`: `_ = b[3]` (panics on fewer than 4 bytes), then
`uint32(b[3]) | uint32(b[2])<<8 | uint32(b[1])<<16 | uint32(b[0])<<24`; `b[4:]` is ignored. -/
def toUint32 (val : Bytes) : R UInt32 :=
  match val with
  | b0 :: b1 :: b2 :: b3 :: _ =>
    .ok (b3.toUInt32 ||| (b2.toUInt32 <<< 8) ||| (b1.toUInt32 <<< 16) ||| (b0.toUInt32 <<< 24))
  | _ => .error .indexOutOfRange

/-- int.go `ToUint64` = `binary.BigEndian.Uint64`: `_ = b[7]`, `b[8:]` is ignored. -/
def toUint64 (val : Bytes) : R UInt64 :=
  match val with
  | b0 :: b1 :: b2 :: b3 :: b4 :: b5 :: b6 :: b7 :: _ =>
    .ok (b7.toUInt64 ||| (b6.toUInt64 <<< 8) ||| (b5.toUInt64 <<< 16) ||| (b4.toUInt64 <<< 24) |||
         (b3.toUInt64 <<< 32) ||| (b2.toUInt64 <<< 40) ||| (b1.toUInt64 <<< 48) ||| (b0.toUInt64 <<< 56))
  | _ => .error .indexOutOfRange

/-- `n := copy(b[i:], v)`: overwrites `b[i .. i+n)` with `v[:n]`, `n = min(len(b)-i, len(v))`
(`i <= len(b)` always holds in the callers, so `b[i:]` does not panic). -/
def copyInto (b : Bytes) (i : Nat) (v : Bytes) : Bytes × Nat :=
  let n := min (b.length - i) v.length
  (b.take i ++ v.take n ++ b.drop (i + n), n)

/-- `for _, v := range s { i += copy(b[i:], v) }` -/
def joinLoop : List Bytes → Bytes → Nat → Bytes
  | [], b, _ => b
  | v :: s, b, i => let (b', n) := copyInto b i v; joinLoop s b' (i + n)

/-- join.go `JoinSize`: `b, i := make([]byte, size), 0; for _, v := range s { i += copy(b[i:], v) }`.
A negative size panics in `make`; input beyond `size` bytes is silently DROPPED, a shortfall is left
as zero bytes. -/
def joinSize (size : Int) (s : List Bytes) : R Bytes :=
  if size < 0 then .error .negativeLen
  else .ok (joinLoop s (List.replicate size.toNat 0) 0)

/-- `n := 0; for _, v := range s { n += len(v) }` -/
def totalLen : List Bytes → Nat
  | [] => 0
  | v :: s => v.length + totalLen s

/-- join.go `Join`: as `JoinSize` with `size` = the sum of the lengths -/
def join (s : List Bytes) : Bytes := joinLoop s (List.replicate (totalLen s) 0) 0

/-- join.go `JoinSlice`: `result := make([]T, len(a)+len(b)); copy(result[:len(a)], a);
copy(result[len(a):], b)` (the byte slices themselves are shared, not copied) -/
def joinSlice {α : Type} (a b : List α) : List α := a ++ b

/-- sort.go `Sort`: `sort.Sort` with `Less(i,j) = bytes.Compare(b[i], b[j]) < 0` (in place) -/
def bytesSort (values : List Bytes) : List Bytes := isort ble values

/-- sort.go `IsSorted` = `sort.IsSorted`: `for i := n-1; i > 0; i-- { if Less(i, i-1) { return false } }` -/
def bytesIsSorted : List Bytes → Bool
  | [] => true
  | [_] => true
  | a :: b :: r => !(blt b a) && bytesIsSorted (b :: r)

/-- sort.go `Reverse` (bytes): `copied := Copy(bytes)` + the same swap loop as `collection.Reverse` -/
def bytesReverse (b : Bytes) : Bytes := reverseLoop (b.length / 2) (bytesCopy b)

/-- the distinct elements in order of first occurrence (the insertions into the Go map) -/
def dedup {α : Type} [DecidableEq α] : List α → List α
  | [] => []
  | a :: r => a :: (dedup r).filter (fun x => decide (x ≠ a))

/-- the relation between the argument and ANY result of the three `Unique` functions (map keys in
unspecified order): no duplicates, same members. -/
def IsUniqueOf {α : Type} (values result : List α) : Prop :=
  result.Nodup ∧ ∀ x, x ∈ result ↔ x ∈ values

/-- unique.go (bytes) `Unique`: canonical representative (ascending) of the possible results; every
element of the result is a fresh non-nil `[]byte(key)`. -/
def bytesUnique (values : List Bytes) : List Bytes := isort ble (dedup values)

/-- unique.go (bytes) `IsUnique`: `len(Unique(values)) == len(values)` -/
def bytesIsUnique (values : List Bytes) : Bool := (bytesUnique values).length == values.length

/-! ## package collection/ints -/

/-- include.go `Include` -/
def intsInclude : List Int → Int → Bool
  | [], _ => false
  | v :: r, target => if v = target then true else intsInclude r target

/-- sort.go `Max`: panic on zero arguments; copy, `sort.Slice` descending (`sorting[i] > sorting[j]`),
return element 0 -/
def intsMax (nums : List Int) : R Int :=
  if nums.length = 0 then .error .emptyArgs
  else match isort (fun a b => decide (a ≥ b)) nums with
    | x :: _ => .ok x
    | [] => .error .indexOutOfRange

/-- sort.go `Min`: as `Max` with ascending order -/
def intsMin (nums : List Int) : R Int :=
  if nums.length = 0 then .error .emptyArgs
  else match isort (fun a b => decide (a ≤ b)) nums with
    | x :: _ => .ok x
    | [] => .error .indexOutOfRange

/-- unique.go (ints) `Unique`: canonical representative (ascending), non-nil -/
def intsUnique (list : List Int) : List Int := isort (fun a b => decide (a ≤ b)) (dedup list)

/-- unique.go (ints) `IsUnique` -/
def intsIsUnique (list : List Int) : Bool := (intsUnique list).length == list.length

/-! ## package collection/strings -/

/-- `letterRunes` -/
def letterRunes : List Char :=
  "abcdefghijklmnopqrstuvwxyzABCDEFGHIJKLMNOPQRSTUVWXYZ0123456789".toList

/-- strings.go `Contain` -/
def stringsContain : List String → String → Bool
  | [], _ => false
  | s :: r, target => if s = target then true else stringsContain r target

/-- strings.go `Unique`: canonical representative (ascending by `String.<`), non-nil -/
def stringsUnique (list : List String) : List String :=
  isort (fun a b => decide (a ≤ b)) (dedup list)

/-- strings.go `IsUnique` -/
def stringsIsUnique (list : List String) : Bool := (stringsUnique list).length == list.length

/-- `for i := range b { b[i] = letterRunes[rand.Intn(len(letterRunes))] }` with the i-th result of
`rand.Intn(62)` given by `rnd i` -/
def generateRandomLoop (rnd : Nat → Nat) : Nat → Nat → List Char
  | 0, _ => []
  | k + 1, i => letterRunes.getD (rnd i % letterRunes.length) 'a' :: generateRandomLoop rnd k (i + 1)

/-- strings.go `GenerateRandom`: `make([]rune, n)` panics for negative `n` -/
def generateRandom (n : Int) (rnd : Nat → Nat) : R String :=
  if n < 0 then .error .negativeLen
  else .ok (String.ofList (generateRandomLoop rnd n.toNat 0))

end LiskVerif.Collection
