/-
The wire form of a sparse-Merkle-trie proof: `smt.Proof.Encode` / `Decode` (pkg/trie/smt/proof_codec.go) through
the codec model (`LiskVerif.Model.Codec`) and the REGENERATED schema table (`LiskVerif.Gen.Schemas.allSchemas`,
entries "smt.Proof" = (siblingHashes : [][]byte, queries : []*QueryProof) and "smt.QueryProof" =
(key, value, bitmap : []byte)).

* `proofVals` / `valsProof` : a `SMTVerify.Proof` as the value tree of the struct and back
* `encodeProof` / `decodeProof` : `Proof.Encode()` and `new(Proof).Decode(b)`
* `wireClone`                  : what a second node holds after the proof was relayed: decode (encode p)

Used by the C10 driver (op `reverify <n> wire`) and by Props/C10_Pure.lean.  Core Lean only.
-/
import LiskVerif.Model.SMTVerify
import LiskVerif.Model.Codec
import LiskVerif.Gen.Schemas

namespace LiskVerif.SMTWire
open LiskVerif LiskVerif.Codec LiskVerif.SMTVerify LiskVerif.Gen

/-- the three exported fields of `QueryProof` -/
def queryVals (q : Query) : List Value := [.bytes q.key, .bytes q.value, .bytes q.bitmap]

/-- the two fields of `Proof` -/
def proofVals (p : Proof) : List Value := [.bytesArr p.siblings, .msgArr (p.queries.map queryVals)]

def valsQuery : List Value → Option Query
  | [.bytes k, .bytes v, .bytes b] => some ⟨k, v, b⟩
  | _ => none

def valsQueries : List (List Value) → Option (List Query)
  | [] => some []
  | v :: vs =>
    match valsQuery v, valsQueries vs with
    | some q, some qs => some (q :: qs)
    | _, _ => none

def valsProof : List Value → Option Proof
  | [.bytesArr s, .msgArr l] =>
    match valsQueries l with
    | some qs => some ⟨s, qs⟩
    | none => none
  | _ => none

/-- the generated struct `smt.Proof` -/
def proofSchema : Option Schema := allSchemas.find "smt.Proof"

/-- `proof.Encode()` -/
def encodeProof (nfc : NFC) (p : Proof) : Option Bytes :=
  match proofSchema with
  | some s => some (encode allSchemas nfc s (proofVals p))
  | none => none

/-- `new(smt.Proof).Decode(b)`; `none` = error -/
def decodeProof (nfc : NFC) (b : Bytes) : Option Proof :=
  match proofSchema with
  | some s =>
    match decode allSchemas nfc s b with
    | .ok vals => valsProof vals
    | .error _ => none
  | none => none

/-- the proof a receiver holds after `Encode` / `Decode` -/
def wireClone (nfc : NFC) (p : Proof) : Option Proof :=
  match encodeProof nfc p with
  | some b => decodeProof nfc b
  | none => none

end LiskVerif.SMTWire
