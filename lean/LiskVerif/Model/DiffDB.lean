/-
Model of pkg/db/diffdb (Database + cacheDB) and of the range / prefix scans of pkg/db.

Transcription conventions
* the underlying store (pebble) is an association list `Store` with unique keys; its scans are
  "filter, sort by key, take limit" (pebble iterators return keys in byte order: trusted);
* the overlay (`cacheDB.data`, a Go map) is an association list keyed by the *full* (prefixed) key;
* a prefix view (`WithPrefix p`) shares the overlay; every operation below takes the full key
  `p ++ key` (the harness creates the view per operation, as pkg/statemachine does);
* snapshots are taken / restored on the root database.
-/
import LiskVerif.Model.Util

namespace LiskVerif.DiffDB

abbrev KV := Bytes × Bytes
abbrev Store := List KV

/-- `cacheValue` -/
structure CV where
  init : Option Bytes   -- nil ⇔ the key is not in the persisted data
  value : Bytes
  dirty : Bool
  deleted : Bool
deriving Repr, BEq, DecidableEq

abbrev Cache := List (Bytes × CV)

structure St where
  store : Store
  cache : Cache := []
  snaps : List (Nat × Cache) := []
  snapCount : Nat := 0

/-! ### store -/

def slookup (s : Store) (k : Bytes) : Option Bytes :=
  match s with
  | [] => none
  | (k', v) :: r => if k' = k then some v else slookup r k

def sset (s : Store) (k v : Bytes) : Store := (k, v) :: s.filter (fun e => e.1 ≠ k)
def sdel (s : Store) (k : Bytes) : Store := s.filter (fun e => e.1 ≠ k)

def kvLE (a b : KV) : Bool := ble a.1 b.1
def kvGE (a b : KV) : Bool := ble b.1 a.1

def sortDir (l : List KV) (reverse : Bool) : List KV :=
  if reverse then isort kvGE l else isort kvLE l

/-- Go's `limit` argument: `-1` means no limit. -/
def applyLimit (l : List α) (limit : Int) : List α :=
  if limit < 0 then l else l.take limit.toNat

def inRange (s e k : Bytes) : Bool := ble s k && ble k e

/-- `db.DB.IterateRange` (with the reverse seek fixed to exclude keys extending `end`). -/
def dbRange (st : Store) (s e : Bytes) (limit : Int) (reverse : Bool) : List KV :=
  applyLimit (sortDir (st.filter (fun kv => inRange s e kv.1)) reverse) limit

/-- `db.DB.Iterate` -/
def dbIterate (st : Store) (p : Bytes) (limit : Int) (reverse : Bool) : List KV :=
  applyLimit (sortDir (st.filter (fun kv => hasPrefix kv.1 p)) reverse) limit

/-! ### cacheDB -/

def clookup (c : Cache) (k : Bytes) : Option CV :=
  match c with
  | [] => none
  | (k', v) :: r => if k' = k then some v else clookup r k

def cput (c : Cache) (k : Bytes) (v : CV) : Cache := (k, v) :: c.filter (fun e => e.1 ≠ k)
def cerase (c : Cache) (k : Bytes) : Cache := c.filter (fun e => e.1 ≠ k)

/-- `cacheDB.add` -/
def cadd (c : Cache) (k v : Bytes) : Cache :=
  cput c k { init := none, value := v, dirty := false, deleted := false }

/-- `cacheDB.cache` -/
def ccache (c : Cache) (k v : Bytes) : Cache :=
  cput c k { init := some v, value := v, dirty := false, deleted := false }

/-- `cacheDB.set` (the key exists in the cache; the Go code panics otherwise) -/
def cset (c : Cache) (k v : Bytes) : Cache :=
  match clookup c k with
  | some o => cput c k { o with deleted := false, dirty := true, value := v }
  | none => c

/-- `cacheDB.del` -/
def cdel (c : Cache) (k : Bytes) : Cache :=
  match clookup c k with
  | none => c
  | some o =>
    match o.init with
    | none => cerase c k
    | some _ => cput c k { o with deleted := true }

/-- the live entries of the overlay that satisfy `f` (`withPrefix` / `dataBetween`) -/
def cacheLive (c : Cache) (f : Bytes → Bool) : List KV :=
  c.filterMap fun e => if !e.2.deleted && f e.1 then some (e.1, e.2.value) else none

/-! ### Database -/

/-- `ensureCache`: returns the new cache and whether the key is in the store -/
def ensureCache (st : St) (k : Bytes) : Cache × Bool :=
  match slookup st.store k with
  | some v => (ccache st.cache k v, true)
  | none => (st.cache, false)

def get (st : St) (k : Bytes) : St × Option Bytes :=
  match clookup st.cache k with
  | some cv => if cv.deleted then (st, none) else (st, some cv.value)
  | none =>
    match slookup st.store k with
    | none => (st, none)
    | some v => ({ st with cache := ccache st.cache k v }, some v)

def set (st : St) (k v : Bytes) : St :=
  match clookup st.cache k with
  | some _ => { st with cache := cset st.cache k v }
  | none =>
    match ensureCache st k with
    | (c, true) => { st with cache := cset c k v }
    | (_, false) => { st with cache := cadd st.cache k v }

def del (st : St) (k : Bytes) : St :=
  match clookup st.cache k with
  | some _ => { st with cache := cdel st.cache k }
  | none => { st with cache := cdel (ensureCache st k).1 k }

/-- the loop over the store scan result shared by `Range` and `Iterate`: staged-deleted keys are
dropped, unknown keys are cached, the staged value wins. -/
def absorb (c : Cache) : List KV → Cache × List KV
  | [] => (c, [])
  | (k, v) :: r =>
    match clookup c k with
    | some cv =>
      if cv.deleted then absorb c r
      else let (c', out) := absorb c r; (c', (k, cv.value) :: out)
    | none =>
      let (c', out) := absorb (ccache c k v) r
      (c', (k, v) :: out)

/-- `mergeSortLimit` -/
def mergeSortLimit (cached stored : List KV) (reverse : Bool) (limit : Int) : List KV :=
  let extra := stored.filter (fun kv => !(cached.any (fun c => c.1 = kv.1)))
  applyLimit (sortDir (cached ++ extra) reverse) limit

def scan (st : St) (f : Bytes → Bool) (limit : Int) (reverse : Bool) : St × List KV :=
  let kv := sortDir (st.store.filter (fun kv => f kv.1)) reverse
  let (c', stored) := absorb st.cache kv
  let cached := cacheLive c' f
  ({ st with cache := c' }, mergeSortLimit cached stored reverse limit)

/-- `Database.Range` on full keys -/
def range (st : St) (s e : Bytes) (limit : Int) (reverse : Bool) : St × List KV :=
  scan st (inRange s e) limit reverse

/-- `Database.Iterate` on a full prefix -/
def iterate (st : St) (p : Bytes) (limit : Int) (reverse : Bool) : St × List KV :=
  scan st (fun k => hasPrefix k p) limit reverse

def snapshot (st : St) : St × Nat :=
  ({ st with snaps := (st.snapCount, st.cache) :: st.snaps, snapCount := st.snapCount + 1 },
   st.snapCount)

def findSnap (l : List (Nat × Cache)) (id : Nat) : Option Cache :=
  match l with
  | [] => none
  | (i, c) :: r => if i = id then some c else findSnap r id

def restore (st : St) (id : Nat) : St × Bool :=
  match findSnap st.snaps id with
  | none => (st, false)
  | some c => ({ st with cache := c, snaps := st.snaps.filter (fun e => e.1 ≠ id) }, true)

def deleteSnapshot (st : St) (id : Nat) : St :=
  { st with snaps := st.snaps.filter (fun e => e.1 ≠ id) }

/-- `Diff` -/
structure Diff where
  added : List Bytes := []
  updated : List KV := []
  deleted : List KV := []
deriving Repr, BEq, DecidableEq

/-- `cacheDB.commit`: the writes go to `store` (the batch applied), the diff is returned -/
def commitCache : Cache → Store → Diff → Store × Diff
  | [], s, d => (s, d)
  | (k, cv) :: r, s, d =>
    match cv.init with
    | none => commitCache r (sset s k cv.value) { d with added := d.added ++ [k] }
    | some i =>
      if cv.deleted then commitCache r (sdel s k) { d with deleted := d.deleted ++ [(k, i)] }
      else if cv.dirty then commitCache r (sset s k cv.value) { d with updated := d.updated ++ [(k, i)] }
      else commitCache r s d

/-- `Database.Commit` followed by the write of the batch; the overlay object ends its life. -/
def commit (st : St) : St × Diff :=
  let (s', d) := commitCache st.cache st.store {}
  ({ store := s', cache := [], snaps := [], snapCount := 0 }, d)

/-- `Database.RevertDiff` followed by the write of the batch. -/
def revertDiff (s : Store) (d : Diff) : Store :=
  let s1 := d.added.foldl (fun s k => sdel s k) s
  let s2 := d.deleted.foldl (fun s kv => sset s kv.1 kv.2) s1
  d.updated.foldl (fun s kv => sset s kv.1 kv.2) s2

/-! ### specification: the store with the staged writes applied -/

/-- effective value of a key: the staged entry wins, a staged deletion hides the stored value -/
def effC (s : Store) (c : Cache) (k : Bytes) : Option Bytes :=
  match clookup c k with
  | some cv => if cv.deleted then none else some cv.value
  | none => slookup s k

def eff (st : St) (k : Bytes) : Option Bytes := effC st.store st.cache k

end LiskVerif.DiffDB

namespace LiskVerif.DiffDB

/-! ### operation sequences (everything except Commit, which ends the overlay's life) -/

inductive Op where
  | get (k : Bytes)
  | set (k v : Bytes)
  | del (k : Bytes)
  | range (s e : Bytes) (limit : Int) (reverse : Bool)
  | iterate (p : Bytes) (limit : Int) (reverse : Bool)
  | snapshot
  | restore (id : Nat)
  | deleteSnapshot (id : Nat)

def step (st : St) : Op → St
  | .get k => (get st k).1
  | .set k v => set st k v
  | .del k => del st k
  | .range s e l r => (range st s e l r).1
  | .iterate p l r => (iterate st p l r).1
  | .snapshot => (snapshot st).1
  | .restore id => (restore st id).1
  | .deleteSnapshot id => deleteSnapshot st id

def run (st : St) (ops : List Op) : St := ops.foldl step st

end LiskVerif.DiffDB
