/-
Model of pkg/p2p/ratelimit.go (rateLimit, rpcMessageCounter, checkLimit, the interval reset of
rateLimiterHandler), of the penalty paths of MessageProtocol.onRequest / onResponse
(pkg/p2p/message_protocol.go) and of Connection.ApplyPenalty / Connection.BanPeer (pkg/p2p/p2p.go),
on top of the connection gater model.  A node keeps the list of its open connections
(peer id, remote address) so that "the peer is disconnected" is observable.
Core Lean only.
-/
import LiskVerif.Model.ConnGater

namespace LiskVerif.RateLimit
open LiskVerif.ConnGater

/-- `defaultRateLimit`, `defaultRateLimitPenalty` -/
def defaultRateLimit : Int := 100
def defaultRateLimitPenalty : Int := 10

/-- `rpcMessageCounter` of one procedure: limit, penalty and per-peer counts. -/
structure Counter where
  name : String
  limit : Int
  penalty : Int
  counts : List (Nat × Nat) := []
deriving Repr

def getCount : List (Nat × Nat) → Nat → Nat
  | [], _ => 0
  | (p, c) :: r, pid => if p = pid then c else getCount r pid

def setCount : List (Nat × Nat) → Nat → Nat → List (Nat × Nat)
  | [], pid, v => [(pid, v)]
  | (p, c) :: r, pid, v => if p = pid then (p, v) :: r else (p, c) :: setCount r pid v

def findCounter : List Counter → String → Option Counter
  | [], _ => none
  | c :: r, n => if c.name = n then some c else findCounter r n

def updCounter : List Counter → String → (Counter → Counter) → List Counter
  | [], _, _ => []
  | c :: r, n, f => if c.name = n then f c :: r else c :: updCounter r n f

/-- the node: gater, rate limiter / message protocol registry, open connections -/
structure Node where
  g : Gater
  /-- `rateLimit.rpcMessageCounters` (same key set as `MessageProtocol.rpcHandlers`) -/
  counters : List Counter := []
  /-- `MessageProtocol.peer != nil` (`mp.start` called; also starts the rate limiter) -/
  mpStarted : Bool := false
  /-- open connections: (remote peer, remote multiaddr without /p2p part), oldest first -/
  conns : List (Nat × Addr) := []
  /-- number of RPC handler invocations -/
  handled : Nat := 0
  /-- log of `ClosePeer` calls (oldest first) -/
  closed : List Nat := []
deriving Repr

/-- `Peer.Disconnect` = `Network.ClosePeer`: closes every connection to the peer. -/
def disconnect (n : Node) (pid : Nat) : Node :=
  { n with conns := n.conns.filter (·.1 ≠ pid), closed := n.closed ++ [pid] }

def applyOut (n : Node) : PenOut → Node
  | .ok (some p) => disconnect n p
  | _ => n

/-- `Peer.addPenalty` on the node -/
def nodeAddPenalty (n : Node) (now : Nat) (addr : Addr) (score : Int) : Node × PenOut :=
  let (g', o) := peerAddPenalty n.g now addr score
  (applyOut { n with g := g' } o, o)

/-- `Peer.banPeer` on the node -/
def nodeBan (n : Node) (now : Nat) (addr : Addr) : Node × PenOut :=
  let (g', o) := banPeer n.g now addr
  (applyOut { n with g := g' } o, o)

/-- `addr.String() + "/p2p/" + pid` -/
def withPid (addr : Addr) (pid : Nat) : Addr := { addr with pid := some pid }

/-- `Connection.ApplyPenalty`: one `addPenalty` per open connection to the peer (snapshot). -/
def applyPenalty (n : Node) (now : Nat) (pid : Nat) (score : Int) : Node :=
  (n.conns.filter (·.1 = pid)).foldl (fun n c => (nodeAddPenalty n now (withPid c.2 pid) score).1) n

/-- `Connection.BanPeer` -/
def banPeerID (n : Node) (now : Nat) (pid : Nat) : Node :=
  (n.conns.filter (·.1 = pid)).foldl (fun n c => (nodeBan n now (withPid c.2 pid)).1) n

inductive RegOut | ok | errStarted | errExists
deriving DecidableEq, Repr

/-- `RegisterRPCHandler(name, h)` / `RegisterRPCHandler(name, h, WithRPCMessageCounter(l, p))` -/
def register (n : Node) (name : String) (opt : Option (Int × Int)) : Node × RegOut :=
  if n.mpStarted then (n, .errStarted)
  else if (findCounter n.counters name).isSome then (n, .errExists)
  else
    let (l, p) := opt.getD (defaultRateLimit, defaultRateLimitPenalty)
    ({ n with counters := n.counters ++ [{ name := name, limit := l, penalty := p }] }, .ok)

def mpStart (n : Node) : Node := { n with mpStarted := true }

/-- `increaseCounter` (the procedure is registered) -/
def increase (n : Node) (proc : String) (pid : Nat) : Node :=
  { n with counters := updCounter n.counters proc fun c =>
      { c with counts := setCount c.counts pid (getCount c.counts pid + 1) } }

def count (n : Node) (proc : String) (pid : Nat) : Nat :=
  match findCounter n.counters proc with
  | some c => getCount c.counts pid
  | none => 0

inductive CheckOut
  | ok                 -- nil
  | notStarted         -- "rate limiter is not started"
  | unknownProc        -- nil map entry dereferenced (Go panics); never reached through the handlers
  | penErr (e : Err)   -- the penalty could not be applied; the counter is kept
deriving DecidableEq, Repr

/-- `checkLimit(rpcName, peerID, peerAddr)` at second `now`; also returns the result of the
penalty when one was due. -/
def checkLimit (n : Node) (now : Nat) (proc : String) (pid : Nat) (addr : Addr) :
    Node × CheckOut × Option PenOut :=
  if !n.mpStarted then (n, .notStarted, none) else
  match findCounter n.counters proc with
  | none => (n, .unknownProc, none)
  | some c =>
    if (getCount c.counts pid : Int) > c.limit then
      match nodeAddPenalty n now (withPid addr pid) c.penalty with
      | (n', .err e) => (n', .penErr e, some (.err e))
      | (n', o) =>
        ({ n' with counters := updCounter n'.counters proc fun c =>
            { c with counts := setCount c.counts pid 0 } }, .ok, some o)
    else (n, .ok, none)

/-- the interval tick of `rateLimiterHandler`: every counter map is replaced by an empty one -/
def tick (n : Node) : Node := { n with counters := n.counters.map fun c => { c with counts := [] } }

/-- what a received envelope is, as far as the penalty logic is concerned -/
inductive MsgKind
  | malformed                 -- `Decode` fails
  | proc (name : String)      -- decodes; carries this procedure name
deriving DecidableEq, Repr

/-- `onRequest` / `onResponse` for an envelope received on a connection from `(pid, remote)`.
(`isRequest` only matters for the handler invocation.)  After fix C18-ban-disconnect the ban uses
the remote address completed with `/p2p/<remote id>`. -/
def receive (n : Node) (now : Nat) (isRequest : Bool) (remote : Addr) (pid : Nat) (k : MsgKind) : Node :=
  let ban := (nodeBan n now (withPid remote pid)).1
  match k with
  | .malformed => ban
  | .proc name =>
    if (findCounter n.counters name).isNone then ban else
    let n1 := increase n name pid
    match checkLimit n1 now name pid remote with
    | (n2, .ok, _) => if isRequest then { n2 with handled := n2.handled + 1 } else n2
    | (n2, _, _) => n2

/-- A connection attempt: libp2p consults the gates; when all allow, the connection is opened. -/
def connect (n : Node) (inbound : Bool) (addr : Addr) (pid : Nat) : Node × Bool :=
  let ok := if inbound then inboundAllowed n.g pid addr else outboundAllowed n.g pid addr
  (if ok then { n with conns := n.conns ++ [(pid, { addr with pid := none })] } else n, ok)

/-! ### traffic events (for the rate limiting theorems) -/

inductive Ev
  | msg (now : Nat) (isRequest : Bool) (remote : Addr) (pid : Nat) (k : MsgKind)
  | tick
deriving Repr

def applyEv (n : Node) : Ev → Node
  | .msg now r a p k => receive n now r a p k
  | .tick => tick n

def runEv (n : Node) (evs : List Ev) : Node := evs.foldl applyEv n

end LiskVerif.RateLimit
