/-!
Views of a key-value store that remember what they have read (pkg/db/diffdb `Database`: every `Get`
is served from the view's cache when the key was read or written before, otherwise from the backing
database, and the answer is kept).

The consensus entry points (gossip validator, Certify, broadcast tick, GetAggregateCommit, block
verification) read the BFT state through such a view.  They are specified as functions of the CURRENT
database.  Lemmas/StoreView.lean shows when a view yields the specified answer (`Prog.run_eq_spec`: when everything
it remembers still agrees with the database - in particular when it is fresh); Props/C06_NoCache.lean that a
view kept across a change of the database does not, whatever key decides about its renewal as long as two
databases with different contents share the key (`Memo`: the renewal rule "same height of the last block").

Core Lean only.
-/
namespace LiskVerif.StoreView

/-- the backing database: key ↦ value -/
abbrev DB := Nat → Option Nat

/-- a view: the reads it remembers (newest first) -/
structure View where
  cache : List (Nat × Option Nat)
deriving Repr

def View.fresh : View := ⟨[]⟩

def lookup (k : Nat) : List (Nat × Option Nat) → Option (Option Nat)
  | [] => none
  | (k', x) :: rest => if k' = k then some x else lookup k rest

/-- `Get`: from the cache when the key was read before, otherwise from the database (and remembered) -/
def View.get (v : View) (db : DB) (k : Nat) : View × Option Nat :=
  match lookup k v.cache with
  | some x => (v, x)
  | none => (⟨(k, db k) :: v.cache⟩, db k)

/-- everything the view remembers is what the database holds -/
def View.agrees (v : View) (db : DB) : Prop := ∀ k x, lookup k v.cache = some x → x = db k

/-- an entry point: a computation that reads keys (adaptively) and returns an answer -/
inductive Prog (α : Type) where
  | ret : α → Prog α
  | read : Nat → (Option Nat → Prog α) → Prog α

/-- the entry point run through a view -/
def Prog.run {α : Type} : Prog α → View → DB → View × α
  | .ret a, v, _ => (v, a)
  | .read k f, v, db =>
    let r := v.get db k
    (f r.2).run r.1 db

/-- the specification: the entry point reads the database itself -/
def Prog.spec {α : Type} : Prog α → DB → α
  | .ret a, _ => a
  | .read k f, db => (f (db k)).spec db

/-- A memoized view with a renewal rule: the view is kept as long as `key db` (what the rule looks at -
the height of the last block, say) is unchanged. -/
structure Memo where
  key : Nat
  view : View

def Memo.call {α : Type} (key : DB → Nat) (m : Option Memo) (p : Prog α) (db : DB) : Option Memo × α :=
  let v := match m with
    | some m => if m.key = key db then m.view else View.fresh
    | none => View.fresh
  let r := p.run v db
  (some ⟨key db, r.1⟩, r.2)

end LiskVerif.StoreView
