/-
Model of the regular Merkle tree of lisk-engine (`pkg/trie/rmt`, LIP-0031).

Two layers:
* the LIP-0031 specification: `rootH`/`root` (split at the largest power of two strictly below the
  length), `peaks` (roots of the perfect subtrees of the binary decomposition of the length, smallest
  first — what the append path has to be), `pathSpec`/`foldProof` (inclusion path of one leaf),
  `nodeList` (every node with the location the implementation assigns to it);
* a transcription of the Go code: `appendCore` (`Append` on root / append path / size),
  `rootFromAppendPath` (`CalculateRootFromAppendPath`), the node store with its two indexes
  (`hash -> location`, `location -> hash`), `generateProof` (`getIndexes`, `getSiblingHashes`),
  `calcPathNodes` / `verifyProof`, `update`, `genWitness` / `rootFromRightWitness`, the index
  arithmetic on binary strings (`newLoc`, `locIndex`, `layerStructure`, `rightSiblingInfo`) on `Nat`.

The hash functions are parameters (`HashFns`); the driver instantiates them with SHA-256
(`leaf d = H(0x00 ‖ d)`, `branch l r = H(0x01 ‖ l ‖ r)`, `empty = H("")`).

The model describes the code with the C11 fixes applied (see /verif/fixes/C11-*.patch); the definitions
named `...Orig` keep the behaviour before the fixes C11-proof-duplicate-index / C11-proof-index-out-of-tree
(no check of the index list) for the counterexample theorems of `Props/C11_Dup.lean`.
Float arithmetic (`math.Log2/Ceil/Floor/Pow`) is modelled by exact integer arithmetic; the harness
checks the agreement exhaustively up to 2^20 and around powers of two (it holds below 2^49).
An index-out-of-range panic of the Go code is modelled as the error outcome `none`.
-/
import LiskVerif.Model.Util

namespace LiskVerif.RMT

structure HashFns where
  leaf : Bytes → Bytes
  branch : Bytes → Bytes → Bytes
  empty : Bytes

/-! ## LIP-0031 specification -/

/-- the largest power of two strictly below `n` (for `n ≥ 2`) -/
def splitPoint (n : Nat) : Nat := 2 ^ Nat.log2 (n - 1)

theorem splitPoint_pos (n : Nat) : 0 < splitPoint n := Nat.pow_pos (by decide)

theorem splitPoint_lt {n : Nat} (h : 2 ≤ n) : splitPoint n < n := by
  have := @Nat.log2_self_le (n - 1) (by omega)
  unfold splitPoint; omega

/-- Merkle root of a list of leaf hashes. -/
def rootH (hf : HashFns) : List Bytes → Bytes
  | [] => hf.empty
  | [x] => x
  | a :: b :: r =>
    let k := splitPoint (r.length + 2)
    hf.branch (rootH hf ((a :: b :: r).take k)) (rootH hf ((a :: b :: r).drop k))
termination_by l => l.length
decreasing_by
  · have := @splitPoint_lt (r.length + 2) (by omega)
    simp only [List.length_take, List.length_cons]; omega
  · have := splitPoint_pos (r.length + 2)
    simp only [List.length_drop, List.length_cons]; omega

/-- `CalculateRoot`: Merkle root of a list of leaf data. -/
def root (hf : HashFns) (data : List Bytes) : Bytes := rootH hf (data.map hf.leaf)

/-- Roots of the perfect subtrees of the binary decomposition of the length, largest first. -/
def peaksDesc (hf : HashFns) : List Bytes → List Bytes
  | [] => []
  | a :: r =>
    let k := 2 ^ Nat.log2 (r.length + 1)
    rootH hf ((a :: r).take k) :: peaksDesc hf ((a :: r).drop k)
termination_by l => l.length
decreasing_by
  have : 0 < 2 ^ Nat.log2 (r.length + 1) := Nat.pow_pos (by decide)
  simp only [List.length_drop, List.length_cons]; omega

/-- The append path of a tree over the given leaf hashes: smallest subtree first. -/
def peaks (hf : HashFns) (l : List Bytes) : List Bytes := (peaksDesc hf l).reverse

/-- Inclusion path of leaf `i`, bottom-up: `(siblingIsRight, siblingHash)` per level. -/
def pathSpec (hf : HashFns) : List Bytes → Nat → List (Bool × Bytes)
  | [], _ => []
  | [_], _ => []
  | a :: b :: r, i =>
    let k := splitPoint (r.length + 2)
    if i < k then pathSpec hf ((a :: b :: r).take k) i ++ [(true, rootH hf ((a :: b :: r).drop k))]
    else pathSpec hf ((a :: b :: r).drop k) (i - k) ++ [(false, rootH hf ((a :: b :: r).take k))]
termination_by l => l.length
decreasing_by
  · have := @splitPoint_lt (r.length + 2) (by omega)
    simp only [List.length_take, List.length_cons]; omega
  · have := splitPoint_pos (r.length + 2)
    simp only [List.length_drop, List.length_cons]; omega

/-- Recompute the root from a leaf hash and its inclusion path. -/
def foldProof (hf : HashFns) (h : Bytes) (p : List (Bool × Bytes)) : Bytes :=
  p.foldl (fun cur s => if s.1 then hf.branch cur s.2 else hf.branch s.2 cur) h

/-- location of a node: (layerIndex, nodeIndex); the parent of `(l, k)` is `(l+1, k/2)`. -/
abbrev Loc := Nat × Nat

/-- All nodes of the tree over leaf hashes `l` (whose first leaf has position `lo`) with their
locations: a subtree whose left child has `2^a` leaves sits at `(a+1, lo / 2^(a+1))`. -/
def nodeList (hf : HashFns) : List Bytes → Nat → List (Loc × Bytes)
  | [], _ => []
  | [x], lo => [((0, lo), x)]
  | a :: b :: r, lo =>
    let k := splitPoint (r.length + 2)
    nodeList hf ((a :: b :: r).take k) lo ++ nodeList hf ((a :: b :: r).drop k) (lo + k)
      ++ [((Nat.log2 k + 1, lo / (2 * k)), rootH hf (a :: b :: r))]
termination_by l => l.length
decreasing_by
  · have := @splitPoint_lt (r.length + 2) (by omega)
    simp only [List.length_take, List.length_cons]; omega
  · have := splitPoint_pos (r.length + 2)
    simp only [List.length_drop, List.length_cons]; omega

/-! ## Integer counterparts of the float / string arithmetic -/

/-- `ceil(log2 n)` for `n ≥ 1` -/
def clog2 (n : Nat) : Nat := if n ≤ 1 then 0 else Nat.log2 (n - 1) + 1

/-- `getHeight(size) = ceil(log2(size)) + 1` (for `size ≥ 1`; the Go value for 0 is meaningless) -/
def getHeight (size : Nat) : Nat := clog2 size + 1

/-- `len(strconv.FormatInt(n, 2))` -/
def bitLen (n : Nat) : Nat := if n = 0 then 1 else Nat.log2 n + 1

/-- `newNodeLocation(index, height)`; `none` = error -/
def newLoc (idx height : Nat) : Option Loc :=
  if idx < 2 then none            -- "0" does not start with '1'; "1" leaves an empty string to parse
  else if idx ≥ 2 ^ 63 then none  -- negative as int64
  else
    let b := Nat.log2 idx
    let node := idx - 2 ^ b
    if node ≥ 2 ^ 31 then none      -- ParseInt(_, 2, 32)
    else if b > height then none
    else some (height - b, node)

/-- `nodeLocation.index(height)`; `none` = error. (`height < layer` wraps around in Go; unreachable.) -/
def locIndex (l : Loc) (height : Nat) : Option Nat :=
  if height ≤ l.1 then none
  else
    let w := max (height - l.1) (bitLen l.2)
    let idx := 2 ^ w + l.2
    if idx ≥ 2 ^ 31 then none else some idx

/-- inner loop of `getLayerStructure` -/
def layerMax : Nat → Nat → Nat → Nat
  | 0, m, _ => m
  | j + 1, m, r => layerMax j (if r % 2 == 0 then m / 2 else (m + 1) / 2) (r + m % 2)

/-- `getLayerStructure(size)`: number of nodes per layer -/
def layerStructure (size : Nat) : List Nat :=
  (List.range (getHeight size)).map fun layer => layerMax layer size 0

def descend (st : List Nat) : Nat → Nat → Nat → Loc
  | 0, n, l => (l, n)
  | f + 1, n, l => if n ≥ st.getD l 0 && l > 0 then descend st f (n * 2) (l - 1) else (l, n)

/-- `getRightSiblingInfo(nodeIndex, layerIndex, size)` given the layer structure of `size` -/
def rightSiblingInfo (st : List Nat) (node layer size : Nat) : Option Loc :=
  let sib := (node / 2) * 2 + (node + 1) % 2
  let l := descend st (layer + 1) sib layer
  if l.2 ≥ size then none else some l

/-- order of `indexes.sort`: longer binary strings first, then ascending -/
def idxLt (a b : Nat) : Bool :=
  if bitLen a == bitLen b then a < b else a > b

def sortIdx (l : List Nat) : List Nat := isort (fun a b => !(idxLt b a)) l

/-- `findInsertIndex` (binary search; `lo` is Go's `low + 1`) -/
def findInsertIndex (arr : List Nat) (idx : Nat) : Nat → Nat → Nat → Nat
  | 0, _, high => high
  | f + 1, lo, high =>
    if lo < high then
      let middle := lo + (high - lo + 1) / 2 - 1
      let mv := arr.getD middle 0
      if mv == idx then middle
      else if bitLen idx == bitLen mv then
        if idx < mv then findInsertIndex arr idx f lo middle else findInsertIndex arr idx f (middle + 1) high
      else
        if idx > mv then findInsertIndex arr idx f lo middle else findInsertIndex arr idx f (middle + 1) high
    else high

/-- `indexes.insert` -/
def insertIdx (arr : List Nat) (idx : Nat) : List Nat :=
  let i := findInsertIndex arr idx (arr.length + 1) 0 arr.length
  if arr.length ≤ i then arr ++ [idx]
  else if arr.getD i 0 != idx then arr.take i ++ idx :: arr.drop i
  else arr

/-- `indexes.remove` -/
def removeIdx (arr : List Nat) (v : Nat) : List Nat := arr.filter (· != v)

def sumBitLen (l : List Nat) : Nat := (l.map bitLen).foldl (· + ·) 0

/-! ## Root, append path, size -/

structure Core where
  root : Bytes
  path : List Bytes
  size : Nat
deriving DecidableEq, Repr

/-- the loop `for h < height { if (size>>h)&1 == 1 { cur = branch(path[count], cur); count++ } }`;
the arguments are the remaining iterations, `size >> h`, `path[count:]`; `none` = index out of range -/
def foldBits (hf : HashFns) : Nat → Nat → List Bytes → Bytes → Option Bytes
  | 0, _, _, cur => some cur
  | f + 1, sz, path, cur =>
    if sz % 2 == 1 then
      match path with
      | [] => none
      | p :: rest => foldBits hf f (sz / 2) rest (hf.branch p cur)
    else foldBits hf f (sz / 2) path cur

/-- `for subTreeIndex < height && (size>>subTreeIndex)&1 == 1 { subTreeIndex++ }` -/
def trailingOnes : Nat → Nat → Nat
  | 0, _ => 0
  | f + 1, sz => if sz % 2 == 1 then 1 + trailingOnes f (sz / 2) else 0

def foldPath (hf : HashFns) (cur : Bytes) (l : List Bytes) : Bytes :=
  l.foldl (fun c h => hf.branch h c) cur

/-- second half of `Append` / `CalculateRootFromAppendPath`: the new append path -/
def nextPath (hf : HashFns) (leaf : Bytes) (path : List Bytes) (size : Nat) : Option (List Bytes) :=
  let sti := trailingOnes (getHeight size) size
  if sti > path.length then none
  else some (foldPath hf leaf (path.take sti) :: path.drop sti)

/-- `Append` on (root, appendPath, size) -/
def appendCore (hf : HashFns) (c : Core) (v : Bytes) : Option Core :=
  let leaf := hf.leaf v
  if c.size = 0 then some ⟨leaf, c.path ++ [leaf], 1⟩
  else
    match foldBits hf (getHeight c.size) c.size c.path leaf, nextPath hf leaf c.path c.size with
    | some r, some p => some ⟨r, p, c.size + 1⟩
    | _, _ => none

/-- `CalculateRootFromAppendPath(value, appendPath, size)` (as fixed: the empty tree is handled, the
first loop runs over the binary digits of `size`, the second folds `appendPath[:subTreeIndex]`) -/
def rootFromAppendPath (hf : HashFns) (v : Bytes) (path : List Bytes) (size : Nat) : Option Core :=
  let leaf := hf.leaf v
  if size = 0 then some ⟨leaf, [leaf], 1⟩
  else
    match foldBits hf (Nat.log2 size + 1) size path leaf, nextPath hf leaf path size with
    | some r, some p => some ⟨r, p, size + 1⟩
    | _, _ => none

def initCore (hf : HashFns) : Core := ⟨hf.empty, [], 0⟩

/-- a run of `Append`s on (root, appendPath, size); `none` if one of them panics -/
def appendAll (hf : HashFns) (c : Core) : List Bytes → Option Core
  | [] => some c
  | v :: vs =>
    match appendCore hf c v with
    | none => none
    | some c' => appendAll hf c' vs

/-! ## The node store -/

structure Tree where
  core : Core
  /-- `storePrefixHashToLoc ‖ hash -> location` (newest entry first) -/
  h2l : List (Bytes × Loc) := []
  /-- `storePrefixHashToLoc ‖ location -> hash` (newest entry first; hashes are not 16 bytes long, so
  the two kinds of keys never collide) -/
  l2h : List (Loc × Bytes) := []
  /-- the stored `info` record -/
  info : Option Core := none

def emptyTree (hf : HashFns) : Tree := { core := initCore hf }

def Tree.getLoc (t : Tree) (h : Bytes) : Option Loc := t.h2l.lookup h
def Tree.getHash (t : Tree) (l : Loc) : Option Bytes := t.l2h.lookup l
def Tree.saveNode (t : Tree) (h : Bytes) (l : Loc) : Tree :=
  { t with h2l := (h, l) :: t.h2l, l2h := (l, h) :: t.l2h }

/-- node bookkeeping of the first loop of `Append`; the flag is false when `replaceNode` fails -/
def storeLoop (hf : HashFns) (height size : Nat) : Nat → Nat → List Bytes → Bytes → Tree → Tree × Bool
  | 0, _, _, _, t => (t, true)
  | f + 1, h, path, cur, t =>
    if (size >>> h) % 2 == 1 then
      match path with
      | [] => (t, false)
      | p :: rest =>
        let next : Loc := (h + 1, size >>> (h + 1))
        let cur' := hf.branch p cur
        if next.1 == height - 1 then
          -- replaceNode: the node must exist (its deletion of the old hash uses an un-prefixed key: no effect)
          match t.getHash next with
          | none => (t, false)
          | some _ => storeLoop hf height size f (h + 1) rest cur' (t.saveNode cur' next)
        else storeLoop hf height size f (h + 1) rest cur' (t.saveNode cur' next)
    else storeLoop hf height size f (h + 1) path cur t

/-- `Append`; the flag is false when an error is returned (root, path, size are then unchanged) -/
def append (hf : HashFns) (t : Tree) (v : Bytes) : Tree × Bool :=
  let leaf := hf.leaf v
  let t1 := t.saveNode leaf (0, t.core.size)
  if t.core.size = 0 then
    match appendCore hf t.core v with
    | some c => ({ t1 with core := c, info := some c }, true)
    | none => (t1, false)
  else
    let height := getHeight t.core.size
    match storeLoop hf height t.core.size height 0 t.core.path leaf t1, appendCore hf t.core v with
    | (t2, true), some c => ({ t2 with core := c, info := some c }, true)
    | (t2, _), _ => (t2, false)

/-- `NewRegularMerkleTreeWithPastData` over the same database -/
def reload (t : Tree) : Option Tree :=
  match t.info with
  | none => none
  | some c => some { t with core := c }

/-! ## Proofs -/

structure Proof where
  size : Nat
  idxs : List Nat
  sibs : List Bytes
deriving DecidableEq, Repr

/-- `getIndexes` -/
def getIndexes (t : Tree) (height : Nat) : List Bytes → Option (List Nat)
  | [] => some []
  | q :: rest =>
    match getIndexes t height rest with
    | none => none
    | some r =>
      match t.getLoc q with
      | none => some (0 :: r)
      | some loc =>
        match locIndex loc height with
        | none => none
        | some idx => some (idx :: r)

/-- the loop of `getSiblingHashes` -/
def siblingLoop (t : Tree) (st : List Nat) (size height : Nat) (orig : List Nat) :
    Nat → List Nat → List Bytes → Option (List Bytes)
  | 0, _, acc => some acc
  | _ + 1, [], acc => some acc
  | f + 1, cur :: rest, acc =>
    if cur % 2 == 0 && (match rest with
        | [] => false
        | nx :: _ => bitLen cur == bitLen nx && (cur ^^^ nx) == 1) then
      siblingLoop t st size height orig f (insertIdx (rest.drop 1) (cur / 2)) acc
    else if cur == 2 then some acc
    else
      match newLoc cur height with
      | none => none
      | some loc =>
        let next := insertIdx (removeIdx (cur :: rest) cur) (cur / 2)
        match rightSiblingInfo st loc.2 loc.1 size with
        | none => siblingLoop t st size height orig f next acc
        | some sl =>
          match locIndex sl height with
          | none => none
          | some sidx =>
            if orig.contains sidx then siblingLoop t st size height orig f next acc
            else
              match t.getHash sl with
              | none => none
              | some h => siblingLoop t st size height orig f next (acc ++ [h])

/-- `getSiblingHashes` -/
def siblingHashes (t : Tree) (idxs : List Nat) : Option (List Bytes) :=
  let sorted := sortIdx (idxs.filter (· != 0))
  siblingLoop t (layerStructure t.core.size) t.core.size (getHeight t.core.size) idxs
    (sumBitLen sorted + 1) sorted []

/-- `GenerateProof` -/
def generateProof (t : Tree) (queries : List Bytes) : Option Proof :=
  if t.core.size = 0 then some ⟨0, [], []⟩
  else
    match getIndexes t (getHeight t.core.size) queries with
    | none => none
    | some idxs =>
      match siblingHashes t idxs with
      | none => none
      | some sibs => some ⟨t.core.size, idxs, sibs⟩

/-- Go map `map[uint64][]byte` as an association list with unique keys -/
def mapSet (m : List (Nat × Bytes)) (k : Nat) (v : Bytes) : List (Nat × Bytes) :=
  (k, v) :: m.filter (·.1 != k)

def initResult : List Bytes → List Nat → List (Nat × Bytes) → List (Nat × Bytes)
  | q :: qs, i :: is, m => initResult qs is (if i == 0 then m else mapSet m i q)
  | _, _, m => m

/-- `result[idx]`, else `parentCache[idx]` -/
def look (result cache : List (Nat × Bytes)) (c : Nat) : Option Bytes :=
  match result.lookup c with
  | some h => some h
  | none => cache.lookup c

/-- the sibling hash: `result[siblingIdx]`, else the next of the remaining sibling hashes
(`none`: they ran out — an error with the fix, an index-out-of-range panic before) -/
def takeSibling (result : List (Nat × Bytes)) (sidx : Nat) (sibs : List Bytes) : Option (Bytes × List Bytes) :=
  match result.lookup sidx with
  | some h => some (h, sibs)
  | none =>
    match sibs with
    | [] => none
    | s :: ss => some (s, ss)

/-- `existingParentHash, exist := result[parentIdx]; exist && !bytes.Equal(existingParentHash, parentHash)` -/
def parentConflict (result : List (Nat × Bytes)) (parent : Nat) (ph : Bytes) : Bool :=
  match result.lookup parent with
  | some e => e != ph
  | none => false

/-- the loop of `calculatePathNodes` (with the fix: running out of sibling hashes is an error) -/
def calcLoop (hf : HashFns) (st : List Nat) (size height : Nat) :
    Nat → List Nat → List (Nat × Bytes) → List (Nat × Bytes) → List Bytes → Option (List (Nat × Bytes))
  | 0, _, result, _, _ => some result
  | _ + 1, [], result, _, _ => some result
  | f + 1, idx :: rest, result, cache, sibs =>
    if idx == 2 then some result
    else
      match look result cache idx with
      | none => none
      | some cur =>
        let parent := idx / 2
        match newLoc idx height with
        | none => none
        | some loc =>
          match rightSiblingInfo st loc.2 loc.1 size with
          | none => calcLoop hf st size height f (insertIdx rest parent) result (mapSet cache parent cur) sibs
          | some sl =>
            match locIndex sl height with
            | none => none
            | some sidx =>
              match takeSibling result sidx sibs with
              | none => none
              | some (sh, sibs') =>
                let ph := if idx % 2 == 0 then hf.branch cur sh else hf.branch sh cur
                if parentConflict result parent ph then none
                else calcLoop hf st size height f (insertIdx rest parent) (mapSet result parent ph) cache sibs'

/-- `calculatePathNodes(queryHashes, size, idxs, siblingHashes)` without the check of the index list
(the code before the fixes C11-proof-duplicate-index / C11-proof-index-out-of-tree; with the fixes: what
runs once `idxsValid` has passed) -/
def calcPathNodes (hf : HashFns) (q : List Bytes) (size : Nat) (idxs : List Nat) (sibs : List Bytes) :
    Option (List (Nat × Bytes)) :=
  if q.length != idxs.length then none
  else if q.length == 0 then none
  else
    let sorted := sortIdx (idxs.filter (· != 0))
    calcLoop hf (layerStructure size) size (getHeight size) (sumBitLen sorted + 1) sorted
      (initResult q idxs []) [] sibs

/-- pairwise distinct (`_, exist := result[idx]; exist` → error, in the loop that fills `result`) -/
def distinctIdx : List Nat → Bool
  | [] => true
  | a :: r => !r.contains a && distinctIdx r

/-- the index names a node of the tree: `newNodeLocation(idx, height)` succeeds and
`loc.nodeIndex < structure[loc.layerIndex]` -/
def idxInTree (st : List Nat) (height idx : Nat) : Bool :=
  match newLoc idx height with
  | none => false
  | some loc => loc.2 < st.getD loc.1 0

/-- the check of the index list in `calculatePathNodes` (the fixes C11-proof-duplicate-index and
C11-proof-index-out-of-tree): the non-zero indexes are pairwise distinct and each of them names a node of
the tree of `size` leaves. (A zero index stands for "not in the tree" and is skipped, as before.) -/
def idxsValid (size : Nat) (idxs : List Nat) : Bool :=
  distinctIdx (idxs.filter (· != 0)) &&
    (idxs.filter (· != 0)).all (idxInTree (layerStructure size) (getHeight size))

/-- `calculatePathNodes(queryHashes, size, idxs, siblingHashes)` as fixed: an index list that is not a set of
nodes of the tree is an error (every error is `none`, so the position of the check among the other
error exits does not matter; `size ≠ 0` at every call) -/
def calcPathNodesChecked (hf : HashFns) (q : List Bytes) (size : Nat) (idxs : List Nat) (sibs : List Bytes) :
    Option (List (Nat × Bytes)) :=
  if !idxsValid size idxs then none else calcPathNodes hf q size idxs sibs

/-- `VerifyProof` -/
def verifyProof (hf : HashFns) (q : List Bytes) (p : Proof) (root : Bytes) : Bool :=
  if p.size = 0 then false
  else
    match calcPathNodesChecked hf q p.size p.idxs p.sibs with
    | none => false
    | some res =>
      match res.lookup 2 with
      | none => false
      | some r => r == root

/-- `VerifyProof` before the fixes (no check of the index list) -/
def verifyProofOrig (hf : HashFns) (q : List Bytes) (p : Proof) (root : Bytes) : Bool :=
  if p.size = 0 then false
  else
    match calcPathNodes hf q p.size p.idxs p.sibs with
    | none => false
    | some res =>
      match res.lookup 2 with
      | none => false
      | some r => r == root

/-- `CalculateRootFromUpdateData` -/
def rootFromUpdateData (hf : HashFns) (upd : List Bytes) (p : Proof) : Option Bytes :=
  if p.size = 0 || p.idxs.length == 0 then none
  else if upd.length != p.idxs.length then none
  else
    match calcPathNodesChecked hf (upd.map hf.leaf) p.size p.idxs p.sibs with
    | none => none
    | some res => res.lookup 2

/-- `CalculateRootFromUpdateData` before the fixes -/
def rootFromUpdateDataOrig (hf : HashFns) (upd : List Bytes) (p : Proof) : Option Bytes :=
  if p.size = 0 || p.idxs.length == 0 then none
  else if upd.length != p.idxs.length then none
  else
    match calcPathNodes hf (upd.map hf.leaf) p.size p.idxs p.sibs with
    | none => none
    | some res => res.lookup 2

/-! ## Update -/

def saveCalculated (height : Nat) : List (Nat × Bytes) → Tree → Option Tree
  | [], t => some t
  | (idx, h) :: rest, t =>
    match newLoc idx height with
    | none => none
    | some loc => saveCalculated height rest (t.saveNode h loc)

/-- refresh of the append path in `Update` (the fix): the entry of the set bit `layer` of `size` is the
node `(layer, (size >> layer) - 1)` -/
def refreshPath (calcd : List (Nat × Bytes)) (size height : Nat) : Nat → Nat → List Bytes → Option (List Bytes)
  | 0, _, path => some path
  | _ + 1, _, [] => some []
  | f + 1, layer, p :: rest =>
    if (size >>> layer) % 2 == 0 then refreshPath calcd size height f (layer + 1) (p :: rest)
    else
      match locIndex (layer, (size >>> layer) - 1) height with
      | none => none
      | some idx =>
        match refreshPath calcd size height f (layer + 1) rest with
        | none => none
        | some rest' => some ((match calcd.lookup idx with | some h => h | none => p) :: rest')

/-- `Update(idxs, updateData)`; `none` = error (the model does not keep the nodes written before a late
error; those errors are unreachable for trees built by `append`) -/
def update (hf : HashFns) (t : Tree) (idxs : List Nat) (data : List Bytes) : Option Tree :=
  if t.core.size = 0 then none
  else
    let height := getHeight t.core.size
    if idxs.any (fun idx => bitLen idx != height + 1) then none
    else
      match siblingHashes t idxs with
      | none => none
      | some sibs =>
        match calcPathNodesChecked hf (data.map hf.leaf) t.core.size idxs sibs with
        | none => none
        | some calcd =>
          match saveCalculated height calcd t with
          | none => none
          | some t1 =>
            match calcd.lookup 2, refreshPath calcd t.core.size height height 0 t.core.path with
            | some r, some p =>
              let c : Core := ⟨r, p, t.core.size⟩
              some { t1 with core := c, info := some c }
            | _, _ => none

/-- `Update(idxs, updateData)` before the fixes (no check of the index list); `none` = error (the model does not keep the nodes written before a late
error; those errors are unreachable for trees built by `append`) -/
def updateOrig (hf : HashFns) (t : Tree) (idxs : List Nat) (data : List Bytes) : Option Tree :=
  if t.core.size = 0 then none
  else
    let height := getHeight t.core.size
    if idxs.any (fun idx => bitLen idx != height + 1) then none
    else
      match siblingHashes t idxs with
      | none => none
      | some sibs =>
        match calcPathNodes hf (data.map hf.leaf) t.core.size idxs sibs with
        | none => none
        | some calcd =>
          match saveCalculated height calcd t with
          | none => none
          | some t1 =>
            match calcd.lookup 2, refreshPath calcd t.core.size height height 0 t.core.path with
            | some r, some p =>
              let c : Core := ⟨r, p, t.core.size⟩
              some { t1 with core := c, info := some c }
            | _, _ => none

/-! ## The fixed operations in terms of the original ones -/

theorem verifyProof_eq (hf : HashFns) (q : List Bytes) (p : Proof) (root : Bytes) :
    verifyProof hf q p root = (idxsValid p.size p.idxs && verifyProofOrig hf q p root) := by
  unfold verifyProof verifyProofOrig calcPathNodesChecked
  cases idxsValid p.size p.idxs <;> simp

theorem rootFromUpdateData_eq (hf : HashFns) (upd : List Bytes) (p : Proof) :
    rootFromUpdateData hf upd p = if idxsValid p.size p.idxs then rootFromUpdateDataOrig hf upd p else none := by
  unfold rootFromUpdateData rootFromUpdateDataOrig calcPathNodesChecked
  cases idxsValid p.size p.idxs <;> simp

theorem update_eq (hf : HashFns) (t : Tree) (idxs : List Nat) (data : List Bytes) :
    update hf t idxs data = if idxsValid t.core.size idxs then updateOrig hf t idxs data else none := by
  unfold update updateOrig calcPathNodesChecked
  cases idxsValid t.core.size idxs
  · simp only [Bool.not_false, if_true, Bool.false_eq_true, if_false]
    split
    · rfl
    · split
      · rfl
      · split <;> rfl
  · simp

/-! ## Right witness -/

def witnessLoop (t : Tree) (st : List Nat) (size last : Nat) : Nat → Nat → Nat → List Bytes → Option (List Bytes)
  | 0, _, _, acc => some acc
  | f + 1, layer, inc, acc =>
    if (inc >>> layer) % 2 == 0 then witnessLoop t st size last f (layer + 1) inc acc
    else
      match rightSiblingInfo st (last >>> layer) layer size with
      | none => some acc
      | some sl =>
        match t.getHash sl with
        | none => none
        | some h => witnessLoop t st size last f (layer + 1) (inc + 2 ^ layer) (acc ++ [h])

/-- `GenerateRightWitness(nodeIndex)` -/
def genWitness (t : Tree) (i : Nat) : Option (List Bytes) :=
  if i > t.core.size then none
  else if t.core.size = 0 then some []
  else if i = 0 then some t.core.path
  else witnessLoop t (layerStructure t.core.size) t.core.size (i - 1) (getHeight t.core.size) 0 i []

/-- `getRootFromPath` (as fixed: the empty path gives the empty hash) -/
def rootFromPath (hf : HashFns) : List Bytes → Bytes
  | [] => hf.empty
  | p :: rest => foldPath hf p rest

/-- the loop of `CalculateRootFromRightWitness` (as fixed: after 64 layers leftover hashes mean
malformed input and no root is returned; before, the loop did not terminate). `uint64` arithmetic. -/
def rwLoop (hf : HashFns) (nodeIndex : Nat) :
    Nat → Nat → Nat → Bool → List Bytes → List Bytes → Bytes → Option Bytes
  | 0, _, _, _, ap, rw, cur => if ap.isEmpty && rw.isEmpty then some cur else none
  | f + 1, layer, inc, init, ap, rw, cur =>
    if ap.isEmpty && rw.isEmpty then some cur
    else
      let d := (nodeIndex >>> layer) % 2
      let (inc1, init1, ap1, cur1) :=
        if !ap.isEmpty && d == 1 then
          if !init then ((inc + 2 ^ layer) % 2 ^ 64, true, ap, cur)
          else (inc, init, ap.drop 1, hf.branch (ap.headD []) cur)
        else (inc, init, ap, cur)
      let d2 := (inc1 >>> layer) % 2
      let (inc2, rw2, cur2) :=
        if !rw.isEmpty && d2 == 1 then ((inc1 + 2 ^ layer) % 2 ^ 64, rw.drop 1, hf.branch cur1 (rw.headD []))
        else (inc1, rw, cur1)
      rwLoop hf nodeIndex f (layer + 1) inc2 init1 ap1 rw2 cur2

/-- `CalculateRootFromRightWitness(nodeIndex, appendPath, rightWitness)` -/
def rootFromRightWitness (hf : HashFns) (nodeIndex : Nat) (ap rw : List Bytes) : Option Bytes :=
  match ap, rw with
  | [], _ => some (rootFromPath hf rw)
  | _, [] => some (rootFromPath hf ap)
  | a :: ap', w :: rw' => rwLoop hf nodeIndex 64 0 nodeIndex false ap' rw' (hf.branch a w)

end LiskVerif.RMT
