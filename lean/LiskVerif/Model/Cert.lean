/-
Model of block certificate generation and verification (C06):

  pkg/consensus/certificate.go      singleCommitValidator, Certify, broadcastCertificate (cleanup
                                    predicate), verifyAggregateCommit, GetAggregateCommit
  pkg/consensus/certificate/*.go    SingleCommits.Aggregate, AddressKeyPairs, Pool
  pkg/consensus/schema.go           ValidatorsWithBLSKey.sort
  pkg/crypto/bls.go                 Bits.read / Bits.write, BLSCreateAggSig, BLSVerifyWeightedAggSig
  pkg/consensus/liskbft/api.go      ExistBFTParameters, GetBFTParameters, NextHeightBFTParameters

The model describes the FIXED code (fixes/C06-*.patch): ascending key order in `Aggregate`,
saturating `maxHeightPrecommited - CommitRangeStored`, the next-parameter bound guarded by
`err == nil`, the bitmap length check in the BLS aggregate verification, `Certify` and step 3 of
`singleCommitValidator` testing `ExistBFTParameters(h+1)`, `Certify` not adding duplicates, the
cleanup of `broadcastCertificate` keeping the commits of `maxHeightPrecommited` itself,
`GetAggregateCommit` ignoring pool entries for blocks that are not on the current chain.  The original behaviours are kept as explicit
variants (`aggregateOrd` with another order, `scanBits` = unchecked `Bits.read`) for the
counterexample / guard theorems.

Abstractions
* BLS keys, addresses, block ids and chain ids are natural numbers; the order of the key numbers is
  the lexicographic order of the real 48-byte keys.
* IDEAL aggregate-signature functionality: a signature is either `garbage` (verifies for nothing) or
  `agg signers msg` - the aggregate of single signatures by the multiset of keys `signers` over ONE
  message.  A single signature by `k` is `agg [k] msg`.  `FastAggregateVerify keys msg` holds iff the
  message is the same and `signers` is a permutation of `keys`.  Aggregating signatures over different
  messages yields `garbage`.
* The certificate message of a block is `(chainID, block id)`: the signed bytes contain the block id,
  which is a hash of the header and therefore determines the other certificate fields.
* `Bits` is the bitmap as the list of its bits in `Bits.read` order (bit i = byte i/8, bit i%8
  counted from the least significant bit); `Bits.ofBytes` / `Bits.toBytes` fix that convention, the
  byte length `⌈n/8⌉` corresponds to the bit length `8*⌈n/8⌉`.
* uint32 heights are naturals (no chain reaches 2^32-2); uint64 weight sums do not overflow.
-/
import LiskVerif.Model.Util

namespace LiskVerif.Cert

/-! ## BFT parameters -/

structure Validator where
  addr : Nat
  key : Nat
  weight : Nat
deriving Repr, DecidableEq, Inhabited

structure Params where
  validators : List Validator
  threshold : Nat
deriving Repr, Inhabited

/-- the BFT parameter store: (first height of validity, parameters) -/
abbrev ParamStore := List (Nat × Params)

/-- `ExistBFTParameters(height)` -/
def existParams (ps : ParamStore) (h : Nat) : Bool := ps.any (fun e => e.1 == h)

/-- entry with the largest key `≤ h` (`getBFTParams`: reverse range `[0,h]`, limit 1) -/
def getParamsEntry : ParamStore → Nat → Option (Nat × Params)
  | [], _ => none
  | (k, p) :: r, h =>
    match getParamsEntry r h with
    | some (k', p') => if k ≤ h ∧ k' < k then some (k, p) else some (k', p')
    | none => if k ≤ h then some (k, p) else none

/-- `GetBFTParameters(height)` -/
def getParams (ps : ParamStore) (h : Nat) : Option Params := (getParamsEntry ps h).map (·.2)

/-- `NextHeightBFTParameters(x)`: the smallest key `≥ x+1` (`none` = ErrNotFound) -/
def nextHeightParams : ParamStore → Nat → Option Nat
  | [], _ => none
  | (k, _) :: r, x =>
    match nextHeightParams r x with
    | some m => if x < k ∧ k < m then some k else some m
    | none => if x < k then some k else none

/-- `BFTValidators.Find(address)` / `AddressKeyPairs.BLSKey(address)`: first entry with the address -/
def findValidator : List Validator → Nat → Option Validator
  | [], _ => none
  | v :: r, a => if v.addr = a then some v else findValidator r a

def keyLe (a b : Validator) : Bool := decide (a.key ≤ b.key)
def keyGe (a b : Validator) : Bool := decide (b.key ≤ a.key)

/-- `ValidatorsWithBLSKey.sort`: ascending by BLS key -/
def sortVals (vs : List Validator) : List Validator := isort keyLe vs

/-! ## Ideal signatures -/

structure Msg where
  chain : Nat
  block : Nat
deriving Repr, DecidableEq, Inhabited

inductive Sig
  | garbage
  | agg (signers : List Nat) (msg : Msg)
deriving Repr, DecidableEq, Inhabited

/-- `BLSSign` -/
def sign (key : Nat) (m : Msg) : Sig := .agg [key] m

/-- `BLSVerify(msg, signature, publicKey)` -/
def verifySingle (key : Nat) (m : Msg) (s : Sig) : Bool := s == sign key m

/-- sum of two signatures -/
def combine : Sig → Sig → Sig
  | .agg k1 m1, .agg k2 m2 => if m1 = m2 then .agg (k1 ++ k2) m1 else .garbage
  | _, _ => .garbage

/-- `BLSAggregateSignature.Aggregate` of a non-empty list -/
def aggSigs (s : Sig) (rest : List Sig) : Sig := rest.foldl combine s

/-- `FastAggregateVerify(keys, message)` -/
def fastAggregateVerify (keys : List Nat) (m : Msg) : Sig → Bool
  | .garbage => false
  | .agg signers m' => decide (m' = m) && signers.isPerm keys

/-! ## Bitmaps -/

abbrev Bits := List Bool

/-- `int(math.Ceil(float64(n)/8))` -/
def byteLen (n : Nat) : Nat := (n + 7) / 8

def bitsOfByte (b : UInt8) : List Bool :=
  [0, 1, 2, 3, 4, 5, 6, 7].map (fun j => (b.toNat / 2 ^ j) % 2 == 1)

def byteOfBits (l : List Bool) : UInt8 :=
  UInt8.ofNat (((l.zipIdx).map (fun (b, j) => if b then 2 ^ j else 0)).sum)

def Bits.ofBytes (bs : Bytes) : Bits := bs.flatMap bitsOfByte

def Bits.toBytes : Bits → Bytes
  | b0 :: b1 :: b2 :: b3 :: b4 :: b5 :: b6 :: b7 :: r => byteOfBits [b0, b1, b2, b3, b4, b5, b6, b7] :: Bits.toBytes r
  | [] => []
  | l => [byteOfBits l]

/-- `Bits.read(i)`; `none` = index out of range (a panic in the unfixed code) -/
def readBit (b : Bits) (i : Nat) : Option Bool := b[i]?

/-- `Bits.write(i, true)` -/
def writeBit (b : Bits) (i : Nat) : Bits := b.set i true

/-- first index of a key (`bytes.FindIndex`) -/
def keyIndex : List Nat → Nat → Option Nat
  | [], _ => none
  | k :: r, x => if k = x then some 0 else (keyIndex r x).map (· + 1)

/-- keys and weights selected by the bitmap (positions `0 .. len(keys)-1`) -/
def selectedKW : List Nat → List Nat → Bits → List (Nat × Nat)
  | k :: ks, w :: ws, b :: bs => if b then (k, w) :: selectedKW ks ws bs else selectedKW ks ws bs
  | _, _, _ => []

/-- the loop of `BLSVerifyWeightedAggSig` with the UNCHECKED `Bits.read`: `none` = out-of-range read -/
def scanBits (bits : Bits) : Nat → List Nat → List Nat → Option (List (Nat × Nat))
  | _, [], _ => some []
  | _, _ :: _, [] => none
  | i, k :: ks, w :: ws =>
    match readBit bits i with
    | none => none
    | some b =>
      match scanBits bits (i + 1) ks ws with
      | none => none
      | some r => some (if b then (k, w) :: r else r)

def sumWeights (l : List (Nat × Nat)) : Nat := (l.map (·.2)).sum

/-- `BLSVerifyWeightedAggSig` (with the length guard of the fix) -/
def verifyWeighted (keys : List Nat) (bits : Bits) (sig : Sig) (weights : List Nat) (thr : Nat) (m : Msg) : Bool :=
  if bits.length ≠ 8 * byteLen keys.length ∨ weights.length ≠ keys.length then false
  else
    let sel := selectedKW keys weights bits
    if sumWeights sel < thr then false
    else fastAggregateVerify (sel.map (·.1)) m sig

/-- `BLSCreateAggSig(keysList, pairs)`: the bitmap -/
def createBits (keys : List Nat) (signerKeys : List Nat) : Bits :=
  signerKeys.foldl (fun b k => match keyIndex keys k with | some i => writeBit b i | none => b)
    (List.replicate (8 * byteLen keys.length) false)

/-! ## Chain state, aggregate commits -/

structure Header where
  id : Nat
  /-- `header.AggregateCommit.Height` -/
  acHeight : Nat
deriving Repr, DecidableEq, Inhabited

structure State where
  chainId : Nat
  /-- `DataAccess().GetBlockHeaderByHeight` on the current chain -/
  blockAt : Nat → Option Header
  params : ParamStore
  mhpc : Nat
  mhc : Nat

structure AggCommit where
  height : Nat
  bits : Bits
  /-- `none` = zero-length certificateSignature -/
  sig : Option Sig
deriving Repr, DecidableEq, Inhabited

/-- `AggregateCommit.Empty()` -/
def AggCommit.isEmpty (ac : AggCommit) : Bool := ac.bits.isEmpty && ac.sig.isNone

inductive Reject
  | emptyField | notIncreasing | abovePrecommitted | beyondNextParams | invalidCertificate
deriving Repr, DecidableEq

inductive Verdict
  | accept
  | reject (r : Reject)
  /-- data access error (block or parameters not found): the block is rejected as well -/
  | error
deriving Repr, DecidableEq

/-- message signed by a certificate of the node's own block at a height -/
def certMsg (st : State) (hd : Header) : Msg := ⟨st.chainId, hd.id⟩

/-- the weighted aggregate check of `verifyAggregateCommit` (after the height guards) -/
def verifyCertificate (st : State) (ac : AggCommit) (sig : Sig) : Verdict :=
  match st.blockAt ac.height with
  | none => .error
  | some hd =>
    match getParams st.params ac.height with
    | none => .error
    | some p =>
      let vs := sortVals p.validators
      if verifyWeighted (vs.map (·.key)) ac.bits sig (vs.map (·.weight)) p.threshold (certMsg st hd)
      then .accept else .reject .invalidCertificate

/-- `Executer.verifyAggregateCommit`, guards in code order -/
def verifyAggregateCommit (st : State) (ac : AggCommit) : Verdict :=
  if ac.isEmpty ∧ ac.height = st.mhc then .accept
  else
    match ac.sig with
    | none => .reject .emptyField
    | some sig =>
      if ac.bits.isEmpty then .reject .emptyField
      else if ac.height ≤ st.mhc then .reject .notIncreasing
      else if ac.height > st.mhpc then .reject .abovePrecommitted
      else
        match nextHeightParams st.params (st.mhc + 1) with
        | some nh => if ac.height > nh - 1 then .reject .beyondNextParams else verifyCertificate st ac sig
        | none => verifyCertificate st ac sig

/-! ## Single commits and the pool -/

structure Commit where
  block : Nat
  height : Nat
  signer : Nat
  sig : Sig
  internal : Bool
deriving Repr, DecidableEq, Inhabited

structure Pool where
  nonGossiped : List Commit
  gossiped : List Commit
deriving Repr, Inhabited

def Pool.empty : Pool := ⟨[], []⟩

def Pool.all (p : Pool) : List Commit := p.gossiped ++ p.nonGossiped

/-- `SingleCommits.has`: same block id and validator address -/
def hasCommit (l : List Commit) (c : Commit) : Bool := l.any (fun d => d.block == c.block && d.signer == c.signer)

def Pool.has (p : Pool) (c : Commit) : Bool := hasCommit p.gossiped c || hasCommit p.nonGossiped c
/-- `Pool.Add`: check and insertion are one step under the pool mutex (fix: concurrent gossip validators could
pool the same commit twice); a commit that is already pooled is not added again -/
def Pool.add (p : Pool) (c : Commit) : Pool :=
  if p.has c then p else { p with nonGossiped := p.nonGossiped ++ [c] }
def Pool.size (p : Pool) : Nat := p.gossiped.length + p.nonGossiped.length
def Pool.get (p : Pool) (h : Nat) : List Commit :=
  p.gossiped.filter (fun c => c.height == h) ++ p.nonGossiped.filter (fun c => c.height == h)
def Pool.cleanup (p : Pool) (keep : Nat → Bool) : Pool :=
  ⟨p.nonGossiped.filter (fun c => keep c.height), p.gossiped.filter (fun c => keep c.height)⟩

def heightLe (a b : Commit) : Bool := decide (a.height ≤ b.height)

/-- `SingleCommits.GetUntil` (on a list sorted by height) -/
def getUntil : List Commit → Nat → List Commit
  | [], _ => []
  | c :: r, h => if c.height ≥ h then [] else c :: getUntil r h

/-- `SingleCommits.GetLargestWithLimit`: from the end, entries with the flag, at most `limit`
(the Go loop appends before testing the limit, so a limit `≤ 0` still yields one entry) -/
def getLargest : List Commit → Nat → Bool → List Commit → List Commit
  | [], _, _, acc => acc
  | c :: r, limit, internal, acc =>
    let acc' := if c.internal == internal then acc ++ [c] else acc
    if acc'.length ≥ limit then acc' else getLargest r limit internal acc'

def commitRangeStored : Nat := 100

/-- `Pool.Select` (sorts both lists in place; result) -/
def Pool.select (p : Pool) (mhpc : Nat) (limit : Nat) : Pool × List Commit :=
  let max := if mhpc > commitRangeStored then mhpc - commitRangeStored else 0
  let ng := isort heightLe p.nonGossiped
  let r1 := getUntil ng max
  if r1.length ≥ limit then (⟨ng, p.gossiped⟩, r1.take limit)
  else
    let g := isort heightLe p.gossiped
    let r2 := r1 ++ getUntil g max
    if r2.length ≥ limit then (⟨ng, g⟩, r2.take limit)
    else
      let r3 := r2 ++ getLargest ng.reverse (limit - r2.length) true []
      if r3.length ≥ limit then (⟨ng, g⟩, r3.take limit)
      else
        let r4 := r3 ++ getLargest ng.reverse (limit - r3.length) false []
        if r4.length ≥ limit then (⟨ng, g⟩, r4.take limit) else (⟨ng, g⟩, r4)

/-- `Pool.Upgrade` -/
def Pool.upgrade (p : Pool) (sel : List Commit) : Pool :=
  ⟨p.nonGossiped.filter (fun c => !hasCommit sel c), p.gossiped ++ p.nonGossiped.filter (fun c => hasCommit sel c)⟩

/-- `certificate.GetMinStoredHeight` (saturating `maxHeightPrecommited - CommitRangeStored`) -/
def minStoredHeight (mhpc : Nat) : Nat := mhpc - commitRangeStored

/-- the cleanup predicate of `broadcastCertificate` (true = keep) -/
def cleanupKeep (st : State) (removal : Nat) (h : Nat) : Bool :=
  if h ≤ removal then false
  else if !(decide (h ≥ minStoredHeight st.mhpc) && decide (h ≤ st.mhpc)) && !existParams st.params (h + 1) then false
  else true

/-- step 1 of `broadcastCertificate`; `none` = error (header at maxHeightPrecommitted missing) -/
def broadcastCleanup (st : State) (p : Pool) : Option Pool :=
  match st.blockAt st.mhpc with
  | none => none
  | some hd => some (p.cleanup (cleanupKeep st hd.acHeight))

/-- a single commit as received from the network -/
structure Incoming where
  /-- `SingleCommit.Validate()`: field lengths -/
  wf : Bool
  block : Nat
  height : Nat
  signer : Nat
  sig : Sig
deriving Repr, DecidableEq, Inhabited

def Incoming.commit (m : Incoming) : Commit := ⟨m.block, m.height, m.signer, m.sig, false⟩

inductive VRes
  | accept | reject | ignore
deriving Repr, DecidableEq

/-- one iteration of the loop of `singleCommitValidator`; `none` = continue with the next commit -/
def scvOne (st : State) (pool : Pool) (m : Incoming) : Pool × Option VRes :=
  if !m.wf then (pool, some .reject)
  -- 1. already in the pool
  else if pool.has m.commit then (pool, none)
  else
    -- 2. height <= getMaxRemovalHeight()
    match st.blockAt st.mhpc with
    | none => (pool, some .ignore)
    | some fin =>
      if m.height ≤ fin.acHeight then (pool, none)
      -- 3. outside [mhpc-100, mhpc] and the block does not authenticate a change of BFT parameters
      else if (decide (m.height < minStoredHeight st.mhpc) || decide (m.height > st.mhpc)) && !existParams st.params (m.height + 1)
      then (pool, none)
      else
        -- 4. block id of the current chain
        match st.blockAt m.height with
        | none => (pool, some .ignore)
        | some hd =>
          if hd.id ≠ m.block then (pool, none)
          else
            -- 5. active validator
            match getParams st.params m.height with
            | none => (pool, some .ignore)
            | some p =>
              match findValidator p.validators m.signer with
              | none => (pool, some .reject)
              | some v =>
                -- 6. signature
                if !verifySingle v.key (certMsg st hd) m.sig then (pool, some .reject)
                -- 7. add
                else (pool.add m.commit, none)

/-- `Executer.singleCommitValidator` on a decoded message -/
def singleCommitValidator (st : State) : Pool → List Incoming → Pool × VRes
  | pool, [] => (pool, .ignore)
  | pool, m :: r =>
    match scvOne st pool m with
    | (p, none) => singleCommitValidator st p r
    | (p, some v) => (p, v)

/-- the body of `Certify` for one height (after the ExistBFTParameters test); `false` = error -/
def certifyAt (st : State) (pool : Pool) (h addr sk : Nat) : Pool × Bool :=
  match getParams st.params h with
  | none => (pool, false)
  | some p =>
    match findValidator p.validators addr with
    | none => (pool, true)
    | some _ =>
      match st.blockAt h with
      | none => (pool, false)
      | some hd =>
        let c : Commit := ⟨hd.id, h, addr, sign sk (certMsg st hd), true⟩
        (if pool.has c then pool else pool.add c, true)

/-- the loop of `Certify` over the heights authenticating a change of BFT parameters (all
goroutines run to completion; any error makes `Certify` fail) -/
def certifyLoop (st : State) (addr sk : Nat) : Pool → List Nat → Pool × Bool
  | pool, [] => (pool, true)
  | pool, i :: r =>
    let (p1, ok1) := if existParams st.params (i + 1) then certifyAt st pool i addr sk else (pool, true)
    let (p2, ok2) := certifyLoop st addr sk p1 r
    (p2, ok1 && ok2)

/-- `Executer.Certify(from, to, address, blsPrivateKey)`; `sk` = the public key belonging to the private key -/
def certify (st : State) (pool : Pool) (frm to addr sk : Nat) : Pool × Bool :=
  if frm > to then (pool, false)
  else
    let (p1, ok) := certifyLoop st addr sk pool (List.range' (frm + 1) (to - frm))
    if !ok then (p1, false)
    else if existParams st.params (to + 1) then (p1, true)
    else certifyAt st p1 to addr sk

/-! ## Aggregation -/

inductive GacResult
  | ok (ac : AggCommit)
  | err
  | panic
deriving Repr, DecidableEq

/-- the keys of the commits' signers in the given key pairs; `none` = unknown address -/
def signerKeys (kps : List Validator) : List Commit → Option (List Nat)
  | [] => some []
  | c :: r =>
    match findValidator kps c.signer, signerKeys kps r with
    | some v, some ks => some (v.key :: ks)
    | _, _ => none

/-- `SingleCommits.Aggregate(keypairs)` with the key pairs ordered by `le` -/
def aggregateOrd (le : Validator → Validator → Bool) (commits : List Commit) (vals : List Validator) : GacResult :=
  match commits with
  | [] => .err
  | c0 :: rest =>
    let kps := isort le vals
    match signerKeys kps commits with
    | none => .err
    | some sk =>
      .ok ⟨c0.height, createBits (kps.map (·.key)) sk, some (aggSigs c0.sig (rest.map (·.sig)))⟩

/-- fixed code: ascending BLS key order -/
def aggregate := aggregateOrd keyLe

/-- aggregate weight of the commits; `none` = "Validator address must exist in params" panic -/
def commitsWeight (vals : List Validator) : List Commit → Option Nat
  | [] => some 0
  | c :: r =>
    match findValidator vals c.signer with
    | none => none
    | some v => (commitsWeight vals r).map (v.weight + ·)

def emptyCommit (st : State) : AggCommit := ⟨st.mhc, [], none⟩

/-- `SingleCommits.ForBlock(blockID)` -/
def forBlock (commits : List Commit) (blockId : Nat) : List Commit := commits.filter (fun c => c.block == blockId)

/-- the candidate loop of `GetAggregateCommit`: heights `mhc+d, mhc+d-1, .., mhc+1`; only the
commits for the block of the current chain at the height are used -/
def gacLoop (le : Validator → Validator → Bool) (st : State) (pool : Pool) : Nat → GacResult
  | 0 => .ok (emptyCommit st)
  | d + 1 =>
    let h := st.mhc + d + 1
    match st.blockAt h with
    | none => .err
    | some hd =>
      let commits := forBlock (pool.get h) hd.id
      if commits.isEmpty then gacLoop le st pool d
      else
        match getParams st.params h with
        | none => .err
        | some p =>
          match commitsWeight p.validators commits with
          | none => .panic
          | some w =>
            if w < p.threshold then gacLoop le st pool d
            else aggregateOrd le commits p.validators

/-- first candidate height of `GetAggregateCommit` -/
def gacStart (st : State) : Nat :=
  match nextHeightParams st.params (st.mhc + 1) with
  | some nh => min (nh - 1) st.mhpc
  | none => st.mhpc

def getAggregateCommitOrd (le : Validator → Validator → Bool) (st : State) (pool : Pool) : GacResult :=
  gacLoop le st pool (gacStart st - st.mhc)

/-- `Executer.GetAggregateCommit` -/
def getAggregateCommit := getAggregateCommitOrd keyLe

end LiskVerif.Cert
