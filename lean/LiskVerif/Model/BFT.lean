/-
Model of pkg/consensus/liskbft (LIP-0058 vote counting): a line-by-line functional transcription of
`validator.go`, `module.go`, `util.go` and the state part of `api.go`.

* `uint32` heights are `Nat`; the two places where the Go code can wrap (`oldest.height - 1`,
  `heightNotPrevoted + 1`, `largestHeightPrecommit + 1`) wrap modulo 2^32 here as well;
* `uint64` weights are `Nat`; `SetBFTParameters` rejects validator sets whose aggregate weight does
  not fit into a `uint64` (fix C02-bft-weight-overflow), so the sums formed by the vote counting
  of honest chains stay below 2^64;
* the parameter / generator-key stores are association lists keyed by height;
* `blockBFTInfos` is newest first, as in the code.
-/
import LiskVerif.Model.Header

namespace LiskVerif.BFT

def u32 : Nat := 4294967296
def u64 : Nat := 18446744073709551616

structure BlockInfo where
  height : Nat
  gen : Bytes
  mhg : Nat
  mhp : Nat
  prevoteWeight : Nat := 0
  precommitWeight : Nat := 0
deriving Repr, DecidableEq

structure ActiveVal where
  address : Bytes
  minActiveHeight : Nat
  largestHeightPrecommit : Nat
deriving Repr, DecidableEq

structure Validator where
  address : Bytes
  weight : Nat
deriving Repr, DecidableEq

structure Params where
  prevoteThreshold : Nat
  precommitThreshold : Nat
  certificateThreshold : Nat
  validators : List Validator
deriving Repr, DecidableEq

structure State where
  batchSize : Nat
  mhp : Nat            -- maxHeightPrevoted
  mhpc : Nat           -- maxHeightPrecommited
  mhc : Nat            -- maxHeightCertified
  infos : List BlockInfo := []
  active : List ActiveVal := []
  params : List (Nat × Params) := []     -- BFT parameters by activation height
  keys : List (Nat × List Bytes) := []   -- generator addresses by activation height
deriving Repr

/-- block header as seen by the BFT module -/
structure Header where
  height : Nat
  gen : Bytes
  mhg : Nat
  mhp : Nat
  /-- aggregate commit: `none` when both aggregationBits and signature are empty -/
  commitHeight : Option Nat := none
deriving Repr, DecidableEq

inductive Err where
  | paramsNotFound | invalidState | validatorMissing | batchSize | weight | precommitThreshold
  | certThreshold | noInfos | weightOverflow
deriving Repr, DecidableEq

/-- `InitGenesisState` -/
def initGenesis (batchSize genesisHeight : Nat) : State :=
  { batchSize := batchSize, mhp := genesisHeight, mhpc := genesisHeight, mhc := genesisHeight }

/-- the entry with the largest key `≤ h` (`Range(0, h, 1, reverse)`) -/
def lookupLE {α : Type} (l : List (Nat × α)) (h : Nat) : Option (Nat × α) :=
  l.foldl (fun best e =>
    if e.1 ≤ h then
      match best with
      | none => some e
      | some b => if b.1 < e.1 then some e else some b
    else best) none

/-- `getBFTParams` -/
def getParams (s : State) (h : Nat) : Option Params := (lookupLE s.params h).map (·.2)

/-- `getGeneratorKeys` -/
def getKeys (s : State) (h : Nat) : Option (List Bytes) := (lookupLE s.keys h).map (·.2)

def findValidator (vs : List Validator) (a : Bytes) : Option Validator := vs.find? (·.address = a)
def findActive (vs : List ActiveVal) (a : Bytes) : Option ActiveVal := vs.find? (·.address = a)

/-- `insertBlockBFTInfo` -/
def insertInfo (s : State) (h : Header) : List BlockInfo :=
  ({ height := h.height, gen := h.gen, mhg := h.mhg, mhp := h.mhp } :: s.infos).take (3 * s.batchSize)

/-- the loop of `getHeightNotPrevoted` -/
def hnpLoop (infos : List BlockInfo) (newGen : Bytes) (cur : Nat) : Nat → Nat → Nat
  | 0, prev => prev
  | fuel + 1, prev =>
    if cur - prev < infos.length then
      match infos[cur - prev]? with
      | none => prev
      | some b =>
        if b.gen ≠ newGen ∨ b.mhg ≥ prev then prev
        else hnpLoop infos newGen cur fuel b.mhg
    else
      match infos.getLast? with
      | some o => (o.height + u32 - 1) % u32
      | none => prev

/-- `getHeightNotPrevoted` (the newest info is the block being processed) -/
def heightNotPrevoted (infos : List BlockInfo) : Nat :=
  match infos with
  | [] => 0
  | n :: _ => hnpLoop infos n.gen n.height (infos.length + 1) n.mhg

/-- precommit loop: infos newest first, stops at the first height below `minH` -/
def precommitLoop (s : State) (gen : Bytes) (minH : Nat) :
    List BlockInfo → Bool → Except Err (List BlockInfo × Option Nat)
  | [], _ => .ok ([], none)
  | b :: rest, done =>
    if b.height < minH then .ok (b :: rest, none)
    else
      match getParams s b.height with
      | none => .error .paramsNotFound
      | some p =>
        if b.prevoteWeight ≥ p.prevoteThreshold then
          match findValidator p.validators gen with
          | none => .error .validatorMissing
          | some v =>
            match precommitLoop s gen minH rest true with
            | .error e => .error e
            | .ok (rest', first) =>
              .ok ({ b with precommitWeight := b.precommitWeight + v.weight } :: rest',
                   if done then first else some b.height)
        else
          match precommitLoop s gen minH rest done with
          | .error e => .error e
          | .ok (rest', first) => .ok (b :: rest', first)

/-- prevote loop -/
def prevoteLoop (s : State) (gen : Bytes) (minH : Nat) : List BlockInfo → Except Err (List BlockInfo)
  | [] => .ok []
  | b :: rest =>
    if b.height < minH then .ok (b :: rest)
    else
      match getParams s b.height with
      | none => .error .paramsNotFound
      | some p =>
        match findValidator p.validators gen with
        | none => .error .validatorMissing
        | some v =>
          match prevoteLoop s gen minH rest with
          | .error e => .error e
          | .ok rest' => .ok ({ b with prevoteWeight := b.prevoteWeight + v.weight } :: rest')

/-- `updatePrevotesPrecommits` on a state whose `infos` already contains the new block -/
def updateVotes (s : State) : Except Err State :=
  match s.infos with
  | [] => .ok s
  | n :: _ =>
    if n.mhg ≥ n.height then .ok s
    else
      match findActive s.active n.gen with
      | none => .ok s
      | some vi =>
        let hnp := heightNotPrevoted s.infos
        let minPrecommit := max vi.minActiveHeight (max ((hnp + 1) % u32) ((vi.largestHeightPrecommit + 1) % u32))
        match precommitLoop s n.gen minPrecommit s.infos false with
        | .error e => .error e
        | .ok (infos1, first) =>
          let active1 := match first with
            | none => s.active
            | some h => s.active.map fun a =>
                if a.address = n.gen then { a with largestHeightPrecommit := h } else a
          let minPrevote := max ((n.mhg + 1) % u32) vi.minActiveHeight
          match prevoteLoop s n.gen minPrevote infos1 with
          | .error e => .error e
          | .ok infos2 => .ok { s with infos := infos2, active := active1 }

/-- first (highest) block whose weight reaches the threshold of its height -/
def firstWith (s : State) (w : BlockInfo → Nat) (thr : Params → Nat) : List BlockInfo → Except Err (Option Nat)
  | [] => .ok none
  | b :: rest =>
    match getParams s b.height with
    | none => .error .paramsNotFound
    | some p => if w b ≥ thr p then .ok (some b.height) else firstWith s w thr rest

/-- keep only the newest entry with key `≤ h` among those `≤ h` (`deleteBFTParams`) -/
def prune {α : Type} (l : List (Nat × α)) (h : Nat) : List (Nat × α) :=
  match lookupLE l h with
  | none => l
  | some keep => l.filter fun e => e.1 > h ∨ e.1 = keep.1

/-- `paramsCache.cache(from, to)`: fails when no parameters exist for the oldest height -/
def cacheOk (s : State) (infos : List BlockInfo) : Bool :=
  match infos.getLast?, infos.head? with
  | some o, some _ => (getParams s o.height).isSome
  | _, _ => true

/-- `Module.BeforeTransactionsExecute` -/
def process (s : State) (h : Header) : Except Err State :=
  let infos0 := insertInfo s h
  let s0 := { s with infos := infos0 }
  if infos0.isEmpty then .error .noInfos
  else if !cacheOk s0 infos0 then .error .paramsNotFound
  else
    match updateVotes s0 with
    | .error e => .error e
    | .ok s1 =>
      match firstWith s1 (·.prevoteWeight) (·.prevoteThreshold) s1.infos with
      | .error e => .error e
      | .ok p =>
        let s2 := { s1 with mhp := p.getD s1.mhp }
        match firstWith s2 (·.precommitWeight) (·.precommitThreshold) s2.infos with
        | .error e => .error e
        | .ok pc =>
          let s3 := { s2 with mhpc := pc.getD s2.mhpc }
          let s4 := { s3 with mhc := h.commitHeight.getD s3.mhc }
          let oldest := (s4.infos.getLast?.map (·.height)).getD 0
          let minReq := min oldest (s4.mhc + 1)
          .ok { s4 with params := prune s4.params minReq, keys := prune s4.keys minReq }

def addrGE (a b : Bytes) : Bool := ble b a

/-- `SetBFTParameters` -/
def setParams (s : State) (precommitThreshold certThreshold : Nat) (validators : List Validator) :
    Except Err State :=
  if validators.length > s.batchSize then .error .batchSize
  else if validators.any (·.weight = 0) then .error .weight
  -- the running `uint64` sum would overflow. (The Go loop tests both conditions validator by
  -- validator; it returns an error iff one of these two tests fails here — weights being
  -- non-negative, a prefix sum reaches 2^64 iff the total does; see Props/C02_Gen.lean.)
  else if (validators.map (·.weight)).sum ≥ u64 then .error .weightOverflow
  else
    let w := (validators.map (·.weight)).sum
    if w / 3 + 1 > precommitThreshold ∨ precommitThreshold > w then .error .precommitThreshold
    else if w / 3 + 1 > certThreshold ∨ certThreshold > w then .error .certThreshold
    else
      let sorted := isort (fun a b => addrGE a.address b.address) validators
      let currentHeight := match s.infos with
        | [] => s.mhp
        | n :: _ => n.height
      let same := match getParams s currentHeight with
        | none => false
        | some p => (p.validators == sorted) && p.precommitThreshold == precommitThreshold &&
            p.certificateThreshold == certThreshold
      if same then .ok s
      else
        let next := currentHeight + 1
        -- `w/3*2 + w%3*2/3 + 1` in the code: `⌊2w/3⌋+1` without `uint64` overflow (Props/C02_Gen.lean)
        let p : Params := { prevoteThreshold := w * 2 / 3 + 1, precommitThreshold := precommitThreshold,
                            certificateThreshold := certThreshold, validators := sorted }
        let newActive := sorted.map fun v =>
          match findActive s.active v.address with
          | some a => a
          | none => { address := v.address, minActiveHeight := next, largestHeightPrecommit := next - 1 }
        .ok { s with params := (next, p) :: s.params.filter (·.1 ≠ next),
                     active := isort (fun a b => addrGE a.address b.address) newActive }

/-- `SetGeneratorKeys` -/
def setKeys (s : State) (gens : List Bytes) : State :=
  let next := match s.infos with
    | [] => s.mhp + 1
    | n :: _ => n.height + 1
  { s with keys := (next, gens) :: s.keys.filter (·.1 ≠ next) }

/-- `BFTVotes.contradicting` with the regenerated `AreDistinctHeadersContradicting` passed in -/
def contradicting (contra : Hdr → Hdr → Bool) (s : State) (h : Header) : Bool :=
  match s.infos.find? (·.gen = h.gen) with
  | none => false
  | some b =>
    contra { height := b.height, generatorAddress := b.gen, maxHeightGenerated := b.mhg, maxHeightPrevoted := b.mhp }
           { height := h.height, generatorAddress := h.gen, maxHeightGenerated := h.mhg, maxHeightPrevoted := h.mhp }

/-- `ImpliesMaximalPrevotes`: `none` = error -/
def impliesMaxPrevotes (s : State) (h : Header) : Option Bool :=
  match s.infos with
  | [] => none
  | n :: _ =>
    if h.height ≠ n.height then none
    else if h.mhg ≥ h.height then some false
    else
      let offset := n.height - h.mhg - 1
      if offset ≥ s.infos.length then some true
      else match s.infos[offset]? with
        | none => some true
        | some b => some (b.gen = h.gen)

/-- `NextHeightBFTParameters` -/
def nextHeightParams (s : State) (h : Nat) : Option Nat :=
  (s.params.map (·.1)).foldl (fun best k =>
    if k > h then match best with
      | none => some k
      | some b => if k < b then some k else some b
    else best) none

end LiskVerif.BFT
