/-
Sequential model of the transaction pool (pkg/txpool/txpool.go, txlist.go, heap.go, fee.go) with the
fixes /verif/fixes/C14-*.patch applied (capacity test `>=`, lock-free `removeLocked` used by the
eviction helpers, a transaction dropped by the sender list is dropped from `allTransactions` and the
fee queue too, overflow-free replacement fee test).

Go maps become association lists whose order carries no meaning (drivers print them sorted):
* `allTransactions : map[id]*tx`          ↦ `Pool.all  : List Tx`   (key = `tx.id`)
* `perAccount : map[address]*list`        ↦ `Pool.accts : List (Nat × Acct)` (key = sender)
* `feePriorityQueue : FeeMinHeap`         ↦ `Pool.heap : List Tx`   (a multiset; only its minimum is read)
* `addressTransactions.transactions`      ↦ `Acct.txs : List Tx`    (key = `tx.nonce`); the `nonces`
  heap always holds exactly the keys of `transactions` (every code path updates both), so it is the
  derived `Acct.sortedNonces`
* `addressTransactions.processables`      ↦ `Acct.proc : List Nat`

Numbers are `Nat`; the Go code computes in uint64.  With the overflow fix no operation of the model can
exceed 2^64 - 1 on inputs below 2^64 except `nonce + 1` comparisons, which can never be equal after a
wrap-around (the compared nonce is larger than the incremented one).

Non-determinism of the Go code: map iteration order only matters when several eviction candidates share
the minimal fee priority; the model takes the choice as the parameter `tie`.  The per-sender goroutines of
`reorg` touch disjoint sender lists and commute; the model runs them one after the other.
No Mathlib here.
-/
import LiskVerif.Model.Util

namespace LiskVerif.TxPool

structure Tx where
  id : Nat
  sender : Nat
  nonce : Nat
  fee : Nat
  size : Nat
deriving DecidableEq, Repr

/-- fee.go `calculateFeePriority` (size ≥ 1 for every `Init`-ed transaction) -/
def Tx.prio (t : Tx) : Nat := t.fee / t.size

/-- `labi.TxVerifyResult*` -/
inductive Verdict
  | ok | pending | invalid
deriving DecidableEq, Repr

structure Cfg where
  maxTx : Nat
  maxPerAcct : Nat
  minFeeDiff : Nat
  minEntrance : Nat
deriving Repr

/-- `addressTransactions` -/
structure Acct where
  txs : List Tx := []
  proc : List Nat := []
deriving Repr

structure Pool where
  all : List Tx := []
  accts : List (Nat × Acct) := []
  heap : List Tx := []
  /-- set when `removeLocked` dereferences a missing sender list (a nil-pointer panic in Go) -/
  fault : Bool := false
deriving Repr

def natLe (a b : Nat) : Bool := decide (a ≤ b)

/-! ### sender list (txlist.go) -/

def Acct.get (a : Acct) (n : Nat) : Option Tx := a.txs.find? (fun t => t.nonce == n)

/-- the `nonces` min-heap, popped in order -/
def Acct.sortedNonces (a : Acct) : List Nat := isort natLe (a.txs.map (·.nonce))

/-- `GetProcessables` -/
def Acct.processables (a : Acct) : List Tx := a.proc.filterMap a.get

/-- `GetUnprocessables`: pop `len(processables)` nonces, the rest is unprocessable -/
def Acct.unprocessables (a : Acct) : List Tx :=
  (a.sortedNonces.drop a.proc.length).filterMap a.get

/-- `demoteAfter` -/
def demote (proc : List Nat) (target : Nat) : List Nat :=
  isort natLe (proc.filter (fun n => decide (n < target)))

/-- `maxNonce` -/
def Acct.maxNonce (a : Acct) : Nat := a.txs.foldl (fun m t => if t.nonce > m then t.nonce else m) 0

/-- `remove` (the unexported one): returns the removed transaction -/
def Acct.remove (a : Acct) (target : Nat) : Acct × Option Tx :=
  match a.get target with
  | none => (a, none)
  | some t => ({ txs := a.txs.filter (fun x => x.nonce != target), proc := demote a.proc target }, some t)

/-- `Add(incomingTx, false)`: (new list, added, transaction dropped from the list) -/
def Acct.add (cfg : Cfg) (a : Acct) (tx : Tx) : Acct × Bool × Option Tx :=
  match a.get tx.nonce with
  | some old =>
    if tx.fee < old.fee + cfg.minFeeDiff then (a, false, none)
    else ({ txs := tx :: a.txs.filter (fun x => x.nonce != tx.nonce), proc := demote a.proc tx.nonce }, true, some old)
  | none =>
    if a.txs.length + 1 > cfg.maxPerAcct then
      let mx := a.maxNonce
      if tx.nonce > mx then (a, false, none)
      else
        let r := a.remove mx
        ({ r.1 with txs := tx :: r.1.txs }, true, r.2)
    else ({ a with txs := tx :: a.txs }, true, none)

/-- consecutive nonces following `last` -/
def takeRun : Nat → List Nat → List Nat
  | _, [] => []
  | last, n :: r => if n == last + 1 then n :: takeRun n r else []

/-- nonces of `GetPromotable` -/
def Acct.promotableNonces (a : Acct) : List Nat :=
  match a.sortedNonces.drop a.proc.length with
  | [] => []
  | first :: more =>
    match a.proc.getLast? with
    | some highest => if first != highest + 1 then [] else first :: takeRun first more
    | none => first :: takeRun first more

/-- `GetPromotable` -/
def Acct.promotable (a : Acct) : List Tx := a.promotableNonces.filterMap a.get

def insertNat (x : Nat) : List Nat → List Nat
  | [] => [x]
  | y :: r => if x < y then x :: y :: r else if x == y then y :: r else y :: insertNat x r

/-- unique + ascending sort, as `Promote` does with a map and `sort.Slice` -/
def sortUniq (l : List Nat) : List Nat := l.foldr insertNat []

/-- `Promote`: every transaction must still be the one stored at its nonce -/
def Acct.promote (a : Acct) (txs : List Tx) : Acct :=
  if txs.all (fun t => match a.get t.nonce with | some e => e.id == t.id | none => false) then
    { a with proc := sortUniq (a.proc ++ txs.map (·.nonce)) }
  else a

/-! ### pool (txpool.go) -/

def findAcct (accts : List (Nat × Acct)) (s : Nat) : Option Acct :=
  (accts.find? (fun e => e.1 == s)).map (·.2)

def delAcct (accts : List (Nat × Acct)) (s : Nat) : List (Nat × Acct) :=
  accts.filter (fun e => e.1 != s)

def setAcct (accts : List (Nat × Acct)) (s : Nat) (a : Acct) : List (Nat × Acct) :=
  (s, a) :: delAcct accts s

/-- `removeLocked` (and `remove` / `Remove`, which only add the lock) -/
def remove (p : Pool) (id : Nat) : Pool × Bool :=
  match p.all.find? (fun t => t.id == id) with
  | none => (p, false)
  | some t =>
    let all' := p.all.filter (fun x => x.id != id)
    match findAcct p.accts t.sender with
    | none => ({ p with all := all', fault := true }, false)
    | some a =>
      let a' := (a.remove t.nonce).1
      let accts' := if a'.txs.isEmpty then delAcct p.accts t.sender else setAcct p.accts t.sender a'
      ({ all := all', accts := accts', heap := all', fault := p.fault }, true)

def minPrio : List Tx → Option Nat
  | [] => none
  | t :: r => match minPrio r with
    | none => some t.prio
    | some m => some (if t.prio < m then t.prio else m)

/-- the candidates with minimal fee priority -/
def minCands (l : List Tx) : List Tx :=
  match minPrio l with
  | none => []
  | some m => l.filter (fun t => t.prio == m)

/-- pop of the local fee min-heap; `tie` resolves equal priorities -/
def pickMin (l : List Tx) (tie : Nat) : Option Tx :=
  let c := minCands l
  c[tie % c.length]?

def unprocCands (p : Pool) : List Tx := p.accts.flatMap (fun e => e.2.unprocessables)

def procCands (p : Pool) : List Tx := p.accts.filterMap (fun e => e.2.processables.getLast?)

/-- candidates the next eviction chooses from -/
def evictCands (p : Pool) : List Tx :=
  if (unprocCands p).isEmpty then procCands p else unprocCands p

/-- `evictUnprocessable`, and `evictProcessable` if that found nothing -/
def evict (p : Pool) (tie : Nat) : Pool :=
  match pickMin (evictCands p) tie with
  | some t => (remove p t.id).1
  | none => p

/-- pool full and the incoming fee priority does not beat the lowest one in the fee queue -/
def tooCheap (heap : List Tx) (tx : Tx) : Bool :=
  match minPrio heap with
  | some m => decide (tx.prio ≤ m)
  | none => false

def isFull (cfg : Cfg) (p : Pool) : Bool := decide (p.all.length ≥ cfg.maxTx)

/-- the second half of `Add`, after the admission checks and the eviction: insertion into the sender
list, then into `allTransactions` and the fee queue; `pubOk` is the answer of `conn.Publish` -/
def addCore (cfg : Cfg) (p1 : Pool) (tx : Tx) (pubOk : Bool) : Pool × Bool :=
  let a := (findAcct p1.accts tx.sender).getD {}
  let r := a.add cfg tx
  if r.2.1 then
    let all1 := match r.2.2 with
      | some old => p1.all.filter (fun x => x.id != old.id)
      | none => p1.all
    let heap1 := match r.2.2 with
      | some _ => all1
      | none => p1.heap
    ({ all := tx :: all1, accts := setAcct p1.accts tx.sender r.1, heap := tx :: heap1, fault := p1.fault }, pubOk)
  else
    -- the (possibly freshly created) sender list stays registered
    ({ p1 with accts := setAcct p1.accts tx.sender a }, false)

/-- `Add` -/
def add (cfg : Cfg) (p : Pool) (tx : Tx) (v : Verdict) (pubOk : Bool) (tie : Nat) : Pool × Bool :=
  if p.all.any (fun t => t.id == tx.id) then (p, false)
  else if tx.prio < cfg.minEntrance then (p, false)
  else if isFull cfg p && tooCheap p.heap tx then (p, false)
  else if v == Verdict.invalid then (p, false)
  else addCore cfg (if isFull cfg p then evict p tie else p) tx pubOk

/-- does this `Add` reach an eviction whose victim depends on map iteration order? -/
def addAmbiguous (cfg : Cfg) (p : Pool) (tx : Tx) (v : Verdict) : Bool :=
  if p.all.any (fun t => t.id == tx.id) then false
  else if tx.prio < cfg.minEntrance then false
  else if isFull cfg p && tooCheap p.heap tx then false
  else if v == Verdict.invalid then false
  else isFull cfg p && decide ((minCands (evictCands p)).length > 1)

/-- `verifyTransactions`: index of the first invalid transaction (pending counts as ok) -/
def firstInvalid (v : Nat → Verdict) (l : List Tx) : Option Nat :=
  l.findIdx? (fun t => v t.id == Verdict.invalid)

/-- the goroutine body of `reorg` for the list of sender `s` -/
def reorgAcct (v : Nat → Verdict) (p : Pool) (s : Nat) : Pool :=
  match findAcct p.accts s with
  | none => p
  | some a =>
    let prom := a.promotable
    if prom.isEmpty then p
    else
      let procs := a.processables
      let combined := procs ++ prom
      match firstInvalid v combined with
      | none => { p with accts := setAcct p.accts s (a.promote prom) }
      | some failedIndex =>
        let a1 := if failedIndex ≥ procs.length + 1 then a.promote (prom.take (failedIndex - procs.length)) else a
        let p1 := { p with accts := setAcct p.accts s a1 }
        (combined.drop failedIndex).foldl (fun q t => (remove q t.id).1) p1

/-- one `reorg` tick -/
def reorg (v : Nat → Verdict) (p : Pool) : Pool :=
  (p.accts.map (·.1)).foldl (reorgAcct v) p

/-- block applied: generator.onNewBlock removes every included transaction -/
def blockApplied (p : Pool) (ids : List Nat) : Pool := ids.foldl (fun q id => (remove q id).1) p

structure AddArg where
  tx : Tx
  v : Verdict
  pubOk : Bool
  tie : Nat

/-- block reverted: generator.onDeleteBlock adds every transaction of the block back -/
def blockReverted (cfg : Cfg) (p : Pool) (l : List AddArg) : Pool :=
  l.foldl (fun q x => (add cfg q x.tx x.v x.pubOk x.tie).1) p

inductive Op
  | add (x : AddArg)
  | remove (id : Nat)
  | reorg (v : Nat → Verdict)
  | applied (ids : List Nat)
  | reverted (l : List AddArg)

def applyOp (cfg : Cfg) (p : Pool) : Op → Pool
  | .add x => (add cfg p x.tx x.v x.pubOk x.tie).1
  | .remove id => (remove p id).1
  | .reorg v => reorg v p
  | .applied ids => blockApplied p ids
  | .reverted l => blockReverted cfg p l

/-- the pool after a history, starting empty -/
def run (cfg : Cfg) (ops : List Op) : Pool := ops.foldl (applyOp cfg) {}

/-! ### lock discipline (hand-extracted from the fixed source, one entry per function) -/

inductive Mu
  | pool   -- TransactionPool.mutex (RWMutex)
  | list   -- addressTransactions.mutex (any sender list)
deriving DecidableEq, Repr

inductive Fn
  | Get | GetAll | GetProcessable | AddTx | RemoveTx | removeM | removeLocked | rebuildFeePriorityQueue
  | evictUnprocessable | evictProcessable | reorgM | reorgWorker | verifyTransactions
  | onTransactionAnnoucement | HandleRPCEndpointGetTransaction | Start
  | lGet | lSize | lGetProcessables | lGetUnprocessables | lAdd | lRemove | lPromote | lGetPromotable
  | lremove | ldemoteAfter | lmaxNonce
  | extern   -- logger, abi.VerifyTransaction, conn.Publish, events.Publish: take no pool/list mutex
deriving DecidableEq, Repr

inductive Act
  | lock (m : Mu) | rlock (m : Mu) | unlock (m : Mu) | runlock (m : Mu)
  | call (f : Fn)
  | go (f : Fn)     -- start a goroutine running `f`
  | wait            -- `wg.Wait()` for the goroutines started so far
deriving DecidableEq, Repr

abbrev LockTable := Fn → List Act

open Mu Fn Act in
/-- the lock actions of the fixed pkg/txpool, in program order (deferred unlocks last) -/
def fixedTable : LockTable
  | Get => [rlock pool, runlock pool]
  | GetAll => [rlock pool, runlock pool]
  | GetProcessable => [rlock pool, call lGetProcessables, runlock pool]
  | AddTx => [lock pool, call extern, call verifyTransactions, call evictUnprocessable, call evictProcessable,
            call lAdd, call rebuildFeePriorityQueue, call extern, unlock pool]
  | RemoveTx => [call removeM]
  | removeM => [lock pool, call removeLocked, unlock pool]
  | removeLocked => [call lRemove, call lSize]
  | rebuildFeePriorityQueue => []
  | evictUnprocessable => [call lGetUnprocessables, call removeLocked]
  | evictProcessable => [call lGetProcessables, call removeLocked]
  | reorgM => [rlock pool, go reorgWorker, runlock pool, wait]
  | reorgWorker => [call lGetPromotable, call lGetProcessables, call verifyTransactions, call lPromote,
                    call extern, call removeM]
  | verifyTransactions => [call extern]
  | onTransactionAnnoucement => [call extern, call AddTx, call extern]
  | HandleRPCEndpointGetTransaction => [call GetProcessable]
  | Start => [call reorgM]
  | lGet => [lock list, unlock list]
  | lSize => []
  | lGetProcessables => [lock list, unlock list]
  | lGetUnprocessables => [lock list, unlock list]
  | lAdd => [lock list, call ldemoteAfter, call lmaxNonce, call lremove, unlock list]
  | lRemove => [lock list, call lremove, unlock list]
  | lPromote => [lock list, unlock list]
  | lGetPromotable => [lock list, unlock list]
  | lremove => [call ldemoteAfter]
  | ldemoteAfter => []
  | lmaxNonce => []
  | extern => []

open Mu Fn Act in
/-- the same table for the unpatched source: `Add` calls the evict helpers, which lock again -/
def originalTable : LockTable
  | AddTx => [lock pool, call extern, call verifyTransactions, call evictUnprocessable, call evictProcessable,
            call lAdd, call extern, unlock pool]
  | removeM => [lock pool, call lRemove, call lSize, unlock pool]
  | evictUnprocessable => [rlock pool, call lGetUnprocessables, runlock pool, call removeM]
  | evictProcessable => [rlock pool, call lGetProcessables, runlock pool, call removeM]
  | f => fixedTable f

/-- state of the symbolic walk: mutexes held, mutexes needed by the goroutines not yet waited for -/
structure Walk where
  held : List Mu := []
  pending : List Mu := []
  ok : Bool := true
deriving Repr

/-- mutexes a function may acquire, transitively -/
def acquires (tab : LockTable) : Nat → Fn → List Mu
  | 0, _ => [Mu.pool, Mu.list]
  | fuel + 1, f => (tab f).flatMap fun
    | .lock m => [m]
    | .rlock m => [m]
    | .call g => acquires tab fuel g
    | .go g => acquires tab fuel g
    | _ => []

/-- Walks the actions of `f`.  A violation (`ok := false`) is: acquiring a mutex that is already held
(in any mode — a second `RLock` also blocks once a writer waits), acquiring the pool mutex while a list
mutex is held (lock order), releasing a mutex not held, waiting for goroutines that need a held mutex,
or running out of fuel (recursion). -/
def walk (tab : LockTable) : Nat → Fn → Walk → Walk
  | 0, _, w => { w with ok := false }
  | fuel + 1, f, w => (tab f).foldl (fun w a =>
      match a with
      | .lock m | .rlock m =>
        if w.held.contains m || (m == Mu.pool && w.held.contains Mu.list) then { w with ok := false }
        else { w with held := m :: w.held }
      | .unlock m | .runlock m =>
        if w.held.contains m then { w with held := w.held.erase m } else { w with ok := false }
      | .call g => walk tab fuel g w
      | .go g =>
        -- the goroutine starts with no mutex held
        let g' := walk tab fuel g {}
        { w with pending := acquires tab fuel g ++ w.pending, ok := w.ok && g'.ok && g'.held.isEmpty }
      | .wait =>
        if w.pending.any (fun m => w.held.contains m) then { w with ok := false } else { w with pending := [] }) w

def allFns : List Fn :=
  [.Get, .GetAll, .GetProcessable, .AddTx, .RemoveTx, .removeM, .reorgM, .reorgWorker, .onTransactionAnnoucement,
   .HandleRPCEndpointGetTransaction, .Start, .lGet, .lSize, .lGetProcessables, .lGetUnprocessables, .lAdd,
   .lRemove, .lPromote, .lGetPromotable]

/-- every entry point, started with nothing held, finishes with nothing held and without violation -/
def lockCheck (tab : LockTable) : Bool :=
  allFns.all fun f => let w := walk tab 8 f {}; w.ok && w.held.isEmpty && w.pending.isEmpty

end LiskVerif.TxPool
