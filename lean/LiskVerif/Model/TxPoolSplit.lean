/-
The promotion round of the transaction pool (pkg/txpool/txpool.go `reorg`) as it really runs: in TWO
phases around a window in which the pool lock is NOT held.

  phase 1  under the pool read lock, one goroutine per sender list takes `GetPromotable()` and
           `GetProcessables()` of its list (a snapshot of transaction pointers);
  window   `verifyTransactions(processables ++ promotables)` calls the application (ABI) without any pool
           or list lock: every other pool operation (`Add`, `Remove`, the block-applied / block-reverted
           notifications, an announcement from a peer) can run here, any number of times;
  phase 2  with the verdicts, the goroutine calls `list.Promote(batch)` on the list OBJECT it started
           with and `t.remove(id)` for the invalid suffix of its snapshot.

`Model/TxPool.lean` has the round without window (`reorg`).  Here: `reorgSnap` (phase 1), the inner
operations with the bookkeeping of which snapshotted list objects are still the registered ones
(`applyOpT`: a list whose last transaction is removed is deleted from `perAccount`; a later `Add` of the
same sender creates a NEW list, the goroutine then promotes on the orphan, which is empty, i.e. does
nothing), and `reorgApply` (phase 2).

`Promote` is a parameter of phase 2:
* `Acct.promoteChecked` — the source with fix /verif/fixes/C14-promote-stale-batch.patch: besides the
  existing re-check (every transaction of the batch is still the one stored at its nonce) the batch must
  still continue the processable run (`txs[0].Nonce == last processable + 1` unless there is none);
* `Acct.promote` — the source before that fix (only the per-transaction re-check): a removal or
  replacement INSIDE the processable run during the window shortens the run, and the stale batch is
  appended behind the gap (`Props/C14_Interleave.lean`, `C14_finding_window_gap_original`).
On the sequential path both agree (`promoteChecked_promotable`).
No Mathlib here.
-/
import LiskVerif.Model.TxPool

namespace LiskVerif.TxPool

/-- `Promote` with the continuity re-check of fix C14-promote-stale-batch -/
def Acct.promoteChecked (a : Acct) (txs : List Tx) : Acct :=
  match txs.head?, a.proc.getLast? with
  | some t, some hi => if t.nonce != hi + 1 then a else a.promote txs
  | _, _ => a.promote txs

/-- what one goroutine of `reorg` holds after phase 1 -/
structure Snap where
  sender : Nat
  procs : List Tx
  prom : List Tx
deriving Repr

/-- phase 1: the goroutines whose list has nothing to promote return at once -/
def reorgSnap (p : Pool) : List Snap :=
  p.accts.filterMap fun e =>
    if e.2.promotable.isEmpty then none
    else some { sender := e.1, procs := e.2.processables, prom := e.2.promotable }

/-- `list.Promote(batch)` on the goroutine's list object: the registered list of the sender if it is still
the same object (`alive`), an empty orphan otherwise (nothing happens) -/
def promoteIn (pr : Acct → List Tx → Acct) (alive : Bool) (p : Pool) (s : Nat) (batch : List Tx) : Pool :=
  if alive then
    match findAcct p.accts s with
    | some a => { p with accts := setAcct p.accts s (pr a batch) }
    | none => p
  else p

/-- phase 2 of one goroutine -/
def reorgApply (pr : Acct → List Tx → Acct) (v : Nat → Verdict) (alive : Bool) (p : Pool) (sn : Snap) : Pool :=
  let combined := sn.procs ++ sn.prom
  match firstInvalid v combined with
  | none => promoteIn pr alive p sn.sender sn.prom
  | some failedIndex =>
    -- (no `Promote` call in the second case; the model re-registers the unchanged list, as `reorgAcct` does)
    let p1 := if failedIndex ≥ sn.procs.length + 1
      then promoteIn pr alive p sn.sender (sn.prom.take (failedIndex - sn.procs.length))
      else promoteIn (fun a _ => a) alive p sn.sender []
    (combined.drop failedIndex).foldl (fun q t => (remove q t.id).1) p1

/-! ### the window: pool operations with the bookkeeping of list identity -/

/-- the senders of `al` that still have a registered list -/
def stillListed (p : Pool) (al : List Nat) : List Nat := al.filter fun s => (findAcct p.accts s).isSome

/-- the pool right after the capacity eviction inside `Add` (the pool itself when `Add` returns earlier or
has nothing to evict): the only point of `Add` at which a sender list can be deleted -/
def addMid (cfg : Cfg) (p : Pool) (tx : Tx) (v : Verdict) (tie : Nat) : Pool :=
  if p.all.any (fun t => t.id == tx.id) then p
  else if tx.prio < cfg.minEntrance then p
  else if isFull cfg p && tooCheap p.heap tx then p
  else if v == Verdict.invalid then p
  else if isFull cfg p then evict p tie else p

def addT (cfg : Cfg) (st : Pool × List Nat) (x : AddArg) : Pool × List Nat :=
  ((add cfg st.1 x.tx x.v x.pubOk x.tie).1, stillListed (addMid cfg st.1 x.tx x.v x.tie) st.2)

/-- `applyOp` together with the list objects (by sender) that survive it.  `remove`, block-applied and a
promotion round never create a list, so looking at the end state is exact for them. -/
def applyOpT (cfg : Cfg) (st : Pool × List Nat) : Op → Pool × List Nat
  | .add x => addT cfg st x
  | .remove id => let q := (remove st.1 id).1; (q, stillListed q st.2)
  | .reorg v => let q := reorg v st.1; (q, stillListed q st.2)
  | .applied ids => let q := blockApplied st.1 ids; (q, stillListed q st.2)
  | .reverted l => l.foldl (addT cfg) st

/-- one promotion round with the operations `inner` executed in its window -/
def reorgSplitWith (pr : Acct → List Tx → Acct) (cfg : Cfg) (v : Nat → Verdict) (p : Pool) (inner : List Op) : Pool :=
  let snaps := reorgSnap p
  let st := inner.foldl (applyOpT cfg) (p, snaps.map (·.sender))
  snaps.foldl (fun q sn => reorgApply pr v (st.2.contains sn.sender) q sn) st.1

/-- the fixed source -/
def reorgSplit (cfg : Cfg) (v : Nat → Verdict) (p : Pool) (inner : List Op) : Pool :=
  reorgSplitWith Acct.promoteChecked cfg v p inner

/-- the source before fix C14-promote-stale-batch -/
def reorgSplitOrig (cfg : Cfg) (v : Nat → Verdict) (p : Pool) (inner : List Op) : Pool :=
  reorgSplitWith Acct.promote cfg v p inner

/-- `onTransactionAnnoucement`: the application is asked first, WITHOUT the pool lock (the window), then
`Add` runs (and asks again under the lock; the scripted verifier gives the same answer) -/
def announceSplit (cfg : Cfg) (p : Pool) (x : AddArg) (inner : List Op) : Pool :=
  let q := inner.foldl (applyOp cfg) p
  if x.v == Verdict.invalid then q else (add cfg q x.tx x.v x.pubOk x.tie).1

/-- histories whose promotion rounds and announcements carry the operations interleaved into them -/
inductive OpX
  | plain (op : Op)
  | reorgx (v : Nat → Verdict) (inner : List Op)
  | annx (x : AddArg) (inner : List Op)

def applyOpX (cfg : Cfg) (p : Pool) : OpX → Pool
  | .plain op => applyOp cfg p op
  | .reorgx v inner => reorgSplit cfg v p inner
  | .annx x inner => announceSplit cfg p x inner

def runX (cfg : Cfg) (ops : List OpX) : Pool := ops.foldl (applyOpX cfg) {}

end LiskVerif.TxPool
