/-
Snapshots taken and restored THROUGH prefix views of pkg/db/diffdb (Database.WithPrefix / Snapshot /
RestoreSnapshot / DeleteSnapshot; pkg/statemachine hands such views to modules as `Store`, whose interface has
Snapshot / RestoreSnapshot).

Transcription
* every handle (the root and each view) has its OWN snapshot table and its own id counter
  (`WithPrefix` builds the view with `snapshots: make(map[int]*cacheDB)` and a zero counter);
* all handles share ONE overlay (`cache: s.cache`): `Snapshot` through any handle copies the shared overlay,
  `RestoreSnapshot` through any handle puts the copy back IN PLACE (`s.cache.data = snapshot.data`, fix 5a39fd4;
  before the fix it replaced the handle's pointer only: handles derived earlier kept the un-restored overlay);
* the root handle keeps using `St.snaps` / `St.snapCount` of `Model/DiffDB.lean`; the views' tables are `vsnaps`
  (keyed by view prefix and id) and `vcounts`.  A handle is identified by its view prefix (the harness keeps one
  handle per prefix alive until the overlay's life ends at Commit / RevertDiff).
-/
import LiskVerif.Model.DiffDB

namespace LiskVerif.DiffDB

structure VSt where
  st : St
  vsnaps : List ((Bytes × Nat) × Cache) := []
  vcounts : List (Bytes × Nat) := []

def vcount (l : List (Bytes × Nat)) (p : Bytes) : Nat :=
  match l with
  | [] => 0
  | (q, n) :: r => if q = p then n else vcount r p

def findV (l : List ((Bytes × Nat) × Cache)) (key : Bytes × Nat) : Option Cache :=
  match l with
  | [] => none
  | (k, c) :: r => if k = key then some c else findV r key

/-- `view.Snapshot()` for the view with prefix `p` (`p = []`: the root handle) -/
def vsnapshot (v : VSt) (p : Bytes) : VSt × Nat :=
  if p = [] then
    let r := snapshot v.st
    ({ v with st := r.1 }, r.2)
  else
    let id := vcount v.vcounts p
    ({ v with vsnaps := ((p, id), v.st.cache) :: v.vsnaps, vcounts := (p, id + 1) :: v.vcounts }, id)

/-- `view.RestoreSnapshot(id)` -/
def vrestore (v : VSt) (p : Bytes) (id : Nat) : VSt × Bool :=
  if p = [] then
    let r := restore v.st id
    ({ v with st := r.1 }, r.2)
  else
    match findV v.vsnaps (p, id) with
    | none => (v, false)
    | some c =>
      ({ v with st := { v.st with cache := c }, vsnaps := v.vsnaps.filter (fun e => e.1 ≠ (p, id)) }, true)

/-- `view.DeleteSnapshot(id)` -/
def vdelete (v : VSt) (p : Bytes) (id : Nat) : VSt :=
  if p = [] then { v with st := deleteSnapshot v.st id }
  else { v with vsnaps := v.vsnaps.filter (fun e => e.1 ≠ (p, id)) }

/-- operation sequences over several handles (everything except Commit, which ends the overlay's life) -/
inductive VOp where
  | base (o : Op)                       -- reads / writes through any view (full keys), root snapshot ops
  | vsnap (p : Bytes)
  | vrestore (p : Bytes) (id : Nat)
  | vdelete (p : Bytes) (id : Nat)

def vstep (v : VSt) : VOp → VSt
  | .base o => { v with st := step v.st o }
  | .vsnap p => (vsnapshot v p).1
  | .vrestore p id => (vrestore v p id).1
  | .vdelete p id => vdelete v p id

def vrun (v : VSt) (ops : List VOp) : VSt := ops.foldl vstep v

/-- the op touches the snapshot `(p, id)` of a VIEW (`p ≠ []`) -/
def VOp.touches (p : Bytes) (id : Nat) : VOp → Bool
  | .vrestore q j => q = p && j = id
  | .vdelete q j => q = p && j = id
  | _ => false

/-! ### the seeded variant (struct copy in `WithPrefix`): ONE table shared by all handles, counters per handle -/

structure SharedSt where
  cache : Cache
  table : List (Nat × Cache) := []
  counts : List (Bytes × Nat) := []

def sharedSnapshot (s : SharedSt) (p : Bytes) : SharedSt × Nat :=
  let id := vcount s.counts p
  ({ s with table := (id, s.cache) :: s.table.filter (fun e => e.1 ≠ id), counts := (p, id + 1) :: s.counts }, id)

def sharedRestore (s : SharedSt) (id : Nat) : SharedSt × Bool :=
  match findSnap s.table id with
  | none => (s, false)
  | some c => ({ s with cache := c, table := s.table.filter (fun e => e.1 ≠ id) }, true)

end LiskVerif.DiffDB
