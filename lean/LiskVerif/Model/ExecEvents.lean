/-
Event TOPICS of transaction execution (pkg/statemachine/event_logger.go `createEvent` /
`SetDefaultTopic` / `RestoreSnapshot`, pkg/statemachine/execute.go `ExecuteTransaction` and the block
hooks) — an extension of `LiskVerif.Model.Exec`, which records only the NUMBER of topics of an event.

`EventLogger.createEvent` builds the topic list of every event anew: `[defaultTopic] ++ topics`, where
`topics` is the argument of THIS call of `Add` / `AddUnrevertible`; `RestoreSnapshot` keeps the
unrevertible events logged since the snapshot as they are (only `Index` is rewritten).  The model keeps,
next to the logger of `Model/Exec.lean`, the list of topic lists of the logged events (`TLog`, one entry
per logged event, same order); everything else — the store, the result codes, which item fails — is
computed by the functions of `Model/Exec.lean` on the erased script (`ItemT.erase`: an event item keeps
the number of its topics), so the model of `Model/Exec.lean` is refined by construction
(`Props/C16_Events2.lean`).
-/
import LiskVerif.Model.Exec

namespace LiskVerif.ExecEvents
open LiskVerif LiskVerif.DiffDB LiskVerif.Exec

/-- module code whose events carry explicit topics -/
inductive ItemT where
  /-- an item of `Model/Exec.lean`; its events (`.ev _ n _`) carry the fixed topics `[1], [2], …, [n]` -/
  | plain (it : Item)
  /-- `EventQueue().Add` / `AddUnrevertible` with the caller topics `topics` -/
  | ev (unrevertible : Bool) (topics : List Bytes) (data : Bytes)
deriving Repr, BEq, DecidableEq

def ItemT.erase : ItemT → Item
  | .plain it => it
  | .ev u ts d => .ev u ts.length d

/-- the topics the scripted module passes for an event item given by its number of topics -/
def stdTopics (n : Nat) : List Bytes := (List.range n).map fun i => [UInt8.ofNat (i + 1)]

/-- the `topics` argument of the call of `Add` / `AddUnrevertible` the item makes -/
def ItemT.callerTopics : ItemT → List Bytes
  | .plain (.ev _ n _) => stdTopics n
  | .plain _ => []
  | .ev _ ts _ => ts

/-- the event the item logs is logged with `AddUnrevertible` -/
def ItemT.unrev : ItemT → Bool
  | .plain (.ev u _ _) => u
  | .plain _ => false
  | .ev u _ _ => u

/-- the items that log an event when they succeed -/
def logs : Item → Bool
  | .get _ => true
  | .ev _ _ _ => true
  | .badEv => true
  | _ => false

/-- the topic lists of the logged events, in the order of `EventLogger.events` -/
abbrev TLog := List (List Bytes)

structure SecStT where
  s : SecSt
  tl : TLog

/-- one step of module code; `createEvent`: the topics of the new event are `defaultTopic :: topics` -/
def runItemT (dt : Bytes) (x : SecStT) (it : ItemT) : SecStT × Bool :=
  let r := runItem x.s it.erase
  ({ s := r.1, tl := if r.2 && logs it.erase then x.tl ++ [dt :: it.callerTopics] else x.tl }, r.2)

def runSectionT (dt : Bytes) (x : SecStT) : List ItemT → SecStT × Bool
  | [] => (x, true)
  | it :: r =>
    let y := runItemT dt x it
    if y.2 then runSectionT dt y.1 r else (y.1, false)

/-- the topic lists of the events `RestoreSnapshot` keeps among the events logged since the snapshot -/
def keepTopics : List Logged → TLog → TLog
  | e :: es, t :: ts => if e.noRevert then t :: keepTopics es ts else keepTopics es ts
  | _, _ => []

/-- `EventLogger.RestoreSnapshot` on the topic lists (`l`: the logger before the restore) -/
def restoreTopics (l : EventLogger) (tl : TLog) : TLog :=
  match l.snapshotIndex with
  | none => tl
  | some n => tl.take n ++ keepTopics (l.events.drop n) (tl.drop n)

structure CmdOutT where
  out : CmdOut
  tl : TLog

/-- the command phase of `ExecuteTransaction` (`Exec.commandPhase`) with the topic lists -/
def commandPhaseT (dt : Bytes) (st : St) (lg : EventLogger) (tl : TLog) (cmd : List ItemT) : CmdOutT :=
  let out := commandPhase st lg (cmd.map ItemT.erase)
  let x := runSectionT dt { s := { st := (snapshot st).1, lg := createSnapshot lg }, tl := tl } cmd
  { out := out,
    tl := if out.success || out.restoreFailed then x.1.tl else restoreTopics out.lgRan x.1.tl }

structure TxT where
  cmdKnown : Bool := true
  verify : List ItemT := []
  pre : List ItemT := []
  cmd : List ItemT := []
  post : List ItemT := []

def TxT.erase (t : TxT) : Tx :=
  { cmdKnown := t.cmdKnown, verify := t.verify.map ItemT.erase, pre := t.pre.map ItemT.erase,
    cmd := t.cmd.map ItemT.erase, post := t.post.map ItemT.erase }

/-- an event as the application returns it: the fields of `Exec.Event` and the topic list -/
structure EventT where
  event : Event
  topics : List Bytes
deriving Repr, BEq, DecidableEq

/-- `EventLogger.Events` -/
def outT (lg : EventLogger) (tl : TLog) : List EventT := List.zipWith EventT.mk lg.out tl

/-- the end of `ExecuteTransaction`: after `AfterCommandExecute` (`q`) the standard event is logged; it carries
the default topic only -/
def finishT (dt : Bytes) (success : Bool) (q : SecStT × Bool) : St × Result × List EventT :=
  if !q.2 then (q.1.s.st, .invalid, outT q.1.s.lg q.1.tl)
  else
    match add q.1.s.lg modName stdEventName (stdData success) 0 with
    | none => (q.1.s.st, .invalid, outT q.1.s.lg q.1.tl)
    | some lg' => (q.1.s.st, if success then .ok else .fail, outT lg' (q.1.tl ++ [[dt]]))

/-- `ExecuteTransaction` from the return of the command phase on -/
def afterCommandT (dt : Bytes) (post : List ItemT) (c : CmdOutT) : St × Result × List EventT :=
  if c.out.restoreFailed then (c.out.st, .invalid, outT c.out.lg c.tl)
  else finishT dt c.out.success (runSectionT dt { s := { st := c.out.st, lg := c.out.lg }, tl := c.tl } post)

/-- `Executer.ExecuteTransaction` (`Exec.executeTransaction`) with the topic lists; `dt` is the default
topic of the call (the transaction id) -/
def executeTransactionT (st : St) (height : Nat) (dt : Bytes) (tx : TxT) : St × Result × List EventT :=
  let p := runSectionT dt { s := { st := st, lg := newLogger height }, tl := [] } tx.pre
  if !p.2 then (p.1.s.st, .invalid, outT p.1.s.lg p.1.tl)
  else if !tx.cmdKnown then (p.1.s.st, .invalid, outT p.1.s.lg p.1.tl)
  else afterCommandT dt tx.post (commandPhaseT dt p.1.s.st p.1.s.lg p.1.tl tx.cmd)

/-! ### ABIHandler -/

/-- `BeforeTransactionsExecute` / `AfterTransactionsExecute` (`Exec.blockHook`); `dt` is the constant
topic of the hook -/
def blockHookT (a : App) (dt : Bytes) (items : List ItemT) : App × Option (List EventT) :=
  match a.ctx with
  | none => (a, none)
  | some c =>
    let x := runSectionT dt { s := { st := stOf a c, lg := newLogger c.height }, tl := [] } items
    let a' := { a with ctx := some (ctxOf c x.1.s.st) }
    if x.2 then (a', some (outT x.1.s.lg x.1.tl)) else (a', none)

/-- `ExecuteTransaction` (not a dry run) -/
def executeTxT (a : App) (dt : Bytes) (tx : TxT) : App × Option (Result × List EventT) :=
  match a.ctx with
  | none => (a, none)
  | some c =>
    let r := executeTransactionT (stOf a c) c.height dt tx
    ({ a with ctx := some (ctxOf c r.1) }, some r.2)

/-- `ExecuteTransaction` with `DryRun` -/
def executeTxDryT (a : App) (height : Nat) (dt : Bytes) (tx : TxT) : Result × List EventT :=
  (executeTransactionT { store := a.store } height dt tx).2

end LiskVerif.ExecEvents
