/-
Model of pkg/p2p/conngater.go (connectionGater) and of Peer.addPenalty / Peer.banPeer (pkg/p2p/peer.go).

* IP addresses are byte strings in canonical form (`canonIP`): 4 bytes for IPv4 and IPv4-mapped
  IPv6, 16 bytes otherwise.  This is the key `net.IP.String()` induces on the Go maps.
* A multiaddr is abstracted to what the code looks at: the IP `manet.ToIP` extracts (first
  component, after an optional ip6zone; `none` = error "not IP") and the peer id of a trailing
  `/p2p/<id>` component (`none` = `AddrInfoFromP2pAddr` fails).
* The clock (`time.Now().Unix()`) is an explicit argument in seconds; the expiry loop of `start`
  is the function `sweep now`, applied whenever the ticker fires.
Core Lean only.
-/
import LiskVerif.Model.Util

namespace LiskVerif.ConnGater

abbrev IP := Bytes

/-- `MaxPenaltyScore` -/
def maxPenaltyScore : Int := 100

/-- key induced by `net.IP.String()`: IPv4-mapped IPv6 addresses print as IPv4 (`To4`). -/
def canonIP (b : Bytes) : IP :=
  if b.length == 16 && b.take 10 == List.replicate 10 0 && (b.drop 10).take 2 == [0xff, 0xff]
  then b.drop 12 else b

/-- `peerInfo`; `expiration = -1` means "not banned". -/
structure PeerInfo where
  score : Int
  expiration : Int
deriving DecidableEq, Repr

/-- the parts of a multiaddr the gater and `Peer.addPenalty` inspect -/
structure Addr where
  ip : Option IP
  pid : Option Nat
deriving DecidableEq, Repr

abbrev Scores := List (IP × PeerInfo)

def find : Scores → IP → Option PeerInfo
  | [], _ => none
  | (k, v) :: r, ip => if k = ip then some v else find r ip

def put : Scores → IP → PeerInfo → Scores
  | [], ip, v => [(ip, v)]
  | (k, w) :: r, ip, v => if k = ip then (k, v) :: r else (k, w) :: put r ip v

structure Gater where
  peerScore : Scores := []
  blocked : List IP := []
  /-- `int64(cg.expiration.Seconds())` -/
  expSecs : Nat
  started : Bool := false
deriving Repr

/-- `newConnGater`: both durations (here in milliseconds) must be positive. -/
def mk? (expirationMs intervalMs : Int) : Option Gater :=
  if expirationMs ≤ 0 || intervalMs ≤ 0 then none
  else some { expSecs := (expirationMs / 1000).toNat }

inductive Err
  | notRunning   -- errConnGaterIsNotrunning
  | notIP        -- manet.ToIP failed
  | noPeerID     -- AddrInfoFromMultiAddr failed (peer.ErrInvalidAddr)
deriving DecidableEq, Repr

/-- `connectionGater.start` (idempotent). -/
def start (g : Gater) : Gater := { g with started := true }

/-- has the entry an expiration set? (`info.expiration != -1`) -/
def PeerInfo.banned (i : PeerInfo) : Bool := i.expiration != -1

/-- `connectionGater.addPenalty` at wall-clock second `now`. -/
def addPenalty (g : Gater) (now : Nat) (addr : Addr) (score : Int) : Gater × Except Err Int :=
  if !g.started then (g, .error .notRunning) else
  match addr.ip with
  | none => (g, .error .notIP)
  | some ip =>
    let old := find g.peerScore ip
    let newScore := match old with | some i => i.score + score | none => score
    let oldExp := match old with | some i => i.expiration | none => -1
    let exp : Int := if newScore ≥ maxPenaltyScore then ((now + g.expSecs : Nat) : Int) else oldExp
    ({ g with peerScore := put g.peerScore ip ⟨newScore, exp⟩ }, .ok newScore)

/-- is the entry removed by a pass of the expiry loop at second `now`? -/
def expired (now : Nat) (i : PeerInfo) : Bool := i.expiration != -1 && decide ((now : Int) > i.expiration)

/-- one pass of the expiry loop in `start` -/
def sweep (g : Gater) (now : Nat) : Gater :=
  { g with peerScore := g.peerScore.filter fun e => !expired now e.2 }

def listBanned (g : Gater) : List IP := (g.peerScore.filter fun e => e.2.banned).map (·.1)

def blockAddr (g : Gater) (ip : IP) : Gater :=
  if ip ∈ g.blocked then g else { g with blocked := g.blocked ++ [ip] }

def unblockAddr (g : Gater) (ip : IP) : Gater := { g with blocked := g.blocked.filter (· ≠ ip) }

/-- `optionWithBlacklist`: `none` entries are strings `net.ParseIP` rejects; then nothing is blocked. -/
def blacklist (g : Gater) (l : List (Option IP)) : Gater × Bool :=
  if l.any (·.isNone) then (g, false)
  else (l.foldl (fun g o => match o with | some ip => blockAddr g ip | none => g) g, true)

def isBanned (g : Gater) (ip : IP) : Bool :=
  match find g.peerScore ip with
  | some i => i.banned
  | none => false

def isBlocked (g : Gater) (ip : IP) : Bool := decide (ip ∈ g.blocked)

/-- `isPeerConnectionAllowed` -/
def isAllowed (g : Gater) (addr : Addr) : Bool :=
  match addr.ip with
  | none => true
  | some ip => !isBlocked g ip && !isBanned g ip

/-! ### the libp2p ConnectionGater interface -/

def interceptPeerDial (_ : Gater) (_pid : Nat) : Bool := true
def interceptAddrDial (g : Gater) (_pid : Nat) (addr : Addr) : Bool := isAllowed g addr
def interceptAccept (g : Gater) (remote : Addr) : Bool := isAllowed g remote
def interceptSecured (g : Gater) (inbound : Bool) (_pid : Nat) (remote : Addr) : Bool :=
  if !inbound then true else isAllowed g remote
def interceptUpgraded (_ : Gater) : Bool := true

/-- an outbound connection attempt passes all gates libp2p consults, in order -/
def outboundAllowed (g : Gater) (pid : Nat) (addr : Addr) : Bool :=
  interceptPeerDial g pid && interceptAddrDial g pid addr && interceptSecured g false pid addr
    && interceptUpgraded g

/-- an inbound connection attempt passes all gates libp2p consults, in order -/
def inboundAllowed (g : Gater) (pid : Nat) (remote : Addr) : Bool :=
  interceptAccept g remote && interceptSecured g true pid remote && interceptUpgraded g

/-! ### Peer.addPenalty / Peer.banPeer -/

/-- result of `Peer.addPenalty` / `Peer.banPeer`: an error, or success with the peer that was
disconnected (`Peer.Disconnect`), if any. -/
inductive PenOut
  | err (e : Err)
  | ok (disconnect : Option Nat)
deriving DecidableEq, Repr

/-- `Peer.addPenalty` -/
def peerAddPenalty (g : Gater) (now : Nat) (addr : Addr) (score : Int) : Gater × PenOut :=
  match addPenalty g now addr score with
  | (g', .error e) => (g', .err e)
  | (g', .ok newScore) =>
    if newScore ≥ maxPenaltyScore then
      match addr.pid with
      | none => (g', .err .noPeerID)
      | some p => (g', .ok (some p))
    else (g', .ok none)

/-- `Peer.banPeer` -/
def banPeer (g : Gater) (now : Nat) (addr : Addr) : Gater × PenOut :=
  match addPenalty g now addr maxPenaltyScore with
  | (g', .error e) => (g', .err e)
  | (g', .ok _) =>
    match addr.pid with
    | none => (g', .err .noPeerID)
    | some p => (g', .ok (some p))

/-! ### operation sequences on the gater alone -/

inductive Op
  | start
  | pen (now : Nat) (addr : Addr) (score : Int)
  | sweep (now : Nat)
  | block (ip : IP)
  | unblock (ip : IP)
  | blacklist (l : List (Option IP))
deriving Repr

def apply (g : Gater) : Op → Gater
  | .start => start g
  | .pen now addr score => (addPenalty g now addr score).1
  | .sweep now => sweep g now
  | .block ip => blockAddr g ip
  | .unblock ip => unblockAddr g ip
  | .blacklist l => (blacklist g l).1

def run (g : Gater) (ops : List Op) : Gater := ops.foldl apply g

end LiskVerif.ConnGater
