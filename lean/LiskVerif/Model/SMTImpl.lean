/-
The batched subtree update algorithm of pkg/trie/smt, transcribed function by function
(smt.go `trie.Update` / `getSubtree` / `updateSubtree` / `updateNode` / `getBinIndex`, subtree.go `newSubTree` /
`newSubtreeFromData` / `newEmptySubTree` / `encode`, node.go node constructors, utils.go `calculateSubTree`,
hasher.go `treeHasher`).  This is the model of what the code DOES, including the stored records
(key = subtree root hash, value = encoded subtree), the records it deletes and the ones it leaves behind.

Conventions of the transcription
* Go slices are lists; an index or a slice bound out of range is the outcome `Err.panic` (the model assumes
  `cap = len` for the byte strings read from the database, which is what the harness database provides);
* `uint8` heights are `Nat`s: they come from bytes (decode) or from `structurePos + 1 ≤ subtreeHeight`;
  the one place where the Go arithmetic could wrap (`subtreeHeight - h` with `h > subtreeHeight`, reachable
  only from a corrupted record) leads to a panic in Go as well (`lengthBins[-1]`) and is `Err.panic` here;
* `updateNode` runs in goroutines and the two recursive calls run concurrently; every record key written or
  deleted is the hash of a subtree at its own position, so the order does not matter for the final store and
  the model runs left before right.  A left error is returned without looking at the right result (as the code
  does).  The `lengthBins` / `lengthBase` bookkeeping is a cumulative-count representation of "number of
  key/value pairs in this slice of bins" and is replaced by that count (`binTotal`); `index` = first non-empty bin;
* recursion through the subtree levels takes fuel (one unit per stored subtree level);
* the hash is a parameter, `hashSize = len(emptyHash) = (H []).length`.
Core Lean only.
-/
import LiskVerif.Model.SMTSpec

namespace LiskVerif.SMTImpl
open LiskVerif LiskVerif.SMT

/-- outcomes other than a normal return -/
inductive Err where
  | panic                 -- Go run-time panic (index / slice bounds out of range, ints.Max of nothing, non-terminating hasher)
  | err (tag : String)    -- an `error` value returned by the code
  | fuel                  -- model artefact: fuel exhausted (never with fuel ≥ number of subtree levels + 1)
deriving DecidableEq, Repr

abbrev Res (α : Type) := Except Err α

inductive Kind where
  | empty | leaf | stub | temp
deriving DecidableEq, Repr

/-- node.go `node` (without the proof-only `index`) -/
structure Node where
  kind : Kind
  key : Bytes
  data : Bytes
  hash : Bytes
deriving DecidableEq, Repr

/-- subtree.go `subTree` -/
structure SubTree where
  struct : List Nat
  root : Bytes
  nodes : List Node
deriving DecidableEq, Repr

/-- the trie parameters: hash, `keyLength`, `subtreeHeight` (`maxNumberOfNodes = 1 <<< subtreeHeight`) -/
structure Cfg where
  H : HashFn
  keyLen : Nat
  sth : Nat

def Cfg.maxNodes (c : Cfg) : Nat := 2 ^ c.sth
def Cfg.hashSize (c : Cfg) : Nat := (emptyHash c.H).length

/-! ### node.go -/

def newEmptyNode (H : HashFn) : Node := ⟨.empty, [], [2], emptyHash H⟩
def newLeafNode (H : HashFn) (key value : Bytes) : Node :=
  ⟨.leaf, key, 0 :: (key ++ value), H (0 :: (key ++ value))⟩
def newBranchHash (H : HashFn) (l r : Bytes) : Bytes := H (1 :: (l ++ r))
def newStubNode (nodeHash : Bytes) : Node := ⟨.stub, [], 1 :: nodeHash, nodeHash⟩
def newTempNode : Node := ⟨.temp, [], [], []⟩

/-! ### hasher.go `treeHasher` -/

/-- `structure[i]-1` on uint8 -/
def wrapPred (s : Nat) : Nat := if s = 0 then 255 else s - 1

/-- one pass of the loop of `treeHasher`: nodes at `height` are paired, the others copied -/
def hashPass (H : HashFn) (height : Nat) : List Bytes → List Nat → Res (List Bytes × List Nat)
  | [], _ => .ok ([], [])
  | _ :: _, [] => .error .panic                       -- structure[i] out of range
  | h :: hs, s :: ss =>
    if s ≠ height then
      (hashPass H height hs ss).map fun r => (h :: r.1, s :: r.2)
    else
      match hs with
      | h2 :: hs' =>
        (hashPass H height hs' ss.tail).map fun r => (newBranchHash H h h2 :: r.1, wrapPred s :: r.2)
      | [] => .error .panic                           -- nodeHashes[i+1] out of range

/-- `treeHasher` from a height ≥ 1 on: the recursion ends at height 1 at the latest -/
def treeHasherUp (H : HashFn) : Nat → List Bytes → List Nat → Res Bytes
  | _, [h], _ => .ok h
  | 0, _, _ => .error .panic                          -- not reached: height 1 returns
  | height + 1, hashes, struct => do
    let (nh, ns) ← hashPass H (height + 1) hashes struct
    if height + 1 = 1 then
      match nh with
      | h :: _ => .ok h
      | [] => .error .panic
    else treeHasherUp H height nh ns

/-- `treeHasher(nodeHashes, structure, height)`.  Height 0 with more than one hash (reachable only from a
corrupted record) pairs the height-0 entries and continues at height 255 (the uint8 height wraps). -/
def treeHasher (H : HashFn) (height : Nat) (hashes : List Bytes) (struct : List Nat) : Res Bytes :=
  match hashes with
  | [h] => .ok h
  | _ =>
    if height = 0 then do
      let (nh, ns) ← hashPass H 0 hashes struct
      treeHasherUp H 255 nh ns
    else treeHasherUp H height hashes struct

/-! ### subtree.go -/

/-- `ints.Max(structure...)` (panics on the empty slice) -/
def maxStructure : List Nat → Res Nat
  | [] => .error .panic
  | s :: ss => .ok (ss.foldl max s)

def newSubtreeFromData (H : HashFn) (struct : List Nat) (nodes : List Node) : Res SubTree := do
  let height ← maxStructure struct
  let root ← treeHasher H height (nodes.map (·.hash)) struct
  .ok ⟨struct, root, nodes⟩

def newEmptySubTree (H : HashFn) : SubTree := ⟨[0], emptyHash H, [newEmptyNode H]⟩

/-- the node data section of a stored subtree: `0 key value` leaf, `1 hash` stub, `2` empty -/
def decodeNodes (H : HashFn) (keyLen hashSize : Nat) : Nat → Bytes → Res (List Node)
  | _, [] => .ok []
  | 0, _ :: _ => .error .fuel
  | fuel + 1, p :: r =>
    if p = 0 then
      if r.length < keyLen + hashSize then .error .panic      -- slice bounds out of range
      else
        (decodeNodes H keyLen hashSize fuel (r.drop (keyLen + hashSize))).map fun ns =>
          newLeafNode H (r.take keyLen) ((r.drop keyLen).take hashSize) :: ns
    else if p = 1 then
      if r.length < hashSize then .error .panic
      else (decodeNodes H keyLen hashSize fuel (r.drop hashSize)).map fun ns => newStubNode (r.take hashSize) :: ns
    else if p = 2 then
      (decodeNodes H keyLen hashSize fuel r).map fun ns => newEmptyNode H :: ns
    else .error (.err "invalid-prefix")

/-- `newSubTree(data, keyLength, hasher)` -/
def newSubTree (c : Cfg) (data : Bytes) : Res SubTree :=
  match data with
  | [] => .error (.err "empty-data")
  | n :: rest =>
    let nodeLength := n.toNat + 1
    if rest.length < nodeLength then .error .panic            -- data[1 : nodeLength+1]
    else do
      let struct := (rest.take nodeLength).map (·.toNat)
      let nodeData := rest.drop nodeLength
      let nodes ← decodeNodes c.H c.keyLen c.hashSize (nodeData.length + 1) nodeData
      newSubtreeFromData c.H struct nodes

/-- `subTree.encode`: length byte (number of nodes − 1 as uint8), structure, node data -/
def SubTree.encode (t : SubTree) : Bytes :=
  UInt8.ofNat (t.struct.length + 255) :: (t.struct.map UInt8.ofNat ++ t.nodes.flatMap (·.data))

/-! ### utils.go `calculateSubTree` -/

abbrev NS := List Node × List Nat        -- `nodeStructure`

/-- the last element of the temp holder and the holder without it -/
def popLast : List NS → Res (NS × List NS)
  | [] => .error .panic
  | l@(_ :: _) => match l.getLast? with
    | some x => .ok (x, l.dropLast)
    | none => .error .panic

/-- the loop body of `calculateSubTree` over (nodes, structure) from position i on -/
def calcPass (H : HashFn) (height : Nat) : List Node → List Nat → List NS → Res (List Node × List Nat × List NS)
  | [], _, th => .ok ([], [], th)
  | _ :: _, [], _ => .error .panic
  | n :: ns, s :: ss, th =>
    if s ≠ height then
      (calcPass H height ns ss th).map fun r => (n :: r.1, s :: r.2.1, r.2.2)
    else
      match ns with
      | [] => .error .panic                             -- nodes[i+1]
      | n2 :: ns' =>
        if n.kind = .empty ∧ n2.kind = .empty then
          (calcPass H height ns' ss.tail th).map fun r => (n :: r.1, (s - 1) :: r.2.1, r.2.2)
        else if n.kind = .empty ∧ n2.kind = .leaf then
          (calcPass H height ns' ss.tail th).map fun r => (n2 :: r.1, (s - 1) :: r.2.1, r.2.2)
        else if n.kind = .leaf ∧ n2.kind = .empty then
          (calcPass H height ns' ss.tail th).map fun r => (n :: r.1, (s - 1) :: r.2.1, r.2.2)
        else do
          let (left, th1) ← if n.kind = .temp then popLast th else .ok (([n], [s]), th)
          let (right, th2) ← if n2.kind = .temp then popLast th1 else
            match ss with
            | s2 :: _ => .ok (([n2], [s2]), th1)
            | [] => .error .panic                       -- structure[i+1]
          let th3 := (left.1 ++ right.1, left.2 ++ right.2) :: th2
          (calcPass H height ns' ss.tail th3).map fun r => (newTempNode :: r.1, (s - 1) :: r.2.1, r.2.2)

/-- `calculateSubTree(nodes, structure, height, hasher, tempHolder)` -/
def calculateSubTree (H : HashFn) : Nat → List Node → List Nat → List NS → Res SubTree
  | 0, nodes, _, _ => newSubtreeFromData H [0] nodes
  | height + 1, nodes, struct, th => do
    let (nn, nst, th') ← calcPass H (height + 1) nodes struct th
    if height + 1 = 1 then
      match nn with
      | [] => .error .panic
      | n0 :: _ =>
        if n0.kind = .temp then
          match th' with
          | [] => .error .panic
          | t0 :: _ => newSubtreeFromData H t0.2 t0.1
        else newSubtreeFromData H [0] nn
    else calculateSubTree H height nn nst th'

/-! ### the database: association list, one entry per key -/

abbrev DB := List (Bytes × Bytes)

def dbGet : DB → Bytes → Option Bytes
  | [], _ => none
  | kv :: r, k => if kv.1 = k then some kv.2 else dbGet r k
def dbDel (db : DB) (k : Bytes) : DB := db.filter fun kv => decide (kv.1 ≠ k)
def dbSet (db : DB) (k v : Bytes) : DB := (k, v) :: dbDel db k

/-! ### smt.go -/

/-- `getSubtree(db, nodeHash)` -/
def getSubtree (c : Cfg) (db : DB) (nodeHash : Bytes) : Res SubTree :=
  if nodeHash.length = 0 ∨ nodeHash = emptyHash c.H then .ok (newEmptySubTree c.H)
  else match dbGet db nodeHash with
    | none => .error (.err "missing-subtree")
    | some enc => newSubTree c enc

/-- `getBinIndex(key, height, b)` with `b = height / 8` -/
def getBinIndex (c : Cfg) (key : Bytes) (height : Nat) : Res Nat :=
  let b := height / 8
  if c.sth = 4 then
    if height % 8 = 0 then
      match key[b]? with
      | some x => .ok (x.toNat / 16)
      | none => .error .panic
    else if height % 8 = 4 then
      match key[b]? with
      | some x => .ok (x.toNat % 16)
      | none => .error .panic
    else .error (.err "invalid-bin-index")
  else if c.sth = 8 then
    match key[b]? with
    | some x => .ok x.toNat
    | none => .error .panic
  else .error (.err "unsupported-subtree-height")

/-- `bytes.IsBitSet(bits, index)` -/
def isBitSet (bits : Bytes) (index : Nat) : Res Bool :=
  match bits[index / 8]? with
  | some x => .ok (x.toNat.testBit (7 - index % 8))
  | none => .error .panic

/-- bin indexes of all pairs, in order (the first failing key decides the outcome) -/
def binIndexes (c : Cfg) (height : Nat) : List KV → Res (List (Nat × KV))
  | [] => .ok []
  | kv :: r => do
    let i ← getBinIndex c kv.1 height
    let rest ← binIndexes c height r
    .ok ((i, kv) :: rest)

/-- `keyBins` / `valueBins`: bin `i` holds the pairs with bin index `i`, in batch order -/
def mkBins (n : Nat) (ikvs : List (Nat × KV)) : List (List KV) :=
  (List.range n).map fun i => (ikvs.filter fun p => p.1 == i).map (·.2)

def binTotal (bins : List (List KV)) : Nat := (bins.map List.length).sum

/-- the only pair of the bins (used when `binTotal = 1`): first pair of the first non-empty bin -/
def firstKV : List (List KV) → Option KV
  | [] => none
  | [] :: r => firstKV r
  | (kv :: _) :: _ => some kv

/-- result of `updateNode` / of the lower `updateSubtree`: the database after the call and the outcome -/
abbrev St (α : Type) := DB × Res α

/-- the `totalData == 1` shortcuts of `updateNode`: a single pair meeting an empty node or the leaf of its own key
is settled at this node (`none`: fall through to the general case) -/
def singleResult (c : Cfg) (pos : Nat) (bins : List (List KV)) (cur : Node) : Option NS :=
  if binTotal bins = 1 then
    match firstKV bins with
    | none => none
    | some (k, v) =>
      if cur.kind = .empty then
        if v.length ≠ 0 then some ([newLeafNode c.H k v], [pos]) else some ([cur], [pos])
      else if cur.kind = .leaf ∧ cur.key = k then
        if v.length ≠ 0 then some ([newLeafNode c.H k v], [pos]) else some ([newEmptyNode c.H], [pos])
      else none
  else none

/-- the subtree below a bottom node: a stub's record is read and deleted, an empty node stands for the empty subtree,
a leaf for the subtree holding just that leaf -/
def readBottom (c : Cfg) (db : DB) (cur : Node) : St SubTree :=
  match cur.kind with
  | .stub => match getSubtree c db cur.hash with
    | .error e => (db, .error e)
    | .ok st => (dbDel db cur.hash, .ok st)
  | .empty => (db, getSubtree c db cur.hash)
  | .leaf => (db, newSubtreeFromData c.H [0] [cur])
  | .temp => (db, .error (.err "invalid-index-node-kind"))

/-- `updateNode` at `structurePos == subtreeHeight`: descend into the stored subtree below (a stub's record is read
and deleted, an empty node / a leaf start a new lower subtree), update it with the pairs of the (single) bin and
put its only node, or else a stub for its root, at this position -/
def updateBottom (c : Cfg) (lower : DB → List KV → SubTree → Nat → St SubTree) (height pos : Nat)
    (db : DB) (bins : List (List KV)) (cur : Node) : St NS :=
  match bins with
  | [bin] =>
    match readBottom c db cur with
    | (db1, .error e) => (db1, .error e)
    | (db1, .ok bt) =>
      match lower db1 bin bt (height + pos) with
      | (db2, .error e) => (db2, .error e)
      | (db2, .ok nst) =>
        match nst.nodes with
        | [n] => (db2, .ok ([n], [pos]))
        | _ => (db2, .ok ([newStubNode nst.root], [pos]))
  | _ => (db, .error (.err "invalid-key-value-length"))

/-- the two children an empty node / a leaf is pushed down to (`IsBitSet(key, height+structurePos)` decides the
side of the leaf); a stub cannot be split -/
def splitNode (c : Cfg) (height pos : Nat) (cur : Node) : Res (Node × Node) :=
  match cur.kind with
  | .empty => .ok (newEmptyNode c.H, newEmptyNode c.H)
  | .leaf => match isBitSet cur.key (height + pos) with
    | .ok true => .ok (newEmptyNode c.H, cur)
    | .ok false => .ok (cur, newEmptyNode c.H)
    | .error e => .error e
  | _ => .error (.err "invalid-node-kind")

/-- `updateNode(db, keyBins, valueBins, …, currentNode, height, structurePos)`; `rem = subtreeHeight - structurePos`
levels are left inside this subtree; `lower` is `updateSubtree` for the next stored level. -/
def updateNode (c : Cfg) (lower : DB → List KV → SubTree → Nat → St SubTree) (height : Nat) :
    (rem : Nat) → DB → List (List KV) → Node → St NS
  | rem, db, bins, cur =>
    let pos := c.sth - rem
    if bins.isEmpty then (db, .error .panic) else              -- lengthBins[len(lengthBins)-1]
    let total := binTotal bins
    if total = 0 then (db, .ok ([cur], [pos])) else
    match singleResult c pos bins cur with
    | some r => (db, .ok r)
    | none =>
      match rem with
      | 0 => updateBottom c lower height pos db bins cur
      | rem' + 1 =>
        match splitNode c height pos cur with
        | .error e => (db, .error e)
        | .ok (leftNode, rightNode) =>
          let splitIndex := bins.length / 2
          if splitIndex = 0 then (db, .error .panic) else        -- lengthBins[splitIndex-1]
          match updateNode c lower height rem' db (bins.take splitIndex) leftNode with
          | (db1, .error e) => (db1, .error e)
          | (db1, .ok l) =>
            match updateNode c lower height rem' db1 (bins.drop splitIndex) rightNode with
            | (db2, .error e) => (db2, .error e)
            | (db2, .ok r) => (db2, .ok (l.1 ++ r.1, l.2 ++ r.2))

/-- the loop of `updateSubtree` over the nodes of the current subtree -/
def updateNodes (c : Cfg) (lower : DB → List KV → SubTree → Nat → St SubTree) (height : Nat) :
    List Node → List Nat → DB → List (List KV) → Nat → St (NS × Nat)
  | [], _, db, _, binOffset => (db, .ok (([], []), binOffset))
  | _ :: _, [], db, _, _ => (db, .error .panic)                  -- structure[i]
  | n :: ns, h :: hs, db, bins, binOffset =>
    if c.sth < h then (db, .error .panic) else                   -- newOffset = 0, empty lengthBins
    let newOffset := 2 ^ (c.sth - h)
    if bins.length < newOffset then (db, .error .panic) else     -- keyBins[binOffset : binOffset+newOffset]
    match updateNode c lower height (c.sth - h) db (bins.take newOffset) n with
    | (db1, .error e) => (db1, .error e)
    | (db1, .ok r) =>
      match updateNodes c lower height ns hs db1 (bins.drop newOffset) (binOffset + newOffset) with
      | (db2, .error e) => (db2, .error e)
      | (db2, .ok (rs, off)) => (db2, .ok ((r.1 ++ rs.1, r.2 ++ rs.2), off))

/-- `updateSubtree(db, keys, values, currentSubtree, height)` -/
def updateSubtree (c : Cfg) : Nat → DB → List KV → SubTree → Nat → St SubTree
  | 0, db, _, _, _ => (db, .error .fuel)
  | fuel + 1, db, kvs, cur, height =>
    if kvs.isEmpty then (db, .ok cur) else
    match binIndexes c height kvs with
    | .error e => (db, .error e)
    | .ok ikvs =>
      let bins := mkBins c.maxNodes ikvs
      match updateNodes c (updateSubtree c fuel) height cur.nodes cur.struct db bins 0 with
      | (db1, .error e) => (db1, .error e)
      | (db1, .ok ((newNodes, newStructure), binOffset)) =>
        if binOffset ≠ c.maxNodes then (db1, .error (.err "bin-offset")) else
        match (do let m ← maxStructure newStructure
                  calculateSubTree c.H m newNodes newStructure []) with
        | .error e => (db1, .error e)
        | .ok newSubtree => (dbSet db1 newSubtree.root newSubtree.encode, .ok newSubtree)

/-- first occurrence of every key ("update keys to be unique") -/
def uniqueFirst : List KV → List KV
  | [] => []
  | kv :: r => kv :: (uniqueFirst r).filter fun x => decide (x.1 ≠ kv.1)

structure Trie where
  root : Bytes

/-- fuel that covers every stored level for these keys (each level consumes `subtreeHeight ≥ 1` key bits and the
walk panics at the end of the shortest key it follows) -/
def fuelFor (c : Cfg) (keys : List Bytes) : Nat := 8 * (keys.foldl (fun m k => max m k.length) c.keyLen) + 8

/-- `trie.Update(db, keys, values)`: the new trie, the database and the returned root / error.
On an error the trie keeps its root (the database keeps what was written before the error). -/
def update (c : Cfg) (t : Trie) (db : DB) (keys values : List Bytes) : Trie × DB × Res Bytes :=
  if keys.length ≠ values.length then (t, db, .error (.err "length-mismatch")) else
  if keys.length = 0 then (t, db, .ok t.root) else
  let kvs := uniqueFirst (keys.zip values)
  match getSubtree c db t.root with
  | .error e => (t, db, .error e)
  | .ok root =>
    match updateSubtree c (fuelFor c keys) db kvs root 0 with
    | (db1, .error e) => (t, db1, .error e)
    | (db1, .ok nr) => (⟨nr.root⟩, db1, .ok nr.root)

/-- `NewTrie(root, keyLength)`: the empty root stands for the empty hash.  (The `keyLength == 0` default of the
code assigns to the parameter after it was copied, so the trie keeps key length 0 – modelled as is: `keyLen` of
`Cfg` is what the caller passed.) -/
def newTrie (H : HashFn) (root : Bytes) : Trie := ⟨if root.length = 0 then emptyHash H else root⟩

end LiskVerif.SMTImpl
