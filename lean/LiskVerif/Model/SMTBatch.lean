/-
`smt.UniqueAndSort` (pkg/trie/smt/utils.go), the exported batch normaliser (C10): the writes of a batch are folded
from left to right into a list of entries — a key seen for the first time is appended, a key seen again has its
entry overwritten in place — and the entries are then sorted by key. The result holds every key of the batch once,
with the value of its LAST write, in ascending key order.
-/
import LiskVerif.Model.SMTSpec

namespace LiskVerif.SMT

/-- one write folded into the entries collected so far -/
def foldWrite (acc : List KV) (kv : KV) : List KV :=
  if acc.any (fun x => x.1 == kv.1) then acc.map (fun x => if x.1 == kv.1 then kv else x) else acc ++ [kv]

/-- the entries after all writes of the batch, in order of first appearance -/
def uniqueKVs (b : List KV) : List KV := b.foldl foldWrite []

def kvKeyLe (a b : KV) : Bool := ble a.1 b.1

/-- `UniqueAndSort` -/
def uniqueAndSort (b : List KV) : List KV := isort kvKeyLe (uniqueKVs b)

/-- the value the batch writes last for `k` (`none`: the batch does not write `k`) -/
def lastWrite (k : Bytes) : List KV → Option Bytes
  | [] => none
  | kv :: r => match lastWrite k r with
    | some v => some v
    | none => if kv.1 = k then some kv.2 else none

end LiskVerif.SMT
