/-
Model of the OTHER writers and readers of the persisted generator information (core Lean only):

  * the generator RPC endpoint `pkg/engine/endpoint/generator_endpoint.go`
      `HandleUpdateStatus` (key lookup / decrypt, disable branch, `HeaderHasPriority`,
      `verifyAndUpdateGeneratorInfo`, write, `EnableGeneration`), `HandleSetStatus`, `HandleGetStatus`,
      `HandleSetKeys` / `HandleHasKeys` / `HandleGetAllKeys`;
  * `Generator.Init` (`saveGeneratorsFromFile`, `loadGenerator`), `EnableGeneration`,
    `DisableGeneration`, `IsGenerationEnabled`, `GeneratorInfo.Equal` / `IsZero`.

The forge bookkeeping is NOT repeated here: the state contains the `GState` of
`LiskVerif.Model.Generator` and every chain / forge step is `Generator.applyOp .fixed`; the only
thing this model adds to a forge step is the gate `enabledKeys[address]` of `Generator.forge`.

State of the generator database:
  * prefix 0 (twice): `GeneratorInfo` per address = `GState.infos` (association list; an address
    without entry has no record, `(v, {})` is the stored all-zero record);
  * prefix 1: `Keys` per address = `SState.keys`.
In memory (lost at a restart): `Generator.enabledKeys` = `SState.enabled`.
-/
import LiskVerif.Model.Generator

namespace LiskVerif.GenStatus
open LiskVerif LiskVerif.Generator

/-! ## stored keys -/

/-- what the key store holds for an address -/
inductive KeyKind where
  | plain                  -- `Keys{Type: "plain"}`: usable without password, enabled by `loadGenerator`
  | encrypted (pw : Nat)   -- `Keys{Type: "encrypted"}` whose message decrypts with password `pw` only
  | unusable               -- `Keys{Type: "encrypted", Data: empty}`: what `HandleSetKeys` stores for
                           -- type "encrypted" (it never copies the request data) - no password opens it
deriving Repr, DecidableEq, Inhabited

abbrev KeyStore := List (Nat × KeyKind)

def getKey (keys : KeyStore) (v : Nat) : Option KeyKind :=
  match keys.find? (fun p => p.1 == v) with
  | some p => some p.2
  | none => none

def setKey (keys : KeyStore) (v : Nat) (k : KeyKind) : KeyStore :=
  match keys with
  | [] => [(v, k)]
  | (a, x) :: r => if a == v then (a, k) :: r else (a, x) :: setKey r v k

/-- the stored record of an address (`none`: nothing stored) -/
def lookupInfo (infos : List (Nat × Info)) (v : Nat) : Option Info :=
  match infos.find? (fun p => p.1 == v) with
  | some p => some p.2
  | none => none

/-! ## state -/

structure SState where
  gs : GState := {}          -- chain tip, generator information, ghost lists (Model/Generator)
  enabled : List Nat := []   -- `Generator.enabledKeys` (addresses), in memory
  keys : KeyStore := []      -- key store of the generator database
deriving Repr

def isEnabled (s : SState) (v : Nat) : Bool := s.enabled.contains v

/-- `EnableGeneration` -/
def enable (en : List Nat) (v : Nat) : List Nat := v :: en.filter (fun a => a != v)
/-- `DisableGeneration` -/
def disable (en : List Nat) (v : Nat) : List Nat := en.filter (fun a => a != v)

/-! ## `Generator.Init` -/

/-- `saveGeneratorsFromFile`: every entry of the keys file overwrites the stored keys of its address -/
def importFile (keys : KeyStore) : List (Nat × KeyKind) → KeyStore
  | [] => keys
  | (v, k) :: r => importFile (setKey keys v k) r

/-- `loadGenerator`: exactly the addresses with PLAIN stored keys are enabled - without any look at
the stored generator information; the information itself is not touched -/
def loadGenerator (keys : KeyStore) : List Nat :=
  (keys.map (·.1)).filter fun v => getKey keys v == some KeyKind.plain

/-- process restart: new `Generator`, `Init` on the same database (`file`: content of the configured
keys file, `[]` if none). `enabledKeys` starts empty; the generator information is kept. -/
def restart (rule : Rule) (addr : Nat → Bytes) (s : SState) (file : List (Nat × KeyKind)) : SState :=
  let keys := importFile s.keys file
  { gs := applyOp rule addr s.gs .restart, enabled := loadGenerator keys, keys := keys }

/-! ## `HandleUpdateStatus` -/

structure UpdReq where
  v : Nat              -- generatorAddress
  pw : Nat             -- password
  enable : Bool
  height : Nat
  mhp : Nat            -- maxHeightPrevoted
  mhg : Nat            -- maxHeightGenerated
deriving Repr, DecidableEq

inductive UpdRes where
  | badParams        -- `json.Unmarshal` fails (a number does not fit uint32, …)
  | notStored        -- "generator … is not stored"
  | badKeys          -- stored keys do not decode
  | badPassword      -- `DecryptMessageWithPassword` fails
  | disabled         -- `enable = false`: `DisableGeneration`, response `enabled: false`
  | notSynced        -- `HeaderHasPriority` is false
  | contradicting    -- a record is stored and differs from the input
  | noPrevious       -- nothing stored and the input is not all-zero
  | enabled          -- record written, `EnableGeneration`, response `enabled: true`
  | crashed          -- the process died inside the handler (see `CrashPt`)
deriving Repr, DecidableEq

/-- where the process dies inside the enable path (only reached when all checks passed) -/
inductive CrashPt where
  | none
  | beforeWrite   -- before `generatorDB.Write(batch)` is durable
  | afterWrite    -- between the durable write and `EnableGeneration`
deriving Repr, DecidableEq

def u32 (n : Nat) : Bool := decide (n < 4294967296)

/-- key lookup and decryption of `HandleUpdateStatus`; `none` = plain keys available -/
def unlock (keys : KeyStore) (v pw : Nat) : Option UpdRes :=
  match getKey keys v with
  | none => some .notStored
  | some .plain => none
  | some (.encrypted p) => if p = pw then none else some .badPassword
  | some .unusable => some .badKeys

def reqInfo (r : UpdReq) : Info := { height := r.height, mhp := r.mhp, mhg := r.mhg }

/-- `verifyAndUpdateGeneratorInfo`, the decision (`none` = accepted): a stored record must be
`Equal` to the input; with nothing stored the input must be `IsZero` -/
def verifyInfo (stored : Option Info) (inp : Info) : Option UpdRes :=
  match stored with
  | some s => if inp = s then none else some .contradicting
  | none => if inp = {} then none else some .noPrevious

/-- `HandleUpdateStatus`. `synced`: answer of `HeaderHasPriority(lastBlock.Header, height,
maxHeightPrevoted, maxHeightGenerated)` (an input: it depends on the chain only). -/
def update (rule : Rule) (addr : Nat → Bytes) (s : SState) (r : UpdReq) (synced : Bool) (c : CrashPt) :
    SState × UpdRes :=
  if !(u32 r.height && u32 r.mhp && u32 r.mhg) then (s, .badParams) else
  match unlock s.keys r.v r.pw with
  | some e => (s, e)
  | none =>
    if !r.enable then ({ s with enabled := disable s.enabled r.v }, .disabled)
    else if !synced then (s, .notSynced)
    else
      match verifyInfo (lookupInfo s.gs.infos r.v) (reqInfo r) with
      | some e => (s, e)
      | none =>
        let written : SState := { s with gs := { s.gs with infos := setInfo s.gs.infos r.v (reqInfo r) } }
        match c with
        | .beforeWrite => (restart rule addr s [], .crashed)
        | .afterWrite => (restart rule addr written [], .crashed)
        | .none => ({ written with enabled := enable s.enabled r.v }, .enabled)

/-! ## `HandleSetStatus`, `HandleSetKeys`, readers -/

inductive SetRes where
  | badParams
  | ok
deriving Repr, DecidableEq

/-- `HandleSetStatus`: no key lookup, no comparison, no look at `enabledKeys` - the record is
overwritten with the input -/
def setStatus (s : SState) (v h p g : Nat) : SState × SetRes :=
  if !(u32 h && u32 p && u32 g) then (s, .badParams)
  else ({ s with gs := { s.gs with infos := setInfo s.gs.infos v { height := h, mhp := p, mhg := g } } }, .ok)

/-- `HandleSetKeys` with valid parameters: type "plain" stores the keys, type "encrypted" stores an
entry without data; `enabledKeys` is not touched -/
def setKeys (s : SState) (v : Nat) (plain : Bool) : SState :=
  { s with keys := setKey s.keys v (if plain then .plain else .unusable) }

/-- `HandleHasKeys` -/
def hasKeys (s : SState) (v : Nat) : Bool := (getKey s.keys v).isSome

/-- `HandleGetStatus`: one entry per stored record with the `IsGenerationEnabled` flag (the code
returns them in key order; the order is not part of the model) -/
def getStatus (s : SState) : List (Nat × Bool × Info) :=
  s.gs.infos.map fun p => (p.1, isEnabled s p.1, p.2)

/-! ## operations -/

inductive ForgeRes where
  | notEnabled   -- `enabledKeys` has no entry for the slot's generator: `forge` returns silently
  | forged
deriving Repr, DecidableEq

/-- `Generator.forge` in the slot of validator `v`: the step of Model/Generator behind the gate -/
def forge (rule : Rule) (addr : Nat → Bytes) (s : SState) (v : Nat) (o : Outcome) (mhp : Nat) :
    SState × ForgeRes :=
  if isEnabled s v then ({ s with gs := applyOp rule addr s.gs (.forge v o mhp) }, .forged)
  else (s, .notEnabled)

inductive SOp where
  | ext (mhp : Nat)
  | del (k : Nat) (mhp : Nat)
  | forge (v : Nat) (o : Outcome) (mhp : Nat)
  | restart (file : List (Nat × KeyKind))
  | update (r : UpdReq) (synced : Bool) (c : CrashPt)
  | setStatus (v h p g : Nat)
  | setKeys (v : Nat) (plain : Bool)
deriving Repr

def SOp.isSetStatus : SOp → Bool
  | .setStatus .. => true
  | _ => false

def applyS (rule : Rule) (addr : Nat → Bytes) (s : SState) : SOp → SState
  | .ext mhp => { s with gs := applyOp rule addr s.gs (.ext mhp) }
  | .del k mhp => { s with gs := applyOp rule addr s.gs (.del k mhp) }
  | .forge v o mhp => (forge rule addr s v o mhp).1
  | .restart file => restart rule addr s file
  | .update r synced c => (update rule addr s r synced c).1
  | .setStatus v h p g => (setStatus s v h p g).1
  | .setKeys v plain => setKeys s v plain

def runS (rule : Rule) (addr : Nat → Bytes) (s : SState) : List SOp → SState
  | [] => s
  | op :: r => runS rule addr (applyS rule addr s op) r

/-- the operations of Model/Generator a run performs on the embedded `GState`: chain steps as they
are, forge steps that pass the gate, restarts (also the ones of the crash points); the endpoint
operations contribute nothing -/
def projOps (rule : Rule) (addr : Nat → Bytes) : SState → List SOp → List Op
  | _, [] => []
  | s, op :: r =>
    let rest := projOps rule addr (applyS rule addr s op) r
    match op with
    | .ext mhp => .ext mhp :: rest
    | .del k mhp => .del k mhp :: rest
    | .forge v o mhp => if isEnabled s v then .forge v o mhp :: rest else rest
    | .restart _ => .restart :: rest
    | .update r synced c => if (update rule addr s r synced c).2 = .crashed then .restart :: rest else rest
    | .setStatus .. => rest
    | .setKeys .. => rest

end LiskVerif.GenStatus
