/-
The `uint32` layer of the liskbft model: every place of pkg/consensus/liskbft (validator.go, module.go,
api.go) where the Go code computes `+ 1`, `- 1`, a difference or a conversion on a height, and what
`Model/BFT.lean` (heights are `Nat`) does there.

| Go expression                                                             | model                                  | `Nat` exact when |
|---------------------------------------------------------------------------|----------------------------------------|------------------|
| `maxHeightGenerated >= height` (updatePrevotesPrecommits, guard)          | `n.mhg ≥ n.height`                     | always           |
| `heightNotPrevoted+1`, `largestHeightPrecommit+1` (minPrecomimtHeight)    | `(· + 1) % u32`                        | always (wraps in the model too) |
| `maxHeightGenerated+1` (minPrevoteHeight)                                 | `(n.mhg + 1) % u32`                    | always; behind the guard `mhg < height` it never wraps |
| `int(currentHeight)-int(heightPreviousBlock) < len(…)`, index `int(currentHeight-heightPreviousBlock)` (getHeightNotPrevoted) | `cur - prev < infos.length`, `infos[cur - prev]?` (truncated subtraction) | `prev ≤ cur` — invariant of the loop behind the guard (`hnpLoopGo` below; for `prev > cur` Go panics) |
| `oldest.height - 1` (getHeightNotPrevoted)                                | `(o.height + u32 - 1) % u32`           | always           |
| `prevoteWeight += bftWeight`, `precommitWeight += bftWeight` (`uint64`)   | `+` on `Nat`                           | sum `< 2^64` (SetBFTParameters bounds the aggregate weight) |
| `for height := from; height <= to; height++` (bftParamsCache.cache)       | `cacheOk`                              | `to < 2^32-1`; for `to = 2^32-1` the loop cannot end by its condition: `processU32` |
| `ints.Min(oldest.height, maxHeightCertified+1)` (BeforeTransactionsExecute) | `min oldest (mhc + 1)`               | `mhc < 2^32-1`; at `2^32-1` the sum wraps to 0 and nothing is pruned: `processU32` |
| `currentHeight + 1`, `nextHeight - 1` (SetBFTParameters), `… + 1` (SetGeneratorKeys) | `currentHeight + 1`, `next - 1` | `currentHeight < 2^32-1` — holds in every state reachable from a genesis height `≤ 2^32-2`, because the block at `2^32-1` is always rejected |
| `bytes.FromUint32(height + 1)` (NextHeightBFTParameters)                  | `k > h`                                | `h < 2^32-1`; at `2^32-1` the range starts at 0: `nextHeightParamsU32` |
| `currentHeight - previousHeight - 1`, `int(offset) >= len(…)` (ImpliesMaximalPrevotes) | `n.height - h.mhg - 1` | always (reached only with `mhg < height = currentHeight`) |

`processU32` and `nextHeightParamsU32` are what the driver runs; `Props/C02_Arith.lean` proves that
they are `process` / `nextHeightParams` below the top of the range, and ties every row of the table to
the expression regenerated from the Go source (tools/fngen, `Gen/Fns2.lean`: `Gen.bft…`).
-/
import LiskVerif.Model.BFT

namespace LiskVerif.BFT

/-- `Module.BeforeTransactionsExecute` with the `uint32` behaviour at the top of the range.

* height `2^32-1`: `bftParamsCache.cache(from, to)` runs `for height := from; height <= to; height++`;
  with `to = MaxUint32` the condition holds for every `uint32`, the counter wraps to 0 and (the window
  holding fewer than 2^32 consecutive heights, `from > 0`) no parameters are found for height 0: the
  block is rejected.
* `maxHeightCertified = 2^32-1` (height of the aggregate commit, not checked by this module):
  `maxHeightCertified+1` wraps to 0, `minHeightBFTParamsRequired = 0`, `deleteBFTParams(0)` /
  `deleteGeneratorKeys(0)` see at most one entry and delete nothing. -/
def processU32 (s : State) (h : Header) : Except Err State :=
  if h.height + 1 ≥ u32 then .error .paramsNotFound
  else
    match process s h with
    | .error e => .error e
    | .ok s' => if s'.mhc + 1 ≥ u32 then .ok { s' with params := s.params, keys := s.keys } else .ok s'

/-- smallest key of the parameter store (`Range(0, MaxUint32, 1, false)`) -/
def firstParamsKey (s : State) : Option Nat :=
  (s.params.map (·.1)).foldl (fun best k =>
    match best with
    | none => some k
    | some b => if k < b then some k else some b) none

/-- `NextHeightBFTParameters`: the range starts at `height + 1` computed in `uint32` -/
def nextHeightParamsU32 (s : State) (h : Nat) : Option Nat :=
  if h + 1 ≥ u32 then firstParamsKey s else nextHeightParams s h

/-! ### `getHeightNotPrevoted` with the Go arithmetic passed in

The loop of `getHeightNotPrevoted` with its three integer expressions as parameters (instantiated in
`Props/C02_Arith.lean` with the expressions regenerated from validator.go): `inWindow cur prev len` is
the loop condition `int(currentHeight)-int(heightPreviousBlock) < len(v.blockBFTInfos)`, `index cur prev`
the index `int(currentHeight-heightPreviousBlock)`, `fallback oldestHeight` the result
`oldest.height - 1`. `none` = the Go code panics (index out of range). -/
def hnpLoopGo (inWindow : Nat → Nat → Int → Bool) (index : Nat → Nat → Int) (fallback : Nat → Nat)
    (infos : List BlockInfo) (newGen : Bytes) (cur : Nat) : Nat → Nat → Option Nat
  | 0, prev => some prev
  | fuel + 1, prev =>
    if inWindow cur prev (Int.ofNat infos.length) then
      let i := index cur prev
      if i < 0 then none
      else
        match infos[i.toNat]? with
        | none => none
        | some b =>
          if b.gen ≠ newGen ∨ b.mhg ≥ prev then some prev
          else hnpLoopGo inWindow index fallback infos newGen cur fuel b.mhg
    else
      match infos.getLast? with
      | some o => some (fallback o.height)
      | none => none

end LiskVerif.BFT
