/-
C17 — interleaving model of the P2P request/response layer (pkg/p2p/message_protocol.go).

Threads
* requester threads = calls of `MessageProtocol.request` (retry loop around `sendRequestMessage`);
* handler threads   = invocations of the stream handler `onResponse` (libp2p starts one goroutine
  per incoming response stream);
* the environment   = the network and the remote peer: it may answer a request that was sent,
  duplicate, drop, delay and finally deliver responses (a delivery spawns a handler thread), and it
  may start new requester threads at any time.

Shared state: the mutex `resMu` (`lock`), the map `resCh : id ⇀ channel` (`resCh`, an association
list; a channel is identified by the index of the requester that created it — the requester owns
the 1-slot buffer `Req.buf`), the ids for which a request went out (`sent`), the in-flight responses
(`net`), the id generator (`nextId`, models `uuid.New()`), and the log of "unknown request ID"
warnings (`unknown`).

`step` is the FIXED protocol (channel of capacity 1, registered before the request is sent,
non-blocking delivery under the lock, entry removed when the send fails);
`stepO` is the ORIGINAL skeleton (request sent first, unbuffered channel, blocking send under the
lock).  Both are executable: `step s a = none` means action `a` is not enabled in `s`.

Core Lean only (linked into the driver executable).
-/
namespace LiskVerif.ReqResp

/-- a response message: the id of the request it answers and the handler's payload -/
structure Resp where
  rid : Nat
  payload : Nat
deriving DecidableEq, Repr

/-- thread identifiers (holder of `resMu`) -/
inductive Tid
  | req (i : Nat)
  | hdl (j : Nat)
deriving DecidableEq, Repr

/-- how one attempt (`sendRequestMessage`) left its `select` / `send` -/
inductive Outcome
  | got (r : Resp)
  | timeout
  | cancelled
  | sendErr
deriving DecidableEq, Repr

/-- program counter of a requester thread -/
inductive RPc
  | start      -- top of the retry loop: about to create the request message (fresh id) and channel
  | regLock    -- about to `resMu.Lock()` for registration
  | regStore   -- holds the lock: `resCh[id] = ch`
  | regUnlock  -- holds the lock: `resMu.Unlock()`
  | send       -- `mp.send(...)`
  | wait       -- in the `select`
  | unLock     -- left the select / send failed: about to `resMu.Lock()`
  | unDelete   -- holds the lock: `delete(resCh, id)`
  | unUnlock   -- holds the lock: `resMu.Unlock()`, then return / retry
  | done
deriving DecidableEq, Repr

structure Req where
  pc : RPc
  /-- id of the current attempt (meaningful once `pc ≠ start`) -/
  id : Nat
  /-- the buffer of the channel created for the current attempt -/
  buf : Option Resp
  /-- outcome of the current attempt -/
  out : Option Outcome
  /-- retries left (`messageMaxRetries` minus retries used) -/
  retries : Nat
  /-- ghost: a response was handed to this attempt's channel while the requester was in `select` -/
  arrived : Bool
deriving DecidableEq, Repr

/-- program counter of a response-handler thread (`onResponse` after decoding / rate limiting) -/
inductive HPc
  | lock                 -- about to `resMu.Lock()`
  | lookup               -- holds the lock: `ch, ok := resCh[msg.ID]`
  | deliver (ch : Nat)   -- holds the lock: send on the channel found
  | unlock               -- holds the lock: deferred `resMu.Unlock()`
  | done
deriving DecidableEq, Repr

structure Hdl where
  pc : HPc
  msg : Resp
deriving DecidableEq, Repr

structure State where
  lock : Option Tid
  resCh : List (Nat × Nat)
  reqs : List Req
  hdls : List Hdl
  net : List Resp
  sent : List Nat
  nextId : Nat
  unknown : List Nat
deriving DecidableEq, Repr

def init : State :=
  { lock := none, resCh := [], reqs := [], hdls := [], net := [], sent := [], nextId := 0, unknown := [] }

inductive Action
  /- requester thread `i` -/
  | rStep (i : Nat)      -- the deterministic next statement (create / lock / store / unlock / delete)
  | rSendOk (i : Nat)    -- `mp.send` succeeds: the request is on the wire
  | rSendErr (i : Nat)   -- `mp.send` fails
  | rRecv (i : Nat)      -- select: `<-ch`
  | rTimeout (i : Nat)   -- select: `<-time.After(timeout)`
  | rCancel (i : Nat)    -- select: `<-ctx.Done()`
  /- handler thread `j` -/
  | hStep (j : Nat)
  /- environment -/
  | nRespond (id : Nat)  -- the remote handler answers request `id`
  | nDup (k : Nat)       -- the network duplicates in-flight response `k`
  | nDrop (k : Nat)      -- the network drops in-flight response `k`
  | nDeliver (k : Nat)   -- in-flight response `k` reaches `onResponse` (new handler thread)
  | spawn (retries : Nat) -- a new call of `request` with the given retry budget
deriving DecidableEq, Repr

/-- thread actions (as opposed to environment actions) -/
def Action.isThread : Action → Bool
  | .rStep _ | .rSendOk _ | .rSendErr _ | .rRecv _ | .rTimeout _ | .rCancel _ | .hStep _ => true
  | _ => false

def RPc.holds : RPc → Bool
  | .regStore | .regUnlock | .unDelete | .unUnlock => true
  | _ => false

def HPc.holds : HPc → Bool
  | .lookup | .deliver _ | .unlock => true
  | _ => false

/-- pcs at which the requester's entry is in `resCh` (fixed protocol) -/
def RPc.registered : RPc → Bool
  | .regUnlock | .send | .wait | .unLock | .unDelete => true
  | _ => false

def newReq (retries : Nat) : Req :=
  { pc := .start, id := 0, buf := none, out := none, retries := retries, arrived := false }

def setReq (s : State) (i : Nat) (r : Req) : State := { s with reqs := s.reqs.set i r }
def setHdl (s : State) (j : Nat) (h : Hdl) : State := { s with hdls := s.hdls.set j h }

/-- `delete(resCh, id)` -/
def eraseId (m : List (Nat × Nat)) (id : Nat) : List (Nat × Nat) := m.filter (fun e => e.1 != id)
/-- `resCh[id] = ch` -/
def storeId (m : List (Nat × Nat)) (id ch : Nat) : List (Nat × Nat) := (id, ch) :: eraseId m id

/-- return of `sendRequestMessage` inside the retry loop of `request` -/
def afterAttempt (r : Req) : Req :=
  if r.out = some .timeout ∧ 0 < r.retries then { r with pc := .start, retries := r.retries - 1 }
  else { r with pc := .done }

/-- environment actions (shared by the fixed and the original protocol) -/
def stepEnv (P : Nat → Nat) (s : State) : Action → Option State
  | .nRespond id => if id ∈ s.sent then some { s with net := ⟨id, P id⟩ :: s.net } else none
  | .nDup k => match s.net[k]? with
    | some m => some { s with net := m :: s.net }
    | none => none
  | .nDrop k => if k < s.net.length then some { s with net := s.net.eraseIdx k } else none
  | .nDeliver k => match s.net[k]? with
    | some m => some { s with net := s.net.eraseIdx k, hdls := s.hdls ++ [⟨.lock, m⟩] }
    | none => none
  | .spawn b => some { s with reqs := s.reqs ++ [newReq b] }
  | _ => none

/-! ### the fixed protocol -/

def stepReq (s : State) (i : Nat) (r : Req) : Option State :=
  match r.pc with
  | .start =>
    some { s with nextId := s.nextId + 1,
                  reqs := s.reqs.set i { r with pc := .regLock, id := s.nextId, buf := none, out := none, arrived := false } }
  | .regLock =>
    if s.lock = none then some { s with lock := some (.req i), reqs := s.reqs.set i { r with pc := .regStore } } else none
  | .regStore =>
    some { s with resCh := storeId s.resCh r.id i, reqs := s.reqs.set i { r with pc := .regUnlock } }
  | .regUnlock =>
    some { s with lock := none, reqs := s.reqs.set i { r with pc := .send } }
  | .unLock =>
    if s.lock = none then some { s with lock := some (.req i), reqs := s.reqs.set i { r with pc := .unDelete } } else none
  | .unDelete =>
    some { s with resCh := eraseId s.resCh r.id, reqs := s.reqs.set i { r with pc := .unUnlock } }
  | .unUnlock =>
    some { s with lock := none, reqs := s.reqs.set i (afterAttempt r) }
  | .send | .wait | .done => none

def stepHdl (s : State) (j : Nat) (h : Hdl) : Option State :=
  match h.pc with
  | .lock =>
    if s.lock = none then some { s with lock := some (.hdl j), hdls := s.hdls.set j { h with pc := .lookup } } else none
  | .lookup =>
    match s.resCh.lookup h.msg.rid with
    | some ch => some { s with hdls := s.hdls.set j { h with pc := .deliver ch } }
    | none => some { s with unknown := h.msg.rid :: s.unknown, hdls := s.hdls.set j { h with pc := .unlock } }
  | .deliver ch =>
    -- `select { case ch <- r: default: }` : never blocks
    match s.reqs[ch]? with
    | some r =>
      some { s with hdls := s.hdls.set j { h with pc := .unlock },
                    reqs := s.reqs.set ch { r with buf := if r.buf = none then some h.msg else r.buf,
                                                   arrived := r.arrived || r.pc == .wait } }
    | none => some { s with hdls := s.hdls.set j { h with pc := .unlock } }
  | .unlock =>
    some { s with lock := none, hdls := s.hdls.set j { h with pc := .done } }
  | .done => none

def step (P : Nat → Nat) (s : State) (a : Action) : Option State :=
  match a with
  | .rStep i => match s.reqs[i]? with
    | some r => stepReq s i r
    | none => none
  | .rSendOk i => match s.reqs[i]? with
    | some r => if r.pc = .send then some { s with sent := r.id :: s.sent, reqs := s.reqs.set i { r with pc := .wait } } else none
    | none => none
  | .rSendErr i => match s.reqs[i]? with
    | some r => if r.pc = .send then some { s with reqs := s.reqs.set i { r with pc := .unLock, out := some .sendErr } } else none
    | none => none
  | .rRecv i => match s.reqs[i]? with
    | some r =>
      if r.pc = .wait then
        match r.buf with
        | some m => some { s with reqs := s.reqs.set i { r with pc := .unLock, out := some (.got m), buf := none } }
        | none => none
      else none
    | none => none
  | .rTimeout i => match s.reqs[i]? with
    -- the timer is created on entry to the select; once a response is buffered the select takes it
    | some r => if r.pc = .wait ∧ r.buf = none then some { s with reqs := s.reqs.set i { r with pc := .unLock, out := some .timeout } } else none
    | none => none
  | .rCancel i => match s.reqs[i]? with
    -- the context may already be done when the select is evaluated (Go then chooses at random)
    | some r => if r.pc = .wait then some { s with reqs := s.reqs.set i { r with pc := .unLock, out := some .cancelled } } else none
    | none => none
  | .hStep j => match s.hdls[j]? with
    | some h => stepHdl s j h
    | none => none
  | a => stepEnv P s a

/-- run a list of actions (`none` as soon as one is not enabled) -/
def run (P : Nat → Nat) (s : State) : List Action → Option State
  | [] => some s
  | a :: as => match step P s a with
    | some s' => run P s' as
    | none => none

/-- reachable states of the fixed protocol -/
inductive Reachable (P : Nat → Nat) : State → Prop
  | init : Reachable P init
  | step {s s' : State} (a : Action) : Reachable P s → step P s a = some s' → Reachable P s'

def reqDone (r : Req) : Bool := r.pc == .done
def hdlDone (h : Hdl) : Bool := h.pc == .done
def allDone (s : State) : Bool := s.reqs.all reqDone && s.hdls.all hdlDone

/-! ### the original (unfixed) skeleton

`sendRequestMessage`: create message; `send`; `make(chan *Response)` (unbuffered); Lock; store;
Unlock; select; Lock; delete; Unlock.  `onResponse`: Lock; lookup; `ch <- r` (blocking, under the
lock); Unlock.  A send on the unbuffered channel is a rendezvous with the requester's `select`. -/

def stepReqO (s : State) (i : Nat) (r : Req) : Option State :=
  match r.pc with
  | .start =>
    some { s with nextId := s.nextId + 1,
                  reqs := s.reqs.set i { r with pc := .send, id := s.nextId, buf := none, out := none, arrived := false } }
  | .regLock =>
    if s.lock = none then some { s with lock := some (.req i), reqs := s.reqs.set i { r with pc := .regStore } } else none
  | .regStore =>
    some { s with resCh := storeId s.resCh r.id i, reqs := s.reqs.set i { r with pc := .regUnlock } }
  | .regUnlock =>
    some { s with lock := none, reqs := s.reqs.set i { r with pc := .wait } }
  | .unLock =>
    if s.lock = none then some { s with lock := some (.req i), reqs := s.reqs.set i { r with pc := .unDelete } } else none
  | .unDelete =>
    some { s with resCh := eraseId s.resCh r.id, reqs := s.reqs.set i { r with pc := .unUnlock } }
  | .unUnlock =>
    some { s with lock := none, reqs := s.reqs.set i (afterAttempt r) }
  | .send | .wait | .done => none

def stepHdlO (s : State) (j : Nat) (h : Hdl) : Option State :=
  match h.pc with
  | .lock =>
    if s.lock = none then some { s with lock := some (.hdl j), hdls := s.hdls.set j { h with pc := .lookup } } else none
  | .lookup =>
    match s.resCh.lookup h.msg.rid with
    | some ch => some { s with hdls := s.hdls.set j { h with pc := .deliver ch } }
    | none => some { s with unknown := h.msg.rid :: s.unknown, hdls := s.hdls.set j { h with pc := .unlock } }
  | .deliver ch =>
    -- `ch <- r` on an unbuffered channel: enabled only while the receiver sits in its select
    match s.reqs[ch]? with
    | some r =>
      if r.pc = .wait then
        some { s with hdls := s.hdls.set j { h with pc := .unlock },
                      reqs := s.reqs.set ch { r with pc := .unLock, out := some (.got h.msg), arrived := true } }
      else none
    | none => none
  | .unlock =>
    some { s with lock := none, hdls := s.hdls.set j { h with pc := .done } }
  | .done => none

def stepO (P : Nat → Nat) (s : State) (a : Action) : Option State :=
  match a with
  | .rStep i => match s.reqs[i]? with
    | some r => stepReqO s i r
    | none => none
  | .rSendOk i => match s.reqs[i]? with
    | some r => if r.pc = .send then some { s with sent := r.id :: s.sent, reqs := s.reqs.set i { r with pc := .regLock } } else none
    | none => none
  | .rSendErr i => match s.reqs[i]? with
    | some r => if r.pc = .send then some { s with reqs := s.reqs.set i { r with pc := .done, out := some .sendErr } } else none
    | none => none
  | .rRecv _ => none  -- receiving is the rendezvous performed by the handler's `deliver` step
  | .rTimeout i => match s.reqs[i]? with
    | some r => if r.pc = .wait then some { s with reqs := s.reqs.set i { r with pc := .unLock, out := some .timeout } } else none
    | none => none
  | .rCancel i => match s.reqs[i]? with
    | some r => if r.pc = .wait then some { s with reqs := s.reqs.set i { r with pc := .unLock, out := some .cancelled } } else none
    | none => none
  | .hStep j => match s.hdls[j]? with
    | some h => stepHdlO s j h
    | none => none
  | a => stepEnv P s a

def runO (P : Nat → Nat) (s : State) : List Action → Option State
  | [] => some s
  | a :: as => match stepO P s a with
    | some s' => runO P s' as
    | none => none

inductive ReachableO (P : Nat → Nat) : State → Prop
  | init : ReachableO P init
  | step {s s' : State} (a : Action) : ReachableO P s → stepO P s a = some s' → ReachableO P s'

/-! ### skeleton table (tie to the Go source)

The lock / channel actions of the two Go functions in source order, extracted by hand from
`pkg/p2p/message_protocol.go` (fixed version).  The harness re-extracts the same table from the
CURRENT source with go/ast and compares (`c17-skeleton-changed`). -/

inductive SkelAct
  | newId                 -- newRequestMessage (uuid)
  | makeChan (cap : Nat)  -- make(chan *Response, cap)
  | lock | unlock | deferUnlock
  | store                 -- resCh[id] = ch
  | delete                -- delete(resCh, id)
  | lookup                -- ch, ok := resCh[id]
  | netSend               -- mp.send(...)
  | onErr (body : List SkelAct)            -- `if err := ...; err != nil { body; return }`
  | select (branches : List (String × List SkelAct))
  | chanSend              -- blocking `ch <- v`
  | ret
deriving Repr

def skelSendRequestMessage : List SkelAct :=
  [ .newId, .makeChan 1, .lock, .store, .unlock,
    .netSend, .onErr [.lock, .delete, .unlock, .ret],
    .select [ ("recv", [.lock, .delete, .unlock, .ret]),
              ("timer", [.lock, .delete, .unlock, .ret]),
              ("ctx", [.lock, .delete, .unlock, .ret]) ] ]

def skelOnResponse : List SkelAct :=
  [ .lock, .deferUnlock, .lookup, .select [ ("send", []), ("default", []) ] ]

mutual
def SkelAct.render : SkelAct → String
  | .newId => "newid"
  | .makeChan c => "make:" ++ toString c
  | .lock => "lock"
  | .unlock => "unlock"
  | .deferUnlock => "defer-unlock"
  | .store => "store"
  | .delete => "delete"
  | .lookup => "lookup"
  | .netSend => "send"
  | .onErr b => "iferr[" ++ renderList b ++ "]"
  | .select bs => "select[" ++ renderBranches bs ++ "]"
  | .chanSend => "chsend"
  | .ret => "return"
def renderList : List SkelAct → String
  | [] => ""
  | [a] => a.render
  | a :: as => a.render ++ "," ++ renderList as
def renderBranches : List (String × List SkelAct) → String
  | [] => ""
  | [(n, b)] => n ++ ":" ++ renderList b
  | (n, b) :: bs => n ++ ":" ++ renderList b ++ "|" ++ renderBranches bs
end

/-- flat statement labels executed by the model's pcs along the main path of one attempt -/
def RPc.acts : RPc → List String
  | .start => ["newid", "make:1"]
  | .regLock => ["lock"]
  | .regStore => ["store"]
  | .regUnlock => ["unlock"]
  | .send => ["send"]
  | .wait => ["select"]
  | .unLock => ["lock"]
  | .unDelete => ["delete"]
  | .unUnlock => ["unlock", "return"]
  | .done => []

def HPc.acts : HPc → List String
  | .lock => ["lock"]
  | .lookup => ["lookup"]
  | .deliver _ => ["select-send-default"]
  | .unlock => ["unlock"]
  | .done => []

end LiskVerif.ReqResp
