/-
Text-level model of the Lisk32 address functions of pkg/codec/bytes.go as Go executes them on an ARBITRARY
byte string (a Go `string` is a byte string; nothing guarantees UTF-8): `ValidateLisk32`, `Lisk32ToBytes`,
`Lisk32.UnmarshalJSON` (behind every address parameter of the JSON-RPC endpoints) and `BytesToLisk32`.

Unlike `Model/Lisk32.lean` (text = bytes, "any byte outside the alphabet is an invalid character"), this model
follows the source construct by construct, with the run-time panics of Go explicit (`Res.panic`):
  * `len(val)` is the BYTE length; `val[3:]`, `val[3:35]` are slice expressions that panic out of range;
  * `for _, c := range s` decodes UTF-8: an invalid or truncated sequence yields U+FFFD and advances ONE byte
    (`decodeRune` = `utf8.DecodeRuneInString`, written with subtraction / multiplication instead of masks and
    shifts — the same value on the accepted ranges);
  * `string(c)` re-encodes the rune (`encodeRune` = `utf8.AppendRune`: surrogates and values above U+10FFFF
    become U+FFFD);
  * `strings.Index(lisk32Charset, string(c))` is a substring search returning a byte index or -1 (`index`);
  * `Lisk32ToBytes` does NOT check the index again: a -1 would reach `convertUIntArray`, whose
    `value < 0` exit returns the empty result;
  * `uint5ToLisk32` indexes the alphabet table with the value (`tableGet`, panics out of range).
`Props/C09_Lisk32.lean` proves that no panic outcome is reachable for any byte string and that this model and
the byte-level model agree on all inputs.
-/
import LiskVerif.Model.Lisk32

namespace LiskVerif.Lisk32Text
open LiskVerif LiskVerif.Lisk32

/-- outcome of a Go function returning `(T, error)`: value, error, or run-time panic -/
inductive Res (α : Type) where
  | ok (a : α)
  | err
  | panic
deriving DecidableEq, Repr

def runeError : Nat := 0xFFFD

def isCont (b : Nat) : Bool := 0x80 ≤ b && b ≤ 0xBF

/-- `utf8.DecodeRuneInString`: (rune, width); width 0 only for the empty string -/
def decodeRune : Bytes → Nat × Nat
  | [] => (runeError, 0)
  | c0 :: rest =>
    let b0 := c0.toNat
    if b0 < 0x80 then (b0, 1)
    else if b0 < 0xC2 then (runeError, 1)
    else if b0 < 0xE0 then
      match rest with
      | c1 :: _ =>
        if isCont c1.toNat then ((b0 - 0xC0) * 64 + (c1.toNat - 0x80), 2) else (runeError, 1)
      | [] => (runeError, 1)
    else if b0 < 0xF0 then
      match rest with
      | c1 :: c2 :: _ =>
        let lo := if b0 = 0xE0 then 0xA0 else 0x80
        let hi := if b0 = 0xED then 0x9F else 0xBF
        if lo ≤ c1.toNat && c1.toNat ≤ hi && isCont c2.toNat then
          ((b0 - 0xE0) * 4096 + (c1.toNat - 0x80) * 64 + (c2.toNat - 0x80), 3)
        else (runeError, 1)
      | _ => (runeError, 1)
    else if b0 < 0xF5 then
      match rest with
      | c1 :: c2 :: c3 :: _ =>
        let lo := if b0 = 0xF0 then 0x90 else 0x80
        let hi := if b0 = 0xF4 then 0x8F else 0xBF
        if lo ≤ c1.toNat && c1.toNat ≤ hi && isCont c2.toNat && isCont c3.toNat then
          ((b0 - 0xF0) * 262144 + (c1.toNat - 0x80) * 4096 + (c2.toNat - 0x80) * 64 + (c3.toNat - 0x80), 4)
        else (runeError, 1)
      | _ => (runeError, 1)
    else (runeError, 1)

/-- the runes `for _, c := range s` yields (fuel = byte length suffices: every step consumes ≥ 1 byte) -/
def runesFuel : Nat → Bytes → List Nat
  | 0, _ => []
  | _, [] => []
  | fuel + 1, c :: rest =>
    let rw := decodeRune (c :: rest)
    rw.1 :: runesFuel fuel ((c :: rest).drop (max rw.2 1))

def runes (s : Bytes) : List Nat := runesFuel s.length s

/-- `string(rune)` / `utf8.AppendRune` -/
def encodeRune (r : Nat) : Bytes :=
  if r < 0x80 then [UInt8.ofNat r]
  else if r < 0x800 then [UInt8.ofNat (0xC0 + r / 64), UInt8.ofNat (0x80 + r % 64)]
  else if (0xD800 ≤ r ∧ r ≤ 0xDFFF) ∨ r > 0x10FFFF then [0xEF, 0xBF, 0xBD]
  else if r < 0x10000 then
    [UInt8.ofNat (0xE0 + r / 4096), UInt8.ofNat (0x80 + r / 64 % 64), UInt8.ofNat (0x80 + r % 64)]
  else
    [UInt8.ofNat (0xF0 + r / 262144), UInt8.ofNat (0x80 + r / 4096 % 64), UInt8.ofNat (0x80 + r / 64 % 64),
     UInt8.ofNat (0x80 + r % 64)]

/-- `strings.Index(hay, needle)` from position `i` on: byte index of the first occurrence, -1 if none -/
def indexFrom (needle : Bytes) : Bytes → Nat → Int
  | [], i => if needle.isEmpty then (i : Int) else -1
  | h :: t, i => if hasPrefix (h :: t) needle then (i : Int) else indexFrom needle t (i + 1)

def index (hay needle : Bytes) : Int := indexFrom needle hay 0

/-- `strings.Index(lisk32Charset, string(c))` -/
def charIdx (r : Nat) : Int := index charset (encodeRune r)

/-- Go slice expression `s[i:j]` -/
def slice (s : Bytes) (i j : Nat) : Res Bytes :=
  if i ≤ j ∧ j ≤ s.length then .ok ((s.take j).drop i) else .panic

/-- Go index expression `t[i]` -/
def tableGet (t : Bytes) (i : Nat) : Res UInt8 :=
  match t[i]? with
  | some c => .ok c
  | none => .panic

/-- the loop of `ValidateLisk32`: `none` = "invalid character" exit -/
def lookupAll : List Nat → Option (List Int)
  | [] => some []
  | r :: rs =>
    if charIdx r < 0 then none
    else match lookupAll rs with
      | none => none
      | some l => some (charIdx r :: l)

/-- `ValidateLisk32` -/
def goValidate (s : Bytes) : Res Unit :=
  if s.length ≠ 41 then .err
  else
    match slice s 3 s.length with
    | .ok w =>
      match lookupAll (runes w) with
      | none => .err
      | some u5 => if polymod (u5.map Int.toNat) ≠ 1 then .err else .ok ()
    | .err => .err
    | .panic => .panic

/-- `convertUIntArray` on Go ints: a negative entry (or one with bits above `fromBits`) gives the empty result -/
def convertInts (l : List Int) (fromBits toBits : Nat) : List Nat :=
  if l.any (· < 0) then [] else convertUIntArray (l.map Int.toNat) fromBits toBits

/-- `Lisk32ToBytes` -/
def goToBytes (s : Bytes) : Res Bytes :=
  if s.length = 0 then .ok []
  else
    match goValidate s with
    | .err => .err
    | .panic => .panic
    | .ok () =>
      match slice s 3 35 with
      | .ok w => .ok ((convertInts ((runes w).map charIdx) 5 8).map UInt8.ofNat)
      | .err => .err
      | .panic => .panic

/-- `Lisk32.UnmarshalJSON` after `encoding/json` (not modelled): `none` = the JSON text is not a string -/
def goUnmarshal (decoded : Option Bytes) : Res Bytes :=
  match decoded with
  | none => .err
  | some s => goToBytes s

/-- `uint5ToLisk32`: every value indexes the alphabet table -/
def lookupTable : List Nat → Res Bytes
  | [] => .ok []
  | v :: vs =>
    match tableGet charset v, lookupTable vs with
    | .ok c, .ok r => .ok (c :: r)
    | .panic, _ => .panic
    | _, .panic => .panic
    | _, _ => .err

/-- `BytesToLisk32` -/
def goFromBytes (b : Bytes) : Res Bytes :=
  if b.length = 0 then .ok []
  else if b.length ≠ 20 then .err
  else
    let u5 := convertUIntArray (b.map (·.toNat)) 8 5
    match lookupTable (u5 ++ createChecksum u5) with
    | .ok r => .ok (lskPrefix ++ r)
    | .err => .err
    | .panic => .panic

end LiskVerif.Lisk32Text
