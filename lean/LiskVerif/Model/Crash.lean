/-
  C13 — crash atomicity of block commit / removal.

  * `Act` / `Stmt`: the *write skeleton* language. `tools/wskelgen` extracts one `Stmt` per Go
    function that touches a `db.Batch` or the `*db.DB` handle (Gen/WriteSkeletons.lean).
  * `Exec`: the path semantics of a skeleton (all action traces, loops unrolled any number of times).
  * `stepAct` / `runMon`: the single-write *monitor* (a finite automaton over actions).
  * `outs` / `singleWrite`: a decidable static criterion (abstract interpretation of the monitor
    over the skeleton) — evaluated by `decide` on the regenerated skeletons.
  * `Mach`: the database-history machine. A database history is the list of synced batches; what a
    crash leaves behind is the history at the crash point (everything staged in a batch that was
    not yet written lives in process memory and is lost). Atomicity and durability of ONE
    `pebble.Apply(batch, Sync)` are trusted facts about pebble: a `write` event appends the whole
    batch to the history or (crash before it returns) nothing.
  * `NodeDB`: an abstract blockchain database (height index, headers, revert diffs, consensus-store
    tip, finalized height) with the batches staged by block commit / removal and the invariant the
    restart (`Chain.PrepareCache`) relies on.

  Core Lean only.
-/
namespace LiskVerif.Crash

/-! ## Skeleton language -/

inductive Act where
  | newBatch (b : String)      -- b := database.NewBatch()
  | batchSet (b : String)      -- b.Set(..)      (staged in memory)
  | batchDel (b : String)      -- b.Del(..)
  | directSet                  -- database.Set(..)  (own synced write, bypasses the batch)
  | directDel                  -- database.Del(..)
  | write (b : String)         -- database.Write(b) = pebble.Apply(b, Sync)
  | cacheUpdate                -- DataAccess.Cache / RemoveCache (in-memory tip)
  | abiCommit                  -- application commit (other database, outside this property)
  | abiRevert
  | publish                    -- event bus publication (EventBlockNew, ...)
  | netPublish                 -- p2p publication of an own block (asynchronous)
  | unknown (pos : String)     -- something the translator did not understand
  deriving DecidableEq, Repr

inductive Stmt where
  | skip
  | act (a : Act)
  | seq (s t : Stmt)
  | choice (s t : Stmt)
  | loop (s : Stmt)
  | scope (s : Stmt)                                  -- inlined callee / closure: returns end here
  | call (f : String) (args : List (String × String)) -- batch handed to callee f: (parameter, batch)
  | tryCall (c a b : Stmt)     -- error-checked call: run c (a callee); it returned an error → a, else → b
  | ret
  | retErr
  | brk
  | cont
  deriving Repr

/-- right-nested sequence (used by the generated file) -/
def Stmt.seqs : List Stmt → Stmt
  | [] => .skip
  | [s] => s
  | s :: t :: l => .seq s (Stmt.seqs (t :: l))

/-! ### Inlining of callees -/

def Act.rename (ρ : String → String) : Act → Act
  | .newBatch b => .newBatch (ρ b)
  | .batchSet b => .batchSet (ρ b)
  | .batchDel b => .batchDel (ρ b)
  | .write b => .write (ρ b)
  | a => a

def Stmt.rename (ρ : String → String) : Stmt → Stmt
  | .skip => .skip
  | .act a => .act (a.rename ρ)
  | .seq s t => .seq (s.rename ρ) (t.rename ρ)
  | .choice s t => .choice (s.rename ρ) (t.rename ρ)
  | .loop s => .loop (s.rename ρ)
  | .scope s => .scope (s.rename ρ)
  | .call f args => .call f (args.map fun p => (p.1, ρ p.2))
  | .tryCall c a b => .tryCall (c.rename ρ) (a.rename ρ) (b.rename ρ)
  | .ret => .ret
  | .retErr => .retErr
  | .brk => .brk
  | .cont => .cont

/-- parameters are replaced by the caller's batch, the callee's own batches get a qualified name -/
def calleeRen (f : String) (args : List (String × String)) : String → String :=
  fun x => match args.lookup x with
    | some y => y
    | none => f ++ "." ++ x

/-- replace every call by the (renamed) skeleton of the callee, once -/
def inlineOnce (tbl : List (String × Stmt)) : Stmt → Stmt
  | .call f args =>
    match tbl.lookup f with
    | some body => .scope (body.rename (calleeRen f args))
    | none => .act (.unknown ("no skeleton for " ++ f))
  | .tryCall (.call f args) a b =>
    match tbl.lookup f with
    | some body => .tryCall (body.rename (calleeRen f args)) (inlineOnce tbl a) (inlineOnce tbl b)
    | none => .act (.unknown ("no skeleton for " ++ f))
  | .tryCall c a b => .tryCall (inlineOnce tbl c) (inlineOnce tbl a) (inlineOnce tbl b)
  | .seq s t => .seq (inlineOnce tbl s) (inlineOnce tbl t)
  | .choice s t => .choice (inlineOnce tbl s) (inlineOnce tbl t)
  | .loop s => .loop (inlineOnce tbl s)
  | .scope s => .scope (inlineOnce tbl s)
  | s => s

def inlineN (tbl : List (String × Stmt)) : Nat → Stmt → Stmt
  | 0, s => s
  | n + 1, s => inlineN tbl n (inlineOnce tbl s)

/-! ## Path semantics -/

inductive Out where
  | fall | brk | cont | ret | err
  deriving DecidableEq, Repr

/-- `Exec s tr o`: `tr` is the action trace of one complete path through `s`, ending with `o`.
    `call` has no rule: the semantics is that of inlined skeletons (the criterion rejects `call`). -/
inductive Exec : Stmt → List Act → Out → Prop where
  | skip : Exec .skip [] .fall
  | act (a : Act) : Exec (.act a) [a] .fall
  | ret : Exec .ret [] .ret
  | retErr : Exec .retErr [] .err
  | brk : Exec .brk [] .brk
  | cont : Exec .cont [] .cont
  | seqFall {s t t1 t2 o} : Exec s t1 .fall → Exec t t2 o → Exec (.seq s t) (t1 ++ t2) o
  | seqStop {s t t1 o} : Exec s t1 o → o ≠ .fall → Exec (.seq s t) t1 o
  | choiceL {s t tr o} : Exec s tr o → Exec (.choice s t) tr o
  | choiceR {s t tr o} : Exec t tr o → Exec (.choice s t) tr o
  | loopDone {s} : Exec (.loop s) [] .fall
  | loopIter {s t1 t2 o o1} : Exec s t1 o1 → (o1 = .fall ∨ o1 = .cont) → Exec (.loop s) t2 o →
      Exec (.loop s) (t1 ++ t2) o
  | loopBrk {s t1} : Exec s t1 .brk → Exec (.loop s) t1 .fall
  | loopStop {s t1 o} : Exec s t1 o → (o = .ret ∨ o = .err) → Exec (.loop s) t1 o
  | scope {s tr o} : Exec s tr o → Exec (.scope s) tr .fall
  | tryErr {c a b t1 t2 o} : Exec c t1 .err → Exec a t2 o → Exec (.tryCall c a b) (t1 ++ t2) o
  | tryOk {c a b t1 t2 o o1} : Exec c t1 o1 → o1 ≠ .err → Exec b t2 o → Exec (.tryCall c a b) (t1 ++ t2) o

/-! ## The single-write monitor -/

structure St where
  batch : Option String   -- the one batch of the step
  staged : Bool           -- it received a Set/Del
  written : Bool          -- it was written
  deriving DecidableEq, Repr

def St.init : St := ⟨none, false, false⟩
def St.withBatch (b : String) : St := ⟨some b, false, false⟩

/-- one action; `none` = violation of the single-write discipline -/
def stepAct (st : St) : Act → Option St
  | .newBatch b => if st.batch = none ∧ st.written = false then some { st with batch := some b } else none
  | .batchSet b => if st.batch = some b ∧ st.written = false then some { st with staged := true } else none
  | .batchDel b => if st.batch = some b ∧ st.written = false then some { st with staged := true } else none
  | .write b => if st.batch = some b ∧ st.written = false then some { st with written := true } else none
  | .directSet => none
  | .directDel => none
  | .unknown _ => none
  | .cacheUpdate => if st.written = true then some st else none
  | .publish => if st.written = true then some st else none
  | .abiCommit => some st
  | .abiRevert => some st
  | .netPublish => some st

def runMon : St → List Act → Option St
  | st, [] => some st
  | st, a :: l => match stepAct st a with
    | none => none
    | some st' => runMon st' l

/-- acceptable end of a step: an error return is always acceptable (nothing or everything was
    written, never a part); any other end must have written the batch unless nothing was staged -/
def endOk : Out × St → Bool
  | (.err, _) => true
  | (_, st) => st.written || !st.staged

/-! ## Static criterion: abstract interpretation of the monitor -/

abbrev Outs := List (Out × St)

/-- duplicate removal keeps the abstract interpretation linear in the number of choices -/
def dedup : Outs → Outs
  | [] => []
  | x :: l => if x ∈ l then dedup l else x :: dedup l

/-- continue every outcome with `f` (none = some continuation violates the discipline) -/
def bindG (f : Out × St → Option Outs) : Outs → Option Outs
  | [] => some []
  | p :: r =>
    match f p, bindG f r with
    | some a, some b => some (dedup (a ++ b))
    | _, _ => none

/-- sequencing: only `fall` continues -/
def bindO (f : St → Option Outs) : Outs → Option Outs :=
  bindG fun p => if p.1 = .fall then f p.2 else some [p]

/-- error-checked call: `err` continues with `fa`, everything else with `fb` -/
def bindT (fa fb : St → Option Outs) : Outs → Option Outs :=
  bindG fun p => if p.1 = .err then fa p.2 else fb p.2

def heads (R : List St) : Outs := R.map fun x => (Out.fall, x)

/-- what leaves a loop -/
def exitOf : Out × St → Option (Out × St)
  | (.brk, st) => some (.fall, st)
  | (.ret, st) => some (.ret, st)
  | (.err, st) => some (.err, st)
  | _ => none

def backOf : Out × St → Option St
  | (.fall, st) => some st
  | (.cont, st) => some st
  | _ => none

/-- candidate set of loop-head states (any list would do: it is verified by `outs`) -/
def reach (f : St → Option Outs) : Nat → List St → List St
  | 0, R => R
  | n + 1, R => match bindO f (heads R) with
    | none => R
    | some A => reach f n (R ++ (A.filterMap backOf).filter (fun x => !R.contains x)).eraseDups

def outs : Stmt → St → Option Outs
  | .skip, st => some [(.fall, st)]
  | .act a, st => match stepAct st a with
    | none => none
    | some st' => some [(.fall, st')]
  | .seq s t, st => match outs s st with
    | none => none
    | some l => bindO (fun x => outs t x) l
  | .choice s t, st => match outs s st, outs t st with
    | some a, some b => some (dedup (a ++ b))
    | _, _ => none
  | .loop s, st =>
    let R := reach (fun x => outs s x) 4 [st]
    match bindO (fun x => outs s x) (heads R) with
    | none => none
    | some A =>
      if st ∈ R ∧ ∀ p ∈ A, ∀ x, backOf p = some x → x ∈ R
      then some (dedup (heads R ++ A.filterMap exitOf)) else none
  | .scope s, st => match outs s st with
    | none => none
    | some l => some (dedup (l.map fun p => (Out.fall, p.2)))
  | .call _ _, _ => none
  | .tryCall c a b, st => match outs c st with
    | none => none
    | some l => bindT (fun x => outs a x) (fun x => outs b x) l
  | .ret, st => some [(.ret, st)]
  | .retErr, st => some [(.err, st)]
  | .brk, st => some [(.brk, st)]
  | .cont, st => some [(.cont, st)]

/-- the criterion, from a given monitor state -/
def singleWriteFrom (st : St) (s : Stmt) : Bool :=
  match outs s st with
  | none => false
  | some O => O.all endOk

/-- a whole step (creates its own batch): along every path exactly one `write`, of the batch that
    received every `batchSet`/`batchDel`; no direct write; cache update and publication after it -/
def singleWrite (s : Stmt) : Bool := singleWriteFrom St.init s

/-- a step that receives its batch from the caller (Chain.AddBlock / RemoveBlock) -/
def singleWriteWith (b : String) (s : Stmt) : Bool := singleWriteFrom (St.withBatch b) s

/-- a fragment that only stages into the caller's batch (saveBlock, removeBlock, Commit, RevertDiff):
    no batch creation, no write of any kind, no cache update / publication -/
def stagesOnly (b : String) (s : Stmt) : Bool :=
  match outs s (St.withBatch b) with
  | none => false
  | some O => O.all fun p => !p.2.written && p.2.batch == some b

/-- one concrete non-error path (left-most choice that does not end in an error, loops skipped):
    used for non-vacuity — it is a real path of the skeleton (`okPath_sound`) -/
def okPath : Stmt → Option (List Act × Out)
  | .skip => some ([], .fall)
  | .act a => some ([a], .fall)
  | .seq s t => match okPath s with
    | some (t1, .fall) => match okPath t with
      | some (t2, o) => some (t1 ++ t2, o)
      | none => none
    | r => r
  | .choice s t => match okPath s with
    | some (tr, o) => if o = .err then okPath t else some (tr, o)
    | none => okPath t
  | .loop _ => some ([], .fall)
  | .scope s => match okPath s with
    | some (tr, _) => some (tr, .fall)
    | none => none
  | .call _ _ => none
  | .tryCall c a b => match okPath c with
    | some (t1, o1) =>
      if o1 = .err then
        match okPath a with
        | some (t2, o) => some (t1 ++ t2, o)
        | none => none
      else
        match okPath b with
        | some (t2, o) => some (t1 ++ t2, o)
        | none => none
    | none => none
  | .ret => some ([], .ret)
  | .retErr => some ([], .err)
  | .brk => some ([], .brk)
  | .cont => some ([], .cont)

/-! ## Database-history machine -/

inductive Op (κ ν : Type) where
  | set (k : κ) (v : ν)
  | del (k : κ)
  deriving DecidableEq, Repr

/-- concrete events of a run (actions with their payload) -/
inductive Ev (κ ν : Type) where
  | newBatch (b : String)
  | batchOp (b : String) (op : Op κ ν)
  | write (b : String)
  | direct (op : Op κ ν)
  | other (a : Act)        -- cacheUpdate, abiCommit, abiRevert, publish, netPublish

def Act.isAux : Act → Bool
  | .cacheUpdate | .abiCommit | .abiRevert | .publish | .netPublish => true
  | _ => false

def Ev.abs {κ ν} : Ev κ ν → Act
  | .newBatch b => .newBatch b
  | .batchOp b (.set _ _) => .batchSet b
  | .batchOp b (.del _) => .batchDel b
  | .write b => .write b
  | .direct (.set _ _) => .directSet
  | .direct (.del _) => .directDel
  | .other a => if a.isAux then a else .unknown "not an auxiliary action"

structure Mach (κ ν : Type) where
  hist : List (List (Op κ ν))            -- synced batches, oldest first: survives a crash
  pend : List (String × List (Op κ ν))   -- batches in process memory: lost at a crash

def Mach.pendOf {κ ν} (m : Mach κ ν) (b : String) : List (Op κ ν) := (m.pend.lookup b).getD []

def Mach.step {κ ν} (m : Mach κ ν) : Ev κ ν → Mach κ ν
  | .newBatch b => { m with pend := (b, []) :: m.pend }
  | .batchOp b op => { m with pend := (b, m.pendOf b ++ [op]) :: m.pend }
  | .write b => { m with hist := m.hist ++ [m.pendOf b] }
  | .direct op => { m with hist := m.hist ++ [[op]] }
  | .other _ => m

def Mach.run {κ ν} (m : Mach κ ν) (evs : List (Ev κ ν)) : Mach κ ν := evs.foldl Mach.step m

/-- every operation staged during the run, in order -/
def stagedOps {κ ν} : List (Ev κ ν) → List (Op κ ν)
  | [] => []
  | .batchOp _ op :: l => op :: stagedOps l
  | _ :: l => stagedOps l

/-! ### Database content of a history -/

abbrev DBOf (κ ν : Type) := κ → Option ν

def applyOp {κ ν} [DecidableEq κ] (db : DBOf κ ν) : Op κ ν → DBOf κ ν
  | .set k v => fun k' => if k' = k then some v else db k'
  | .del k => fun k' => if k' = k then none else db k'

def applyBatch {κ ν} [DecidableEq κ] (db : DBOf κ ν) (b : List (Op κ ν)) : DBOf κ ν := b.foldl applyOp db

def dbOf {κ ν} [DecidableEq κ] (db0 : DBOf κ ν) (h : List (List (Op κ ν))) : DBOf κ ν := h.foldl applyBatch db0

/-! ## Abstract node database -/

inductive Key where
  | index (h : Nat)      -- height -> block id
  | header (id : Nat)    -- block id -> header (+ payload keys, which share its fate)
  | diff (h : Nat)       -- revert diff of the consensus store for height h
  | bftTip               -- the consensus (BFT) store: height of the newest block it has absorbed
  | fin                  -- finalized height
  deriving DecidableEq, Repr

inductive Val where
  | id (n : Nat)
  | hdr (height : Nat)
  | num (n : Nat)
  | blob
  deriving DecidableEq, Repr

abbrev NodeDB := DBOf Key Val

/-- the batch staged by processValidated/processGenesisBlock + AddBlock/saveBlock for a block with
    id `id` on tip `tip` (consensus store commit, diff, header, index, finalized height, pruning) -/
def addBatch (tip id newFin : Nat) (pruned : List Nat) : List (Op Key Val) :=
  [.set .bftTip (.num (tip + 1)), .set (.diff (tip + 1)) .blob, .set (.header id) (.hdr (tip + 1)),
   .set (.index (tip + 1)) (.id id), .set .fin (.num newFin)] ++ pruned.map fun h => .del (.diff h)

/-- the batch staged by deleteBlock + RemoveBlock/removeBlock for the tip (tip ≥ 1) with id `id` -/
def removeBatch (tip id : Nat) : List (Op Key Val) :=
  [.set .bftTip (.num (tip - 1)), .del (.diff tip), .del (.header id), .del (.index tip)]

/-- what restart relies on -/
structure NodeInv (db : NodeDB) (tip f : Nat) : Prop where
  bft : db .bftTip = some (.num tip)
  fin : db .fin = some (.num f)
  fin_le : f ≤ tip
  chain : ∀ h, h ≤ tip → ∃ id, db (.index h) = some (.id id) ∧ db (.header id) = some (.hdr h)
  above : ∀ h, tip < h → db (.index h) = none ∧ db (.diff h) = none
  diffs : ∀ h, f < h → h ≤ tip → db (.diff h) ≠ none
  hdrs : ∀ id h, db (.header id) = some (.hdr h) → db (.index h) = some (.id id)

/-- the genesis batch (processGenesisBlock on an empty database) -/
def genesisBatch (id : Nat) : List (Op Key Val) :=
  [.set .bftTip (.num 0), .set (.diff 0) .blob, .set (.header id) (.hdr 0), .set (.index 0) (.id id),
   .set .fin (.num 0)]

def emptyDB : NodeDB := fun _ => none

/-- one block step on a database with tip `tip` and finalized height `f`: the staged batch and the
    tip / finalized height after it -/
inductive BlockStep (db : NodeDB) (tip f : Nat) : List (Op Key Val) → Nat → Nat → Prop where
  | add (id newFin : Nat) (pruned : List Nat) :
      db (.header id) = none → f ≤ newFin → newFin ≤ tip + 1 → (∀ h, h ∈ pruned → h ≤ newFin) →
      BlockStep db tip f (addBatch tip id newFin pruned) (tip + 1) newFin
  | remove (id : Nat) :
      f < tip → db (.index tip) = some (.id id) →
      BlockStep db tip f (removeBatch tip id) (tip - 1) f

/-- `Chain.PrepareCache` / `getLastBlock`: the last entry of the height index -/
def RecoveredTip (db : NodeDB) (t : Nat) : Prop :=
  db (.index t) ≠ none ∧ ∀ h, t < h → db (.index h) = none

end LiskVerif.Crash
