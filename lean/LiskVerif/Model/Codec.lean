/-
Model of pkg/codec (Reader / Writer of the Lisk protobuf subset, LIP-0027 / LIP-0064) and a generic
interpreter for the generated `*_codec.go` files over a schema table.

Faithfulness notes (the model follows the code, not the LIP):
* a `Reader` is `(data, index, end)`; `readBytes` bounds-checks against `len data` (not `end`);
* nested messages get a reader with `end = index + size` that is NOT checked against the parent;
  the nested decode is always the lenient one, also inside `DecodeStrict`;
* out-of-range indexing is an explicit outcome `Err.panic` (so "never panics" is a real theorem);
* lenient reads tolerate `fieldNumberNotFound` / `unexpectedFieldNumber` (field absent → default);
* strings: UTF-8 validity is modelled, NFC is a parameter (`nfcNormal`), see DESIGN.md §4.
-/
import LiskVerif.Model.Util

namespace LiskVerif.Codec

inductive Err where
  | invalidData | outOfRange | noTerminate | unexpectedFieldNumber | fieldNumberNotFound
  | unreadBytes | unnecessaryLeadingBytes | byteSize | utf8 | notNormalized | panic
deriving Repr, DecidableEq, BEq

def Err.name : Err → String
  | .invalidData => "invalidData" | .outOfRange => "outOfRange" | .noTerminate => "noTerminate"
  | .unexpectedFieldNumber => "unexpectedFieldNumber" | .fieldNumberNotFound => "fieldNumberNotFound"
  | .unreadBytes => "unreadBytes" | .unnecessaryLeadingBytes => "unnecessaryLeadingBytes"
  | .byteSize => "byteSize" | .utf8 => "utf8" | .notNormalized => "notNormalized" | .panic => "panic"

/-! ### varints -/

/-- `binary.PutUvarint` -/
def putUvarint (n : Nat) : Bytes :=
  if n < 128 then [UInt8.ofNat n] else UInt8.ofNat (n % 128 + 128) :: putUvarint (n / 128)
termination_by n
decreasing_by omega

/-- `varintShortestSize` -/
def varintShortestSize (n : Nat) : Nat :=
  if n < 2 ^ 7 then 1 else if n < 2 ^ 14 then 2 else if n < 2 ^ 21 then 3 else if n < 2 ^ 28 then 4
  else if n < 2 ^ 35 then 5 else if n < 2 ^ 42 then 6 else if n < 2 ^ 49 then 7
  else if n < 2 ^ 56 then 8 else if n < 2 ^ 63 then 9 else 10

/-- the loop of `readUint`: `k` bytes consumed so far, accumulated `acc`. Returns (value, size).
The value is a `uint64`: bits shifted beyond 64 are lost exactly as in Go (only the 10th byte can do
that, and it is restricted to 0/1). -/
def readUintLoop : Bytes → Nat → Nat → Nat → Except Err (Nat × Nat)
  | _, 0, _, _ => .error .noTerminate
  | [], _ + 1, _, _ => .error .invalidData
  | b :: rest, fuel + 1, k, acc =>
    if k + 1 = 10 ∧ b.toNat > 1 then .error .outOfRange
    else
      let acc' := (acc + (b.toNat % 128) * 2 ^ (7 * k)) % 2 ^ 64
      if b.toNat < 128 then
        if varintShortestSize acc' ≠ k + 1 then .error .unnecessaryLeadingBytes
        else .ok (acc', k + 1)
      else readUintLoop rest fuel (k + 1) acc'

/-- `readUint(data, offset)` on the suffix `data.drop offset` -/
def readUint (suffix : Bytes) : Except Err (Nat × Nat) := readUintLoop suffix 10 0 0

/-- zig-zag of `binary.PutVarint` -/
def zigzag (i : Int) : Nat := if i ≥ 0 then (2 * i).toNat else (2 * (-i) - 1).toNat
def unzigzag (n : Nat) : Int := if n % 2 = 0 then (n / 2 : Nat) else -((n + 1) / 2 : Nat)

/-- Go `int` (64-bit) arithmetic wraps around -/
def wrapInt64 (i : Int) : Int := ((i + 2 ^ 63) % 2 ^ 64) - 2 ^ 63

/-! ### Reader -/

structure Reader where
  data : Bytes
  index : Nat
  stop : Int   -- `end`

def Reader.new (data : Bytes) : Reader := { data := data, index := 0, stop := data.length }

def Reader.suffix (r : Reader) : Bytes := r.data.drop r.index

def Reader.readUInt (r : Reader) : Except Err (Nat × Reader) :=
  match readUint r.suffix with
  | .ok (v, size) => .ok (v, { r with index := r.index + size })
  | .error e => .error e

/-- `readKey`: field number, wire type -/
def readKey (key : Nat) : Except Err (Nat × Nat) :=
  let wt := key % 8
  if wt ≠ 0 ∧ wt ≠ 2 then .error .invalidData else .ok (key / 8, wt)

/-- `Reader.check` -/
def Reader.check (r : Reader) (fieldNumber wireType : Nat) : Except Err Reader :=
  if (r.index : Int) ≥ r.stop then .error .fieldNumberNotFound
  else
    match readUint r.suffix with
    | .error e => .error e
    | .ok (key, size) =>
      match readKey key with
      | .error e => .error e
      | .ok (fn, wt) =>
        if fn ≠ fieldNumber then .error .unexpectedFieldNumber
        else if wt ≠ wireType then .error .invalidData
        else .ok { r with index := r.index + size }

def strictErr (e : Err) : Bool := e == .fieldNumberNotFound || e == .unexpectedFieldNumber

/-- the common prologue of the single-value `ReadX(fieldNumber, strict)` functions:
`none` = field absent (default value), `some r'` = key consumed. -/
def Reader.enter (r : Reader) (fieldNumber wireType : Nat) (strict : Bool) : Except Err (Option Reader) :=
  match r.check fieldNumber wireType with
  | .ok r' => .ok (some r')
  | .error e => if !strictErr e then .error e else if strict then .error e else .ok none

/-- prologue of the array readers (`ReadUInts`, `ReadBytesArray` …): never strict -/
def Reader.enterArr (r : Reader) (fieldNumber wireType : Nat) : Except Err (Option Reader) :=
  match r.check fieldNumber wireType with
  | .ok r' => .ok (some r')
  | .error e => if !strictErr e then .error e else .ok none

def Reader.readBool (r : Reader) : Except Err (Bool × Reader) :=
  match r.data[r.index]? with
  | none => .error .invalidData    -- bounds check (added by the fix of readBool)
  | some b =>
    if b ≠ 0 ∧ b ≠ 1 then .error .invalidData
    else .ok (b ≠ 0, { r with index := r.index + 1 })

def Reader.readBytes (r : Reader) : Except Err (Bytes × Reader) :=
  match r.readUInt with
  | .error e => .error e
  | .ok (size, r1) =>
    let remaining := r1.data.length - r1.index
    if size > remaining then .error .byteSize
    else .ok ((r1.data.drop r1.index).take size, { r1 with index := r1.index + size })

/-- UTF-8 validity as `utf8.Valid` (no surrogates, no overlong forms, ≤ U+10FFFF) -/
def utf8Valid : Bytes → Bool
  | [] => true
  | b0 :: rest =>
    let c (b : UInt8) (lo hi : Nat) : Bool := lo ≤ b.toNat && b.toNat ≤ hi
    if b0.toNat < 0x80 then utf8Valid rest
    else if c b0 0xC2 0xDF then
      match rest with
      | b1 :: r => c b1 0x80 0xBF && utf8Valid r
      | _ => false
    else if b0.toNat = 0xE0 then
      match rest with
      | b1 :: b2 :: r => c b1 0xA0 0xBF && c b2 0x80 0xBF && utf8Valid r
      | _ => false
    else if c b0 0xE1 0xEC || c b0 0xEE 0xEF then
      match rest with
      | b1 :: b2 :: r => c b1 0x80 0xBF && c b2 0x80 0xBF && utf8Valid r
      | _ => false
    else if b0.toNat = 0xED then
      match rest with
      | b1 :: b2 :: r => c b1 0x80 0x9F && c b2 0x80 0xBF && utf8Valid r
      | _ => false
    else if b0.toNat = 0xF0 then
      match rest with
      | b1 :: b2 :: b3 :: r => c b1 0x90 0xBF && c b2 0x80 0xBF && c b3 0x80 0xBF && utf8Valid r
      | _ => false
    else if c b0 0xF1 0xF3 then
      match rest with
      | b1 :: b2 :: b3 :: r => c b1 0x80 0xBF && c b2 0x80 0xBF && c b3 0x80 0xBF && utf8Valid r
      | _ => false
    else if b0.toNat = 0xF4 then
      match rest with
      | b1 :: b2 :: b3 :: r => c b1 0x80 0x8F && c b2 0x80 0xBF && c b3 0x80 0xBF && utf8Valid r
      | _ => false
    else false

/-- NFC: parameters of the model. `nfcNormal` is `norm.NFC.IsNormal`, `nfc` is `norm.NFC.String`
on the bytes. The executable instance treats ASCII as normal and leaves everything else alone; the
harness only generates strings on which that is exact (ASCII, or invalid UTF-8). -/
structure NFC where
  normal : Bytes → Bool
  normalize : Bytes → Bytes

def asciiNFC : NFC := { normal := fun _ => true, normalize := id }

def Reader.readString (n : NFC) (r : Reader) : Except Err (Bytes × Reader) :=
  match r.readBytes with
  | .error e => .error e
  | .ok (b, r1) =>
    if !utf8Valid b then .error .utf8
    else if !n.normal b then .error .notNormalized
    else .ok (b, r1)

/-! ### schemas and values -/

inductive Kind where
  | uint | uint32 | int32 | bool | bytes | string | bytesArr | uints
  | msg (name : String) | msgArr (name : String)
  | unknown (src : String)
deriving Repr, DecidableEq, BEq

structure Field where
  num : Nat
  kind : Kind
  strict : Bool := false   -- the `strict` argument passed by DecodeStrictFromReader
deriving Repr, DecidableEq, BEq

/-- one generated struct: the field lists of Encode, DecodeFromReader, DecodeStrictFromReader -/
structure Schema where
  name : String
  enc : List Field
  dec : List Field
  decStrict : List Field
deriving Repr

inductive Value where
  | uint (n : Nat)
  | int (i : Int)
  | bool (b : Bool)
  | bytes (b : Bytes)
  | bytesArr (l : List Bytes)
  | uints (l : List Nat)
  | msg (present : Bool) (fields : List Value)   -- `present = false`: nil pointer
  | msgArr (l : List (List Value))
deriving Repr, BEq

abbrev Table := List Schema

def Table.find (t : Table) (name : String) : Option Schema := t.find? (·.name == name)

/-! ### Writer -/

def writeKey (wireType fieldNumber : Nat) : Bytes := putUvarint (fieldNumber * 8 + wireType)
def writeBytes (b : Bytes) : Bytes := putUvarint b.length ++ b

/-- Encode of one struct; `fuel` bounds the nesting depth (schemas are not recursive). -/
def encodeFields (t : Table) (nfc : NFC) : Nat → List Field → List Value → Bytes
  | _, [], _ => []
  | _, _, [] => []
  | fuel, f :: fs, v :: vs =>
    let here : Bytes :=
      match f.kind, v with
      | .uint, .uint n => writeKey 0 f.num ++ putUvarint n
      | .uint32, .uint n => writeKey 0 f.num ++ putUvarint n
      | .int32, .int i => writeKey 0 f.num ++ putUvarint (zigzag i)
      | .bool, .bool b => writeKey 0 f.num ++ [if b then 1 else 0]
      | .bytes, .bytes b => writeKey 2 f.num ++ writeBytes b
      | .string, .bytes b => writeKey 2 f.num ++ writeBytes (nfc.normalize b)
      | .bytesArr, .bytesArr l => (l.map fun b => writeKey 2 f.num ++ writeBytes b).flatten
      | .uints, .uints l =>
        if l.isEmpty then [] else writeKey 2 f.num ++ writeBytes (l.map putUvarint).flatten
      | .msg name, .msg present vals =>
        if !present then [] else
        match fuel, t.find name with
        | fuel' + 1, some s => writeKey 2 f.num ++ writeBytes (encodeFields t nfc fuel' s.enc vals)
        | _, _ => []
      | .msgArr name, .msgArr l =>
        match fuel, t.find name with
        | fuel' + 1, some s =>
          (l.map fun vals => writeKey 2 f.num ++ writeBytes (encodeFields t nfc fuel' s.enc vals)).flatten
        | _, _ => []
      | _, _ => []
    here ++ encodeFields t nfc fuel fs vs

def encode (t : Table) (nfc : NFC) (s : Schema) (vals : List Value) : Bytes :=
  encodeFields t nfc 8 s.enc vals

/-! ### generated decoders -/

/-- packed `ReadUInts`: read varints while `index < end` -/
def readPackedUInts : Nat → Reader → Int → List Nat → Except Err (List Nat × Reader)
  | 0, _, _, _ => .error .panic   -- unreachable: every iteration consumes ≥ 1 byte
  | fuel + 1, r, stop, acc =>
    if (r.index : Int) < stop then
      match r.readUInt with
      | .error e => .error e
      | .ok (v, r') => readPackedUInts fuel r' stop (acc ++ [v])
    else .ok (acc, r)

/-- `ReadBytesArray` -/
def readBytesArray : Nat → Reader → Nat → List Bytes → Except Err (List Bytes × Reader)
  | 0, _, _, _ => .error .panic
  | fuel + 1, r, fn, acc =>
    if (r.index : Int) < r.stop then
      match r.enterArr fn 2 with
      | .error e => .error e
      | .ok none => .ok (acc, r)
      | .ok (some r1) =>
        match r1.readBytes with
        | .error e => .error e
        | .ok (b, r2) => readBytesArray fuel r2 fn (acc ++ [b])
    else .ok (acc, r)

/-- the value of a field in a zero Go struct (`new(T)`): scalars zero, pointers nil, slices empty -/
def zeroValue : Kind → Value
  | .uint => .uint 0 | .uint32 => .uint 0 | .int32 => .int 0 | .bool => .bool false
  | .bytes => .bytes [] | .string => .bytes [] | .bytesArr => .bytesArr []
  | .uints => .uints []
  | .msg _ => .msg false []
  | .msgArr _ => .msgArr []
  | .unknown _ => .uint 0

/-- what `ReadDecodable` returns for an absent field: `creator()`, a zero struct -/
def defaultMsg (t : Table) (name : String) : Value :=
  match t.find name with
  | some s => .msg true (s.dec.map fun f => zeroValue f.kind)
  | none => .msg true []

mutual
/-- decode the fields of one struct from the reader (the body of `DecodeFromReader` /
`DecodeStrictFromReader`). One unit of `fuel` is spent per call (structural recursion); running out
of fuel is reported as `panic`, and `fuelFor` is large enough for that never to happen. -/
def decodeFields (t : Table) (nfc : NFC) : Nat → List Field → Reader → Except Err (List Value × Reader)
  | _, [], r => .ok ([], r)
  | 0, _ :: _, _ => .error .panic
  | fuel + 1, f :: fs, r =>
    match decodeField t nfc fuel f r with
    | .error e => .error e
    | .ok (v, r') =>
      match decodeFields t nfc fuel fs r' with
      | .error e => .error e
      | .ok (vs, r'') => .ok (v :: vs, r'')

def decodeField (t : Table) (nfc : NFC) : Nat → Field → Reader → Except Err (Value × Reader)
  | 0, _, _ => .error .panic
  | fuel + 1, f, r =>
    match f.kind with
    | .uint =>
      match r.enter f.num 0 f.strict with
      | .error e => .error e
      | .ok none => .ok (.uint 0, r)
      | .ok (some r1) => match r1.readUInt with
        | .error e => .error e
        | .ok (v, r2) => .ok (.uint v, r2)
    | .uint32 =>
      match r.enter f.num 0 f.strict with
      | .error e => .error e
      | .ok none => .ok (.uint 0, r)
      | .ok (some r1) => match r1.readUInt with
        | .error e => .error e
        | .ok (v, r2) => .ok (.uint (v % 2 ^ 32), r2)   -- `uint32(val)` truncates
    | .int32 =>
      match r.enter f.num 0 f.strict with
      | .error e => .error e
      | .ok none => .ok (.int 0, r)
      | .ok (some r1) => match r1.readUInt with
        | .error e => .error e
        | .ok (v, r2) =>
          -- int64 then int32 truncation (two's complement)
          let i := unzigzag v
          let m := ((i % (2 ^ 32 : Int)) + 2 ^ 32) % 2 ^ 32
          .ok (.int (if m ≥ 2 ^ 31 then m - 2 ^ 32 else m), r2)
    | .bool =>
      match r.enter f.num 0 f.strict with
      | .error e => .error e
      | .ok none => .ok (.bool false, r)
      | .ok (some r1) => match r1.readBool with
        | .error e => .error e
        | .ok (v, r2) => .ok (.bool v, r2)
    | .bytes =>
      match r.enter f.num 2 f.strict with
      | .error e => .error e
      | .ok none => .ok (.bytes [], r)
      | .ok (some r1) => match r1.readBytes with
        | .error e => .error e
        | .ok (v, r2) => .ok (.bytes v, r2)
    | .string =>
      match r.enter f.num 2 f.strict with
      | .error e => .error e
      | .ok none => .ok (.bytes [], r)
      | .ok (some r1) => match r1.readString nfc with
        | .error e => .error e
        | .ok (v, r2) => .ok (.bytes v, r2)
    | .bytesArr =>
      match readBytesArray (r.data.length + 2) r f.num [] with
      | .error e => .error e
      | .ok (l, r') => .ok (.bytesArr l, r')
    | .uints =>
      match r.enterArr f.num 2 with
      | .error e => .error e
      | .ok none => .ok (.uints [], r)
      | .ok (some r1) => match r1.readUInt with
        | .error e => .error e
        | .ok (len, r2) =>
          -- `end := r.index + int(arrayLength)`; int() of a uint64 ≥ 2^63 is negative
          let len' : Int := if len ≥ 2 ^ 63 then (len : Int) - 2 ^ 64 else len
          match readPackedUInts (r.data.length + 2) r2 (wrapInt64 ((r2.index : Int) + len')) [] with
          | .error e => .error e
          | .ok (l, r3) => .ok (.uints l, r3)
    | .msg name =>
      match r.enter f.num 2 f.strict with
      | .error e => .error e
      | .ok none => .ok (defaultMsg t name, r)
      | .ok (some r1) => decodeNested t nfc fuel name r1
    | .msgArr name =>
      match decodeMsgArr t nfc fuel name f.num r [] with
      | .error e => .error e
      | .ok (l, r') => .ok (.msgArr l, r')
    | .unknown _ => .error .panic

/-- the tail of `ReadDecodable`: size, nested reader with unchecked end, lenient nested decode -/
def decodeNested (t : Table) (nfc : NFC) : Nat → String → Reader → Except Err (Value × Reader)
  | 0, _, _ => .error .panic
  | fuel + 1, name, r1 =>
    match r1.readUInt with
    | .error e => .error e
    | .ok (size, r2) =>
      let size' : Int := if size ≥ 2 ^ 63 then (size : Int) - 2 ^ 64 else size
      match t.find name with
      | none => .error .panic
      | some s =>
        match decodeFields t nfc fuel s.dec { r2 with stop := wrapInt64 ((r2.index : Int) + size') } with
        | .error e => .error e
        | .ok (vals, rn) => .ok (.msg true vals, { r2 with index := rn.index })

/-- `ReadDecodables` -/
def decodeMsgArr (t : Table) (nfc : NFC) : Nat → String → Nat → Reader → List (List Value) →
    Except Err (List (List Value) × Reader)
  | 0, _, _, _, _ => .error .panic
  | fuel + 1, name, fn, r, acc =>
    if (r.index : Int) < r.stop then
      match r.enterArr fn 2 with
      | .error e => .error e
      | .ok none => .ok (acc, r)
      | .ok (some r1) =>
        match decodeNested t nfc fuel name r1 with
        | .error e => .error e
        | .ok (.msg _ vals, r2) => decodeMsgArr t nfc fuel name fn r2 (acc ++ [vals])
        | .ok (_, _) => .error .panic
    else .ok (acc, r)
end

/-- enough fuel for any input of that length (≤ 30 fields per struct, nesting ≤ 6, every loop
iteration consumes a byte) -/
def fuelFor (data : Bytes) : Nat := 3 * data.length + 400

/-- `Decode` -/
def decode (t : Table) (nfc : NFC) (s : Schema) (data : Bytes) : Except Err (List Value) :=
  match decodeFields t nfc (fuelFor data) s.dec (Reader.new data) with
  | .error e => .error e
  | .ok (vals, _) => .ok vals

/-- `DecodeStrict` -/
def decodeStrict (t : Table) (nfc : NFC) (s : Schema) (data : Bytes) : Except Err (List Value) :=
  match decodeFields t nfc (fuelFor data) s.decStrict (Reader.new data) with
  | .error e => .error e
  | .ok (vals, r) => if (r.index : Int) ≠ r.stop then .error .unreadBytes else .ok vals

end LiskVerif.Codec
