/-
Start-up of a p2p `Connection` from its configuration, as far as the IP gates are concerned
(pkg/p2p/peer.go `newPeer`, pkg/p2p/peerbook.go, pkg/p2p/p2p.go `Start`).

    newPeer(cfg):  connGater := newConnGater(...)
                   connGater.optionWithBlacklist(cfg.BlacklistedIPs)      -- the gater reads the list
                   ... libp2p.New ...
                   peerbook := newPeerbook(cfg.SeedPeers, cfg.FixedPeers, cfg.BlacklistedIPs)
                                                                          -- keeps the caller's slice: a VIEW
                   connGater.start
    Start:         peer.peerbook.init(logger)                             -- warns about conflicts, reads only

The configuration lists are Go slices.  The peerbook stores the slice it is given, so its
`permanentlyBlacklistedIPs` shares its backing array with `Config.BlacklistedIPs`: whatever a later step
writes through the peerbook's slice is written into the configuration (whose slice header - length - does
not change).  The model makes both degrees of freedom explicit:

  * `ListOp`: what the steps that run on the peerbook do to the ARRAY behind the blacklist
    (`readOnly` = the code; `filterInPlace` = the `kept := l[:0]; ... kept = append(kept, x)` idiom);
  * `gaterFirst`: whether the gater is loaded from the configuration before (the code) or after those steps.

IPs are canonical byte strings (`ConnGater.canonIP`); `none` is a blacklist entry `net.ParseIP` rejects.
Core Lean only.
-/
import LiskVerif.Model.ConnGater

namespace LiskVerif.ConfigStart
open LiskVerif.ConnGater

/-- `p2p.Config` as far as the gates are concerned -/
structure Config where
  blacklist : List (Option IP)
  /-- IPs of the configured seed peers -/
  seeds : List IP := []
  /-- IPs of the configured fixed peers -/
  fixed : List IP := []
  /-- IPs of the listen addresses -/
  listen : List IP := []
deriving Repr, DecidableEq

/-- what the peerbook steps do to the array behind `Config.BlacklistedIPs` (same length: the caller's slice
header is not theirs to change) -/
abbrev ListOp := Config → List (Option IP) → List (Option IP)

/-- `peerbook.init` of the code: reports conflicts, writes nothing -/
def readOnly : ListOp := fun _ l => l

/-- The in-place filter idiom on a slice that shares its array with `l`:

    kept := l[:0]
    for _, x := range l { if keep(x) { kept = append(kept, x) } }

Afterwards the array, seen through the caller's slice of unchanged length, holds the kept elements followed by
the old elements at the remaining positions. -/
def filterInPlace (keep : α → Bool) (l : List α) : List α :=
  (l.filter keep) ++ l.drop (l.filter keep).length

/-- is the blacklist entry also a seed peer or a fixed peer? -/
def conflicts (cfg : Config) : Option IP → Bool
  | some ip => cfg.seeds.contains ip || cfg.fixed.contains ip
  | none => false

/-- "keep the peerbook's lists disjoint": drop conflicting entries from the peerbook's blacklist, in place -/
def dropConflictsInPlace : ListOp := fun cfg l => filterInPlace (fun o => !conflicts cfg o) l

/-- `newConnGater` of `newPeer` -/
def fresh (expSecs : Nat) : Gater := { expSecs := expSecs }

/-- `newPeer` + `peerbook.init`: the started gater of the new Peer (`none`: Start fails on an entry
`net.ParseIP` rejects) and the array behind `Config.BlacklistedIPs` afterwards. -/
def startWith (gaterFirst : Bool) (pb : ListOp) (expSecs : Nat) (cfg : Config) : Option Gater × List (Option IP) :=
  if gaterFirst then
    match blacklist (fresh expSecs) cfg.blacklist with
    | (_, false) => (none, cfg.blacklist)
    | (g, true) => (some (start g), pb cfg cfg.blacklist)
  else
    let arr := pb cfg cfg.blacklist
    match blacklist (fresh expSecs) arr with
    | (_, false) => (none, arr)
    | (g, true) => (some (start g), arr)

/-- the code: gater first, read-only peerbook -/
def startConn (expSecs : Nat) (cfg : Config) : Option Gater × List (Option IP) := startWith true readOnly expSecs cfg

end LiskVerif.ConfigStart
