/-
Model of the persistent node state and of the three operations that change it:

* `apply`     = `Executer.processValidated` + `Chain.AddBlock` / `DataAccess.saveBlock`
                (pkg/consensus/execute.go, pkg/blockchain/{chain.go,data_access.go,block_cache.go});
* `deleteTip` = `Executer.deleteBlock` + `Chain.RemoveBlock` / `DataAccess.removeBlock`;
* `restart`   = `Chain.PrepareCache` on a fresh `blockCache` over the same database;
* `process`   = `Executer.process` (fork choice, then one of the above / the tie-break sequence);
* `clearTemp` = `DataAccess.ClearTempBlocks`; `genesis` = `Executer.processGenesisBlock`.

Transcription conventions
* the blockchain database (pebble) is the association list `DiffDB.Store` (`Bytes ⇀ Bytes`), a write
  batch is a list of `BOp` applied in order (pebble applies a batch in order, later ops win);
* key prefixes are the Go constants of pkg/blockchain/data_access.go: 3 blockID→header,
  4 height→blockID, 5 blockID→txIDs, 6 txID→tx, 7 temp, 8 blockID→assets, 9 height→events,
  10 consensus (BFT) store, 27 finalized height, 51 state diff; heights are `bytes.FromUint32`
  (4 bytes big endian);
* a block is the data the database stores for it: header bytes, (id, bytes) of every transaction,
  the encoded assets, plus the decoded header fields the consensus rules read (`Hdr`);
* executing a block (verifyBlock, ABI calls, liskbft) is NOT modelled: its result is the input
  `Exec` = (staged consensus store at `Commit` time as a `DiffDB.Cache`, `maxHeightPrecommited`
  read from it, the encoded application events) and the flag `valid` (every check of
  `processValidated` other than height / previousBlockID succeeded);
* codecs that are not transcribed are parameters (`Codecs`): `diffdb.Diff` encode/decode, block
  header decode (`getBlockHeader`: decode + id := hash of the bytes), `bytesList` decode, block
  decode (`blockchain.NewBlock`). `Block.Encode` and `bytesList.Encode` are transcribed;
* `bytes.ToUint32` on a slice shorter than 4 bytes panics in Go; here it returns 0 (only this code
  writes the keys/values it is applied to, always 4 bytes);
* the block cache is the list of cached blocks, newest first; `cfg.maxCache ≥ 1` is assumed
  (with 0 `blockCache.push` fails on every block).
-/
import LiskVerif.Model.DiffDB
import LiskVerif.Model.Header
import LiskVerif.Model.Codec
import LiskVerif.Gen.Fns

namespace LiskVerif.Node
open LiskVerif.DiffDB

def u32 : Nat := 4294967296

/-- `bytes.FromUint32` (big endian; the argument is a Go `uint32`, i.e. taken mod 2^32) -/
def encU32 (n : Nat) : Bytes :=
  [UInt8.ofNat (n / 16777216 % 256), UInt8.ofNat (n / 65536 % 256), UInt8.ofNat (n / 256 % 256),
   UInt8.ofNat (n % 256)]

/-- `bytes.ToUint32` (first four bytes, big endian) -/
def decU32 : Bytes → Nat
  | a :: b :: c :: d :: _ => ((a.toNat * 256 + b.toNat) * 256 + c.toNat) * 256 + d.toNat
  | _ => 0

/-! ### keys -/

def kHeader (id : Bytes) : Bytes := 3 :: id
def kHeight (h : Nat) : Bytes := 4 :: encU32 h
def kTxs (id : Bytes) : Bytes := 5 :: id
def kTx (txid : Bytes) : Bytes := 6 :: txid
def kTemp (h : Nat) : Bytes := 7 :: encU32 h
def kAssets (id : Bytes) : Bytes := 8 :: id
def kEvents (h : Nat) : Bytes := 9 :: encU32 h
def pState : UInt8 := 10
def kFin : Bytes := [27]
def kDiff (h : Nat) : Bytes := 51 :: encU32 h

/-! ### blocks -/

structure Block where
  hdr : Hdr
  hdrBytes : Bytes
  txs : List (Bytes × Bytes)   -- (transaction id, encoded transaction)
  assets : List Bytes          -- encoded block assets
deriving Repr, DecidableEq

/-- result of executing a block on the consensus store -/
structure Exec where
  overlay : Cache     -- staged consensus store when `Commit` is called (full keys, prefix 10)
  mhpc : Nat          -- `maxHeightPrecommited` of the staged store
  events : List Bytes -- encoded events of `abi.Events()`
deriving Repr

structure Codecs where
  encDiff : Diff → Bytes
  decDiff : Bytes → Option Diff
  decHdr : Bytes → Option Hdr
  decList : Bytes → Option (List Bytes)
  decBlock : Bytes → Option Block

structure Cfg where
  maxCache : Nat
  keepEvents : Int      -- `keepEventsForHeights` (-1: keep everything)
  genesisHeight : Nat

/-- one length-delimited field (`Writer.WriteBytes` / `WriteEncodable`) -/
def field (n : Nat) (b : Bytes) : Bytes := Codec.writeKey 2 n ++ Codec.writeBytes b

/-- `bytesList.Encode` (`encodableListToBytes`) -/
def encList (items : List Bytes) : Bytes := (items.map (field 1)).flatten

/-- `Block.Encode` -/
def encBlock (b : Block) : Bytes :=
  field 1 b.hdrBytes ++ (b.txs.map fun t => field 2 t.2).flatten ++ (b.assets.map (field 3)).flatten

/-! ### write batches -/

inductive BOp where
  | set (k v : Bytes)
  | del (k : Bytes)
deriving Repr, DecidableEq

def BOp.key : BOp → Bytes
  | .set k _ => k
  | .del k => k

def BOp.val : BOp → Option Bytes
  | .set _ v => some v
  | .del _ => none

def applyOp (s : Store) : BOp → Store
  | .set k v => sset s k v
  | .del k => sdel s k

def applyBatch (s : Store) (ops : List BOp) : Store := ops.foldl applyOp s

/-! ### state -/

inductive Ev where
  | finalize (orig next : Nat) (trigger : Bytes)
  | new (id : Bytes) (height : Nat)
  | delete (id : Bytes) (height : Nat)
deriving Repr, DecidableEq

structure St where
  db : Store
  cache : List Block := []   -- `blockCache`, newest first
  log : List Ev := []        -- published events, newest first

inductive Res where
  | ok
  | err          -- an error is returned, nothing was written
  | panic        -- nil dereference (`Chain.LastBlock()` with an empty block cache)
  | errWritten   -- an error is returned after the batch was written (`blockCache.push` failed)
deriving Repr, DecidableEq

/-- `DataAccess.GetFinalizedHeight` -/
def finOf (db : Store) : Option Nat := (slookup db kFin).map decU32

/-- `blockCache.getByHeight` -/
def cacheAt (c : List Block) (h : Nat) : Option Block := c.find? (fun b => b.hdr.height == h)

/-- `DataAccess.getBlockHeader` -/
def headerOf (cd : Codecs) (db : Store) (id : Bytes) : Option Hdr :=
  match slookup db (kHeader id) with
  | none => none
  | some hb => cd.decHdr hb

/-- `DataAccess.GetBlockHeaderByHeight`: the cache first, then the database -/
def headerAt (cd : Codecs) (s : St) (h : Nat) : Option Hdr :=
  match cacheAt s.cache h with
  | some b => some b.hdr
  | none =>
    match slookup s.db (kHeight h) with
    | none => none
    | some id => headerOf cd s.db id

/-- the block id served for a height -/
def idAt (cd : Codecs) (s : St) (h : Nat) : Option Bytes := (headerAt cd s h).map (·.id)

/-- `blockCache.push` -/
def push (cfg : Cfg) (c : List Block) (b : Block) : Option (List Block) :=
  match c with
  | [] => some [b]
  | t :: _ =>
    if b.hdr.height ≠ (t.hdr.height + 1) % u32 then none
    else some (b :: (if c.length ≥ cfg.maxCache then c.dropLast else c))

/-! ### saveBlock / removeBlock -/

/-- the `batch.Set` calls of `saveBlock` that describe the block itself -/
def blockSetOps (b : Block) (events : List Bytes) : List BOp :=
  [.set (kHeader b.hdr.id) b.hdrBytes, .set (kHeight b.hdr.height) b.hdr.id]
  ++ (if b.txs.isEmpty then [] else
        b.txs.map (fun t => BOp.set (kTx t.1) t.2) ++ [.set (kTxs b.hdr.id) (b.txs.map (·.1)).flatten])
  ++ (if events.isEmpty then [] else [.set (kEvents b.hdr.height) (encList events)])
  ++ (if b.assets.isEmpty then [] else [.set (kAssets b.hdr.id) (encList b.assets)])

/-- `minEventDeleteHeight` of `saveBlock` (only evaluated when `keepEvents > -1`) -/
def eventPruneBound (cfg : Cfg) (height nextFin : Nat) : Nat :=
  min nextFin (height - cfg.keepEvents.toNat)

/-- event pruning of `saveBlock`: `IterateRange(9|0, 9|m)` on the database, one `Del` per key -/
def eventPruneOps (cfg : Cfg) (db : Store) (height nextFin : Nat) : List BOp :=
  if cfg.keepEvents > -1 then
    let m := eventPruneBound cfg height nextFin
    if m > 0 then (dbRange db (kEvents 0) (kEvents m) (-1) false).map (fun kv => BOp.del kv.1) else []
  else []

/-- `DataAccess.saveBlock` -/
def saveBlockOps (cfg : Cfg) (db : Store) (b : Block) (events : List Bytes) (nextFin : Nat)
    (removeTemp : Bool) : List BOp :=
  blockSetOps b events
  ++ [.set kFin (encU32 nextFin)]
  ++ eventPruneOps cfg db b.hdr.height nextFin
  ++ (if removeTemp then [.del (kTemp b.hdr.height)] else [])

/-- `DataAccess.removeBlock` -/
def removeBlockOps (b : Block) (saveTemp : Bool) : List BOp :=
  [.del (kHeader b.hdr.id), .del (kHeight b.hdr.height)]
  ++ (if b.txs.isEmpty then [] else b.txs.map (fun t => BOp.del (kTx t.1)) ++ [.del (kTxs b.hdr.id)])
  ++ (if b.assets.isEmpty then [] else [.del (kAssets b.hdr.id)])
  ++ [.del (kEvents b.hdr.height)]
  ++ (if saveTemp then [.set (kTemp b.hdr.height) (encBlock b)] else [])

/-- the diff `cacheDB.commit` returns: it depends on the overlay only -/
def diffOf (ov : Cache) : Diff := (commitCache ov [] {}).2

/-- deletion of finalized diffs in `processValidated`: `IterateKey(51)`, `Del` of every key whose
height is below the new finalized height -/
def diffPruneOps (db : Store) (mh : Nat) : List BOp :=
  ((dbIterate db [51] (-1) false).filter (fun kv => decide (decU32 (kv.1.drop 1) < mh))).map
    (fun kv => BOp.del kv.1)

/-! ### processValidated -/

/-- everything `processValidated` writes after the consensus store commit -/
def applyOps (cd : Codecs) (cfg : Cfg) (db : Store) (fin : Nat) (b : Block) (x : Exec)
    (removeTemp : Bool) : List BOp :=
  let raised := decide (fin < x.mhpc)
  let nextFin := if raised then x.mhpc else fin
  [.set (kDiff b.hdr.height) (cd.encDiff (diffOf x.overlay))]
  ++ (if raised then diffPruneOps db x.mhpc else [])
  ++ saveBlockOps cfg db b x.events nextFin removeTemp

def apply (cd : Codecs) (cfg : Cfg) (s : St) (b : Block) (valid : Bool) (x : Exec)
    (removeTemp : Bool) : St × Res :=
  match s.cache with
  | [] => (s, .panic)
  | tip :: _ =>
    if b.hdr.height ≠ (tip.hdr.height + 1) % u32 then (s, .err)
    else if b.hdr.previousBlockID ≠ tip.hdr.id then (s, .err)
    else if !valid then (s, .err)
    else
      match finOf s.db with
      | none => (s, .err)
      | some fin =>
        let dbC := (commitCache x.overlay s.db {}).1
        let db' := applyBatch dbC (applyOps cd cfg s.db fin b x removeTemp)
        match push cfg s.cache b with
        | none => ({ s with db := db' }, .errWritten)
        | some c' =>
          let evs := if fin < x.mhpc then [Ev.new b.hdr.id b.hdr.height, Ev.finalize fin x.mhpc b.hdr.id]
                     else [Ev.new b.hdr.id b.hdr.height]
          ({ db := db', cache := c', log := evs ++ s.log }, .ok)

/-! ### restart: `PrepareCache` over the database -/

/-- the transaction ids of `dbPrefixBlockIDToTxs`: `len/32` chunks of 32 bytes -/
def chunks32 (b : Bytes) : List Bytes :=
  (List.range (b.length / 32)).map fun i => (b.drop (32 * i)).take 32

/-- `DataAccess.getTransactions` -/
def getTxs (db : Store) (id : Bytes) : Option (List (Bytes × Bytes)) :=
  match slookup db (kTxs id) with
  | none => some []
  | some ids => (chunks32 ids).mapM fun i => (slookup db (kTx i)).map fun t => (i, t)

/-- `DataAccess.getBlockAssets` -/
def getAssets (cd : Codecs) (db : Store) (id : Bytes) : Option (List Bytes) :=
  match slookup db (kAssets id) with
  | none => some []
  | some a => if a.isEmpty then some [] else cd.decList a

/-- `DataAccess.getBlock` -/
def getBlock (cd : Codecs) (db : Store) (id : Bytes) : Option Block :=
  match slookup db (kHeader id) with
  | none => none
  | some hb =>
    match cd.decHdr hb with
    | none => none
    | some hdr =>
      match getTxs db id, getAssets cd db id with
      | some txs, some assets => some { hdr := hdr, hdrBytes := hb, txs := txs, assets := assets }
      | _, _ => none

/-- `DataAccess.GetBlockByHeight` with an empty cache -/
def getBlockByHeight (cd : Codecs) (db : Store) (h : Nat) : Option Block :=
  match slookup db (kHeight h) with
  | none => none
  | some id => getBlock cd db id

def pushAll (cfg : Cfg) : List Block → List Block → Option (List Block)
  | c, [] => some c
  | c, b :: r =>
    match push cfg c b with
    | none => none
    | some c' => pushAll cfg c' r

/-- `Chain.PrepareCache` on an empty cache. `none`: an error is returned (Init fails);
`some []`: `getLastBlock` failed, the error is swallowed and the cache stays empty. -/
def loadCache (cd : Codecs) (cfg : Cfg) (db : Store) : Option (List Block) :=
  match dbIterate db [4] 1 true with
  | [] => some []
  | kv :: _ =>
    match getBlock cd db kv.2 with
    | none => some []
    | some last =>
      let H := last.hdr.height
      -- the range is clamped to the genesis height (fix 105ed9f; it was clamped to 0 before)
      let lo := max cfg.genesisHeight (H - cfg.maxCache)
      let lower : Option (List Block) :=
        if H > cfg.genesisHeight then
          ((List.range (H - lo)).map fun i => lo + i).mapM
            (getBlockByHeight cd db)
        else some []
      match lower with
      | none => none
      | some bs => pushAll cfg [] (bs ++ [last])

/-! ### deleteBlock -/


def deleteTip (cd : Codecs) (cfg : Cfg) (s : St) (saveTemp : Bool) : St × Res :=
  match s.cache with
  | [] => (s, .panic)
  | tip :: rest =>
    match finOf s.db with
    | none => (s, .err)
    | some fin =>
      if tip.hdr.height ≤ fin then (s, .err)
      else
        match headerAt cd s (tip.hdr.height - 1) with
        | none => (s, .err)
        | some _ =>
          match slookup s.db (kDiff tip.hdr.height) with
          | none => (s, .err)
          | some bytes =>
            match cd.decDiff bytes with
            | none => (s, .err)
            | some d =>
              if tip.hdr.height = cfg.genesisHeight then (s, .err)
              else
                let db' := applyBatch (revertDiff s.db d)
                  (.del (kDiff tip.hdr.height) :: removeBlockOps tip saveTemp)
                let log' := Ev.delete tip.hdr.id tip.hdr.height :: s.log
                match rest with
                | _ :: _ => ({ db := db', cache := rest, log := log' }, .ok)
                | [] =>
                  -- `Chain.RemoveBlock` (fixed, see fixes/C05-cache-exhausted.patch): when the
                  -- block cache ran empty it is loaded again from the database
                  match loadCache cd cfg db' with
                  | none => ({ db := db', cache := [], log := s.log }, .errWritten)
                  | some c => ({ db := db', cache := c, log := log' }, .ok)

def restart (cd : Codecs) (cfg : Cfg) (s : St) : St × Res :=
  match loadCache cd cfg s.db with
  | none => ({ s with cache := [] }, .err)
  | some [] => ({ s with cache := [] }, .err)
  | some c => ({ s with cache := c }, .ok)

/-- `DataAccess.ClearTempBlocks` -/
def clearTemp (s : St) : St :=
  { s with db := applyBatch s.db ((dbIterate s.db [7] (-1) true).map fun kv => BOp.del kv.1) }

/-- `DataAccess.GetTempBlocks` -/
def tempBlocks (cd : Codecs) (s : St) : Option (List Block) :=
  (dbIterate s.db [7] (-1) true).mapM fun kv => cd.decBlock kv.2

/-! ### processGenesisBlock -/

def genesis (cd : Codecs) (cfg : Cfg) (db : Store) (g : Block) (x : Exec) : St :=
  let dbC := (commitCache x.overlay db {}).1
  let ops := [BOp.set (kDiff g.hdr.height) (cd.encDiff (diffOf x.overlay))]
    ++ saveBlockOps cfg db g x.events g.hdr.height false
  { db := applyBatch dbC ops, cache := [g], log := [] }

/-! ### Executer.Init on a database with the start-up genesis block `g` (restart with given inputs) -/

/-- `Chain.GenesisBlockExist` as `Executer.Init` calls it (new `Chain` object: the block cache is empty,
everything is read from the database). `some true`: the block stored at the height of `g` is `g`;
`some false`: nothing is stored at that height and the database holds no block at all (first start);
`none`: an error - another block is stored at that height, the stored block cannot be read, or no block is
stored at that height although the database holds a chain (a chain built from a genesis block at another
height; fix C04-foreign-genesis-height: this case was answered `some false` before and `Init` processed
the foreign genesis block on top of the stored chain). -/
def genesisExist (cd : Codecs) (db : Store) (g : Block) : Option Bool :=
  match getBlockByHeight cd db g.hdr.height with
  | some b => if b.hdr.id = g.hdr.id then some true else none
  | none => if (dbIterate db [4] 1 true).isEmpty then some false else none

/-- `Executer.Init` with genesis block `g` (a start of the node on whatever the database holds):
`GenesisBlockExist`, then `processGenesisBlock` (only on an empty database; `x` is the result of
executing `g`) and `PrepareCache`. `cfg` is the configuration of the new `Chain` object, its genesis
height is the height of `g`. A start that is refused leaves the new `Chain` with an empty block cache. -/
def restartG (cd : Codecs) (cfg : Cfg) (s : St) (g : Block) (x : Exec) : St × Res :=
  let cfg' : Cfg := { cfg with genesisHeight := g.hdr.height }
  match genesisExist cd s.db g with
  | none => ({ s with cache := [] }, .err)
  | some true => restart cd cfg' s
  | some false => ({ genesis cd cfg' s.db g x with log := s.log }, .ok)  -- `PrepareCache`: the genesis block is cached

/-! ### Executer.process -/

structure RecvFlags where
  receivedBlockWithinForgingSlot : Bool
  receivedLastBlockWithinForgingSlot : Bool
deriving Repr, DecidableEq

inductive Verdict where
  | identical | valid | doubleForging | tieBreak | differentChain | discard
deriving Repr, DecidableEq

/-- the chain of `if`s at the top of `process`, over the regenerated predicates of
pkg/consensus/forkchoice (LiskVerif/Gen/Fns.lean) -/
def forkChoice (slot : Slot) (tip cur : Hdr) (f : RecvFlags) : Verdict :=
  let c : FC := { lastHeader := tip, currentHeader := cur, slot := slot,
                  receivedBlockWithinForgingSlot := f.receivedBlockWithinForgingSlot,
                  receivedLastBlockWithinForgingSlot := f.receivedLastBlockWithinForgingSlot }
  if Gen.fcIsIdenticalBlock c then .identical
  else if Gen.fcIsValidBlock c then .valid
  else if Gen.fcIsDoubleForging c then .doubleForging
  else if Gen.fcIsTieBreak c then .tieBreak
  else if Gen.fcIsDifferentChain c then .differentChain
  else .discard

inductive PRes where
  | identical | doubleForging | discard | wouldSync
  | err                -- an error is returned, nothing changed
  | applied            -- valid block applied
  | tieBreakApplied    -- tip replaced
  | tieBreakReverted   -- replacement failed, the previous tip was applied again
  | tieBreakLost       -- replacement failed and re-applying the previous tip failed as well
  | panic
deriving Repr, DecidableEq

/-- what the block under `process` is, as far as this model needs it -/
structure Incoming where
  block : Block
  flags : RecvFlags
  staticValid : Bool   -- `block.Validate()`
  valid : Bool         -- `processValidated` succeeds (besides height / previousBlockID)
  exec : Exec          -- result of executing it on the parent state
  oldValid : Bool      -- tie-break only: `processValidated` of the previous tip succeeds again
  oldExec : Exec       -- tie-break only: result of executing the previous tip again

def process (cd : Codecs) (cfg : Cfg) (slot : Slot) (s : St) (i : Incoming) : St × PRes :=
  match s.cache with
  | [] => (s, .panic)
  | tip :: _ =>
    match forkChoice slot tip.hdr i.block.hdr i.flags with
    | .identical => (s, .identical)
    | .valid =>
      if !i.staticValid then (s, .err)
      else
        match apply cd cfg s i.block i.valid i.exec false with
        | (s', .ok) => (s', .applied)
        | (s', .panic) => (s', .panic)
        | (s', _) => (s', .err)
    | .doubleForging => (s, .doubleForging)
    | .tieBreak =>
      if !i.staticValid then (s, .err)
      else
        match deleteTip cd cfg s false with
        | (s1, .ok) =>
          match apply cd cfg s1 i.block i.valid i.exec false with
          | (s2, .ok) => (s2, .tieBreakApplied)
          | (s2, _) =>
            match apply cd cfg s2 tip i.oldValid i.oldExec false with
            | (s3, .ok) => (s3, .tieBreakReverted)
            | (s3, _) => (s3, .tieBreakLost)
        | (s1, .panic) => (s1, .panic)
        | (s1, _) => (s1, .err)
    | .differentChain => (s, .wouldSync)
    | .discard => (s, .discard)

/-! ### operation sequences -/

inductive Op where
  | apply (b : Block) (valid : Bool) (x : Exec) (removeTemp : Bool)
  | deleteTip (saveTemp : Bool)
  | restart
  | process (i : Incoming)
  | clearTemp

def step (cd : Codecs) (cfg : Cfg) (slot : Slot) (s : St) : Op → St
  | .apply b v x rt => (apply cd cfg s b v x rt).1
  | .deleteTip st => (deleteTip cd cfg s st).1
  | .restart => (restart cd cfg s).1
  | .process i => (process cd cfg slot s i).1
  | .clearTemp => clearTemp s

def run (cd : Codecs) (cfg : Cfg) (slot : Slot) (s : St) (ops : List Op) : St :=
  ops.foldl (step cd cfg slot) s

/-- `deleteTillCommonBlock` of both synchronisers: delete (keeping temp copies) until the tip has
the height of the common block; `fuel` bounds the loop (any value above the tip height). -/
def deleteTill (cd : Codecs) (cfg : Cfg) : Nat → St → Nat → St × Res
  | 0, s, _ => (s, .err)
  | fuel + 1, s, target =>
    match s.cache with
    | [] => (s, .panic)
    | tip :: _ =>
      if tip.hdr.height = target then (s, .ok)
      else
        match deleteTip cd cfg s true with
        | (s', .ok) => deleteTill cd cfg fuel s' target
        | (s', r) => (s', r)

/-- `Executer.createSyncContext`: the finalized block header handed to the synchronisers
(`SyncContext.FinalizedBlockHeader`) is `GetBlockHeaderByHeight(GetFinalizedHeight())` — read from the
database (and the block cache) at the time of the call, never from memory of the Executer. `none`:
an error is returned. -/
def syncFinalized (cd : Codecs) (s : St) : Option Hdr :=
  match finOf s.db with
  | none => none
  | some fin => headerAt cd s fin

/-! ### height selection of the synchronisers (pkg/consensus/sync) -/

/-- loop of `getHeightWithGap`; `i` is the loop counter, `n` the remaining iterations -/
def gapLoop (start minimum gap : Nat) : Nat → Nat → List Nat
  | 0, _ => []
  | n + 1, i =>
    let t := (i * gap) % u32
    if start < (minimum + t) % u32 then []
    else ((start + u32 - t) % u32) :: gapLoop start minimum gap n (i + 1)

/-- `getHeightWithGap(start, minimum uint32, gap, num int)` (block_sync.go) -/
def getHeightWithGap (start minimum gap num : Nat) : List Nat :=
  if start ≤ minimum then [minimum] else gapLoop start minimum gap (num - 1) 0

/-- loop of `getLastHeights` -/
def lastLoop (start : Nat) : Nat → Nat → List Nat
  | 0, _ => []
  | n + 1, i =>
    if start < i % u32 then []
    else ((start + u32 - i % u32) % u32) :: lastLoop start n (i + 1)

/-- `getLastHeights(start uint32, num int)` (fast_sync.go) -/
def getLastHeights (start num : Nat) : List Nat := lastLoop start (num - 1) 0

/-- what `fastSyncer.Sync` does with the common block the peer named (heights are `uint32`) -/
inductive FastSyncDecision where
  | banBelowFinalized   -- `commonBlockHeader.Height < ctx.FinalizedBlockHeader.Height`: ban, error
  | abortTooFar         -- more than two rounds away: error, wait for a new block
  | proceed             -- download, delete down to the common block, apply
deriving Repr, DecidableEq

def fastSyncDecide (lastHeight commonHeight finalizedHeight blockHeight numValidators : Nat) :
    FastSyncDecision :=
  if commonHeight < finalizedHeight then .banBelowFinalized
  else
    let twoRounds := (numValidators * 2) % u32
    if (lastHeight + u32 - commonHeight) % u32 > twoRounds ∨
       (blockHeight + u32 - commonHeight) % u32 > twoRounds then .abortTooFar
    else .proceed

end LiskVerif.Node
