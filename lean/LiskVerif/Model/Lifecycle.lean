/-
Life cycle of a p2p `Connection` (pkg/p2p/p2p.go `Start` / `Stop`) on top of the single-run model
`Model/RateLimit.lean`.

`Connection.Start` builds a NEW `Peer` (libp2p host + `connectionGater`, `newPeer`) on every call.  The
`MessageProtocol`, its `rateLimit` and the `Connection` are created once by `NewConnection` and each
holds a pointer to "its" Peer:

    MessageProtocol.peer   assigned by `MessageProtocol.start(ctx, logger, peer)`
    rateLimit.peer         assigned by `rateLimit.start(logger, peer)`, called from `MessageProtocol.start`
    Connection.Peer        assigned by `Connection.Start`

A run of the Connection is numbered by a generation counter `gen` (number of completed restarts).  Every
component carries the generation of the Peer it points to (`none` = nil pointer).  A penalty issued by a
component lands in the gater of THAT generation: if it is the current one the single-run model applies;
if it is a previous one the penalty is booked on the gater of a run that is over (that gater still says
`isStarted`, so no error is reported) and `Disconnect` goes to a closed host - the running host sees
nothing.

`restartWith` is parametrised by what `rateLimit.start` / `MessageProtocol.start` / `Connection.Start` do
with their pointer given its present value (`Rebind`); the code assigns unconditionally (`always`, tied to
the source by Gen/Life.lean + Props/C18_LifeGen.lean), `restart = restartWith always always always`.

What a restart does to the rest of the state is modelled as the code does it (pinned, not part of C18):
the new gater starts with an EMPTY score table (bans taken before are forgotten) and the configured
blacklist (runtime block / unblock forgotten), the new host has no connections, the per-window message
counters and the handler registry SURVIVE (the rateLimit / MessageProtocol objects are kept).
Core Lean only.
-/
import LiskVerif.Model.RateLimit

namespace LiskVerif.Lifecycle
open LiskVerif.ConnGater LiskVerif.RateLimit

structure LNode where
  /-- generation of the current Peer = number of completed `Stop`+`Start` cycles -/
  gen : Nat := 0
  /-- the node as the current Peer sees it: current gater, connections of the current host; plus the
  run-independent parts (counters, handler count, `mpStarted`) -/
  node : Node
  /-- generation of the Peer `MessageProtocol.peer` points to -/
  mpGen : Option Nat := none
  /-- generation of the Peer `rateLimit.peer` points to -/
  rlGen : Option Nat := none
  /-- generation of the Peer `Connection.Peer` points to -/
  connGen : Option Nat := some 0
  /-- gaters of the Peers of previous runs (generation, gater); their hosts are closed -/
  stale : List (Nat × Gater) := []
deriving Repr

def init (g : Gater) : LNode := { node := { g := g } }

/-- does a `start` function assign its `peer` field, given the present binding? -/
abbrev Rebind := Option Nat → Bool

/-- the code: `x.peer = peer`, unconditionally -/
def always : Rebind := fun _ => true

/-- "idempotent start": `if x.peer != nil { return }` in front of the assignment -/
def onlyWhenNil : Rebind := fun b => b.isNone

def bindTo (r : Rebind) (old : Option Nat) (p : Nat) : Option Nat := if r old then some p else old

def lookup : List (Nat × Gater) → Nat → Option Gater
  | [], _ => none
  | (k, g) :: r, b => if k = b then some g else lookup r b

def update : List (Nat × Gater) → Nat → Gater → List (Nat × Gater)
  | [], _, _ => []
  | (k, g) :: r, b, g' => if k = b then (k, g') :: r else (k, g) :: update r b g'

/-- `MessageProtocol.start(ctx, logger, peer)` with the Peer of generation `p`:
`mp.peer = peer; mp.rateLimit.start(logger, peer); SetStreamHandler...` -/
def mpStartWith (rMP rRL : Rebind) (l : LNode) (p : Nat) : LNode :=
  { l with mpGen := bindTo rMP l.mpGen p, rlGen := bindTo rRL l.rlGen p, node := mpStart l.node }

/-- the `mpstart` op: `MessageProtocol.start` with the current Peer -/
def lmpStart (l : LNode) : LNode := mpStartWith always always l l.gen

/-- `Connection.Stop`: the host is closed, its connections are gone -/
def stopped (l : LNode) : LNode := { l with node := { l.node with conns := [], closed := [] } }

/-- `newConnGater` of `newPeer`: same durations, nothing else -/
def freshGater (l : LNode) : Gater := { expSecs := l.node.g.expSecs }

/-- the successful `Start` after `Stop`, `g'` = the new gater with the configured blacklist -/
def startedWith (rMP rRL rConn : Rebind) (l : LNode) (g' : Gater) : LNode :=
  let p := l.gen + 1
  let l1 : LNode := { stopped l with
    gen := p, stale := (l.gen, l.node.g) :: l.stale,
    node := { (stopped l).node with g := start g' } }
  let l2 := mpStartWith rMP rRL l1 p
  { l2 with connGen := bindTo rConn l2.connGen p }

/-- `Connection.Stop` followed by `Connection.Start` with configured blacklist `bl`.
Stop: the host is closed (its connections are gone).  Start: `newPeer` = `newConnGater` with the same
durations + `optionWithBlacklist(cfg.BlacklistedIPs)` (an entry `net.ParseIP` rejects makes Start fail
before anything is assigned) + `connGater.start`; `MessageProtocol.start(ctx, logger, peer)`;
`conn.Peer = peer`. -/
def restartWith (rMP rRL rConn : Rebind) (l : LNode) (bl : List (Option IP)) : LNode × Bool :=
  match blacklist (freshGater l) bl with
  | (_, false) => (stopped l, false)
  | (g', true) => (startedWith rMP rRL rConn l g', true)

def restart (l : LNode) (bl : List (Option IP)) : LNode × Bool := restartWith always always always l bl

/-! ### penalties issued through a component bound to generation `b` -/

/-- `Peer.addPenalty` on the Peer of generation `b` -/
def penaltyVia (l : LNode) (b : Nat) (now : Nat) (addr : Addr) (score : Int) : LNode × PenOut :=
  if b = l.gen then
    let (n', o) := nodeAddPenalty l.node now addr score
    ({ l with node := n' }, o)
  else
    match lookup l.stale b with
    | none => (l, .err .notRunning)
    | some g =>
      -- booked on the gater of a run that is over; `Disconnect` on its closed host closes nothing
      let (g', o) := peerAddPenalty g now addr score
      ({ l with stale := update l.stale b g' }, o)

/-- `Peer.banPeer` on the Peer of generation `b` -/
def banVia (l : LNode) (b : Nat) (now : Nat) (addr : Addr) : LNode × PenOut :=
  if b = l.gen then
    let (n', o) := nodeBan l.node now addr
    ({ l with node := n' }, o)
  else
    match lookup l.stale b with
    | none => (l, .err .notRunning)
    | some g =>
      let (g', o) := banPeer g now addr
      ({ l with stale := update l.stale b g' }, o)

def resetCount (n : Node) (proc : String) (pid : Nat) : Node :=
  { n with counters := updCounter n.counters proc fun c => { c with counts := setCount c.counts pid 0 } }

/-- `rateLimit.checkLimit`: the penalty goes through `rateLimit.peer` -/
def lcheckLimit (l : LNode) (now : Nat) (proc : String) (pid : Nat) (addr : Addr) :
    LNode × CheckOut × Option PenOut :=
  match l.rlGen with
  | none => (l, .notStarted, none)
  | some b =>
    match findCounter l.node.counters proc with
    | none => (l, .unknownProc, none)
    | some c =>
      if (getCount c.counts pid : Int) > c.limit then
        match penaltyVia l b now (withPid addr pid) c.penalty with
        | (l', .err e) => (l', .penErr e, some (.err e))
        | (l', o) => ({ l' with node := resetCount l'.node proc pid }, .ok, some o)
      else (l, .ok, none)

/-- `onRequest` / `onResponse`: the ban of a malformed envelope / unknown procedure goes through
`MessageProtocol.peer`, the rate penalty through `rateLimit.peer`. -/
def lreceive (l : LNode) (now : Nat) (isRequest : Bool) (remote : Addr) (pid : Nat) (k : MsgKind) : LNode :=
  match l.mpGen with
  | none => l
  | some m =>
    let ban := (banVia l m now (withPid remote pid)).1
    match k with
    | .malformed => ban
    | .proc name =>
      if (findCounter l.node.counters name).isNone then ban else
      let l1 : LNode := { l with node := increase l.node name pid }
      match lcheckLimit l1 now name pid remote with
      | (l2, .ok, _) => if isRequest then { l2 with node := { l2.node with handled := l2.node.handled + 1 } } else l2
      | (l2, _, _) => l2

/-- `Connection.ApplyPenalty` / `Connection.BanPeer`: through `Connection.Peer` (its host's connections, its
gater).  Bound to a previous run, the host is closed: no connection, nothing happens. -/
def lapplyPenalty (l : LNode) (now : Nat) (pid : Nat) (score : Int) : LNode :=
  if l.connGen = some l.gen then { l with node := applyPenalty l.node now pid score } else l

def lbanPeerID (l : LNode) (now : Nat) (pid : Nat) : LNode :=
  if l.connGen = some l.gen then { l with node := banPeerID l.node now pid } else l

/-! ### op sequences -/

inductive LOp
  | gater (op : ConnGater.Op)                                   -- direct gater ops of the current Peer
  | ppen (now : Nat) (addr : Addr) (score : Int)                 -- Peer.addPenalty on the current Peer
  | ban (now : Nat) (addr : Addr)                                -- Peer.banPeer on the current Peer
  | register (name : String) (opt : Option (Int × Int))
  | mpStart
  | connect (inbound : Bool) (addr : Addr) (pid : Nat)
  | disconnect (pid : Nat)
  | msg (now : Nat) (isRequest : Bool) (remote : Addr) (pid : Nat) (k : MsgKind)
  | check (now : Nat) (proc : String) (pid : Nat) (addr : Addr)
  | applyPen (now : Nat) (pid : Nat) (score : Int)
  | banPid (now : Nat) (pid : Nat)
  | tick
  | restart (bl : List (Option IP))
deriving Repr

def lapply (l : LNode) : LOp → LNode
  | .gater op => { l with node := { l.node with g := ConnGater.apply l.node.g op } }
  | .ppen now a s => { l with node := (nodeAddPenalty l.node now a s).1 }
  | .ban now a => { l with node := (nodeBan l.node now a).1 }
  | .register name opt => { l with node := (register l.node name opt).1 }
  | .mpStart => lmpStart l
  | .connect i a p => { l with node := (connect l.node i a p).1 }
  | .disconnect p => { l with node := disconnect l.node p }
  | .msg now r a p k => lreceive l now r a p k
  | .check now proc p a => (lcheckLimit l now proc p a).1
  | .applyPen now p s => lapplyPenalty l now p s
  | .banPid now p => lbanPeerID l now p
  | .tick => { l with node := tick l.node }
  | .restart bl => (restart l bl).1

def lrun (l : LNode) (ops : List LOp) : LNode := ops.foldl lapply l

end LiskVerif.Lifecycle
