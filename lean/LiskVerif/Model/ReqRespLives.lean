/-
C17 — the request/response layer over several LIVES of the requesting node.

Model/ReqResp.lean describes one process: ids come from `nextId` (models `uuid.New()`), so they are
fresh by construction.  A node that crashes and starts again keeps its peer id (derived from the
persistent seed) and its remote peers keep working on the requests of the previous life: responses to
those requests are still in flight, or are produced later, and are addressed to the same peer id.
Whether the new life can be hit by them depends on how ids are generated — which is what this model
makes explicit:

* `restart` ends the current process: all requester and handler threads, the pending table `resCh`,
  the lock and the log vanish; the in-flight responses `net` survive (they live in the network / at
  the remote peer).
* `fresh = true`  — ids are fresh ACROSS lives (random 122-bit values: the generator never repeats,
  modelled by keeping `nextId`); the remote may still answer every request ever sent (`sent` is kept).
* `fresh = false` — the generator restarts with the process (a counter, a clock with coarse
  resolution, a seeded PRNG ...): `nextId := 0`.

To state correlation when wire ids can repeat, every request has a ghost IDENTITY `off + id`
(`off` = number of identities issued in earlier lives that the current generator may repeat; it stays
0 when ids are fresh).  The remote handler answers the request with identity `u` with payload `P u`
— in the real system the answer depends on procedure and data of that very request.  Within a life
the fixed protocol `ReqResp.step` runs unchanged with handler `fun id => P (off + id)`.

Core Lean only (linked into the driver executable).
-/
import LiskVerif.Model.ReqResp

namespace LiskVerif.ReqResp

structure LState where
  /-- the current life of the requesting node, plus the network -/
  cur : State
  /-- ghost: identities issued in earlier lives whose wire ids the current generator may repeat -/
  off : Nat
  /-- requests of earlier lives that went on the wire, as (wire id, identity); only filled when the
  generator restarts (`fresh = false`), otherwise `cur.sent` keeps them -/
  old : List (Nat × Nat)
  /-- number of restarts so far -/
  lives : Nat
deriving DecidableEq, Repr

def linit : LState := { cur := init, off := 0, old := [], lives := 0 }

inductive LAction
  | inner (a : Action)      -- an action of the current life / of the network (Model/ReqResp.lean)
  | restart                 -- crash (or stop) of the requesting node followed by a start
  | respondOld (k : Nat)    -- the remote answers request `k` of an earlier life (generator restarted)
deriving DecidableEq, Repr

/-- the remote handler as seen by the current life -/
def handlerOf (P : Nat → Nat) (off : Nat) : Nat → Nat := fun id => P (off + id)

/-- the node state after a restart: an empty process; responses in flight stay in flight -/
def restartCur (fresh : Bool) (s : State) : State :=
  { init with net := s.net,
              sent := if fresh then s.sent else [],
              nextId := if fresh then s.nextId else 0 }

def stepL (fresh : Bool) (P : Nat → Nat) (s : LState) : LAction → Option LState
  | .inner a => (step (handlerOf P s.off) s.cur a).map (fun c => { s with cur := c })
  | .restart =>
    some { cur := restartCur fresh s.cur,
           off := if fresh then s.off else s.off + s.cur.nextId,
           old := if fresh then s.old else s.cur.sent.map (fun id => (id, s.off + id)) ++ s.old,
           lives := s.lives + 1 }
  | .respondOld k =>
    match s.old[k]? with
    | some (wid, uid) => some { s with cur := { s.cur with net := ⟨wid, P uid⟩ :: s.cur.net } }
    | none => none

def runL (fresh : Bool) (P : Nat → Nat) (s : LState) : List LAction → Option LState
  | [] => some s
  | a :: as => match stepL fresh P s a with
    | some s' => runL fresh P s' as
    | none => none

/-- states reachable over any number of lives -/
inductive ReachableL (fresh : Bool) (P : Nat → Nat) : LState → Prop
  | init : ReachableL fresh P linit
  | step {s s' : LState} (a : LAction) : ReachableL fresh P s → stepL fresh P s a = some s' → ReachableL fresh P s'

/-- the answer the remote handler produced for the request requester `r` currently works on -/
def expectedPayload (P : Nat → Nat) (s : LState) (r : Req) : Nat := P (s.off + r.id)

end LiskVerif.ReqResp
