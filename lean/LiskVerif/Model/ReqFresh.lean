/-
C17 — per-request objects of the responder (pkg/p2p `onRequest`, rpc.go `responseWriter`).

`onRequest` obtains a response writer, runs the registered handler on it (the handler calls `Write` and
`Error` any number of times, the last call of each kind wins), and answers with the writer's
(data, err).  Several requests are in flight at once (one goroutine per stream); the steps of their
handlers interleave arbitrarily.  The model is parametric in HOW the writer is obtained:

* `Alloc.fresh`: a new `&responseWriter{}` per request (the code as it is),
* `Alloc.pooled release`: the writer is taken from a free list (a `sync.Pool`) when one is available and
  handed back through `release` when the response has been sent.

A response carries the id and the handler script of ITS OWN request as ghost fields, so that "the response
is what the handler produced for that very request" can be stated per response.
-/
namespace LiskVerif.ReqFresh

/-- rpc.go `responseWriter` : payload and error, both optional -/
structure Writer (D E : Type) where
  data : Option D
  err  : Option E
deriving DecidableEq, Repr

/-- a handler is a script of calls on its writer -/
inductive HAct (D E : Type) where
  | write (d : D)   -- w.Write(d)
  | error (e : E)   -- w.Error(e)
deriving DecidableEq, Repr

def Writer.empty {D E : Type} : Writer D E := ⟨none, none⟩

def applyAct {D E : Type} (w : Writer D E) : HAct D E → Writer D E
  | .write d => { w with data := some d }
  | .error e => { w with err := some e }

def runHandler {D E : Type} (w : Writer D E) (acts : List (HAct D E)) : Writer D E := acts.foldl applyAct w

/-- what the handler of a request produces: the (data, error) of a writer nobody used before -/
def intended {D E : Type} (acts : List (HAct D E)) : Writer D E := runHandler Writer.empty acts

inductive Alloc (D E : Type) where
  | fresh
  | pooled (release : Writer D E → Writer D E)

/-- a request being served: id, the whole handler script (ghost), the part still to run, its writer -/
structure Flight (D E : Type) where
  id   : Nat
  acts : List (HAct D E)
  todo : List (HAct D E)
  w    : Writer D E

/-- a response that was sent: id and script of its request (ghost), the (data, error) sent -/
structure Sent (D E : Type) where
  id   : Nat
  acts : List (HAct D E)
  w    : Writer D E

structure State (D E : Type) where
  flights : List (Flight D E) := []
  pool    : List (Writer D E) := []
  sent    : List (Sent D E)   := []

inductive Action (D E : Type) where
  | start (id : Nat) (acts : List (HAct D E))  -- onRequest reaches `handler(w, newMsg)`
  | act (id : Nat)                             -- the handler of request id performs its next call
  | finish (id : Nat)                          -- the handler returned: respond, release the writer

def advance {D E : Type} (f : Flight D E) : Flight D E :=
  match f.todo with
  | [] => f
  | a :: rest => { f with todo := rest, w := applyAct f.w a }

/-- the writer a new request gets, and the pool afterwards -/
def acquire {D E : Type} : Alloc D E → List (Writer D E) → Writer D E × List (Writer D E)
  | .fresh, pool => (Writer.empty, pool)
  | .pooled _, [] => (Writer.empty, [])
  | .pooled _, w :: pool => (w, pool)

def releaseAll {D E : Type} : Alloc D E → List (Writer D E) → List (Writer D E)
  | .fresh, _ => []
  | .pooled r, ws => ws.map r

def isDone {D E : Type} (id : Nat) (f : Flight D E) : Bool := f.id == id && f.todo.isEmpty

def step {D E : Type} (al : Alloc D E) (s : State D E) : Action D E → State D E
  | .start id acts =>
      let (w, pool) := acquire al s.pool
      { s with flights := ⟨id, acts, acts, w⟩ :: s.flights, pool := pool }
  | .act id => { s with flights := s.flights.map (fun f => if f.id == id then advance f else f) }
  | .finish id =>
      let done := s.flights.filter (isDone id)
      { flights := s.flights.filter (fun f => !isDone id f),
        pool := releaseAll al (done.map (·.w)) ++ s.pool,
        sent := s.sent ++ done.map (fun f => ⟨f.id, f.acts, f.w⟩) }

def run {D E : Type} (al : Alloc D E) (s : State D E) : List (Action D E) → State D E
  | [] => s
  | a :: rest => run al (step al s a) rest

/-- the release of the seeded change C17-17: the payload is dropped, the error stays -/
def releaseDataOnly {D E : Type} (w : Writer D E) : Writer D E := { w with data := none }

/-- a release that resets the whole writer -/
def releaseAllFields {D E : Type} (_ : Writer D E) : Writer D E := Writer.empty

end LiskVerif.ReqFresh
