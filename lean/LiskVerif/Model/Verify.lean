/-
Model of the block acceptance path of pkg/consensus: `Executer.process` (valid-successor branch),
`Block.Validate` (pkg/blockchain/block.go), `Executer.verifyBlock` (verify.go),
`Executer.verifyAggregateCommit` (certificate.go), `stateExecuter.Execute` (abi_caller.go) and
`Executer.processValidated` (execute.go) — with the fixes /verif/fixes/C03-event-root-unchecked,
C03-tx-validate-unchecked, C03-execute-result-ignored and C03-payload-size-unchecked applied.

What is abstract:
* a candidate block is the record `Cand`: the header fields the rules read, plus Boolean *facts*
  about things the model does not compute (Ed25519 / BLS validity, Merkle-root equalities, static
  validity of each transaction, the scripted verdicts of the application behind the ABI).  The
  correspondence harness computes the facts independently of the code under test.
* the consensus store is `BFT.State` (Model/BFT.lean); the staged `diffdb` overlay of
  `processValidated` is the `store` component of `Staged`, the committed database together with the
  cached tip and everything published on the event emitter is the `node` component.
* `uint32` heights / timestamps are `Nat`; the only wrap-around that matters (`unixTime -
  genesisTimestamp` in `BlockSlot.GetSlotNumber`) is modelled modulo 2^32.  `blockTime > 0`.
* wall-clock time is the configuration field `now`.
-/
import LiskVerif.Model.BFT
import LiskVerif.Gen.Fns

namespace LiskVerif.Verify
open LiskVerif LiskVerif.BFT

/-! ### configuration, node state, published events -/

structure Config where
  genesisTimestamp : Nat
  blockTime : Nat
  now : Nat
  /-- `blockchain.Chain.maxTransactionsLength` -/
  maxTxLen : Nat
  /-- `true`: `verifyAggregateCommit` enforces the next-BFT-parameters bound (guard `err == nil &&
  height > heightNextBFTParams-1`, the code since the fix "verifyAggregateCommit never enforced the
  next-BFT-parameter bound").  `false`: the code before that fix, whose guard `err != nil && …`
  could never hold (`heightNextBFTParams` is 0 on `ErrNotFound`, and `0-1` is the largest `uint32`).
  The harness passes the value that matches the repository in the `reset` op. -/
  acBound : Bool := true
deriving Repr, DecidableEq

/-- messages published on the executer's event emitter -/
inductive Ev where
  | finalize (original next trigger : Nat)
  | newBlock (height : Nat) (id : Bytes) (nEvents : Nat)
  | validators (n precommit cert : Nat)
deriving Repr, DecidableEq

structure Node where
  cfg : Config
  tipHeight : Nat
  tipID : Bytes
  tipTimestamp : Nat
  /-- height ↦ block id, newest first -/
  chain : List (Nat × Bytes)
  /-- committed consensus store -/
  bft : BFT.State
  finalized : Nat
  /-- everything published so far, oldest first -/
  events : List Ev := []
deriving Repr

/-! ### candidate blocks -/

/-- scripted result of one application call for a transaction.
`VerifyTransaction`: ok = Ok(1), invalid = Invalid(-1), fail = Pending(0), error = Go error.
`ExecuteTransaction`: ok = Success(1), invalid = Invalid(-1), fail = Fail(0), error = Go error. -/
inductive TxV where
  | ok | invalid | error | fail
deriving Repr, DecidableEq

/-- result of the loop of `BlockAssets.Valid` -/
inductive AssetsV where
  | ok | unsorted | duplicate
deriving Repr, DecidableEq

structure AC where
  height : Nat
  bitsLen : Nat
  sigLen : Nat
  /-- fact: `VerifyAggregateCertificateSignature` holds for the certificate of the chain's block at
  `height` under the BFT parameters of that height and this chain ID -/
  sigOK : Bool
deriving Repr, DecidableEq

/-- `AfterTransactionsExecute` answered with a non-empty parameter update -/
structure Change where
  precommit : Nat
  cert : Nat
  /-- entries with positive weight, in the order given (`GetBFTValidatorAndGenerators`) -/
  validators : List Validator
  /-- every entry, in the order given -/
  generators : List Bytes
deriving Repr, DecidableEq

structure Cand where
  version : Nat
  height : Nat
  timestamp : Nat
  prevID : Bytes
  gen : Bytes
  id : Bytes
  mhp : Nat
  mhg : Nat
  /-- header field 12; read by nothing on this path -/
  impliesMaxPrevotes : Bool := false
  ac : AC
  sigLen : Nat
  /-- length of the header's `stateRoot` (`BlockHeader.Validate` requires 32 since fix 4d58fae) -/
  stateRootLen : Nat := 32
  /-- fact: the header signature verifies under the generator key of the generator assigned to the
  block's slot, over tag ‖ chainID ‖ signing bytes -/
  sigOK : Bool
  /-- fact, per transaction in payload order: `Transaction.Validate` passes -/
  txStatic : List Bool := []
  /-- fact: `transactionRoot` is the Merkle root of the transaction ids -/
  txRootOK : Bool := true
  assets : AssetsV := .ok
  /-- fact: `assetRoot` is the Merkle root of the encoded assets -/
  assetRootOK : Bool := true
  /-- sum of the encoded sizes of the transactions -/
  payloadSize : Nat := 0
  -- the application behind the ABI (true = the call succeeds)
  abiInit : Bool := true
  abiVerifyAssets : Bool := true
  abiBefore : Bool := true
  abiAfter : Bool := true
  /-- per transaction: verdict of `VerifyTransaction`, verdict of `ExecuteTransaction` -/
  txs : List (TxV × TxV) := []
  change : Option Change := none
  /-- fact: `validatorsHash` equals the hash of the parameters valid at `height + 1` after execution -/
  vhOK : Bool := true
  /-- number of events collected during execution -/
  nEvents : Nat := 0
  /-- fact: `eventRoot` is the root of the events collected during execution -/
  eventRootOK : Bool := true
  /-- fact: the application's `Commit` accepts (`stateRoot` matches the computed root) -/
  commitOK : Bool := true
deriving Repr, DecidableEq

inductive Err where
  -- Block.Validate
  | vPrevLen | vGenLen | vSigLen | vStateRootLen | txStatic | txRoot | assetsOrder | assetsDup | assetRoot
  -- verifyBlock
  | version | height | prevID | payloadSize | future | pastSlot | generatorKeys | generator | mhp
  | contradicting | acEmpty | acLow | acHigh | acNextParams | acHeader | acParams | acSignature
  | signature
  -- processValidated / Execute
  | abiInit | abiVerifyAssets | bft | abiBefore | abiVerifyTx | txVerify | abiExecuteTx | txExecute
  | abiAfter | params | validatorsHash | eventCount | eventRoot | commit
deriving Repr, DecidableEq

def Err.name : Err → String
  | .vPrevLen => "v-prev-len" | .vGenLen => "v-gen-len" | .vSigLen => "v-sig-len"
  | .vStateRootLen => "v-state-root-len"
  | .txStatic => "tx-static" | .txRoot => "tx-root" | .assetsOrder => "assets-order"
  | .assetsDup => "assets-dup" | .assetRoot => "asset-root"
  | .version => "version" | .height => "height" | .prevID => "prev-id" | .payloadSize => "payload-size"
  | .future => "future" | .pastSlot => "past-slot" | .generatorKeys => "generator-keys"
  | .generator => "generator" | .mhp => "mhp" | .contradicting => "contradicting"
  | .acEmpty => "ac-empty" | .acLow => "ac-low" | .acHigh => "ac-high" | .acNextParams => "ac-next-params"
  | .acHeader => "ac-header" | .acParams => "ac-params" | .acSignature => "ac-signature"
  | .signature => "signature"
  | .abiInit => "abi-init" | .abiVerifyAssets => "abi-verify-assets" | .bft => "bft"
  | .abiBefore => "abi-before" | .abiVerifyTx => "abi-verify-tx" | .txVerify => "tx-verify"
  | .abiExecuteTx => "abi-execute-tx" | .txExecute => "tx-execute" | .abiAfter => "abi-after"
  | .params => "params" | .validatorsHash => "validators-hash" | .eventCount => "event-count"
  | .eventRoot => "event-root" | .commit => "commit"

/-! ### slots and generators -/

/-- `BlockSlot.GetSlotNumber`: `uint32` subtraction, then `floor(float64 / float64)` (exact for
32-bit operands) -/
def slotOf (c : Config) (t : Nat) : Nat := ((t + u32 - c.genesisTimestamp) % u32) / c.blockTime

/-- `Generators.AtTimestamp`; `none` stands for the index panic on an empty list -/
def generatorAt (c : Config) (gens : List Bytes) (t : Nat) : Option Bytes :=
  gens[slotOf c t % gens.length]?

def maxEventsPerBlock : Nat := 1073741824

/-- the header as the BFT module sees it -/
def hdrOf (b : Cand) : Header :=
  { height := b.height, gen := b.gen, mhg := b.mhg, mhp := b.mhp,
    commitHeight := if b.ac.bitsLen = 0 ∧ b.ac.sigLen = 0 then none else some b.ac.height }

/-! ### Block.Validate -/

/-- the loop `for i, tx := range b.Transactions { tx.Validate() ... }` -/
def validateTxs : List Bool → Option Err
  | [] => none
  | v :: rest => if v then validateTxs rest else some .txStatic

/-- `Block.Validate` (with `BlockHeader.Validate` inlined) -/
def validate (b : Cand) : Option Err :=
  if b.prevID.length ≠ 32 then some .vPrevLen
  else if b.gen.length ≠ 20 then some .vGenLen
  else if b.sigLen ≠ 64 then some .vSigLen
  else if b.stateRootLen ≠ 32 then some .vStateRootLen
  else match validateTxs b.txStatic with
    | some e => some e
    | none =>
      if !b.txRootOK then some .txRoot
      else match b.assets with
        | .unsorted => some .assetsOrder
        | .duplicate => some .assetsDup
        | .ok => if !b.assetRootOK then some .assetRoot else none

/-! ### verifyAggregateCommit -/

/-- the bound `aggregateCommit.Height ≤ heightNextBFTParams - 1` (see `Config.acBound`) -/
def nextBoundViolated (enforced : Bool) (s : BFT.State) (h : Nat) : Bool :=
  enforced && match nextHeightParams s (s.mhc + 1) with
    | some k => decide (h > k - 1)
    | none => false

def verifyAC (n : Node) (s : BFT.State) (ac : AC) : Option Err :=
  if ac.bitsLen = 0 ∧ ac.sigLen = 0 ∧ ac.height = s.mhc then none
  else if ac.bitsLen = 0 ∨ ac.sigLen = 0 then some .acEmpty
  else if ac.height ≤ s.mhc then some .acLow
  else if ac.height > s.mhpc then some .acHigh
  else if nextBoundViolated n.cfg.acBound s ac.height then some .acNextParams
  else if ac.height > n.tipHeight then some .acHeader          -- GetBlockHeaderByHeight fails
  else if (getParams s ac.height).isNone then some .acParams   -- GetBFTParameters fails
  else if !ac.sigOK then some .acSignature
  else none

/-! ### verifyBlock -/

def isContradicting (s : BFT.State) (b : Cand) : Bool :=
  contradicting Gen.areDistinctHeadersContradicting s (hdrOf b)

/-- the generator assigned to the block's slot: `GetGeneratorKeys(height)` then
`Generators.AtTimestamp`; `none` if the key list does not exist or is empty (index panic) -/
def slotGenerator (n : Node) (s : BFT.State) (b : Cand) : Option Bytes :=
  match getKeys s b.height with
  | none => none
  | some gens => generatorAt n.cfg gens b.timestamp

def verifyBlock (n : Node) (s : BFT.State) (b : Cand) : Option Err :=
  if b.version ≠ 2 then some .version
  else if b.height ≠ n.tipHeight + 1 then some .height
  else if b.prevID ≠ n.tipID then some .prevID
  else if b.payloadSize > n.cfg.maxTxLen then some .payloadSize
  else if slotOf n.cfg b.timestamp > slotOf n.cfg n.cfg.now then some .future
  else if slotOf n.cfg b.timestamp ≤ slotOf n.cfg n.tipTimestamp then some .pastSlot
  else match slotGenerator n s b with
    | none => some .generatorKeys
    | some g =>
      if g ≠ b.gen then some .generator
      else if b.mhp ≠ s.mhp then some .mhp
      else if isContradicting s b then some .contradicting
      else match verifyAC n s b.ac with
        | some e => some e
        | none => if !b.sigOK then some .signature else none

/-! ### stateExecuter.Execute and processValidated as a staged machine -/

/-- the transaction loop of `Execute` -/
def execTxs : List (TxV × TxV) → Option Err
  | [] => none
  | (v, e) :: rest =>
    if v = .error then some .abiVerifyTx
    else if v ≠ .ok then some .txVerify
    else if e = .error then some .abiExecuteTx
    else if e = .invalid then some .txExecute
    else execTxs rest

/-- what `getABIConsensus` needs from the store after the vote update -/
def consensusInfoOK (s : BFT.State) (b : Cand) : Bool :=
  (getParams s b.height).isSome && (getKeys s b.height).isSome && (impliesMaxPrevotes s (hdrOf b)).isSome

/-- `SetBFTParameters` + `SetGeneratorKeys` for the answer of `AfterTransactionsExecute` -/
def applyChange (s : BFT.State) : Option Change → Option BFT.State
  | none => some s
  | some c =>
    match setParams s c.precommit c.cert c.validators with
    | .error _ => none
    | .ok s2 => some (setKeys s2 c.generators)

structure Staged where
  /-- database + cache + emitter: what other components and a restart can observe -/
  node : Node
  /-- the `diffdb` overlay `consensusStore` -/
  store : BFT.State
deriving Repr

abbrev Step := Staged → Except Err Staged

def guardStep (e : Err) (c : Bool) : Step := fun s => if c then .ok s else .error e

def stepVerify (b : Cand) : Step := fun s =>
  match verifyBlock s.node s.store b with
  | some e => .error e
  | none => .ok s

def stepBFT (b : Cand) : Step := fun s =>
  match BFT.process s.store (hdrOf b) with
  | .error _ => .error .bft
  | .ok s1 => .ok { s with store := s1 }

def stepInfo (b : Cand) : Step := fun s => if consensusInfoOK s.store b then .ok s else .error .bft

def stepTxs (b : Cand) : Step := fun s =>
  match execTxs b.txs with
  | some e => .error e
  | none => .ok s

def stepChange (b : Cand) : Step := fun s =>
  match applyChange s.store b.change with
  | none => .error .params
  | some s2 => .ok { s with store := s2 }

def stepNextParams (b : Cand) : Step := fun s =>
  if (getParams s.store (b.height + 1)).isSome then .ok s else .error .bft

/-- the fallible part of `processValidated`, in code order -/
def preSteps (b : Cand) : List Step :=
  [ stepVerify b,
    guardStep .abiInit b.abiInit,                         -- newBlockExecuteABI / InitStateMachine
    guardStep .abiVerifyAssets b.abiVerifyAssets,         -- abi.Verify
    stepBFT b,                                            -- bft.BeforeTransactionsExecute
    stepInfo b,                                           -- getABIConsensus
    guardStep .abiBefore b.abiBefore,
    stepTxs b,
    guardStep .abiAfter b.abiAfter,
    stepChange b,
    stepNextParams b,                                     -- GetBFTParameters(height+1)
    guardStep .validatorsHash b.vhOK,
    guardStep .eventCount (decide (b.nEvents ≤ maxEventsPerBlock)),
    guardStep .eventRoot b.eventRootOK,
    guardStep .commit b.commitOK ]                        -- abi.Commit

/-- run the steps until the first error; the state at the error exit is returned -/
def runSteps : List Step → Staged → Staged × Option Err
  | [], s => (s, none)
  | f :: fs, s =>
    match f s with
    | .error e => (s, some e)
    | .ok s' => runSteps fs s'

/-- `chain.AddBlock` (one batch: block, staged consensus store, state diff, finalized height) and
the publications after it -/
def addBlock (n : Node) (store : BFT.State) (b : Cand) : Node :=
  let finalizedUpdated := decide (store.mhpc > n.finalized)
  { n with
    tipHeight := b.height, tipID := b.id, tipTimestamp := b.timestamp,
    chain := (b.height, b.id) :: n.chain,
    bft := store,
    finalized := if finalizedUpdated then store.mhpc else n.finalized,
    events := n.events ++
      (if finalizedUpdated then [Ev.finalize n.finalized store.mhpc b.height] else []) ++
      [Ev.newBlock b.height b.id b.nEvents] ++
      (match b.change with
        | some c => [Ev.validators c.generators.length c.precommit c.cert]
        | none => []) }

def commitStep (b : Cand) (s : Staged) : Staged := { s with node := addBlock s.node s.store b }

/-- `Executer.processValidated`: the node afterwards and the error returned -/
def processValidated (n : Node) (b : Cand) : Node × Option Err :=
  match runSteps (preSteps b) { node := n, store := n.bft } with
  | (s, some e) => (s.node, some e)
  | (s, none) => ((commitStep b s).node, none)

/-- `block.Validate()` followed by `processValidated` (what `process` does for a valid successor
and what both synchronisers do for every downloaded block) -/
def applyBlock (n : Node) (b : Cand) : Node × Option Err :=
  match validate b with
  | some e => (n, some e)
  | none => processValidated n b

inductive Outcome where
  | ignored              -- identical block
  | rejected (e : Err)
  | accepted
  | other                -- double forging / tie break / different chain / discard: not modelled here
deriving Repr, DecidableEq

/-- `Executer.process` as far as the identical-block and valid-successor branches go -/
def process (n : Node) (b : Cand) : Node × Outcome :=
  if b.id = n.tipID then (n, .ignored)
  else if b.height = n.tipHeight + 1 ∧ b.prevID = n.tipID then
    match applyBlock n b with
    | (n', some e) => (n', .rejected e)
    | (n', none) => (n', .accepted)
  else (n, .other)

/-! ### the declarative rule list (code order) -/

/-- the error of the first failing check -/
def firstFailure : List (Err × Bool) → Option Err
  | [] => none
  | (e, ok) :: rest => if ok then firstFailure rest else some e

def validateChecks (b : Cand) : List (Err × Bool) :=
  [ (.vPrevLen, decide (b.prevID.length = 32)),
    (.vGenLen, decide (b.gen.length = 20)),
    (.vSigLen, decide (b.sigLen = 64)),
    (.vStateRootLen, decide (b.stateRootLen = 32)) ] ++
  b.txStatic.map (fun v => (Err.txStatic, v)) ++
  [ (.txRoot, b.txRootOK),
    (.assetsOrder, decide (b.assets ≠ .unsorted)),
    (.assetsDup, decide (b.assets ≠ .duplicate)),
    (.assetRoot, b.assetRootOK) ]

def acChecks (n : Node) (s : BFT.State) (ac : AC) : List (Err × Bool) :=
  if ac.bitsLen = 0 ∧ ac.sigLen = 0 ∧ ac.height = s.mhc then []
  else
    [ (.acEmpty, decide (ac.bitsLen ≠ 0 ∧ ac.sigLen ≠ 0)),
      (.acLow, decide (s.mhc < ac.height)),
      (.acHigh, decide (ac.height ≤ s.mhpc)),
      (.acNextParams, !nextBoundViolated n.cfg.acBound s ac.height),
      (.acHeader, decide (ac.height ≤ n.tipHeight)),
      (.acParams, (getParams s ac.height).isSome),
      (.acSignature, ac.sigOK) ]

def verifyChecks (n : Node) (s : BFT.State) (b : Cand) : List (Err × Bool) :=
  [ (.version, decide (b.version = 2)),
    (.height, decide (b.height = n.tipHeight + 1)),
    (.prevID, decide (b.prevID = n.tipID)),
    (.payloadSize, decide (b.payloadSize ≤ n.cfg.maxTxLen)),
    (.future, decide (slotOf n.cfg b.timestamp ≤ slotOf n.cfg n.cfg.now)),
    (.pastSlot, decide (slotOf n.cfg n.tipTimestamp < slotOf n.cfg b.timestamp)),
    (.generatorKeys, (slotGenerator n s b).isSome),
    (.generator, decide (slotGenerator n s b = some b.gen)),
    (.mhp, decide (b.mhp = s.mhp)),
    (.contradicting, !isContradicting s b) ] ++
  acChecks n s b.ac ++
  [ (.signature, b.sigOK) ]

def txChecks : List (TxV × TxV) → List (Err × Bool)
  | [] => []
  | (v, e) :: rest =>
    [ (.abiVerifyTx, decide (v ≠ .error)), (.txVerify, decide (v = .ok)),
      (.abiExecuteTx, decide (e ≠ .error)), (.txExecute, decide (e ≠ .invalid)) ] ++ txChecks rest

/-- the store after the vote update of the block (`none`: the update fails) -/
def storeAfterBFT (n : Node) (b : Cand) : Option BFT.State :=
  match BFT.process n.bft (hdrOf b) with
  | .ok s1 => some s1
  | .error _ => none

/-- the store after execution -/
def storeAfterExec (n : Node) (b : Cand) : Option BFT.State :=
  match storeAfterBFT n b with
  | none => none
  | some s1 => applyChange s1 b.change

/-- `getABIConsensus` finds what it needs in the store after the vote update -/
def infoOKAfterBFT (n : Node) (b : Cand) : Bool :=
  match storeAfterBFT n b with
  | some s1 => consensusInfoOK s1 b
  | none => true

/-- the parameter update answered by the application (if any) is admissible -/
def changeOK (n : Node) (b : Cand) : Bool :=
  match storeAfterBFT n b with
  | some s1 => (applyChange s1 b.change).isSome
  | none => true

/-- parameters for the next height exist after execution -/
def nextParamsOK (n : Node) (b : Cand) : Bool :=
  match storeAfterExec n b with
  | some s2 => (getParams s2 (b.height + 1)).isSome
  | none => true

def execChecks (n : Node) (b : Cand) : List (Err × Bool) :=
  [ (.abiInit, b.abiInit),
    (.abiVerifyAssets, b.abiVerifyAssets),
    (.bft, (storeAfterBFT n b).isSome),
    (.bft, infoOKAfterBFT n b),
    (.abiBefore, b.abiBefore) ] ++
  txChecks b.txs ++
  [ (.abiAfter, b.abiAfter),
    (.params, changeOK n b),
    (.bft, nextParamsOK n b),
    (.validatorsHash, b.vhOK),
    (.eventCount, decide (b.nEvents ≤ maxEventsPerBlock)),
    (.eventRoot, b.eventRootOK),
    (.commit, b.commitOK) ]

/-- every rule of the acceptance path, in the order the code evaluates them -/
def checkList (n : Node) (b : Cand) : List (Err × Bool) :=
  validateChecks b ++ verifyChecks n n.bft b ++ execChecks n b

end LiskVerif.Verify
