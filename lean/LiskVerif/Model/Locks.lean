/-
Synchronisation skeletons and lock discipline criteria (property C20).

`tools/skelgen` extracts from the Go source, for every configured function, a *skeleton*: the tree of
lock operations, calls, goroutine spawns, channel operations and accesses to guarded variables in
program order (`LiskVerif/Gen/Skeletons*.lean`, regenerated on every check run; besides C20 the
transaction pool (C14, `Props/C14_Locks.lean`) and the p2p request/response layer (C17,
`Props/C17_Skel.lean`) are extracted the same way).

This file contains (core Lean only):
  * the skeleton datatype `Act` / `Skel`;
  * straight-line *paths* (`Prim`) and the bounded path semantics `den` of a skeleton (calls inlined
    through the table, `defer`red unlocks released at return, every loop iterated at most `u` times);
  * the abstract interpreter `an`, which runs a skeleton on *sets of lock states* (joining the states
    at every merge point) and records one observation `(held locks, action)` per visited action;
  * the four decidable criteria computed from the observations:
      (1) `noReentrantAcquire` (2) `lockOrderOk` (3) `noBlockingInCS` (4) `locksetOk`
    plus well-formedness `wellFormed` (no unknown construct, every release matches a held lock, loop
    bodies are lock-balanced, every function ends holding nothing);
  * the interleaving semantics of threads running paths with Go `sync.RWMutex` semantics
    (a pending writer blocks new readers): `Thread`, `stepT`, `run`.
The theorems are in `LiskVerif/Props/C20.lean` and `LiskVerif/Lemmas/Locks.lean`.
-/

namespace LiskVerif.Locks

/-! ## Skeletons -/

/-- One action of a synchronisation skeleton. -/
inductive Act where
  | lock (m : String)          -- m.Lock()
  | rlock (m : String)         -- m.RLock() / m.RLocker().Lock()
  | unlock (m : String)
  | runlock (m : String)
  | deferUnlock (m : String)   -- defer m.Unlock(): released when the function returns
  | deferRUnlock (m : String)
  | call (f : String)          -- call of another extracted function
  | go (body : List Act)       -- goroutine spawn (go statement, errgroup.Go, returned handler)
  | send (ch : String)         -- send on a possibly unbuffered channel
  | recv (ch : String)
  | trySend (ch : String)      -- send in a `select` with a `default` branch: never blocks
  | tryRecv (ch : String)      -- receive in a `select` with a `default` branch: never blocks
  | makeChan (ch : String) (cap : Nat)  -- ch = make(chan T, cap) (cap = 0: unbuffered)
  | wait (g : String)          -- WaitGroup / errgroup Wait
  | blockingCall (f : String)  -- call of a possibly blocking operation outside the model (network I/O)
  | read (x : String)          -- read of a guarded variable
  | write (x : String)         -- write of a guarded variable
  | del (x : String)           -- delete(x, key) on a guarded map: a write of x
  | slot (x : String)          -- write of a per-goroutine slot `x[i]` of a captured slice
  | choice (alts : List (List Act))
  | loop (body : List Act)
  | ret
  | unknown (pos : String)     -- construct the extractor does not understand
  deriving Repr, Inhabited

abbrev Skel := List Act
abbrev Table := List (String × Skel)

def Table.find (t : Table) (f : String) : Option Skel :=
  match t with
  | [] => none
  | (g, b) :: rest => if g = f then some b else Table.find rest f

/-! ## Straight-line paths -/

inductive Mode where
  | R | W
  deriving DecidableEq, Repr

/-- Primitive action of a path. -/
inductive Prim where
  | acq (m : String)     -- exclusive acquisition
  | racq (m : String)    -- shared acquisition
  | rel (m : String)
  | rrel (m : String)
  | block (what : String) -- possibly blocking communication: send / recv / wait
  | read (x : String)
  | write (x : String)
  | bad (why : String)   -- unknown construct / unresolved call
  deriving DecidableEq, Repr

abbrev Path := List Prim
abbrev Held := List (String × Mode)

/-- lock state after executing a primitive -/
def heldAfter (h : Held) : Prim → Held
  | .acq m => (m, .W) :: h
  | .racq m => (m, .R) :: h
  | .rel m => h.erase (m, .W)
  | .rrel m => h.erase (m, .R)
  | _ => h

def heldAfterPath (h : Held) : Path → Held
  | [] => h
  | a :: p => heldAfterPath (heldAfter h a) p

/-- An observation: the locks held by the executing goroutine when it reaches a primitive. -/
abbrev Obs := Held × Prim

/-- dynamic observations of a path started with the locks `h` -/
def trace (h : Held) : Path → List Obs
  | [] => []
  | a :: p => (h, a) :: trace (heldAfter h a) p

/-! ## Criteria on observations -/

def holds (h : Held) (m : String) : Bool := h.any (fun e => e.1 == m)
def holdsW (h : Held) (m : String) : Bool := h.any (fun e => e.1 == m && e.2 == Mode.W)

def rank (order : List String) (m : String) : Nat := order.idxOf m

/-- (1) no mutex is acquired (Lock or RLock) while the same goroutine already holds it -/
def obsNoReentrant : Obs → Bool
  | (h, .acq m) => !holds h m
  | (h, .racq m) => !holds h m
  | _ => true

/-- (2) locks are acquired in the fixed global order only -/
def obsOrder (order : List String) : Obs → Bool
  | (h, .acq m) => h.all (fun e => rank order e.1 < rank order m)
  | (h, .racq m) => h.all (fun e => rank order e.1 < rank order m)
  | _ => true

/-- (3) no possibly blocking communication while a lock is held -/
def obsNoBlocking : Obs → Bool
  | (h, .block _) => h.isEmpty
  | _ => true

/-- (4) every read holds the guard (any mode), every write holds it exclusively -/
def obsLockset (guards : List (String × String)) : Obs → Bool
  | (h, .read x) => match guards.lookup x with
      | some g => holds h g
      | none => false
  | (h, .write x) => match guards.lookup x with
      | some g => holdsW h g
      | none => false
  | _ => true

/-- well-formedness: no unknown construct, a release matches a held lock -/
def obsWf : Obs → Bool
  | (_, .bad _) => false
  | (h, .rel m) => h.contains (m, .W)
  | (h, .rrel m) => h.contains (m, .R)
  | _ => true

/-- the deadlock-relevant part of the criteria for one observation -/
def obsDl (order : List String) (o : Obs) : Bool :=
  obsWf o && obsNoReentrant o && obsOrder order o && obsNoBlocking o

/-- a path is fine for deadlock freedom when all its observations are, and it ends holding nothing -/
def pathOkFrom (order : List String) (h : Held) (p : Path) : Bool :=
  (trace h p).all (obsDl order) && (heldAfterPath h p).isEmpty

def pathOk (order : List String) (p : Path) : Bool := pathOkFrom order [] p

def pathLsFrom (guards : List (String × String)) (h : Held) (p : Path) : Bool :=
  (trace h p).all (fun o => obsWf o && obsLockset guards o)

def pathLs (guards : List (String × String)) (p : Path) : Bool := pathLsFrom guards [] p

/-! ## Bounded path semantics of a skeleton -/

/-- One run of a statement list: the primitives executed, the deferred releases registered
(latest first), whether the run ended in a `return`, and the bodies of the goroutines it spawned. -/
structure Run where
  path : Path
  defers : Path
  returned : Bool
  spawns : List (List Act)
  deriving Repr

/-- sequential composition of runs: a run that returned skips what follows -/
def seqRuns (rs1 rs2 : List Run) : List Run :=
  rs1.flatMap fun r1 =>
    if r1.returned then [r1] else
      rs2.map fun r2 => ⟨r1.path ++ r2.path, r2.defers ++ r1.defers, r2.returned, r1.spawns ++ r2.spawns⟩

/-- exactly `i` iterations of a loop body (fewer if an iteration returns) -/
def iterRuns (body : List Run) : Nat → List Run
  | 0 => [⟨[], [], false, []⟩]
  | i + 1 => seqRuns (iterRuns body i) body

/-- runs of one action; `rec k` are the runs of the nested action list `k` (one level less fuel) -/
def denFirst (tbl : Table) (u : Nat) (rec : List Act → List Run) (a : Act) : List Run :=
  match a with
  | .lock m => [⟨[.acq m], [], false, []⟩]
  | .rlock m => [⟨[.racq m], [], false, []⟩]
  | .unlock m => [⟨[.rel m], [], false, []⟩]
  | .runlock m => [⟨[.rrel m], [], false, []⟩]
  | .deferUnlock m => [⟨[], [.rel m], false, []⟩]
  | .deferRUnlock m => [⟨[], [.rrel m], false, []⟩]
  | .call f =>
    match tbl.find f with
    | none => [⟨[.bad ("call " ++ f)], [], false, []⟩]
    | some body => (rec body).map fun r => ⟨r.path ++ r.defers, [], false, r.spawns⟩
  | .go b => [⟨[], [], false, [b]⟩]
  | .send ch => [⟨[.block ch], [], false, []⟩]
  | .recv ch => [⟨[.block ch], [], false, []⟩]
  | .trySend _ => [⟨[], [], false, []⟩]      -- non-blocking, touches neither a lock nor a guarded variable
  | .tryRecv _ => [⟨[], [], false, []⟩]
  | .makeChan _ _ => [⟨[], [], false, []⟩]
  | .wait g => [⟨[.block g], [], false, []⟩]
  | .blockingCall f => [⟨[.block f], [], false, []⟩]
  | .read x => [⟨[.read x], [], false, []⟩]
  | .write x => [⟨[.write x], [], false, []⟩]
  | .del x => [⟨[.write x], [], false, []⟩]
  | .slot _ => [⟨[], [], false, []⟩]
  | .choice alts => alts.flatMap fun alt => rec alt
  | .loop b => (List.range (u + 1)).flatMap fun i => iterRuns (rec b) i   -- 0 .. u iterations
  | .ret => [⟨[], [], true, []⟩]
  | .unknown pos => [⟨[.bad pos], [], false, []⟩]

/-- `den tbl u n k` — the runs of the action list `k` in which calls are inlined through `tbl`, every
loop is iterated at most `u` times, and the nesting is bounded by the fuel `n` (runs that need more
fuel are left out, so the union over all `n` is the set of all finite runs). -/
def den (tbl : Table) (u : Nat) : Nat → List Act → List Run
  | 0, _ => []
  | _ + 1, [] => [⟨[], [], false, []⟩]
  | n + 1, a :: k => seqRuns (denFirst tbl u (den tbl u n) a) (den tbl u n k)

/-- complete paths of a function body (or of a spawned closure): run, then release the defers -/
def bodyPaths (tbl : Table) (u n : Nat) (body : Skel) : List Path :=
  (den tbl u n body).map fun r => r.path ++ r.defers

/-! ## Abstract interpretation on sets of lock states -/

/-- abstract state: locks held and deferred releases registered (latest first) -/
abbrev ASt := Held × Path

def insertD {α} [DecidableEq α] (x : α) (l : List α) : List α := if l.contains x then l else l ++ [x]
def unionD {α} [DecidableEq α] (a b : List α) : List α := b.foldl (fun acc x => insertD x acc) a
def subsetD {α} [DecidableEq α] (a b : List α) : Bool := a.all (fun x => b.contains x)

structure Res where
  obs : List Obs      -- observations made
  fall : List ASt     -- states in which control falls through
  rets : List ASt     -- states in which a `return` was executed
  deriving Repr

/-- run the deferred releases (function exit) from one state: observations and final held set -/
def rundown (h : Held) : Path → List Obs × Held
  | [] => ([], h)
  | a :: d => let r := rundown (heldAfter h a) d; ((h, a) :: r.1, r.2)

/-- exits of a function body analysed to `r`: observations of the deferred releases and final held sets -/
def exits (sts : List ASt) : List Obs × List Held :=
  sts.foldl (fun acc st => let r := rundown st.1 st.2; (acc.1 ++ r.1, insertD r.2 acc.2)) ([], [])

/-- apply a primitive to every state -/
def stepAll (sts : List ASt) (a : Prim) : Res :=
  ⟨sts.map (fun st => (st.1, a)), sts.foldl (fun acc st => insertD (heldAfter st.1 a, st.2) acc) [], []⟩

/-- result of a call from state `st` whose body analysed to `rb`, added to `r` -/
def callCombine (r : Res) (st : ASt) (rb : Res) : Res :=
  let ex := exits (unionD rb.fall rb.rets)
  ⟨r.obs ++ rb.obs ++ ex.1, ex.2.foldl (fun f h => insertD (h, st.2) f) r.fall, []⟩

/-- analyse a call from every state (`f st` analyses the callee body started with the locks of `st`) -/
def foldCall (f : ASt → Option Res) (sts : List ASt) : Option Res :=
  sts.foldl (fun acc st =>
    match acc, f st with
    | some r, some rb => some (callCombine r st rb)
    | _, _ => none) (some ⟨[], [], []⟩)

/-- join of the alternatives of a choice -/
def foldChoice (f : List Act → Option Res) (alts : List (List Act)) : Option Res :=
  alts.foldl (fun acc alt =>
    match acc, f alt with
    | some r, some ra => some ⟨r.obs ++ ra.obs, unionD r.fall ra.fall, unionD r.rets ra.rets⟩
    | _, _ => none) (some ⟨[], [], []⟩)

/-- abstract execution of one action from the states `sts`; `rec` analyses nested action lists -/
def anFirst (tbl : Table) (rec : List ASt → List Act → Option Res) (sts : List ASt) (a : Act) : Option Res :=
  match a with
  | .lock m => some (stepAll sts (.acq m))
  | .rlock m => some (stepAll sts (.racq m))
  | .unlock m => some (stepAll sts (.rel m))
  | .runlock m => some (stepAll sts (.rrel m))
  | .deferUnlock m => some ⟨[], sts.foldl (fun acc st => insertD (st.1, Prim.rel m :: st.2) acc) [], []⟩
  | .deferRUnlock m => some ⟨[], sts.foldl (fun acc st => insertD (st.1, Prim.rrel m :: st.2) acc) [], []⟩
  | .call f =>
    match tbl.find f with
    | none => some (stepAll sts (.bad ("call " ++ f)))
    | some body =>
      -- the callee runs with the caller's locks held and its own defers
      foldCall (fun st => rec [(st.1, [])] body) sts
  | .go b =>
    -- the spawned goroutine starts with no locks; it must end with none
    match rec [([], [])] b with
    | none => none
    | some rb =>
      let ex := exits (unionD rb.fall rb.rets)
      some ⟨rb.obs ++ ex.1 ++ (if ex.2.all (·.isEmpty) then [] else [([], Prim.bad "goroutine ends holding a lock")]), sts, []⟩
  | .send ch => some (stepAll sts (.block ch))
  | .recv ch => some (stepAll sts (.block ch))
  | .trySend _ => some ⟨[], sts, []⟩
  | .tryRecv _ => some ⟨[], sts, []⟩
  | .makeChan _ _ => some ⟨[], sts, []⟩
  | .wait g => some (stepAll sts (.block g))
  | .blockingCall f => some (stepAll sts (.block f))
  | .read x => some (stepAll sts (.read x))
  | .write x => some (stepAll sts (.write x))
  | .del x => some (stepAll sts (.write x))
  | .slot _ => some ⟨[], sts, []⟩
  | .choice alts => foldChoice (fun alt => rec sts alt) alts
  | .loop b =>
    match rec sts b with
    | none => none
    | some rb => if subsetD rb.fall sts then some ⟨rb.obs, sts, rb.rets⟩ else none
  | .ret => some ⟨[], [], sts⟩
  | .unknown pos => some (stepAll sts (.bad pos))

/-- `an tbl n sts k` — abstract execution of the action list `k` from the set of states `sts`.
`none` when the fuel runs out or a loop body is not lock-balanced. -/
def an (tbl : Table) : Nat → List ASt → List Act → Option Res
  | 0, _, _ => none
  | _ + 1, sts, [] => some ⟨[], sts, []⟩
  | n + 1, sts, a :: k =>
    if sts.isEmpty then some ⟨[], [], []⟩ else
    match anFirst tbl (an tbl n) sts a with
    | none => none
    | some r1 =>
      match an tbl n r1.fall k with
      | none => none
      | some r2 => some ⟨r1.obs ++ r2.obs, r2.fall, unionD r1.rets r2.rets⟩

/-- analysis of a complete function body started without locks: all observations (including those of
the goroutines it spawns) and the lock sets it may end with -/
def analyse (tbl : Table) (fuel : Nat) (body : Skel) : Option (List Obs × List Held) :=
  match an tbl fuel [([], [])] body with
  | none => none
  | some r => let ex := exits (unionD r.fall r.rets); some (r.obs ++ ex.1, ex.2)

def fuelDefault : Nat := 400

structure Cfg where
  tbl : Table
  guards : List (String × String)
  order : List String

def wellFormed (c : Cfg) (s : Skel) : Bool :=
  match analyse c.tbl fuelDefault s with
  | none => false
  | some (obs, ends) => obs.all obsWf && ends.all (·.isEmpty)

def noReentrantAcquire (c : Cfg) (s : Skel) : Bool :=
  match analyse c.tbl fuelDefault s with
  | none => false
  | some (obs, _) => obs.all obsNoReentrant

def lockOrderOk (c : Cfg) (s : Skel) : Bool :=
  match analyse c.tbl fuelDefault s with
  | none => false
  | some (obs, _) => obs.all (obsOrder c.order)

def noBlockingInCS (c : Cfg) (s : Skel) : Bool :=
  match analyse c.tbl fuelDefault s with
  | none => false
  | some (obs, _) => obs.all obsNoBlocking

def locksetOk (c : Cfg) (s : Skel) : Bool :=
  match analyse c.tbl fuelDefault s with
  | none => false
  | some (obs, _) => obs.all (obsLockset c.guards)

/-- all criteria relevant for deadlock freedom -/
def deadlockCriteria (c : Cfg) (s : Skel) : Bool :=
  wellFormed c s && noReentrantAcquire c s && lockOrderOk c s && noBlockingInCS c s

/-- all criteria -/
def criteria (c : Cfg) (s : Skel) : Bool :=
  deadlockCriteria c s && locksetOk c s

/-! ### refinements of the criteria (used where (3) does not hold as such) -/

/-- lock balance of one observation: a release matches a held lock, and no spawned goroutine was
found to end holding a lock -/
def obsBalanced : Obs → Bool
  | (h, .rel m) => h.contains (m, .W)
  | (h, .rrel m) => h.contains (m, .R)
  | (_, .bad why) => why != "goroutine ends holding a lock"
  | _ => true

/-- **lock balance**: the analysis succeeds — in particular every loop body ends each iteration
(normally, or by `continue` / `break`) holding exactly the locks it started with —, every release
matches a held lock, and the function, on every path to a `return` or to its end, as well as every
goroutine it spawns, ends holding nothing. -/
def lockBalanced (c : Cfg) (s : Skel) : Bool :=
  match analyse c.tbl fuelDefault s with
  | none => false
  | some (obs, ends) => obs.all obsBalanced && ends.all (·.isEmpty)

/-- (3, per mutex) no possibly blocking operation while the mutex `m` is held -/
def obsNoBlockingHolding (m : String) : Obs → Bool
  | (h, .block _) => !holds h m
  | _ => true

def noBlockingHolding (c : Cfg) (m : String) (s : Skel) : Bool :=
  match analyse c.tbl fuelDefault s with
  | none => false
  | some (obs, _) => obs.all (obsNoBlockingHolding m)

/-- (3, with exceptions) a possibly blocking operation happens outside every critical section, or it is
one of the operations `allowed` and only mutexes among `mus` are held -/
def obsBlockingOnly (allowed mus : List String) : Obs → Bool
  | (h, .block w) => h.isEmpty || (allowed.contains w && h.all (fun e => mus.contains e.1))
  | _ => true

def blockingOnly (c : Cfg) (allowed mus : List String) (s : Skel) : Bool :=
  match analyse c.tbl fuelDefault s with
  | none => false
  | some (obs, _) => obs.all (obsBlockingOnly allowed mus)

/-- the skeleton with the `blockingCall`s of the operations `names` removed: what the function does if
these operations are ordinary calls that return (fuel exhausted: the rest is left unchanged, so the
criteria stay conservative) -/
def eraseBlockingCalls (names : List String) : Nat → List Act → List Act
  | 0, k => k
  | _ + 1, [] => []
  | n + 1, a :: k =>
    match a with
    | .blockingCall f =>
      if names.contains f then eraseBlockingCalls names n k else a :: eraseBlockingCalls names n k
    | .go b => .go (eraseBlockingCalls names n b) :: eraseBlockingCalls names n k
    | .loop b => .loop (eraseBlockingCalls names n b) :: eraseBlockingCalls names n k
    | .choice alts => .choice (alts.map (eraseBlockingCalls names n)) :: eraseBlockingCalls names n k
    | a => a :: eraseBlockingCalls names n k

def Table.eraseBlockingCalls (names : List String) (t : Table) : Table :=
  t.map fun e => (e.1, Locks.eraseBlockingCalls names 200 e.2)

/-- the first observations violating some criterion (diagnostics for the generated report) -/
def violations (c : Cfg) (s : Skel) : List Obs :=
  match analyse c.tbl fuelDefault s with
  | none => [([], .bad "analysis failed: fuel exhausted or a loop body is not lock-balanced")]
  | some (obs, ends) =>
    obs.filter (fun o => !(obsDl c.order o && obsLockset c.guards o))
      ++ (ends.filter (!·.isEmpty)).map (fun h => (h, Prim.bad "function ends holding a lock"))

/-! ## Interleaving semantics (Go sync.Mutex / sync.RWMutex) -/

/-- A goroutine: the locks it holds, the mutex for which its `Lock()` request is pending (a pending
writer blocks new readers), and the primitives it still has to execute. -/
structure Thread where
  held : Held
  waiting : Option String
  prog : Path
  deriving DecidableEq, Repr

abbrev State := List Thread

def anyHolds (s : State) (m : String) : Bool := s.any (fun t => holds t.held m)
def anyHoldsW (s : State) (m : String) : Bool := s.any (fun t => holdsW t.held m)
def writerWaiting (s : State) (m : String) : Bool := s.any (fun t => t.waiting == some m)

/-- the step of one thread in state `s` (`none` = blocked or finished).
`Lock` takes two steps: announce (always possible), then acquire once nobody holds the mutex.
`RLock` is possible only when no writer holds *or waits for* the mutex. -/
def stepThread (s : State) (t : Thread) : Option Thread :=
  match t.prog with
  | [] => none
  | .acq m :: rest =>
    if t.waiting == some m then
      if anyHolds s m then none else some ⟨(m, .W) :: t.held, none, rest⟩
    else some { t with waiting := some m }
  | .racq m :: rest =>
    if anyHoldsW s m || writerWaiting s m then none else some ⟨(m, .R) :: t.held, t.waiting, rest⟩
  | a :: rest => some ⟨heldAfter t.held a, t.waiting, rest⟩

def stepT (s : State) (i : Nat) : Option State :=
  match s[i]? with
  | none => none
  | some t => (stepThread s t).map (fun t' => s.set i t')

/-- execute a schedule (list of thread indices); `none` if a scheduled thread cannot step -/
def run (s : State) : List Nat → Option State
  | [] => some s
  | i :: sched => match stepT s i with
    | none => none
    | some s' => run s' sched

def Reachable (s0 s : State) : Prop := ∃ sched, run s0 sched = some s

def initState (ps : List Path) : State := ps.map (fun p => ⟨[], none, p⟩)

/-- the thread is at a (possibly blocking) communication -/
def atBlock (t : Thread) : Bool :=
  match t.prog with
  | .block _ :: _ => true
  | _ => false

def finished (t : Thread) : Bool := t.prog.isEmpty

/-- thread `i` can take a step that does not depend on a communication partner -/
def canStepInternal (s : State) (i : Nat) : Bool :=
  match s[i]? with
  | none => false
  | some t => !atBlock t && (stepThread s t).isSome

/-- every thread is finished or parked at a communication outside any critical section -/
def quiescent (s : State) : Bool :=
  s.all (fun t => finished t || (atBlock t && t.held.isEmpty && t.waiting.isNone))

/-- no thread can step at all, and some thread is not finished -/
def deadlocked (s : State) : Bool :=
  (List.range s.length).all (fun i => (stepT s i).isNone) && !s.all finished

/-- two primitives conflict: same variable, at least one write -/
def conflict : Prim → Prim → Bool
  | .write x, .write y => x == y
  | .write x, .read y => x == y
  | .read x, .write y => x == y
  | _, _ => false

/-- threads `i` and `j` are both about to perform conflicting accesses -/
def raceAt (s : State) (i j : Nat) : Bool :=
  match s[i]?, s[j]? with
  | some ti, some tj =>
    (match ti.prog, tj.prog with
     | a :: _, b :: _ => i != j && conflict a b
     | _, _ => false)
  | _, _ => false

/-! ## Bulk lookups: shared accumulator versus per-index result slots -/

/-- A goroutine executing `x = append(x, item)` without synchronisation: a load of the shared slice
followed by a store of the extended copy. `pc` 0 = before the load, 1 = loaded, 2 = done. -/
structure AppThread where
  item : Nat
  reg : List Nat
  pc : Nat
  deriving DecidableEq, Repr

structure AppState where
  shared : List Nat
  threads : List AppThread
  deriving DecidableEq, Repr

def appStep (s : AppState) (i : Nat) : Option AppState :=
  match s.threads[i]? with
  | none => none
  | some t =>
    if t.pc = 0 then some ⟨s.shared, s.threads.set i { t with reg := s.shared, pc := 1 }⟩
    else if t.pc = 1 then some ⟨t.reg ++ [t.item], s.threads.set i { t with pc := 2 }⟩
    else none

def appRun (s : AppState) : List Nat → Option AppState
  | [] => some s
  | i :: sched => match appStep s i with
    | none => none
    | some s' => appRun s' sched

def appInit (items : List Nat) : AppState := ⟨[], items.map (fun x => ⟨x, [], 0⟩)⟩

/-- per-index result slots: goroutine `i` stores its item into slot `i` (a write list in schedule order) -/
def applyWrites {α} (ws : List (Nat × α)) (arr : List (Option α)) : List (Option α) :=
  ws.foldl (fun a w => a.set w.1 (some w.2)) arr

/-! ## Event paths: order properties inside one function body

The criteria above see a function through its lock / communication / access primitives with calls
inlined. Order properties ("the response channel is registered before the request is sent", "every
path unregisters before it returns") are about the *events* of one body: its leaf actions in program
order with calls kept as events. Spawned bodies are skipped (they run on another goroutine). -/

/-- One intraprocedural run: the leaf actions executed in program order, whether the run ended in a
`return`, and whether it is complete (`false`: cut off by the fuel bound — every check fails on it). -/
structure EvRun where
  evs : List Act
  returned : Bool
  complete : Bool
  deriving Repr

/-- sequential composition: a run that returned (or was cut off) skips what follows -/
def seqEv (rs1 rs2 : List EvRun) : List EvRun :=
  rs1.flatMap fun r1 =>
    if r1.returned || !r1.complete then [r1] else
      rs2.map fun r2 => ⟨r1.evs ++ r2.evs, r2.returned, r2.complete⟩

/-- exactly `i` iterations of a loop body (fewer if an iteration returns) -/
def iterEv (body : List EvRun) : Nat → List EvRun
  | 0 => [⟨[], false, true⟩]
  | i + 1 => seqEv (iterEv body i) body

def evFirst (u : Nat) (rec : List Act → List EvRun) (a : Act) : List EvRun :=
  match a with
  | .choice alts => alts.flatMap fun alt => rec alt
  | .loop b => (List.range (u + 1)).flatMap fun i => iterEv (rec b) i
  | .go _ => [⟨[], false, true⟩]
  | .ret => [⟨[], true, true⟩]
  | a => [⟨[a], false, true⟩]

/-- `evRuns u n k` — the runs of the body `k`, every loop iterated at most `u` times. When the fuel `n`
runs out the run is marked incomplete instead of being dropped. -/
def evRuns (u : Nat) : Nat → List Act → List EvRun
  | 0, _ => [⟨[], false, false⟩]
  | _ + 1, [] => [⟨[], false, true⟩]
  | n + 1, a :: k => seqEv (evFirst u (evRuns u n) a) (evRuns u n k)

/-- a body without loops: `evRuns` then enumerates *all* its runs, whatever the bound `u` -/
def loopFree : Nat → List Act → Bool
  | 0, _ => false
  | _ + 1, [] => true
  | n + 1, a :: k =>
    (match a with
     | .loop _ => false
     | .choice alts => alts.all (loopFree n)
     | _ => true) && loopFree n k

/-- event predicates -/
def Act.isWrite (x : String) : Act → Bool
  | .write y => x == y
  | _ => false
def Act.isDel (x : String) : Act → Bool
  | .del y => x == y
  | _ => false
def Act.isCall (f : String) : Act → Bool
  | .call g => f == g
  | _ => false
/-- creation of a channel with capacity at least `c` -/
def Act.isMakeChanGe (c : Nat) : Act → Bool
  | .makeChan _ n => c ≤ n
  | _ => false
def Act.isMakeChan : Act → Bool
  | .makeChan _ _ => true
  | _ => false
/-- a possibly blocking communication -/
def Act.isBlocking : Act → Bool
  | .send _ => true
  | .recv _ => true
  | .wait _ => true
  | .blockingCall _ => true
  | _ => false

/-- a flag along a run: set by the events `on`, cleared by the events `off` -/
def flagStep (on off : Act → Bool) (f : Bool) (a : Act) : Bool :=
  if on a then true else if off a then false else f

def flagAfter (on off : Act → Bool) : Bool → List Act → Bool
  | f, [] => f
  | f, a :: p => flagAfter on off (flagStep on off f a) p

/-- at every event satisfying `at_` the flag is set -/
def flagSetAt (on off at_ : Act → Bool) : Bool → List Act → Bool
  | _, [] => true
  | f, a :: p => (if at_ a then f else true) && flagSetAt on off at_ (flagStep on off f a) p

def evFuel : Nat := 200

/-- every run of the body is complete and ends with the flag clear
("whatever was registered by `on` has been unregistered by `off` when the function is left") -/
def clearedOnAllPaths (on off : Act → Bool) (u : Nat) (s : Skel) : Bool :=
  (evRuns u evFuel s).all fun r => r.complete && !flagAfter on off false r.evs

/-- on every run of the body, every event `at_` happens while the flag is set
("`on` happens before `at_`, and is not undone in between") -/
def setWheneverAt (on off at_ : Act → Bool) (u : Nat) (s : Skel) : Bool :=
  (evRuns u evFuel s).all fun r => r.complete && flagSetAt on off at_ false r.evs

/-- some run of the body contains an event satisfying `p` (non-vacuity of the checks above) -/
def someRunHas (p : Act → Bool) (u : Nat) (s : Skel) : Bool :=
  (evRuns u evFuel s).any fun r => r.evs.any p

/-- every event of every run satisfies `p` -/
def allEvents (p : Act → Bool) (u : Nat) (s : Skel) : Bool :=
  (evRuns u evFuel s).all fun r => r.complete && r.evs.all p

end LiskVerif.Locks
