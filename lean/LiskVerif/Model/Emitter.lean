/-
Model of `pkg/event` (`EventEmitter`: `On`, `Subscribe`, `Publish` / `Emit`, `Close`, `UnsubscribeAll`,
`Unsubscribe`), data level.  Core Lean only.

Channels are natural numbers.  The emitter's sends are rendezvous sends on unbuffered channels performed
under the emitter lock, one subscriber after the other, so a `Publish` returns only after every registered
channel took the message: with subscribers that keep receiving (the contract the engine's subscribers follow,
C20) a publication is one atomic step that appends the message to the receive log of every registered
channel, in registration order, once per registration.  Go panics (`close of closed channel`, `send on closed
channel`) are explicit: they can happen when a channel handed in through `On` is registered more than once.
The lock is released by the deferred unlock; the model marks the emitter `dead` and stops there (the harness
ends the case at a panic).

Representation: `events map[string][]chan` is the list of registrations `(topic, channel)` in registration
order (the channels of a topic are the registrations with that topic, in order) plus the set of existing
keys (`Unsubscribe` leaves an empty slice behind, which only matters for the error it returns next time).
-/
import LiskVerif.Model.Util

namespace LiskVerif.Emitter

abbrev Chan := Nat
abbrev Msg := Nat

structure St where
  /-- next fresh channel id (`make(chan interface{})`) -/
  next : Nat := 0
  /-- registrations in registration order -/
  subs : List (String × Chan) := []
  /-- keys present in the map -/
  topics : List String := []
  /-- closed channels -/
  closed : List Chan := []
  /-- receive log per channel, oldest first -/
  recv : List (Chan × List Msg) := []
  /-- a Go panic happened -/
  dead : Bool := false
deriving Repr, DecidableEq

/-- `events[t]` -/
def St.chansOf (s : St) (t : String) : List Chan := (s.subs.filter (fun p => p.1 == t)).map (·.2)

def St.recvOf (s : St) (c : Chan) : List Msg := (s.recv.lookup c).getD []

def pushRecv (recv : List (Chan × List Msg)) (c : Chan) (m : Msg) : List (Chan × List Msg) :=
  match recv with
  | [] => [(c, [m])]
  | (c', l) :: r => if c' == c then (c', l ++ [m]) :: r else (c', l) :: pushRecv r c m

def addTopic (ts : List String) (t : String) : List String := if ts.contains t then ts else ts ++ [t]

/-- `On(event, out)` -/
def on (s : St) (t : String) (c : Chan) : St :=
  { s with subs := s.subs ++ [(t, c)], topics := addTopic s.topics t }

/-- `make(chan)` by the caller (for `On`) -/
def newChan (s : St) : St × Chan := ({ s with next := s.next + 1 }, s.next)

/-- `Subscribe(event)`: a fresh channel, registered -/
def subscribe (s : St) (t : String) : St × Chan :=
  (on (newChan s).1 t s.next, s.next)

/-- the sends of one `Publish`: registration order; a send on a closed channel panics -/
def sendAll (s : St) (m : Msg) : List Chan → St
  | [] => s
  | c :: r =>
    if s.closed.contains c then { s with dead := true }
    else sendAll { s with recv := pushRecv s.recv c m } m r

/-- `Publish(event, message)` (`Emit` is the same code) -/
def publish (s : St) (t : String) (m : Msg) : St := sendAll s m (s.chansOf t)

/-- closing a list of channels in order; closing a closed channel panics -/
def closeList (s : St) : List Chan → St
  | [] => s
  | c :: r =>
    if s.closed.contains c then { s with dead := true }
    else closeList { s with closed := s.closed ++ [c] } r

/-- `Close()`: every channel of every topic is closed, every topic deleted.  (Go ranges over the map in
random order; which topics are already deleted when a panic happens depends on it, nothing else does.) -/
def closeAll (s : St) : St :=
  let s1 := closeList s (s.subs.map (·.2))
  if s1.dead then s1 else { s1 with subs := [], topics := [] }

inductive Res where
  | ok | notFound
deriving Repr, DecidableEq

/-- `UnsubscribeAll(event)` -/
def unsubscribeAll (s : St) (t : String) : St × Res :=
  if !s.topics.contains t then (s, .notFound) else
    let s1 := closeList s (s.chansOf t)
    if s1.dead then (s1, .ok)
    else ({ s1 with subs := s1.subs.filter (fun p => p.1 != t), topics := s1.topics.filter (· != t) }, .ok)

/-- `Unsubscribe(event, out)`: every registration equal to `out` is closed (a second one panics), the
others stay; the key stays in the map even when its slice is empty -/
def unsubscribe (s : St) (t : String) (c : Chan) : St × Res :=
  if !s.topics.contains t then (s, .notFound) else
    let s1 := closeList s ((s.chansOf t).filter (· == c))
    if s1.dead then (s1, .ok)
    else ({ s1 with subs := s1.subs.filter (fun p => !(p.1 == t && p.2 == c)) }, .ok)

/-- operations of a history -/
inductive Op where
  | newChan
  | on (t : String) (c : Chan)
  | subscribe (t : String)
  | publish (t : String) (m : Msg)
  | close
  | unsubscribeAll (t : String)
  | unsubscribe (t : String) (c : Chan)
deriving Repr, DecidableEq

def step (s : St) (o : Op) : St :=
  if s.dead then s else
  match o with
  | .newChan => (newChan s).1
  | .on t c => on s t c
  | .subscribe t => (subscribe s t).1
  | .publish t m => publish s t m
  | .close => closeAll s
  | .unsubscribeAll t => (unsubscribeAll s t).1
  | .unsubscribe t c => (unsubscribe s t c).1

def run (ops : List Op) : St := ops.foldl step {}

end LiskVerif.Emitter
