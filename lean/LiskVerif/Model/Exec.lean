/-
Model of transaction execution and of the application state root:

* pkg/statemachine/event_logger.go  (`EventLogger`: Add / AddUnrevertible / CreateSnapshot /
  RestoreSnapshot with re-indexing),
* pkg/statemachine/execute.go       (`Executer.ExecuteTransaction`, `VerifyTransaction`, block hooks),
* pkg/framework/state_batch.go      (`stateSMTBatch`: store writes ↦ sparse-Merkle-tree updates),
* pkg/framework/handler.go          (`ABIHandler`: InitStateMachine, Before/AfterTransactionsExecute,
  Verify/ExecuteTransaction, Commit, Revert, Finalize, Clear and `Init` restart recovery),

on top of the staged store model `LiskVerif.DiffDB` (pkg/db/diffdb).

Transcription conventions
* state keys are written without the state-db prefix byte `StateDBPrefixState`; the four
  name spaces of the state database (state / tree / diffs / tree state) are the fields
  `store`, `leaves`, `diffs`, `treeState` of `App`;
* the sparse Merkle tree is represented by the map it holds (`leaves`); its root is the abstract
  function `Params.smtRoot` of that map and the hash is the parameter `Params.H`. The engine passes
  the root returned by the previous Commit / Revert / Init as `StateRoot` (as consensus.Executer does),
  so the tree loaded by a request is the tree stored by the previous one;
* modules are represented by what they do: a command, a hook or a verification is a list of
  `Item`s (store writes, deletes, reads, events, nested snapshots) followed by success or failure;
* the model describes the code with the patches /verif/fixes/C16-*.patch applied.
-/
import LiskVerif.Model.DiffDB

namespace LiskVerif.Exec
open LiskVerif.DiffDB

/-! ### events (pkg/blockchain/event.go, pkg/statemachine/event_logger.go) -/

structure Event where
  module : String
  name : String
  data : Bytes
  /-- number of topics, the default topic included -/
  ntopics : Nat
  height : Nat
  index : Nat
deriving Repr, BEq, DecidableEq

/-- `loggedEvent` -/
structure Logged where
  event : Event
  noRevert : Bool
deriving Repr, BEq, DecidableEq

structure EventLogger where
  events : List Logged := []
  /-- `-1` is `none` -/
  snapshotIndex : Option Nat := none
  height : Nat
  /-- `defaultTopic != nil` -/
  hasTopic : Bool := false

def eventMaxSizeBytes : Nat := 1024
def eventMaxTopics : Nat := 4

/-- `alphanumericRegex = ^[a-zA-Z0-9]*$` -/
def alnum (s : String) : Bool := s.toList.all Char.isAlphanum

/-- `Event.Validate` -/
def Event.valid (e : Event) : Bool :=
  alnum e.module && alnum e.name && decide (e.data.length ≤ eventMaxSizeBytes) &&
    decide (1 ≤ e.ntopics) && decide (e.ntopics ≤ eventMaxTopics)

/-- `EventLogger.createEvent`; `extra` is the number of topics given by the caller -/
def createEvent (l : EventLogger) (m n : String) (data : Bytes) (extra : Nat) : Option Event :=
  if !l.hasTopic then none
  else
    let e : Event := { module := m, name := n, data := data, ntopics := 1 + extra,
                       height := l.height, index := l.events.length }
    if e.valid then some e else none

/-- `EventLogger.Add`: a revertible event -/
def add (l : EventLogger) (m n : String) (data : Bytes) (extra : Nat) : Option EventLogger :=
  match createEvent l m n data extra with
  | none => none
  | some e => some { l with events := l.events ++ [{ event := e, noRevert := false }] }

/-- `EventLogger.AddUnrevertible` -/
def addUnrevertible (l : EventLogger) (m n : String) (data : Bytes) (extra : Nat) :
    Option EventLogger :=
  match createEvent l m n data extra with
  | none => none
  | some e => some { l with events := l.events ++ [{ event := e, noRevert := true }] }

def setDefaultTopic (l : EventLogger) : EventLogger := { l with hasTopic := true }

def createSnapshot (l : EventLogger) : EventLogger :=
  { l with snapshotIndex := some l.events.length }

/-- the index assignment of `RestoreSnapshot`: the kept events are numbered from `n` on -/
def reindexFrom (n : Nat) : List Logged → List Logged
  | [] => []
  | e :: r => { e with event := { e.event with index := n } } :: reindexFrom (n + 1) r

/-- `EventLogger.RestoreSnapshot` -/
def restoreSnapshot (l : EventLogger) : EventLogger :=
  match l.snapshotIndex with
  | none => l
  | some n =>
    { l with events := l.events.take n ++ reindexFrom n ((l.events.drop n).filter (·.noRevert)),
             snapshotIndex := none }

/-- `EventLogger.Events` -/
def EventLogger.out (l : EventLogger) : List Event := l.events.map (·.event)

/-! ### scripted module code -/

/-- what a command / hook does, one step at a time; keys are full state keys -/
inductive Item where
  | set (k v : Bytes)
  | del (k : Bytes)
  /-- read a key and report it in a revertible event -/
  | get (k : Bytes)
  /-- read a key and fail unless it holds `v` -/
  | chk (k v : Bytes)
  | ev (unrevertible : Bool) (extraTopics : Nat) (data : Bytes)
  /-- an event with an invalid name: `Add` returns an error -/
  | badEv
  /-- `ctx.Snapshot()` -/
  | push
  /-- `ctx.RestoreSnapshot(id)` of the latest snapshot taken by this code -/
  | pop
  | fail
deriving Repr, BEq, DecidableEq

def modName : String := "scr"

structure SecSt where
  st : St
  lg : EventLogger
  /-- ids of the snapshots taken by the running code -/
  stack : List Nat := []

/-- one step; `false` when the code returns an error at this step -/
def runItem (s : SecSt) : Item → SecSt × Bool
  | .set k v => ({ s with st := set s.st k v }, true)
  | .del k => ({ s with st := del s.st k }, true)
  | .get k =>
    let r := get s.st k
    let s' := { s with st := r.1 }
    match add s.lg modName (if r.2.isSome then "read" else "miss") (r.2.getD []) 0 with
    | some lg' => ({ s' with lg := lg' }, true)
    | none => (s', false)
  | .chk k v =>
    let r := get s.st k
    ({ s with st := r.1 }, r.2 == some v)
  | .ev unrev n d =>
    match (if unrev then addUnrevertible s.lg modName "unr" d n else add s.lg modName "rev" d n) with
    | some lg' => ({ s with lg := lg' }, true)
    | none => (s, false)
  | .badEv =>
    match add s.lg modName "bad_name" [] 0 with
    | some lg' => ({ s with lg := lg' }, true)
    | none => (s, false)
  | .push =>
    let r := snapshot s.st
    ({ s with st := r.1, stack := r.2 :: s.stack }, true)
  | .pop =>
    match s.stack with
    | [] => (s, true)
    | id :: rest =>
      let r := restore s.st id
      ({ s with st := r.1, stack := rest }, r.2)
  | .fail => (s, false)

/-- run the code until it ends (`true`) or returns an error (`false`) -/
def runSection (s : SecSt) : List Item → SecSt × Bool
  | [] => (s, true)
  | it :: r =>
    let x := runItem s it
    if x.2 then runSection x.1 r else (x.1, false)

/-! ### Executer.ExecuteTransaction -/

inductive Result where
  | invalid | fail | ok
deriving Repr, BEq, DecidableEq

def Result.code : Result → Int
  | .invalid => -1
  | .fail => 0
  | .ok => 1

structure Tx where
  /-- `GetCommand` finds the command -/
  cmdKnown : Bool := true
  verify : List Item := []
  /-- `BeforeCommandExecute` of the module -/
  pre : List Item := []
  cmd : List Item := []
  /-- `AfterCommandExecute` of the module -/
  post : List Item := []

/-- `NewStandardTransactionEventData` -/
def stdData (success : Bool) : Bytes := [0x08, if success then 1 else 0]

def stdEventName : String := "commandExecutionResult"

structure CmdOut where
  st : St
  lg : EventLogger
  success : Bool
  /-- `RestoreSnapshot` returned an error -/
  restoreFailed : Bool := false
  /-- the logger when the command returned (before the event restore) -/
  lgRan : EventLogger

/-- snapshot, `command.Execute`, restore of store and events on error, `DeleteSnapshot` -/
def commandPhase (st : St) (lg : EventLogger) (cmd : List Item) : CmdOut :=
  let lg1 := createSnapshot lg
  let sn := snapshot st
  let x := runSection { st := sn.1, lg := lg1 } cmd
  if x.2 then
    { st := deleteSnapshot x.1.st sn.2, lg := x.1.lg, success := true, lgRan := x.1.lg }
  else
    let r := restore x.1.st sn.2
    if r.2 then
      { st := deleteSnapshot r.1 sn.2, lg := restoreSnapshot x.1.lg, success := false, lgRan := x.1.lg }
    else
      { st := r.1, lg := x.1.lg, success := false, restoreFailed := true, lgRan := x.1.lg }

def newLogger (height : Nat) : EventLogger := setDefaultTopic { height := height }

/-- `Executer.ExecuteTransaction` on the staged store `st` of a block at `height` -/
def executeTransaction (st : St) (height : Nat) (tx : Tx) : St × Result × List Event :=
  let p := runSection { st := st, lg := newLogger height } tx.pre
  if !p.2 then (p.1.st, .invalid, p.1.lg.out)
  else if !tx.cmdKnown then (p.1.st, .invalid, p.1.lg.out)
  else
    let c := commandPhase p.1.st p.1.lg tx.cmd
    if c.restoreFailed then (c.st, .invalid, c.lg.out)
    else
      let q := runSection { st := c.st, lg := c.lg } tx.post
      if !q.2 then (q.1.st, .invalid, q.1.lg.out)
      else
        match add q.1.lg modName stdEventName (stdData c.success) 0 with
        | none => (q.1.st, .invalid, q.1.lg.out)
        | some lg' => (q.1.st, if c.success then .ok else .fail, lg'.out)

/-! ### stateSMTBatch: the writes of a commit / revert, applied to the store and to the tree -/

/-- a write of the batch: `Set key value` or `Del key` -/
abbrev Write := Bytes × Option Bytes

/-- the content of the sparse Merkle tree -/
abbrev Leaves := List KV

structure Params where
  H : Bytes → Bytes
  smtRoot : Leaves → Bytes

/-- `getTreeKey`: module store prefix (6 bytes) followed by the hash of the rest of the key -/
def treeKey (H : Bytes → Bytes) (k : Bytes) : Bytes := k.take 6 ++ H (k.drop 6)

/-- the writes of `cacheDB.commit` -/
def batchOfCache : Cache → List Write
  | [] => []
  | (k, cv) :: r =>
    match cv.init with
    | none => (k, some cv.value) :: batchOfCache r
    | some _ =>
      if cv.deleted then (k, none) :: batchOfCache r
      else if cv.dirty then (k, some cv.value) :: batchOfCache r
      else batchOfCache r

/-- the writes of `Database.RevertDiff` -/
def batchOfDiff (d : Diff) : List Write :=
  d.added.map (fun k => (k, none)) ++ d.deleted.map (fun kv => (kv.1, some kv.2)) ++
    d.updated.map (fun kv => (kv.1, some kv.2))

def applyWrite (s : Store) (w : Write) : Store :=
  match w.2 with
  | some v => sset s w.1 v
  | none => sdel s w.1

/-- the pebble batch -/
def applyStore (s : Store) (ws : List Write) : Store := ws.foldl applyWrite s

/-- `stateSMTBatch.Set` ↦ leaf `(treeKey key, H value)`; `stateSMTBatch.Del` ↦ leaf removed -/
def applyLeaf (H : Bytes → Bytes) (l : Leaves) (w : Write) : Leaves :=
  match w.2 with
  | some v => sset l (treeKey H w.1) (H v)
  | none => sdel l (treeKey H w.1)

/-- `trie.Update` with the keys / values collected by the batch -/
def applyLeaves (H : Bytes → Bytes) (l : Leaves) (ws : List Write) : Leaves := ws.foldl (applyLeaf H) l

/-- specification: the tree content that belongs to a state -/
def leavesOf (H : Bytes → Bytes) (s : Store) : Leaves := s.map fun kv => (treeKey H kv.1, H kv.2)

/-! ### ABIHandler -/

/-- `executionContext` (its staged store lives over `App.store`) -/
structure Ctx where
  height : Nat
  cache : Cache := []
  snaps : List (Nat × Cache) := []
  snapCount : Nat := 0

structure App where
  /-- application state (prefix `StateDBPrefixState`) -/
  store : Store := []
  /-- content of the state tree (prefix `StateDBPrefixTree`) -/
  leaves : Leaves := []
  /-- diff per height (prefix `StateDBPrefixDiff`) -/
  diffs : List (Nat × Diff) := []
  /-- height and root (prefix `StateDBPrefixTreeState`) -/
  treeState : Option (Nat × Bytes) := none
  ctx : Option Ctx := none

def stOf (a : App) (c : Ctx) : St :=
  { store := a.store, cache := c.cache, snaps := c.snaps, snapCount := c.snapCount }

def ctxOf (c : Ctx) (st : St) : Ctx :=
  { c with cache := st.cache, snaps := st.snaps, snapCount := st.snapCount }

/-- `InitStateMachine` -/
def initStateMachine (a : App) (height : Nat) : App × Bool :=
  match a.ctx with
  | some _ => (a, false)
  | none => ({ a with ctx := some { height := height } }, true)

/-- `Clear`; a restart of the process loses the context in the same way -/
def clear (a : App) : App := { a with ctx := none }

/-- `BeforeTransactionsExecute` / `AfterTransactionsExecute` with the module hook `items` -/
def blockHook (a : App) (items : List Item) : App × Option (List Event) :=
  match a.ctx with
  | none => (a, none)
  | some c =>
    let x := runSection { st := stOf a c, lg := newLogger c.height } items
    let a' := { a with ctx := some (ctxOf c x.1.st) }
    if x.2 then (a', some x.1.lg.out) else (a', none)

/-- what `Command.Verify` of the scripted module looks at -/
def verifyItems : List Item → List Item
  | [] => []
  | .chk k v :: r => .chk k v :: verifyItems r
  | .fail :: r => .fail :: verifyItems r
  | _ :: r => verifyItems r

/-- `VerifyTransaction`: inside a block the staged store of the block is read -/
def verifyTransaction (a : App) (tx : Tx) : App × Bool :=
  if !tx.cmdKnown then (a, false)
  else
    match a.ctx with
    | some c =>
      let x := runSection { st := stOf a c, lg := newLogger c.height } (verifyItems tx.verify)
      ({ a with ctx := some (ctxOf c x.1.st) }, x.2)
    | none =>
      let x := runSection { st := { store := a.store }, lg := newLogger 0 } (verifyItems tx.verify)
      (a, x.2)

/-- `ExecuteTransaction` (not a dry run) -/
def executeTx (a : App) (tx : Tx) : App × Option (Result × List Event) :=
  match a.ctx with
  | none => (a, none)
  | some c =>
    let r := executeTransaction (stOf a c) c.height tx
    ({ a with ctx := some (ctxOf c r.1) }, some r.2)

/-- `ExecuteTransaction` with `DryRun`: a fresh staged store that is thrown away -/
def executeTxDry (a : App) (height : Nat) (tx : Tx) : Result × List Event :=
  (executeTransaction { store := a.store } height tx).2

/-- the staged state as `Range` over everything returns it (verification hook) -/
def stagedState (a : App) : App × Option (List KV) :=
  match a.ctx with
  | none => (a, none)
  | some c =>
    let r := range (stOf a c) [] (List.replicate 64 0xff) (-1) false
    ({ a with ctx := some (ctxOf c r.1) }, some r.2)

def putDiff (l : List (Nat × Diff)) (h : Nat) (d : Diff) : List (Nat × Diff) :=
  (h, d) :: l.filter (fun e => e.1 ≠ h)

def findDiff (l : List (Nat × Diff)) (h : Nat) : Option Diff :=
  match l with
  | [] => none
  | (i, d) :: r => if i = h then some d else findDiff r h

/-- `Commit`. `none`: error (no context / expected root mismatch). The staged store object is
not reset by the commit (the engine calls `Clear` next). -/
def commit (P : Params) (a : App) (expected : Option Bytes) (dry : Bool) : App × Option Bytes :=
  match a.ctx with
  | none => (a, none)
  | some c =>
    let ws := batchOfCache c.cache
    let leaves' := applyLeaves P.H a.leaves ws
    let root := P.smtRoot leaves'
    if expected.isSome && expected != some root then (a, none)
    else if dry then (a, some root)
    else
      ({ a with store := applyStore a.store ws, leaves := leaves',
                diffs := putDiff a.diffs c.height (commitCache c.cache a.store {}).2,
                treeState := some (c.height, root) }, some root)

/-- `height - 1` on uint32 -/
def pred32 (h : Nat) : Nat := (h + 4294967295) % 4294967296

/-- `ABIHandler.revert` -/
def revertAt (P : Params) (a : App) (height : Nat) (expected : Option Bytes) : App × Option Bytes :=
  match findDiff a.diffs height with
  | none => (a, none)
  | some d =>
    let ws := batchOfDiff d
    let leaves' := applyLeaves P.H a.leaves ws
    let root := P.smtRoot leaves'
    if expected.isSome && expected != some root then (a, none)
    else
      ({ a with store := applyStore a.store ws, leaves := leaves',
                treeState := some (pred32 height, root) }, some root)

/-- `Revert` -/
def revert (P : Params) (a : App) (expected : Option Bytes) : App × Option Bytes :=
  match a.ctx with
  | none => (a, none)
  | some c => revertAt P a c.height expected

/-- `Finalize` -/
def finalize (a : App) (f : Nat) : App :=
  if f = 0 then a else { a with diffs := a.diffs.filter (fun e => ¬ e.1 < f) }

/-- the loop of `Init`: `n` reverts starting at height `h` -/
def initLoop (P : Params) : Nat → App → Nat → Bytes → App × Option Bytes
  | 0, a, _, root => (a, some root)
  | n + 1, a, h, _ =>
    match revertAt P a h none with
    | (a', none) => (a', none)
    | (a', some r) => initLoop P n a' (h - 1) r

/-- `Init`: restart recovery to the engine's tip `(engineHeight, lastRoot)` -/
def init (P : Params) (a : App) (engineHeight : Nat) (lastRoot : Bytes) : App × Bool :=
  let cur := a.treeState.getD (0, P.smtRoot [])
  if cur.1 < engineHeight then (a, false)
  else
    match initLoop P (cur.1 - engineHeight) a cur.1 cur.2 with
    | (a', none) => (a', false)
    | (a', some root) => (a', root == lastRoot)

end LiskVerif.Exec
