/-
The derived commitments of a block, as lisk-engine computes them (pseudo-property ROOTS, part of C03):

* `pkg/blockchain/event.go`     — `Event.Encode`, `Event.UpdateID`, `Event.KeyPairs`, `Event.Validate`,
                                  `Events.UpdateIndex`, `CalculateEventRoot`
* `pkg/consensus/validator/validators_hash.go` — `ComputeValidatorsHash`
* `pkg/blockchain/transaction.go` — `Transaction.Init` (ID, size), `SigningBytes`, `GetSignature`'s message, `Validate`
* `pkg/blockchain/block.go`     — `BlockAssets.Valid` / `Sort` / `GetRoot`, `BlockHeader.Init` (ID), `SigningBytes`,
                                  the signed message, `BlockHeader.Validate`, `Block.Validate` (transaction root, asset root)
* `pkg/consensus/certificate/certificate.go` — `NewCertificateFromBlock`, `Certificate.SigningBytes`, the signed message

built on the existing models: encodings are the codec interpreter (`Codec.encode`) over the REGENERATED schema
table (`Gen.allSchemas`, passed as the parameter `t`), the event root is `SMT.mapRoot` of the map that
`trie.Update` leaves (`SMT.applyBatch`: the FIRST occurrence of a key in the batch wins, an empty value deletes),
transaction / asset roots are `RMT.root`. The hash function is a parameter (`H`; SHA-256 in the driver).

The model follows the code, not LIP-0065 / LIP-0058:
* `e.Index << 2` and `(e.Index << 2) + uint32(i)` are `uint32` arithmetic: they wrap modulo 2^32, so an index
  ≥ 2^30 or a topic position ≥ 4 runs into the neighbouring events' keys (`keyIndex`);
* `CalculateEventRoot` calls neither `Validate` nor `UpdateIndex`: it uses the `Index` fields it is given, an event
  without topics contributes nothing, more than 4 topics are hashed all the same;
* `UpdateID` joins height and shifted index into a buffer of `EventTotalIndexLengthBytes = 4` bytes
  (`bytes.JoinSize`): the result is the 4 height bytes alone — and it is returned, not stored
  (`Events.UpdateIndex` and `DataAccess.GetEvents` drop it, `Event.ID` stays empty);
* `ComputeValidatorsHash` sorts with `sort.Slice` and a comparator that looks at the BLS key only.
  `sort.Slice` is not stable: for validators with EQUAL keys and different weights the order — and the hash —
  is not determined by the comparator. `sortValidators` is the stable insertion sort (what Go runs for
  ≤ 12 elements); `arrangements` lists every order the comparator allows; `vhAmbiguous` says when there is
  more than one.
Core Lean only.
-/
import LiskVerif.Model.Validators
import LiskVerif.Model.SMTSpec

namespace LiskVerif.Roots
open LiskVerif LiskVerif.Codec

abbrev HashFn := Bytes → Bytes

/-! ### bytes helpers -/

/-- `bytes.FromUint32`: 4 bytes, big endian (of a `uint32`) -/
def be32 (n : Nat) : Bytes :=
  [UInt8.ofNat (n / 16777216 % 256), UInt8.ofNat (n / 65536 % 256), UInt8.ofNat (n / 256 % 256), UInt8.ofNat (n % 256)]

/-- `bytes.JoinSize(size, parts...)`: a zeroed buffer of `size` bytes filled from the left, what does not fit is dropped -/
def joinSize (size : Nat) (parts : List Bytes) : Bytes :=
  let c := parts.flatten
  c.take size ++ List.replicate (size - c.length) 0

def tagBlockHeader : Bytes := [0x4c, 0x53, 0x4b, 0x5f, 0x42, 0x48, 0x5f]   -- "LSK_BH_"
def tagTransaction : Bytes := [0x4c, 0x53, 0x4b, 0x5f, 0x54, 0x58, 0x5f]   -- "LSK_TX_"
def tagCertificate : Bytes := [0x4c, 0x53, 0x4b, 0x5f, 0x43, 0x45, 0x5f]   -- "LSK_CE_"

/-- the message every signature of the engine is made over: `crypto.Hash(bytes.Join(tag, chainID, bytes))` -/
def signedMessage (H : HashFn) (tag chainID body : Bytes) : Bytes := H (tag ++ chainID ++ body)

/-! ### events -/

structure Event where
  module : Bytes
  name : Bytes
  data : Bytes
  topics : List Bytes
  height : Nat   -- uint32
  index : Nat    -- uint32
deriving DecidableEq, Repr

/-- the field values of the generated codec of `blockchain.Event` (the `ID` field has no field number) -/
def Event.values (e : Event) : List Value :=
  [.bytes e.module, .bytes e.name, .bytes e.data, .bytesArr e.topics, .uint e.height, .uint e.index]

def Event.encode (t : Table) (nfc : NFC) (e : Event) : Bytes :=
  Validators.encodeNamed t nfc "blockchain.Event" e.values

def eventTopicHashLengthBytes : Nat := 8
def eventTotalIndexLengthBytes : Nat := 4           -- (30 + 2) / 8
def eventIDLengthBytes : Nat := 4 + eventTotalIndexLengthBytes
def eventMaxTopicsPerEvent : Nat := 4               -- 2 ^ eventTopicIndexLengthBits
def maxEventsPerBlock : Nat := 1073741824           -- 2 ^ eventIndexLengthBits
def eventMaxSizeBytes : Nat := 1024
/-- key length of the event trie: `eventTopicHashLengthBytes + EventTotalIndexLengthBytes` -/
def eventKeyLength : Nat := eventTopicHashLengthBytes + eventTotalIndexLengthBytes

/-- `e.Index << eventTopicIndexLengthBits` on `uint32` -/
def shiftIndex (index : Nat) : Nat := (index * 4) % 4294967296

/-- `(e.Index << eventTopicIndexLengthBits) + uint32(i)` on `uint32` -/
def keyIndex (index i : Nat) : Nat := (index * 4 + i) % 4294967296

/-- the buffer size `UpdateID` passes to `JoinSize`: `EventTotalIndexLengthBytes` = 4 in the code as it is
(`EventIDLengthBytes` = 8 was meant, fixes/C03-event-id-not-stored.patch). The harness probes the real function and
tells the driver which of the two sizes is in force (`reset <size>`). -/
def updateIDSize : Nat := eventTotalIndexLengthBytes
def updateIDSizeFixed : Nat := eventIDLengthBytes

/-- `Event.UpdateID` with the buffer size `size` (the returned value) -/
def Event.updateIDWith (size : Nat) (e : Event) : Bytes := joinSize size [be32 e.height, be32 (shiftIndex e.index)]

/-- `Event.UpdateID` as the code is: the 4 height bytes, the index part does not fit -/
def Event.updateID (e : Event) : Bytes := e.updateIDWith updateIDSize

/-- the key of topic number `i` of an event: `crypto.Hash(topic)[:8] ++ FromUint32((Index << 2) + i)` -/
def eventKey (H : HashFn) (index : Nat) (topic : Bytes) (i : Nat) : Bytes :=
  (H topic).take eventTopicHashLengthBytes ++ be32 (keyIndex index i)

def keyPairsFrom (H : HashFn) (index : Nat) (value : Bytes) : Nat → List Bytes → List SMT.KV
  | _, [] => []
  | i, topic :: rest => (eventKey H index topic i, value) :: keyPairsFrom H index value (i + 1) rest

/-- `Event.KeyPairs` -/
def Event.keyPairs (t : Table) (nfc : NFC) (H : HashFn) (e : Event) : List SMT.KV :=
  keyPairsFrom H e.index (e.encode t nfc) 0 e.topics

/-- `alphanumericRegex.MatchString` (`^[a-zA-Z0-9]*$`, no multi-line flag: the whole string) -/
def alnum (s : Bytes) : Bool := s.all Validators.isAlnum

/-- `Event.Validate` (`true` = nil error) -/
def Event.validate (e : Event) : Bool :=
  alnum e.module && alnum e.name && decide (e.data.length ≤ eventMaxSizeBytes) &&
  decide (e.topics.length ≠ 0) && decide (e.topics.length ≤ eventMaxTopicsPerEvent)

def updateIndexFrom : Nat → List Event → List Event
  | _, [] => []
  | i, e :: rest => { e with index := i % 4294967296 } :: updateIndexFrom (i + 1) rest

/-- `Events.UpdateIndex`: `event.Index = uint32(i)` -/
def updateIndex (evs : List Event) : List Event := updateIndexFrom 0 evs

/-- the keys and values `CalculateEventRoot` hands to `trie.Update`, in that order -/
def allKeyPairs (t : Table) (nfc : NFC) (H : HashFn) (evs : List Event) : List SMT.KV :=
  evs.flatMap (Event.keyPairs t nfc H)

/-- what the fresh trie holds after that one `Update` (first occurrence of a key wins, empty value = delete) -/
def eventMap (t : Table) (nfc : NFC) (H : HashFn) (evs : List Event) : List SMT.KV :=
  SMT.applyBatch [] (allKeyPairs t nfc H evs)

/-- `CalculateEventRoot` -/
def eventRoot (t : Table) (nfc : NFC) (H : HashFn) (evs : List Event) : Bytes :=
  SMT.mapRoot H eventKeyLength (eventMap t nfc H evs)

/-! ### validators hash -/

structure Validator where
  key : Bytes      -- BLS key
  weight : Nat     -- uint64
deriving DecidableEq, Repr

def Validator.values (v : Validator) : List Value := [.bytes v.key, .uint v.weight]

def vhValues (vals : List Validator) (threshold : Nat) : List Value :=
  [.msgArr (vals.map Validator.values), .uint threshold]

/-- `validatrorsHashData{activeValidators, certificateThreshold}.Encode()` -/
def vhEncode (t : Table) (nfc : NFC) (vals : List Validator) (threshold : Nat) : Bytes :=
  Validators.encodeNamed t nfc "validator.validatrorsHashData" (vhValues vals threshold)

/-- the comparator of `ComputeValidatorsHash` as a `≤`: `a` may stay in front of `b` unless `b.key < a.key` -/
def vhLe (a b : Validator) : Bool := ble a.key b.key

/-- the stable sort by BLS key -/
def sortValidators (vals : List Validator) : List Validator := isort vhLe vals

/-- the hash over one given order of the validators -/
def vhOf (t : Table) (nfc : NFC) (H : HashFn) (ordered : List Validator) (threshold : Nat) : Bytes :=
  H (vhEncode t nfc ordered threshold)

/-- `ComputeValidatorsHash` with a stable sort -/
def validatorsHash (t : Table) (nfc : NFC) (H : HashFn) (vals : List Validator) (threshold : Nat) : Bytes :=
  vhOf t nfc H (sortValidators vals) threshold

/-- maximal runs of equal keys of a list sorted by key -/
def runs : List Validator → List (List Validator)
  | [] => []
  | v :: rest =>
    match runs rest with
    | [] => [[v]]
    | [] :: more => [v] :: more
    | (w :: run) :: more => if v.key = w.key then (v :: w :: run) :: more else [v] :: (w :: run) :: more

def insertEverywhere {α : Type} (a : α) : List α → List (List α)
  | [] => [[a]]
  | b :: r => (a :: b :: r) :: (insertEverywhere a r).map (b :: ·)

def perms {α : Type} : List α → List (List α)
  | [] => [[]]
  | a :: r => (perms r).flatMap (insertEverywhere a)

def allSame : List Validator → Bool
  | [] => true
  | v :: rest => rest.all (· == v)

/-- the distinct orders of one run of equal keys -/
def runOrders (run : List Validator) : List (List Validator) :=
  if allSame run then [run] else (perms run).eraseDups

/-- some key is shared by validators of different weights: the comparator does not determine the order -/
def vhAmbiguous (vals : List Validator) : Bool := (runs (sortValidators vals)).any (fun r => !allSame r)

def factorial : Nat → Nat
  | 0 => 1
  | n + 1 => (n + 1) * factorial n

/-- upper bound of the number of arrangements: the product of the factorials of the runs that have to be
permuted (the driver refuses to enumerate more than 64) -/
def vhArrangementBound (vals : List Validator) : Nat :=
  ((runs (sortValidators vals)).filter (fun r => !allSame r)).foldl (fun m r => m * factorial r.length) 1

/-- every order of the validators that is sorted by key -/
def arrangements (vals : List Validator) : List (List Validator) :=
  (runs (sortValidators vals)).foldr (fun run acc => (runOrders run).flatMap fun p => acc.map (p ++ ·)) [[]]

/-- every hash a key-only comparison sort can produce, without repetitions, ascending -/
def admissibleHashes (t : Table) (nfc : NFC) (H : HashFn) (vals : List Validator) (threshold : Nat) : List Bytes :=
  isort ble ((arrangements vals).map fun a => vhOf t nfc H a threshold).eraseDups

/-- the proposed fix: ties on the key are broken by the weight, equal elements are then identical -/
def vhLeFixed (a b : Validator) : Bool :=
  match bcmp a.key b.key with
  | .lt => true
  | .gt => false
  | .eq => decide (a.weight ≤ b.weight)

def validatorsHashFixed (t : Table) (nfc : NFC) (H : HashFn) (vals : List Validator) (threshold : Nat) : Bytes :=
  vhOf t nfc H (isort vhLeFixed vals) threshold

/-! ### transactions -/

structure Tx where
  module : Bytes
  command : Bytes
  nonce : Nat    -- uint64
  fee : Nat      -- uint64
  senderPublicKey : Bytes
  params : Bytes
  signatures : List Bytes
deriving DecidableEq, Repr

def Tx.values (x : Tx) : List Value :=
  [.bytes x.module, .bytes x.command, .uint x.nonce, .uint x.fee, .bytes x.senderPublicKey, .bytes x.params,
   .bytesArr x.signatures]

/-- `Transaction.Encode` / `Bytes` -/
def Tx.encode (t : Table) (nfc : NFC) (x : Tx) : Bytes :=
  Validators.encodeNamed t nfc "blockchain.Transaction" x.values

/-- `Transaction.Init`: `ID = crypto.Hash(Encode())` -/
def Tx.id (t : Table) (nfc : NFC) (H : HashFn) (x : Tx) : Bytes := H (x.encode t nfc)

/-- `Transaction.Init`: `size = len(Encode())` -/
def Tx.size (t : Table) (nfc : NFC) (x : Tx) : Nat := (x.encode t nfc).length

/-- `Transaction.SigningBytes`: the `SigningTransaction` (everything but the signatures) -/
def Tx.signingBytes (t : Table) (nfc : NFC) (x : Tx) : Bytes :=
  Validators.encodeNamed t nfc "blockchain.SigningTransaction" (x.values.take 6)

/-- the message of `GetSignature` -/
def Tx.signMessage (t : Table) (nfc : NFC) (H : HashFn) (chainID : Bytes) (x : Tx) : Bytes :=
  signedMessage H tagTransaction chainID (x.signingBytes t nfc)

/-- `Transaction.Validate` -/
def Tx.validate (x : Tx) : Bool := Validators.txValid x.values

/-! ### block assets -/

structure Asset where
  module : Bytes
  data : Bytes
deriving DecidableEq, Repr

def Asset.values (a : Asset) : List Value := [.bytes a.module, .bytes a.data]

def Asset.encode (t : Table) (nfc : NFC) (a : Asset) : Bytes :=
  Validators.encodeNamed t nfc "blockchain.BlockAsset" a.values

/-- `BlockAssets.Sort` (module strings compare as byte strings); stable here, `sort.Slice` in Go — the
sequence of MODULES of the result is the same for every sorting algorithm -/
def sortAssets (as : List Asset) : List Asset := isort (fun a b => ble a.module b.module) as

/-- the loop of `BlockAssets.Valid`: position `i` holds the module the sorted copy holds there, and the module
was not seen before -/
def assetsValidLoop : List Asset → List Asset → List Bytes → Bool
  | [], _, _ => true
  | _ :: _, [], _ => true   -- unreachable: the sorted copy has the same length
  | a :: rest, s :: srest, seen =>
    if s.module ≠ a.module then false
    else if seen.contains a.module then false
    else assetsValidLoop rest srest (a.module :: seen)

/-- `BlockAssets.Valid` (`true` = nil error) -/
def assetsValid (as : List Asset) : Bool := assetsValidLoop as (sortAssets as) []

/-- `BlockAssets.GetRoot`: regular Merkle root over the ENCODED assets -/
def assetRoot (t : Table) (nfc : NFC) (H : HashFn) (as : List Asset) : Bytes :=
  RMT.root (Validators.rmtHashes H) (as.map (Asset.encode t nfc))

/-- the transaction root of `Block.Validate` / the generator: regular Merkle root over the transaction IDs -/
def txRoot (t : Table) (nfc : NFC) (H : HashFn) (txs : List Tx) : Bytes :=
  RMT.root (Validators.rmtHashes H) (txs.map (Tx.id t nfc H))

/-! ### block headers -/

structure AggCommit where
  height : Nat
  bits : Bytes
  sig : Bytes
deriving DecidableEq, Repr

structure Header where
  version : Nat
  timestamp : Nat
  height : Nat
  previousBlockID : Bytes
  generatorAddress : Bytes
  transactionRoot : Bytes
  assetRoot : Bytes
  eventRoot : Bytes
  stateRoot : Bytes
  maxHeightPrevoted : Nat
  maxHeightGenerated : Nat
  impliesMaxPrevotes : Bool
  validatorsHash : Bytes
  aggregateCommit : Option AggCommit   -- `none` = nil pointer (nothing is written)
  signature : Bytes
deriving DecidableEq, Repr

def AggCommit.values (c : AggCommit) : List Value := [.uint c.height, .bytes c.bits, .bytes c.sig]

def Header.values (h : Header) : List Value :=
  [.uint h.version, .uint h.timestamp, .uint h.height, .bytes h.previousBlockID, .bytes h.generatorAddress,
   .bytes h.transactionRoot, .bytes h.assetRoot, .bytes h.eventRoot, .bytes h.stateRoot,
   .uint h.maxHeightPrevoted, .uint h.maxHeightGenerated, .bool h.impliesMaxPrevotes, .bytes h.validatorsHash,
   (match h.aggregateCommit with
    | none => .msg false []
    | some c => .msg true c.values),
   .bytes h.signature]

def Header.encode (t : Table) (nfc : NFC) (h : Header) : Bytes :=
  Validators.encodeNamed t nfc "blockchain.BlockHeader" h.values

/-- `BlockHeader.Init` / `NewBlockHeader` / `Sign`: `ID = crypto.Hash(Encode())` -/
def Header.id (t : Table) (nfc : NFC) (H : HashFn) (h : Header) : Bytes := H (h.encode t nfc)

/-- `BlockHeader.SigningBytes`: the `signingBlockHeader` (all fields but the signature) -/
def Header.signingBytes (t : Table) (nfc : NFC) (h : Header) : Bytes :=
  Validators.encodeNamed t nfc "blockchain.signingBlockHeader" (h.values.take 14)

/-- the message of `signingBlockHeader.Sign` / `ValidateBlockSignature` -/
def Header.signMessage (t : Table) (nfc : NFC) (H : HashFn) (chainID : Bytes) (h : Header) : Bytes :=
  signedMessage H tagBlockHeader chainID (h.signingBytes t nfc)

/-- `BlockHeader.Validate` -/
def Header.validate (h : Header) : Bool := Validators.headerValid h.values

/-- `Block.Validate` (with the per-transaction `Validate` of fix 43697d6), `true` = nil error -/
def blockValidate (t : Table) (nfc : NFC) (H : HashFn) (h : Header) (txs : List Tx) (as : List Asset) : Bool :=
  h.validate && txs.all Tx.validate && (h.transactionRoot == txRoot t nfc H txs) &&
  assetsValid as && (h.assetRoot == assetRoot t nfc H as)

/-! ### certificates -/

/-- `SigningCertificate` of `NewCertificateFromBlock(h)` where `h.ID` is the header's own ID -/
def certValues (t : Table) (nfc : NFC) (H : HashFn) (h : Header) : List Value :=
  [.bytes (h.id t nfc H), .uint h.height, .uint h.timestamp, .bytes h.stateRoot, .bytes h.validatorsHash]

/-- `Certificate.SigningBytes` -/
def certSigningBytes (t : Table) (nfc : NFC) (H : HashFn) (h : Header) : Bytes :=
  Validators.encodeNamed t nfc "certificate.SigningCertificate" (certValues t nfc H h)

/-- the message a single commit signs (`Certificate.Sign` / `Verify` / `VerifyAggregateCertificateSignature`) -/
def certSignMessage (t : Table) (nfc : NFC) (H : HashFn) (chainID : Bytes) (h : Header) : Bytes :=
  signedMessage H tagCertificate chainID (certSigningBytes t nfc H h)

end LiskVerif.Roots
