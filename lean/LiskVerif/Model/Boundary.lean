/-
The limits that block generation (pkg/generator, `Model/Generator.lean`) and block verification of the
same node (pkg/consensus verify.go / pkg/blockchain block.go, `Model/Verify.lean`) share, side by side.
Core Lean only (used by the C15 driver).

* payload size: both loops of the generator stop at `size + total > maxSize`
  (`Generator.selectLoop`, `Generator.limitBySize`); `Verify.verifyBlock` rejects `payloadSize > maxTxLen`.
  Both limits are the configuration value `Genesis.MaxTransactionsSize` (engine.go gives it to the
  chain, the generator reads it from the configuration: Props/C15_Wire.lean).
* `budgetRejects`: the payload check written with a decremented budget (`remaining -= size; if remaining
  ≤ 0` resp. `< 0`) — the shape of a rewrite that "fails fast"; `strict = true` is the correct variant.
* transaction parameters: `Transaction.Validate` (`len(params) > MaxTransactionParamsSize`) is the one
  function behind admission (gossip validator, RPC) and `Block.Validate`.
* slots: `Generator.shouldForge` against the `future` / `pastSlot` rules of `verifyBlock`.
-/
import LiskVerif.Model.Generator
import LiskVerif.Model.Verify

namespace LiskVerif.Boundary
open LiskVerif LiskVerif.Generator

/-! ### payload size -/

/-- sum of the encoded sizes of a transaction list: what `verifyBlock` adds up, and what the loops of the
generator have accumulated in `totalSize` -/
def payloadTotal (l : List Tx) : Nat := (l.map (·.size)).sum

/-- stop test of `selectTransactionsByFee` and `limitTransactionsWithSize`: `tx.Size()+totalSize > maxSize` -/
def generatorStops (size total maxSize : Nat) : Bool := decide (size + total > maxSize)

/-- reject test of `verifyBlock`: `transactionsSize > int(chain.MaxTransactionsLength())` -/
def verifierRejects (total maxTxLen : Nat) : Bool := decide (total > maxTxLen)

/-- the payload rule of `Verify.verifyBlock` for a block carrying the transactions `l` -/
def payloadVerdict (maxTxLen : Nat) (l : List Tx) : Option Verify.Err :=
  if verifierRejects (payloadTotal l) maxTxLen then some .payloadSize else none

/-- payload check with a decremented budget: `remaining -= size` per transaction, reject as soon as
`remaining < 0` (`strict`) resp. `remaining ≤ 0` (not `strict`) -/
def budgetRejects (strict : Bool) : Int → List Nat → Bool
  | _, [] => false
  | remaining, z :: rest =>
    let r := remaining - (z : Int)
    if (if strict then decide (r < 0) else decide (r ≤ 0)) then true else budgetRejects strict r rest

/-! ### transaction parameters -/

/-- `blockchain.MaxTransactionParamsSize` -/
def maxParamsSize : Nat := 14336

/-- the size rule of `Transaction.Validate` -/
def paramsRejected (len : Nat) : Bool := decide (len > maxParamsSize)

/-! ### slots -/

/-- `BlockSlot.GetSlotTime` without `uint32` wrap-around -/
def slotStart (c : Verify.Config) (slot : Nat) : Nat := c.genesisTimestamp + slot * c.blockTime

/-- `Generator.shouldForge` (node not syncing): `now` = `time.Now().Unix()`, `tip` = timestamp of the last
block, wait threshold `blockTime / 5` (`Generator.Init`) -/
def shouldForge (c : Verify.Config) (tip now : Nat) : Bool :=
  let cur := Verify.slotOf c now
  let last := Verify.slotOf c tip
  if cur = last then false
  else if last + 1 < cur ∧ now ≤ slotStart c cur + c.blockTime / 5 then false
  else true

/-- the two slot rules of `verifyBlock` for a block with timestamp `ts`; the verifier's clock is `c.now` -/
def slotVerdict (c : Verify.Config) (tip ts : Nat) : Option Verify.Err :=
  if Verify.slotOf c ts > Verify.slotOf c c.now then some .future
  else if Verify.slotOf c ts ≤ Verify.slotOf c tip then some .pastSlot
  else none

end LiskVerif.Boundary
