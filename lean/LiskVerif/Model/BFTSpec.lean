/-
Unbounded declarative specification of the Lisk-BFT (LIP-0058) vote counting for STATIC parameters.

`Model/BFT.lean` transcribes the Go package `liskbft` with its window of `3·batchSize` block infos,
its parameter store and its pruning. This file states the same counting rules over the FULL chain:

* one parameter set `Cfg` (genesis height `g`, validators with weights, precommit threshold;
  the prevote threshold is `⌊2W/3⌋+1` as computed by `SetBFTParameters`) is in force for all heights;
* all validators are active from genesis (`minActiveHeight = g+1`, `largestHeightPrecommit = g`, as
  `SetBFTParameters` called on the genesis state sets them);
* a chain is a `List Header`; all functions below take it NEWEST FIRST (`x :: p` = header `x` on
  top of the chain `p`), `specHeights` takes it oldest first (heights `g+1, g+2, …`);
* `heightNotPrevoted` walks the generator's earlier blocks via their `maxHeightGenerated` pointers
  exactly as `getHeightNotPrevoted` does, but is never cut by a window end;
* weights are functions of (chain, height), defined by recursion on the chain.

Everything is executable (structural recursion / fuel): the driver evaluates `specHeights` next to
the windowed model, `Props/C01_Safety.lean` proves finality safety about these definitions.
-/
import LiskVerif.Model.BFT

namespace LiskVerif.BFTSpec
open LiskVerif.BFT

structure Cfg where
  /-- genesis height -/
  genesis : Nat
  validators : List Validator
  precommitThreshold : Nat
deriving Repr, DecidableEq

def totalWeight (cfg : Cfg) : Nat := (cfg.validators.map (·.weight)).sum

/-- `SetBFTParameters`: `aggregateBFTWeight * 2 / 3 + 1` -/
def prevoteThreshold (cfg : Cfg) : Nat := totalWeight cfg * 2 / 3 + 1

/-- BFT weight of an address (0 for non-validators; the first entry counts, as `findValidator`) -/
def weightOf (cfg : Cfg) (a : Bytes) : Nat :=
  match findValidator cfg.validators a with
  | some v => v.weight
  | none => 0

/-- header `x` implies a prevote for height `h`: `maxHeightGenerated < height` and
`max(maxHeightGenerated+1, minActiveHeight) ≤ h ≤ height` -/
def prevotes (cfg : Cfg) (x : Header) (h : Nat) : Bool :=
  decide (x.mhg < x.height) && decide (max (x.mhg + 1) (cfg.genesis + 1) ≤ h) && decide (h ≤ x.height)

/-- prevote weight of height `h` in the view of chain `r` (newest first) -/
def pvW (cfg : Cfg) : List Header → Nat → Nat
  | [], _ => 0
  | x :: p, h => pvW cfg p h + (if prevotes cfg x h then weightOf cfg x.gen else 0)

/-- the block of the chain at height `h` -/
def blockAt (p : List Header) (h : Nat) : Option Header := p.find? (·.height = h)

/-- the loop of `getHeightNotPrevoted` over the full chain `p` below the new block -/
def hnpLoop (p : List Header) (gen : Bytes) : Nat → Nat → Nat
  | 0, prev => prev
  | fuel + 1, prev =>
    match blockAt p prev with
    | none => prev
    | some b => if b.gen ≠ gen ∨ b.mhg ≥ prev then prev else hnpLoop p gen fuel b.mhg

/-- `heightNotPrevoted` of the new header `x` on top of `p` -/
def hnp (p : List Header) (x : Header) : Nat := hnpLoop p x.gen (p.length + 1) x.mhg

/-- largest `h` with `lo < h ≤ lo + n` and `f h`, or `lo` if there is none -/
def maxWith (f : Nat → Bool) (lo : Nat) : Nat → Nat
  | 0 => lo
  | n + 1 => if f (lo + n + 1) then lo + n + 1 else maxWith f lo n

/-- lower bound of the precommit loop -/
def minPc (cfg : Cfg) (hnpV lhpV : Nat) : Nat := max (cfg.genesis + 1) (max (hnpV + 1) (lhpV + 1))

/-- `largestHeightPrecommit` of validator `v` after chain `r` -/
def lhp (cfg : Cfg) : List Header → Bytes → Nat
  | [], _ => cfg.genesis
  | x :: p, v =>
    let prev := lhp cfg p v
    if x.gen = v ∧ x.mhg < x.height then
      let m := minPc cfg (hnp p x) prev
      let thr := prevoteThreshold cfg
      max prev (maxWith (fun h => decide (m ≤ h) && decide (thr ≤ pvW cfg p h)) cfg.genesis (p.length + 1))
    else prev

/-- header `x` on top of `p` implies a precommit for height `h` -/
def precommits (cfg : Cfg) (p : List Header) (x : Header) (h : Nat) : Bool :=
  decide (x.mhg < x.height) && decide (minPc cfg (hnp p x) (lhp cfg p x.gen) ≤ h) &&
    decide (prevoteThreshold cfg ≤ pvW cfg p h)

/-- precommit weight of height `h` in the view of chain `r` -/
def pcW (cfg : Cfg) : List Header → Nat → Nat
  | [], _ => 0
  | x :: p, h => pcW cfg p h + (if precommits cfg p x h then weightOf cfg x.gen else 0)

/-- `maxHeightPrevoted` of the view of `r` -/
def mhp (cfg : Cfg) (r : List Header) : Nat :=
  maxWith (fun h => decide (prevoteThreshold cfg ≤ pvW cfg r h)) cfg.genesis r.length

/-- `maxHeightPrecommitted` of the view of `r` -/
def mhpc (cfg : Cfg) (r : List Header) : Nat :=
  maxWith (fun h => decide (cfg.precommitThreshold ≤ pcW cfg r h)) cfg.genesis r.length

/-- (maxHeightPrevoted, maxHeightPrecommitted) after the chain `l` given OLDEST first -/
def specHeights (cfg : Cfg) (l : List Header) : Nat × Nat :=
  let r := l.reverse
  (mhp cfg r, mhpc cfg r)

def toHdr (h : Header) : Hdr :=
  { height := h.height, generatorAddress := h.gen, maxHeightGenerated := h.mhg, maxHeightPrevoted := h.mhp }

/-- `BFTVotes.contradicting` over the full chain: compare with the most recent own header -/
def contradictingSpec (contra : Hdr → Hdr → Bool) (p : List Header) (x : Header) : Bool :=
  match p.find? (·.gen = x.gen) with
  | none => false
  | some b => contra (toHdr b) (toHdr x)

/-- chain validity as far as the BFT rules are concerned (what `verifyBlock` enforces for every
generator): consecutive heights, `maxHeightPrevoted` field = computed value of the parent view,
not contradicting the chain. `contra` is the regenerated `AreDistinctHeadersContradicting`. -/
def chainValid (contra : Hdr → Hdr → Bool) (cfg : Cfg) : List Header → Bool
  | [] => true
  | x :: p =>
    decide (x.height = cfg.genesis + p.length + 1) && decide (x.mhp = mhp cfg p) &&
      !(contradictingSpec contra p x) && chainValid contra cfg p

end LiskVerif.BFTSpec
