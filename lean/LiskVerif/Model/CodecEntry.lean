/-
The entry points of pkg/blockchain that turn received bytes into objects with IDs (C08):

* `newTransaction`  — `blockchain.NewTransaction`: `DecodeStrict`, then `Init` (ID = hash(Encode(tx)))
* `newBlockAsset`   — `blockchain.NewBlockAsset`: `DecodeStrict`
* `newBlockHeader`  — `blockchain.NewBlockHeader`: lenient `Decode`, ID = hash(Encode(header))
* `newBlock`        — `blockchain.NewBlock` = `LiskVerif.Validators.newBlock` (RawBlock strictly, the
                      header through `NewBlockHeader`, every asset through `NewBlockAsset`, every
                      transaction through `NewTransaction`), with the IDs that the constructors assign
                      and the re-encoding `Block.Encode` of the accepted block.

The model follows the code: IDs are hashes of the RE-ENCODING of the decoded value. That they are the
hash of the received bytes is a theorem (Props/C08_Entry.lean), not a definition. The hash function is
a parameter; the driver instantiates it with SHA-256.
-/
import LiskVerif.Model.Validators

namespace LiskVerif.CodecEntry
open LiskVerif LiskVerif.Codec LiskVerif.Validators

/-- `Transaction.Init`: ID = hash of the re-encoding -/
def txID (t : Table) (nfc : NFC) (H : Bytes → Bytes) (tx : List Value) : Bytes :=
  H (encodeNamed t nfc "blockchain.Transaction" tx)

/-- `BlockHeader.Init` -/
def headerID (t : Table) (nfc : NFC) (H : Bytes → Bytes) (header : List Value) : Bytes :=
  H (encodeNamed t nfc "blockchain.BlockHeader" header)

/-- `NewTransaction`: the transaction and its ID -/
def newTransaction (t : Table) (nfc : NFC) (H : Bytes → Bytes) (data : Bytes) :
    Except Err (List Value × Bytes) :=
  match decodeNamed t nfc true "blockchain.Transaction" data with
  | .error e => .error e
  | .ok tx => .ok (tx, txID t nfc H tx)

/-- `NewBlockAsset` -/
def newBlockAsset (t : Table) (nfc : NFC) (data : Bytes) : Except Err (List Value) :=
  decodeNamed t nfc true "blockchain.BlockAsset" data

/-- `NewBlockHeader`: the header and its ID -/
def newBlockHeader (t : Table) (nfc : NFC) (H : Bytes → Bytes) (data : Bytes) :
    Except Err (List Value × Bytes) :=
  match decodeNamed t nfc false "blockchain.BlockHeader" data with
  | .error e => .error e
  | .ok h => .ok (h, headerID t nfc H h)

/-- the IDs of the transactions of an accepted block, in block order -/
def blockTxIDs (t : Table) (nfc : NFC) (H : Bytes → Bytes) (b : Block) : List Bytes :=
  b.txs.map (txID t nfc H)

/-- `Block.Encode` of an accepted block (generated codec of `blockchain.Block`: header a non-nil
nested struct, transactions and assets arrays of nested structs) -/
def blockEncode (t : Table) (nfc : NFC) (b : Block) : Bytes :=
  encodeNamed t nfc "blockchain.Block" [.msg true b.header, .msgArr b.txs, .msgArr b.assets]

/-- what `NewBlock` hands to the rest of the node: header ID, transaction IDs, re-encoding -/
structure Accepted where
  headerID : Bytes
  txIDs : List Bytes
  reencoded : Bytes

def newBlock (t : Table) (nfc : NFC) (H : Bytes → Bytes) (data : Bytes) : Except Err Accepted :=
  match Validators.newBlock t nfc data with
  | .error e => .error e
  | .ok b => .ok { headerID := headerID t nfc H b.header, txIDs := blockTxIDs t nfc H b,
                   reencoded := blockEncode t nfc b }

end LiskVerif.CodecEntry
