/-
Storage maintenance at arbitrary points of a write history (extends `Model/KeyHistory.lean`, which has the full
flush + compaction `settle` of the whole store).

pebble reduces the history of a key piecewise: a memtable flush or a compaction of upper levels merges only the
NEWEST entries of a key (those in the memtable / in the input files), older entries of the key stay in the levels
below - so tombstones are kept; a compaction into the bottom level rewrites the whole history of the keys of its
range. Which keys and how many entries a step covers depends on memtable sizes, file boundaries and the
compaction picker: here it is a parameter, every choice is allowed.

  mergeTop n   the newest n entries of one key are merged, by the rules of pebble's compaction iterator:
               SET v       shadows the older entries inside the merge         -> SET v, then what lies below
               DELETE      shadows them too and STAYS (not the bottom level)  -> DELETE, then what lies below
               SINGLEDEL   annihilates with the next older SET of the merge only; whatever is older than that SET
                           is judged on its own; meeting a DELETE it becomes one; two SINGLEDELs count as one;
                           with nothing left in the merge it stays on top of what lies below
  compact      (KeyHistory) the whole history of the key into the bottom level

The write side: a batch of the engine (`DiffDB.Batch`: what `Database.Commit` / `RevertDiff` hand to their writer,
what a `db.Batch` receives) appended to the histories, with `Del` issuing a plain `Delete` (the code) or a
`SingleDelete` (`sd = true`, the variant).
-/
import LiskVerif.Model.KeyHistory
import LiskVerif.Model.DiffDBCommit

namespace LiskVerif.KeyHistory

/-- merge of the newest `n` entries of one key's history (newest first); the flag = a SINGLEDEL is looking for its SET -/
def mergeTop : Bool → Nat → List Entry → List Entry
  | false, 0, es => es
  | true, 0, es => .sdel :: es
  | false, _ + 1, [] => []
  | true, _ + 1, [] => [.sdel]
  | false, n + 1, .set v :: rest => .set v :: rest.drop n
  | false, n + 1, .del :: rest => .del :: rest.drop n
  | false, n + 1, .sdel :: rest => mergeTop true n rest
  | true, n + 1, .set _ :: rest => mergeTop false n rest
  | true, n + 1, .del :: rest => .del :: rest.drop n
  | true, n + 1, .sdel :: rest => mergeTop true n rest

/-- one storage-maintenance step -/
inductive Maint where
  /-- memtable flush / compaction of upper levels: of key `k` the newest `f k` entries are merged -/
  | flush (f : Bytes → Nat)
  /-- compaction into the bottom level of the keys selected by `g` -/
  | compact (g : Bytes → Bool)

def Maint.apply : Maint → Store → Store
  | .flush f, s => fun k => mergeTop false (f k) (s k)
  | .compact g, s => fun k => if g k then KeyHistory.compact (s k) else s k

/-- maintenance steps in order -/
def runMaint (s : Store) : List Maint → Store
  | [] => s
  | m :: ms => runMaint (m.apply s) ms

/-- one call on the writer (`db.Batch.Set` / `db.Batch.Del`), `sd`: `Del` issues a SingleDelete -/
def applyOpH (sd : Bool) (s : Store) : DiffDB.BOp → Store
  | .set k v => putKey k v s
  | .del k => if sd then singleDeleteKey k s else deleteKey k s

/-- `db.Write(batch)` on the histories -/
def applyBatchH (sd : Bool) (s : Store) (b : DiffDB.Batch) : Store := b.foldl (applyOpH sd) s

/-- what happens to the database: a written batch or a maintenance step -/
inductive Ev where
  | write (b : DiffDB.Batch)
  | maint (m : Maint)

def Ev.apply (sd : Bool) : Ev → Store → Store
  | .write b, s => applyBatchH sd s b
  | .maint m, s => m.apply s

def runEv (sd : Bool) (s : Store) : List Ev → Store
  | [] => s
  | e :: es => runEv sd (e.apply sd s) es

/-- the map the models of C05 / C12 / C13 talk about: only the writes count -/
def mapEv (s : DiffDB.Store) : List Ev → DiffDB.Store
  | [] => s
  | .write b :: es => mapEv (DiffDB.applyBatch s b) es
  | .maint _ :: es => mapEv s es

/-! ### histories of staged-store commits -/

/-- the batch `Database.RevertDiff(batch, diff)` fills -/
def revertBatch (d : DiffDB.Diff) : DiffDB.Batch :=
  d.added.map .del ++ d.deleted.map (fun kv => .set kv.1 kv.2) ++ d.updated.map (fun kv => .set kv.1 kv.2)

/-- a history of the database under a node: rounds (a fresh staged store over the database, any operations on it,
`Commit`, the batch written), with maintenance steps anywhere in between -/
inductive DEv where
  | round (ops : List DiffDB.Op)
  | maint (m : Maint)

/-- the database as pebble keeps it, and as the map model sees it -/
structure Dur where
  phys : Store
  view : DiffDB.Store

/-- the batch of a round over the database content `s` -/
def roundBatch (s : DiffDB.Store) (ops : List DiffDB.Op) : DiffDB.Batch :=
  (DiffDB.commitKeep (DiffDB.run { store := s } ops)).2.1

def durStep (sd : Bool) (p : Dur) : DEv → Dur
  | .round ops => { phys := applyBatchH sd p.phys (roundBatch p.view ops), view := DiffDB.applyBatch p.view (roundBatch p.view ops) }
  | .maint m => { p with phys := m.apply p.phys }

def durRun (sd : Bool) (p : Dur) : List DEv → Dur
  | [] => p
  | e :: es => durRun sd (durStep sd p e) es

/-- the same history in the map model of C12 (`DiffDB.commit` = Commit + write of the batch): maintenance does not exist -/
def mapRun (s : DiffDB.Store) : List DEv → DiffDB.Store
  | [] => s
  | .round ops :: es => mapRun (DiffDB.commit (DiffDB.run { store := s } ops)).1.store es
  | .maint _ :: es => mapRun s es

end LiskVerif.KeyHistory
