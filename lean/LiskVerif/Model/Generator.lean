/-
Model of pkg/generator (block generation), core Lean only.

Part 1 — transaction selection (`generator.go: selectTransactionsByFee`, `limitTransactionsWithSize`,
`selector.go: getSortedTransactionMapByNonce`, `FeePriorityTransactions`).
  Go keeps `transactionBySender : map sender → nonce-sorted list` and a max-heap holding the first
  transaction of every list.  `heap.Pop` returns *a* transaction of maximal fee priority among the
  heads (container/heap's contract; which one among equal priorities depends on the map iteration
  order, i.e. it is not determined by the input).  The model therefore has
    * `Run`      — the relation "this list of transactions is a possible result" (any tie-break),
    * `select`   — the executable function that takes the first maximal head (what the driver prints;
                   equal to the Go result whenever no two heads ever tie),
    * `checkSel` — an executable decision procedure for `Run` (search over the tie-breaks; used by
                   the driver for pools with ties: the claimed result is a real output).
  The verify/execute verdict of the application is a parameter `ok : List Tx → Tx → Bool` (first
  argument: what was selected so far); the mock application of the harness answers from two bytes
  of the transaction (`Tx.vok`, `Tx.eok`).

Part 2 — header bookkeeping (`forge`, `initBlockHeader`, the stored `GeneratorInfo`): which
  `maxHeightGenerated` a generator reports and what it persists, under forge / delete / restart.
  `Rule.fixed` is the behaviour after /verif/fixes/C15-max-height-generated.patch (stored height =
  largest height ever generated), `Rule.original` the unpatched rule (height of the last block).
-/
import LiskVerif.Model.Util
import LiskVerif.Model.Header

namespace LiskVerif.Generator

/-! ## Part 1: selection -/

structure Tx where
  id : Nat          -- position in the pool (identity of the transaction)
  sender : Nat
  nonce : Nat
  fee : Nat
  size : Nat
  vok : Bool := true   -- VerifyTransaction answers Ok
  eok : Bool := true   -- ExecuteTransaction answers without error and not "invalid"
deriving Repr, DecidableEq, Inhabited

/-- `tx.Fee / uint64(tx.Size())` (selector.go; the int/uint64 conversions are the identity) -/
def Tx.prio (t : Tx) : Nat := t.fee / t.size

/-- `transactionBySender`: association list sender ↦ remaining transactions of the sender -/
abbrev Groups := List (Nat × List Tx)

def addTx (t : Tx) : Groups → Groups
  | [] => [(t.sender, [t])]
  | (s, l) :: r => if s = t.sender then (s, l ++ [t]) :: r else (s, l) :: addTx t r

def groupBySender : List Tx → Groups → Groups
  | [], g => g
  | t :: r, g => groupBySender r (addTx t g)

def nonceLe (a b : Tx) : Bool := decide (a.nonce ≤ b.nonce)

/-- `getSortedTransactionMapByNonce` -/
def initGroups (txs : List Tx) : Groups :=
  (groupBySender txs []).map fun p => (p.1, isort nonceLe p.2)

/-- content of the heap: the first transaction of every list -/
def heads (g : Groups) : List Tx := g.filterMap fun p => p.2.head?

def erase (s : Nat) : Groups → Groups
  | [] => []
  | (k, l) :: r => if k = s then r else (k, l) :: erase s r

def replace (s : Nat) (l' : List Tx) : Groups → Groups
  | [] => []
  | (k, l) :: r => if k = s then (k, l') :: r else (k, l) :: replace s l' r

/-- after a successful pick: drop the head; delete the sender when nothing is left -/
def advance (s : Nat) (rest : List Tx) (g : Groups) : Groups :=
  match rest with
  | [] => erase s g
  | _ :: _ => replace s rest g

/-- what happened in one iteration of the selection loop; `hs` = heads at that moment -/
inductive Ev where
  | take (t : Tx) (hs : List Tx)
  | skip (t : Tx) (hs : List Tx)
  | cut (t : Tx) (hs : List Tx)
deriving Repr

/-- `(s, t :: rest)` is a sender list whose head has maximal fee priority among all heads -/
def IsMaxHead (g : Groups) (s : Nat) (t : Tx) (rest : List Tx) : Prop :=
  (s, t :: rest) ∈ g ∧ ∀ h ∈ heads g, h.prio ≤ t.prio

/-- `Run ok maxSize g total acc R evs`: starting the loop of `selectTransactionsByFee` with sender
lists `g`, `totalSize = total` and `resultTransaction = acc`, the loop can append exactly `R`
(events `evs`). -/
inductive Run (ok : List Tx → Tx → Bool) (maxSize : Nat) :
    Groups → Nat → List Tx → List Tx → List Ev → Prop where
  | done (total : Nat) (acc : List Tx) : Run ok maxSize [] total acc [] []
  | cut {g : Groups} {total : Nat} {acc : List Tx} {s : Nat} {t : Tx} {rest : List Tx} :
      IsMaxHead g s t rest → t.size + total > maxSize →
      Run ok maxSize g total acc [] [Ev.cut t (heads g)]
  | skip {g : Groups} {total : Nat} {acc : List Tx} {s : Nat} {t : Tx} {rest : List Tx}
      {R : List Tx} {evs : List Ev} :
      IsMaxHead g s t rest → t.size + total ≤ maxSize → ok acc t = false →
      Run ok maxSize (erase s g) total acc R evs →
      Run ok maxSize g total acc R (Ev.skip t (heads g) :: evs)
  | take {g : Groups} {total : Nat} {acc : List Tx} {s : Nat} {t : Tx} {rest : List Tx}
      {R : List Tx} {evs : List Ev} :
      IsMaxHead g s t rest → t.size + total ≤ maxSize → ok acc t = true →
      Run ok maxSize (advance s rest g) (total + t.size) (acc ++ [t]) R evs →
      Run ok maxSize g total acc (t :: R) (Ev.take t (heads g) :: evs)

/-- first sender list whose head has maximal priority (ties: the earliest list) -/
def pickMax : Groups → Option (Nat × Tx × List Tx)
  | [] => none
  | (_, []) :: r => pickMax r
  | (s, t :: rest) :: r =>
    match pickMax r with
    | none => some (s, t, rest)
    | some (s', t', rest') => if t.prio < t'.prio then some (s', t', rest') else some (s, t, rest)

def txCount (g : Groups) : Nat := (g.map fun p => p.2.length).sum

/-- the loop of `selectTransactionsByFee`, deterministic tie-break, `fuel ≥ txCount g` -/
def selectLoop (ok : List Tx → Tx → Bool) (maxSize : Nat) : Nat → Groups → Nat → List Tx → List Tx
  | 0, _, _, _ => []
  | fuel + 1, g, total, acc =>
    match pickMax g with
    | none => []
    | some (s, t, rest) =>
      if t.size + total > maxSize then []
      else if ok acc t then t :: selectLoop ok maxSize fuel (advance s rest g) (total + t.size) (acc ++ [t])
      else selectLoop ok maxSize fuel (erase s g) total acc

/-- `limitTransactionsWithSize` -/
def limitBySize (maxSize : Nat) : Nat → List Tx → List Tx
  | _, [] => []
  | total, t :: r => if t.size + total > maxSize then [] else t :: limitBySize maxSize (total + t.size) r

/-- `selectTransactionsByFee` -/
def selectByFee (ok : List Tx → Tx → Bool) (maxSize : Nat) (txs : List Tx) : List Tx :=
  selectLoop ok maxSize txs.length (initGroups txs) 0 []

/-- what `forge` puts into the block -/
def select (ok : List Tx → Tx → Bool) (maxSize : Nat) (txs : List Tx) : List Tx :=
  limitBySize maxSize 0 (selectByFee ok maxSize txs)

/-- verdict of the mock application -/
def okMock (_ : List Tx) (t : Tx) : Bool := t.vok && t.eok

/-! ### validator of a claimed result (verdicts independent of the state) -/

def maxPrio (g : Groups) : Nat := (heads g).foldl (fun m t => max m t.prio) 0

/-- Is `R` a possible continuation of the loop? Exhaustive search over the tie-breaks: every sender
list whose head has maximal priority may be the one `heap.Pop` returns. A popped head that does
not fit ends the loop (`R` must be exhausted), a failing one is dropped with its sender, a passing
one must be the next claimed transaction. -/
def checkLoop (okb : Tx → Bool) (maxSize : Nat) : Nat → Groups → Nat → List Tx → Bool
  | 0, g, _, R => g.isEmpty && R.isEmpty
  | fuel + 1, g, total, R =>
    match g with
    | [] => R.isEmpty
    | _ :: _ =>
      g.any fun p =>
        match p.2 with
        | [] => false
        | t :: rest =>
          decide (t.prio = maxPrio g) &&
          (if t.size + total > maxSize then R.isEmpty
           else if okb t then
             (match R with
              | [] => false
              | r :: R' =>
                decide (r = t) && checkLoop okb maxSize fuel (advance p.1 rest g) (total + t.size) R')
           else checkLoop okb maxSize fuel (erase p.1 g) total R)

def checkSel (maxSize : Nat) (txs : List Tx) (R : List Tx) : Bool :=
  checkLoop (fun t => t.vok && t.eok) maxSize (txs.length + 1) (initGroups txs) 0 R

/-! ## Part 2: header bookkeeping -/

structure Info where
  height : Nat := 0
  mhp : Nat := 0
  mhg : Nat := 0
deriving Repr, DecidableEq, Inhabited

inductive Rule where
  | fixed      -- stored height = largest height ever generated (after the fix)
  | original   -- stored height = height of the last generated block (unpatched code)
deriving Repr, DecidableEq

/-- what `forge` persists after signing header `h` -/
def nextInfo (rule : Rule) (h : Hdr) : Info :=
  { height := match rule with
      | .fixed => max h.height h.maxHeightGenerated
      | .original => h.height
    mhp := h.maxHeightPrevoted
    mhg := h.maxHeightGenerated }

def getInfo (infos : List (Nat × Info)) (v : Nat) : Info :=
  match infos.find? (fun p => p.1 == v) with
  | some p => p.2
  | none => {}

def setInfo (infos : List (Nat × Info)) (v : Nat) (i : Info) : List (Nat × Info) :=
  match infos with
  | [] => [(v, i)]
  | (k, x) :: r => if k == v then (k, i) :: r else (k, x) :: setInfo r v i

/-- what became of a generated block -/
inductive Outcome where
  | applied            -- info persisted, block handed on and applied: it is the new tip
  | dropped            -- info persisted, block handed on (or the process died right after the
                       -- write) but never applied
  | crashedBeforeWrite -- the process died before the generator database was written: nothing
                       -- persisted, nothing handed on
deriving Repr, DecidableEq

inductive Op where
  | ext (mhp : Nat)                          -- a block of another generator is applied; chain maxHeightPrevoted afterwards
  | del (k : Nat) (mhp : Nat)                -- k blocks are deleted from the tip; chain maxHeightPrevoted afterwards
  | forge (v : Nat) (o : Outcome) (mhp : Nat) -- validator v generates on the tip; `mhp`: chain value after the block is applied
  | restart                                  -- process restart: the generator database is reopened
deriving Repr

structure GState where
  height : Nat := 0                 -- height of the tip
  mhp : Nat := 0                    -- maxHeightPrevoted of the chain at the tip
  infos : List (Nat × Info) := []   -- generator database (durable: written with sync)
  persisted : List (Nat × Hdr) := []  -- ghost: signed headers whose info reached the database, oldest first
  handedOn : List (Nat × Hdr) := []   -- ghost: signed headers given to consensus (`AddInternal`), oldest first
deriving Repr

/-- the header `initBlockHeader` prepares for validator `v` (address `addr v`) on the current tip -/
def mkHeader (addr : Nat → Bytes) (st : GState) (v : Nat) : Hdr :=
  { height := st.height + 1
    generatorAddress := addr v
    maxHeightGenerated := (getInfo st.infos v).height
    maxHeightPrevoted := st.mhp }

def applyOp (rule : Rule) (addr : Nat → Bytes) (st : GState) : Op → GState
  | .ext mhp => { st with height := st.height + 1, mhp := mhp }
  | .del k mhp => { st with height := st.height - k, mhp := mhp }
  | .restart => st
  | .forge v o mhp =>
    let h := mkHeader addr st v
    match o with
    | .crashedBeforeWrite => st
    | .dropped =>
      { st with infos := setInfo st.infos v (nextInfo rule h)
                persisted := st.persisted ++ [(v, h)]
                handedOn := st.handedOn ++ [(v, h)] }
    | .applied =>
      { st with height := st.height + 1, mhp := mhp
                infos := setInfo st.infos v (nextInfo rule h)
                persisted := st.persisted ++ [(v, h)]
                handedOn := st.handedOn ++ [(v, h)] }

def run (rule : Rule) (addr : Nat → Bytes) (st : GState) : List Op → GState
  | [] => st
  | op :: r => run rule addr (applyOp rule addr st op) r

/-- headers of validator `v` in a ghost list, oldest first -/
def headersOf (v : Nat) (l : List (Nat × Hdr)) : List Hdr :=
  (l.filter fun p => p.1 == v).map (·.2)

end LiskVerif.Generator
