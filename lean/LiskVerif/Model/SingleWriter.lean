/-
The single-writer discipline of the consensus path (pkg/consensus/execute.go), abstractly.

`Executer.process` / `processValidated` / `deleteBlock` take no lock: they read the stored finalized height and
the BFT heights, call the application and only then write block + finalized height.  They are correct because
ONE goroutine runs them: the loop of `Executer.Start`, which takes `*ProcessContext` values from the bounded
channel `processCh` one after the other.  Every other goroutine (the p2p handler `onBlockReceived`, the
generator / the postBlock endpoint through `AddInternal`) only OFFERS a block: a non-blocking send that appends
the block when the queue has room and drops it otherwise.

`Sys` is that system for an arbitrary step function `f` (the whole of `process` for one block): a schedule is a
list of `offer a` (some enqueuing goroutine hands in `a`) and `take` (the loop takes the head of the queue and
applies it; with an empty queue the loop is blocked, nothing happens).  `applied` is a ghost field: the items
taken so far, in order.  `Lemmas`-free facts proved here (core Lean only): the state reached by ANY schedule is
`foldl f` over `applied`, `applied ++ queue` is a sublist of the offered items, the queue never exceeds its
capacity.  Props/C04_SingleWriter.lean instantiates `f` with `Node.step` and transfers the C04 theorems, which
are stated for operation LISTS, to every concurrent schedule.

`TwoWriters` is the contrast: the read–compute–write of the finalized height split into its two halves, run by
two goroutines; an interleaving lowers the stored value (what a second goroutine inside `process` does).
-/

namespace LiskVerif.SingleWriter

/-- one scheduling step -/
inductive Act (α : Type) where
  | offer (a : α)   -- an enqueuer: `select { case processCh <- a: default: }`
  | take            -- the loop: `case ctx := <-c.processCh: c.process(ctx)`
deriving Repr

structure Sys (σ α : Type) where
  st : σ
  queue : List α
  applied : List α

def init (s : σ) : Sys σ α := ⟨s, [], []⟩

def stepAct (cap : Nat) (f : σ → α → σ) (s : Sys σ α) : Act α → Sys σ α
  | .offer a => if s.queue.length < cap then { s with queue := s.queue ++ [a] } else s
  | .take =>
    match s.queue with
    | [] => s
    | a :: q => { st := f s.st a, queue := q, applied := s.applied ++ [a] }

def exec (cap : Nat) (f : σ → α → σ) (s : Sys σ α) (acts : List (Act α)) : Sys σ α :=
  acts.foldl (stepAct cap f) s

/-- the items offered by a schedule, in order -/
def offered : List (Act α) → List α
  | [] => []
  | .offer a :: r => a :: offered r
  | .take :: r => offered r

theorem exec_append (cap : Nat) (f : σ → α → σ) (s : Sys σ α) (a b : List (Act α)) :
    exec cap f s (a ++ b) = exec cap f (exec cap f s a) b := by
  simp [exec, List.foldl_append]

theorem offered_append (a b : List (Act α)) : offered (a ++ b) = offered a ++ offered b := by
  induction a with
  | nil => rfl
  | cons x r ih => cases x <;> simp [offered, ih]

/-- one step: the state is the fold over the applied items -/
theorem step_st (cap : Nat) (f : σ → α → σ) (s0 : σ) (s : Sys σ α) (x : Act α)
    (h : s.st = s.applied.foldl f s0) :
    (stepAct cap f s x).st = (stepAct cap f s x).applied.foldl f s0 := by
  cases x with
  | offer a =>
    simp only [stepAct]
    split <;> exact h
  | take =>
    simp only [stepAct]
    split
    · exact h
    · simp [List.foldl_append, h]

/-- **Every schedule is a list**: the state reached is `foldl f` over the items the loop took, in the order it
took them. -/
theorem exec_st (cap : Nat) (f : σ → α → σ) (s0 : σ) (acts : List (Act α)) :
    ∀ (s : Sys σ α), s.st = s.applied.foldl f s0 →
      (exec cap f s acts).st = (exec cap f s acts).applied.foldl f s0 := by
  induction acts with
  | nil => intro s h; exact h
  | cons x r ih =>
    intro s h
    show (exec cap f (stepAct cap f s x) r).st = _
    exact ih _ (step_st cap f s0 s x h)

/-- the applied list only grows: after more steps the earlier applied list is a prefix -/
theorem exec_applied_prefix (cap : Nat) (f : σ → α → σ) (acts : List (Act α)) :
    ∀ (s : Sys σ α), ∃ more, (exec cap f s acts).applied = s.applied ++ more := by
  induction acts with
  | nil => intro s; exact ⟨[], by simp [exec]⟩
  | cons x r ih =>
    intro s
    obtain ⟨m, hm⟩ := ih (stepAct cap f s x)
    show ∃ more, (exec cap f (stepAct cap f s x) r).applied = _
    cases x with
    | offer a =>
      refine ⟨m, ?_⟩
      rw [hm]; simp only [stepAct]; split <;> rfl
    | take =>
      cases hq : s.queue with
      | nil => refine ⟨m, ?_⟩; rw [hm]; simp [stepAct, hq]
      | cons a q => refine ⟨[a] ++ m, ?_⟩; rw [hm]; simp [stepAct, hq]

/-- nothing is invented, duplicated or reordered: what was applied followed by what still waits is a sublist of
what was offered (items are only lost by a full queue) -/
theorem exec_sublist (cap : Nat) (f : σ → α → σ) (acts : List (Act α)) :
    ∀ (s : Sys σ α) (pre : List α), (s.applied ++ s.queue).Sublist pre →
      ((exec cap f s acts).applied ++ (exec cap f s acts).queue).Sublist (pre ++ offered acts) := by
  induction acts with
  | nil => intro s pre h; simpa [exec, offered] using h
  | cons x r ih =>
    intro s pre h
    show ((exec cap f (stepAct cap f s x) r).applied ++ (exec cap f (stepAct cap f s x) r).queue).Sublist _
    cases x with
    | offer a =>
      have h2 : ((stepAct cap f s (.offer a)).applied ++ (stepAct cap f s (.offer a)).queue).Sublist (pre ++ [a]) := by
        simp only [stepAct]
        split
        · simp only [← List.append_assoc]
          exact List.Sublist.append h (List.Sublist.refl _)
        · exact h.trans (List.sublist_append_left _ _)
      have := ih _ (pre ++ [a]) h2
      simpa [offered, List.append_assoc] using this
    | take =>
      have h2 : ((stepAct cap f s .take).applied ++ (stepAct cap f s .take).queue).Sublist pre := by
        cases hq : s.queue with
        | nil => simpa [stepAct, hq] using h
        | cons a q => simpa [stepAct, hq, List.append_assoc] using h
      simpa [offered] using ih _ pre h2

theorem exec_queue_le (cap : Nat) (f : σ → α → σ) (acts : List (Act α)) :
    ∀ (s : Sys σ α), s.queue.length ≤ cap → (exec cap f s acts).queue.length ≤ cap := by
  induction acts with
  | nil => intro s h; exact h
  | cons x r ih =>
    intro s h
    show (exec cap f (stepAct cap f s x) r).queue.length ≤ cap
    apply ih
    cases x with
    | offer a =>
      simp only [stepAct]
      split
      · simp; omega
      · exact h
    | take =>
      cases hq : s.queue with
      | nil => simp [stepAct, hq]
      | cons a q => simp [stepAct, hq]; rw [hq] at h; simp at h; omega

/-! ### two writers: the lost update -/

namespace TwoWriters

/-- the two halves of `processValidated`'s handling of the finalized height for a block with
`maxHeightPrecommited = m`: `read` copies the stored value into the goroutine's local variable
(`currentFinalziedHeight`), `write` stores `max local m` (`nextFinalizedHeight`, `Chain.AddBlock`). -/
inductive Half where
  | read (g : Nat)
  | write (g : Nat) (m : Nat)
deriving Repr

structure St where
  fin : Nat
  loc : Nat → Nat   -- local copy per goroutine

def step (s : St) : Half → St
  | .read g => { s with loc := fun k => if k = g then s.fin else s.loc k }
  | .write g m => { s with fin := max (s.loc g) m }

def run (s : St) (hs : List Half) : St := hs.foldl step s

/-- the stored value after each step -/
def trace (s : St) : List Half → List Nat
  | [] => []
  | h :: r => (step s h).fin :: trace (step s h) r

end TwoWriters

end LiskVerif.SingleWriter
