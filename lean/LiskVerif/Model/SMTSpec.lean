/-
Sparse Merkle tree of LIP-0039 as pkg/trie/smt implements it — the declarative specification.

* keys are byte strings of a fixed length, read as bit strings MSB first (`bytes.ToBools`, `IsBitSet`);
* `leafHash key value = H(0x00 ‖ key ‖ value)` (node.go `newLeafNode`), `branchHash l r = H(0x01 ‖ l ‖ r)`
  (`newBranchNode`), `emptyHash = H("")` (smt.go `emptyHash = crypto.Hash([]byte{})`); the trie does not hash
  values itself (the state tree passes `crypto.Hash(value)`, the event tree the encoded event);
* `root` : recursion on the bit depth — no key below ↦ `emptyHash`, exactly one key below ↦ that leaf's hash
  (leaf lifting), otherwise `branchHash (root of the 0-half) (root of the 1-half)`.

The batched 8-bit-subtree algorithm of smt.go is NOT transcribed: `trie.Update` is compared with
`mapRoot` byte for byte on every correspondence run.  What IS defined here besides the specification:
the semantics of an update batch (`trie.Update`: first occurrence of a key in a batch wins, empty value =
delete), a LIP-0039 style one-key-at-a-time insert/delete on a tree datatype (proved equal to the
declarative root in Props/C10.lean) and single-key inclusion / exclusion proofs.
Core Lean only.
-/
import LiskVerif.Model.Util

namespace LiskVerif.SMT

abbrev Bits := List Bool
abbrev HashFn := Bytes → Bytes

/-- the 8 bits of a byte, most significant first (`bytes.ToBools`) -/
def byteBits (b : UInt8) : Bits :=
  [b.toNat.testBit 7, b.toNat.testBit 6, b.toNat.testBit 5, b.toNat.testBit 4,
   b.toNat.testBit 3, b.toNat.testBit 2, b.toNat.testBit 1, b.toNat.testBit 0]

def keyBits : Bytes → Bits
  | [] => []
  | b :: r => byteBits b ++ keyBits r

def emptyHash (H : HashFn) : Bytes := H []
def leafHash (H : HashFn) (key value : Bytes) : Bytes := H (0 :: (key ++ value))
def branchHash (H : HashFn) (l r : Bytes) : Bytes := H (1 :: (l ++ r))

/-- a key/value pair below some node; `path` = the bits of the key not yet consumed above the node -/
structure Entry where
  path : Bits
  key : Bytes
  value : Bytes
deriving DecidableEq, Repr

def stepL (e : Entry) : Option Entry :=
  match e.path with
  | false :: r => some { e with path := r }
  | _ => none

def stepR (e : Entry) : Option Entry :=
  match e.path with
  | true :: r => some { e with path := r }
  | _ => none

/-- the entries below the 0-child / the 1-child -/
def goL (es : List Entry) : List Entry := es.filterMap stepL
def goR (es : List Entry) : List Entry := es.filterMap stepR

/-- LIP-0039 root of the entries below a node with `d` key bits left. -/
def root (H : HashFn) : Nat → List Entry → Bytes
  | _, [] => emptyHash H
  | _, [e] => leafHash H e.key e.value
  | 0, _ :: _ :: _ => emptyHash H
  | d + 1, e₁ :: e₂ :: es =>
    branchHash H (root H d (goL (e₁ :: e₂ :: es))) (root H d (goR (e₁ :: e₂ :: es)))

/-! ### maps and update batches -/

abbrev KV := Bytes × Bytes

def mget : List KV → Bytes → Option Bytes
  | [], _ => none
  | kv :: r, k => if kv.1 = k then some kv.2 else mget r k

def mdel (m : List KV) (k : Bytes) : List KV := m.filter (fun kv => decide (kv.1 ≠ k))
def mset (m : List KV) (k v : Bytes) : List KV := (k, v) :: mdel m k

def entriesOf (m : List KV) : List Entry := m.map fun kv => ⟨keyBits kv.1, kv.1, kv.2⟩

/-- the root the trie must have when it holds exactly the map `m` (keys of `keyLen` bytes) -/
def mapRoot (H : HashFn) (keyLen : Nat) (m : List KV) : Bytes := root H (8 * keyLen) (entriesOf m)

inductive Op where
  | set (k v : Bytes)
  | del (k : Bytes)
deriving DecidableEq, Repr

def Op.key : Op → Bytes
  | .set k _ => k
  | .del k => k

def applyOp (m : List KV) : Op → List KV
  | .set k v => mset m k v
  | .del k => mdel m k

/-- `trie.Update`: "update keys to be unique" keeps the FIRST occurrence of a key in the batch -/
def dedupFirst : List KV → List KV
  | [] => []
  | kv :: r => kv :: (dedupFirst r).filter (fun x => decide (x.1 ≠ kv.1))

/-- empty value = delete -/
def opOfKV (kv : KV) : Op := if kv.2 = [] then .del kv.1 else .set kv.1 kv.2

def batchOps (b : List KV) : List Op := (dedupFirst b).map opOfKV
def applyBatch (m : List KV) (b : List KV) : List KV := (batchOps b).foldl applyOp m

/-- the map after a history of update batches, starting from the empty trie -/
def finalMap (bs : List (List KV)) : List KV := bs.foldl applyBatch []

/-! ### LIP-0039 style incremental algorithm on a tree -/

inductive Tree where
  | empty
  | leaf (path : Bits) (key value : Bytes)
  | branch (l r : Tree)
deriving DecidableEq, Repr

def Tree.hash (H : HashFn) : Tree → Bytes
  | .empty => emptyHash H
  | .leaf _ k v => leafHash H k v
  | .branch l r => branchHash H (l.hash H) (r.hash H)

/-- the canonical tree of a set of entries (same recursion as `root`) -/
def build : Nat → List Entry → Tree
  | _, [] => .empty
  | _, [e] => .leaf e.path e.key e.value
  | 0, _ :: _ :: _ => .empty
  | d + 1, e₁ :: e₂ :: es => .branch (build d (goL (e₁ :: e₂ :: es))) (build d (goR (e₁ :: e₂ :: es)))

/-- insert / overwrite one key: walk down the path; an existing leaf in the way is pushed down until
the two keys part. -/
def insert (k v : Bytes) : Bits → Tree → Tree
  | p, .empty => .leaf p k v
  | [], _ => .leaf [] k v
  | b :: r, .leaf p' k' v' =>
    if p' = b :: r then .leaf (b :: r) k v else
    match p' with
    | [] => .leaf (b :: r) k v
    | b' :: r' =>
      if b' = b then
        (if b then .branch .empty (insert k v r (.leaf r' k' v'))
         else .branch (insert k v r (.leaf r' k' v')) .empty)
      else if b then .branch (.leaf r' k' v') (.leaf r k v)
      else .branch (.leaf r k v) (.leaf r' k' v')
  | b :: r, .branch lt rt =>
    if b then .branch lt (insert k v r rt) else .branch (insert k v r lt) rt

/-- rebuild a branch after a deletion below it: two empty children vanish, a single leaf is lifted -/
def mkBranch : Tree → Tree → Tree
  | .empty, .empty => .empty
  | .empty, .leaf p k v => .leaf (true :: p) k v
  | .leaf p k v, .empty => .leaf (false :: p) k v
  | l, r => .branch l r

def delete : Bits → Tree → Tree
  | _, .empty => .empty
  | p, .leaf p' k v => if p' = p then .empty else .leaf p' k v
  | [], .branch l r => .branch l r
  | b :: r, .branch lt rt =>
    if b then mkBranch lt (delete r rt) else mkBranch (delete r lt) rt

def applyOpTree (t : Tree) : Op → Tree
  | .set k v => insert k v (keyBits k) t
  | .del k => delete (keyBits k) t

/-! ### single-key inclusion / exclusion proofs (all lists top-down: nearest to the root first) -/

structure Proof1 where
  /-- key of the leaf found on the path of the queried key (the queried key itself for an empty node) -/
  key : Bytes
  /-- its value; empty = the path ends in an empty node -/
  value : Bytes
  /-- per level above the node: is the sibling non-empty? -/
  bitmap : List Bool
  /-- the non-empty sibling hashes -/
  siblings : List Bytes
deriving DecidableEq, Repr

/-- generate the proof for the query path `q` (bits of the queried key `qk` left at this node) -/
def prove1 (H : HashFn) (qk : Bytes) : Nat → List Entry → Bits → Proof1
  | _, [], _ => ⟨qk, [], [], []⟩
  | _, [e], _ => ⟨e.key, e.value, [], []⟩
  | 0, _ :: _ :: _, _ => ⟨qk, [], [], []⟩
  | _ + 1, _ :: _ :: _, [] => ⟨qk, [], [], []⟩
  | d + 1, e₁ :: e₂ :: es, b :: r =>
    let all := e₁ :: e₂ :: es
    let sub := if b then goR all else goL all
    let sib := if b then goL all else goR all
    let p := prove1 H qk d sub r
    { p with bitmap := (!sib.isEmpty) :: p.bitmap,
             siblings := (if sib.isEmpty then [] else [root H d sib]) ++ p.siblings }

/-- hash of the node `dirs.length` levels above a node with hash `cur`, reconstructed top-down -/
def recon (H : HashFn) : (dirs : Bits) → (bitmap : List Bool) → (sibs : List Bytes) → Bytes → Option Bytes
  | [], [], [], cur => some cur
  | dir :: ds, bm :: bs, sibs, cur =>
    if bm then
      match sibs with
      | [] => none
      | s :: ss =>
        (recon H ds bs ss cur).map fun sub => if dir then branchHash H s sub else branchHash H sub s
    else
      (recon H ds bs sibs cur).map fun sub =>
        if dir then branchHash H (emptyHash H) sub else branchHash H sub (emptyHash H)
  | _, _, _, _ => none

def commonPrefixLen : Bits → Bits → Nat
  | a :: as, b :: bs => if a = b then commonPrefixLen as bs + 1 else 0
  | _, _ => 0

def Proof1.nodeHash (H : HashFn) (p : Proof1) : Bytes :=
  if p.value = [] then emptyHash H else leafHash H p.key p.value

/-- single-key verification: key lengths, height bound, the proven node lies on the path of the queried
key, and the reconstructed root is the given one (every sibling hash used). -/
def verify1 (H : HashFn) (keyLen : Nat) (qk : Bytes) (p : Proof1) (rt : Bytes) : Bool :=
  decide (qk.length = keyLen) && decide (p.key.length = keyLen) &&
  decide (p.bitmap.length ≤ 8 * keyLen) &&
  (decide (p.key = qk) || decide (p.bitmap.length ≤ commonPrefixLen (keyBits qk) (keyBits p.key))) &&
  decide (recon H ((keyBits p.key).take p.bitmap.length) p.bitmap p.siblings (p.nodeHash H) = some rt)

/-- what a proof says about the queried key: `some v` = present with value `v`, `none` = absent -/
def claim1 (qk : Bytes) (p : Proof1) : Option Bytes :=
  if p.key = qk ∧ p.value ≠ [] then some p.value else none

end LiskVerif.SMT
