/-
`Executer.deleteBlock(ctx, deletingBlock, saveTemp)` with the ARGUMENT made explicit.

`Model.Node.deleteTip` is `deleteBlock` as every in-tree caller uses it: the argument is the block just read with
`chain.LastBlock()` (Executer.process, tie-break; `deleteTillCommonBlock` of both synchronisers - Gen/DeleteArg.lean
regenerates the three call sites). The function itself does not know that. It uses its argument in three roles and
the chain in a fourth:

* the finalized guard tests `deletingBlock.Header.Height <= finalizedHeight`                    (role `g`);
* the previous header (`GetBlockHeaderByHeight(deletingBlock.Header.Height - 1)`), the revert request to the
  application (`newBlockRevertABI(.., deletingBlock.Header)`, `abi.Revert(secondLastBlock.StateRoot)`) and the state
  diff (`dbPrefixStateDiff | deletingBlock.Header.Height`: read, reverted into the batch, deleted) are derived
  from the argument's height                                                                      (role `r`);
* the delete event carries the argument                                                           (role `e`);
* `c.chain.RemoveBlock(batch, saveTemp)` takes NO block: it removes whatever the tip of the block cache is.

`deleteCore` is the body with the roles separated; `deleteBlockArg` instantiates it as the source does
(`g = r = argument height`, `e = argument`), `deleteBlockGuardArgActTip` is the variant "guard on the argument,
action on the tip" (seeded change C04-16: `g = argument height`, `r = tip height`, `e = tip`).

What the unchanged code does with an argument that is NOT the tip (found by running it, harness/c04/stale.go, op
`delarg`; both sides agree byte for byte on the database delta):
  * height at or below the finalized height: refused by the guard, nothing changed;
  * height above tip + 1 (fabricated block, block of a longer branch): no header at height - 1, refused;
  * height tip + 1 (duplicate request for the block removed last, a block built on the tip): no state diff is
    stored for that height (`deleteBlock` deletes the diff together with the block), refused;
  * height of the tip, another block (sibling of another branch): previous header and state diff are those of the
    tip (derived from the HEIGHT), so if the application answers the tip is removed correctly; only the delete event
    names the wrong block;
  * finalized < height < tip (a block of the chain that is not the tip, a removed block of a shorter branch): the
    application is asked to revert the state root of the argument on top of the root at height - 1; an application
    that checks the request against its own tip refuses (`appOK = false`, nothing changed). An application that
    reverts its newest block whatever it is asked (`appOK = true`): the state diff of the ARGUMENT's height is
    reverted and deleted while the TIP is removed - the consensus store no longer belongs to the chain
    (observation, reported; no in-tree caller passes such an argument). The removed block is above the finalized
    height in every case (Props/C04_Stale.lean, `C04_stale_guard_covers_removed_block`).
-/
import LiskVerif.Model.NodeFail

namespace LiskVerif.Node
open LiskVerif.DiffDB

/-- body of `Executer.deleteBlock`: `g` = the height the finalized guard tests, `r` = the height from which the
previous header, the state diff and the revert request are derived, `e` = the block named in the delete event;
`appOK` = the application answered `InitStateMachine` / `Revert`. The block removed is the tip of the block cache.
(`r - 1`: the source computes in `uint32`; `r = 0` only arises in the variant, where the genesis test refuses.) -/
def deleteCore (cd : Codecs) (cfg : Cfg) (s : St) (g r : Nat) (e : Block) (saveTemp appOK : Bool) : St × Res :=
  match finOf s.db with
  | none => (s, .err)
  | some fin =>
    if g ≤ fin then (s, .err)
    else
      match headerAt cd s (r - 1) with
      | none => (s, .err)
      | some _ =>
        match slookup s.db (kDiff r) with
        | none => (s, .err)
        | some bytes =>
          match cd.decDiff bytes with
          | none => (s, .err)
          | some d =>
            if !appOK then (s, .err)
            else
              -- `Chain.RemoveBlock(batch, saveTemp)`
              match s.cache with
              | [] => (s, .panic)
              | tip :: rest =>
                if tip.hdr.height = cfg.genesisHeight then (s, .err)
                else
                  let db' := applyBatch (revertDiff s.db d) (.del (kDiff r) :: removeBlockOps tip saveTemp)
                  let log' := Ev.delete e.hdr.id e.hdr.height :: s.log
                  match rest with
                  | _ :: _ => ({ db := db', cache := rest, log := log' }, .ok)
                  | [] =>
                    match loadCache cd cfg db' with
                    | none => ({ db := db', cache := [], log := s.log }, .errWritten)
                    | some c => ({ db := db', cache := c, log := log' }, .ok)

/-- `Executer.deleteBlock(ctx, arg, saveTemp)` as written: every role is played by the argument -/
def deleteBlockArg (cd : Codecs) (cfg : Cfg) (s : St) (arg : Block) (saveTemp appOK : Bool) : St × Res :=
  deleteCore cd cfg s arg.hdr.height arg.hdr.height arg saveTemp appOK

/-- the variant "guard on the argument, action on the tip" (seeded change C04-16): the finalized guard still tests
the argument's height, previous header / state diff / revert request / event are taken from `chain.LastBlock()` -/
def deleteBlockGuardArgActTip (cd : Codecs) (cfg : Cfg) (s : St) (arg : Block) (saveTemp appOK : Bool) :
    St × Res :=
  match s.cache with
  | [] => (s, .panic)
  | tip :: _ => deleteCore cd cfg s arg.hdr.height tip.hdr.height tip saveTemp appOK

/-- the repaired shape "first check that the argument IS the tip" (what the obligation of Props/C04_Stale.lean
accepts as the alternative to "all roles derived from one variable") -/
def deleteBlockChecked (cd : Codecs) (cfg : Cfg) (s : St) (arg : Block) (saveTemp appOK : Bool) : St × Res :=
  match s.cache with
  | [] => (s, .panic)
  | tip :: _ => if arg.hdr.id ≠ tip.hdr.id then (s, .err) else deleteBlockArg cd cfg s tip saveTemp appOK

/-- the tie-break sequence of `Executer.process` run with a remembered "last block" `old` (the source reads
`chain.LastBlock()` again inside the branch; this is the sequence for a value that went stale in between):
`deleteBlock(old, false)`, `processValidated(new)`, on failure `processValidated(old)` -/
def tieBreakArg (cd : Codecs) (cfg : Cfg) (s : St) (old : Block) (i : Incoming) (appOK : Bool) : St × PRes :=
  match deleteBlockArg cd cfg s old false appOK with
  | (s1, .ok) =>
    match apply cd cfg s1 i.block i.valid i.exec false with
    | (s2, .ok) => (s2, .tieBreakApplied)
    | (s2, _) =>
      match apply cd cfg s2 old i.oldValid i.oldExec false with
      | (s3, .ok) => (s3, .tieBreakReverted)
      | (s3, _) => (s3, .tieBreakLost)
  | (s1, .panic) => (s1, .panic)
  | (s1, _) => (s1, .err)

/-- operations of a history in which `deleteBlock` is also called with arbitrary arguments -/
inductive OpS where
  | op (o : Op)
  | deleteArg (arg : Block) (saveTemp : Bool) (appOK : Bool)

def stepS (cd : Codecs) (cfg : Cfg) (slot : Slot) (s : St) : OpS → St
  | .op o => step cd cfg slot s o
  | .deleteArg arg st ok => (deleteBlockArg cd cfg s arg st ok).1

def runS (cd : Codecs) (cfg : Cfg) (slot : Slot) (s : St) (ops : List OpS) : St :=
  ops.foldl (stepS cd cfg slot) s

end LiskVerif.Node
