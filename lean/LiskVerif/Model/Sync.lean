/-
Model of pkg/consensus/sync (property C19): peer selection (peer_selection.go), the three RPC
handlers of sync.go, the height helpers of block_sync.go / fast_sync.go, the downloader
(download.go) and the two synchronisers (fast_sync.go, block_sync.go) as plans over a requester
chain and a peer behaviour.

The model describes the FIXED code:
  * `getMostFrequesntBlockIDNodeInfo` updates `max` (fixes/C19-most-frequent-block-id.patch); the
    unfixed loop is kept as `pickLoopOrig` for the counterexample theorem;
  * the downloader stops with an error when a response is empty or does not continue the downloaded
    segment towards the end block (fixes/C19-downloader-no-progress.patch).

Conventions: a chain is the list of its blocks by height, genesis (height 0) first, so the height of
a block is its position.  Block ids are an abstract type `ι` with decidable equality (the driver
uses byte strings).  Heights are `Nat`; where the Go code computes in `uint32` and can wrap, the
model wraps explicitly (`u32`, `u32sub`).  Core Lean only (linked into the driver).
-/
import LiskVerif.Model.Util

namespace LiskVerif.Sync

/-! ## uint32 arithmetic -/

def two32 : Nat := 4294967296

/-- `uint32(n)` -/
def u32 (n : Nat) : Nat := n % two32

/-- `a - b` on `uint32` operands -/
def u32sub (a b : Nat) : Nat := (a % two32 + two32 - b % two32) % two32

/-! ## 1. Peer selection (peer_selection.go) -/

/-- a `NodeInfo`: the tip a peer reported.  `peer` identifies the peer (index in the list). -/
structure Tip (ι : Type) where
  peer : Nat
  height : Nat
  mhp : Nat
  id : ι
deriving Repr, DecidableEq

section Largest
variable {α : Type}

/-- the loop of `getLargestMaxHeightPrevotedNodeInfo` / `getLargestHeightNodeInfo`:
`m` is `maxValue`, `res` is `result`. -/
def largestByLoop (key : α → Nat) : List α → Nat → List α → List α
  | [], _, res => res
  | v :: r, m, res =>
    if key v > m then largestByLoop key r (key v) [v]
    else if key v = m then largestByLoop key r m (res ++ [v])
    else largestByLoop key r m res

/-- `getLargest…NodeInfo`: `maxValue := info[0].key`, then one pass over all elements -/
def largestBy (key : α → Nat) : List α → List α
  | [] => []
  | v :: r => largestByLoop key (v :: r) (key v) []

end Largest

section Select
variable {ι : Type} [DecidableEq ι]

/-- `frequency[id]` of `getMostFrequesntBlockIDNodeInfo` -/
def countId (l : List (Tip ι)) (i : ι) : Nat := (l.filter (fun t => decide (t.id = i))).length

/-- FIXED loop `for id, count := range frequency { if count > max { max = count; blockID = id } }`
for one visiting order of the map keys; `m` is `max`, `cur` is `blockID`. -/
def pickLoop (cnt : ι → Nat) : List ι → Nat → Option ι → Option ι
  | [], _, cur => cur
  | i :: r, m, cur => if cnt i > m then pickLoop cnt r (cnt i) (some i) else pickLoop cnt r m cur

/-- ORIGINAL loop: `max` is never updated, so every key with a positive count overwrites `blockID`
and the key visited last wins. -/
def pickLoopOrig (cnt : ι → Nat) : List ι → Option ι → Option ι
  | [], cur => cur
  | i :: r, cur => if cnt i > 0 then pickLoopOrig cnt r (some i) else pickLoopOrig cnt r cur

/-- `getMostFrequesntBlockIDNodeInfo` (fixed) when Go's map iteration visits the keys in `order` -/
def mostFrequentWith (order : List ι) (l : List (Tip ι)) : List (Tip ι) :=
  match pickLoop (countId l) order 0 none with
  | none => []
  | some i => l.filter (fun t => decide (t.id = i))

/-- the unfixed function -/
def mostFrequentOrigWith (order : List ι) (l : List (Tip ι)) : List (Tip ι) :=
  match pickLoopOrig (countId l) order none with
  | none => []
  | some i => l.filter (fun t => decide (t.id = i))

/-- the group the third filter works on -/
def topGroup (l : List (Tip ι)) : List (Tip ι) := largestBy (·.height) (largestBy (·.mhp) l)

/-- `getBestNodeInfo` for a map visiting order `order` and the value `rnd` of `rand.Intn`
(`none` = the error "peer does not exist to select"). -/
def bestWith (order : List ι) (rnd : Nat) (l : List (Tip ι)) : Option (Tip ι) :=
  let g := mostFrequentWith order (topGroup l)
  g[rnd % g.length]?

def bestOrigWith (order : List ι) (rnd : Nat) (l : List (Tip ι)) : Option (Tip ι) :=
  let g := mostFrequentOrigWith order (topGroup l)
  g[rnd % g.length]?

/-- the SET of answers `getBestNodeInfo` (fixed) can give: the members of the top group whose block
id has a maximal count in that group. -/
def possibleBest (l : List (Tip ι)) : List (Tip ι) :=
  let g := topGroup l
  g.filter (fun t => g.all (fun u => decide (countId g u.id ≤ countId g t.id)))

end Select

/-! ## 2. Chains and the RPC handlers (sync.go) -/

/-- a block as far as synchronisation is concerned: `ok` is the result of `Block.Validate()` -/
structure Blk (ι : Type) where
  id : ι
  prev : ι
  height : Nat
  ok : Bool := true
deriving Repr, DecidableEq

section Handlers
variable {ι : Type} [DecidableEq ι]

/-- `DataAccess.GetBlockHeader(id)` on a chain: the height (position) of the block with that id -/
def heightOf : List (Blk ι) → ι → Option Nat
  | [], _ => none
  | b :: r, i => if b.id = i then some 0 else (heightOf r i).map (· + 1)

/-- maximum of a list of heights (`sort by desc height; headers[0]`) -/
def maxHeight? : List Nat → Option Nat
  | [] => none
  | h :: r => match maxHeight? r with
    | none => some h
    | some m => some (if m < h then h else m)

inductive HcbOut (ι : Type) where
  | ban            -- request rejected, `conn.BanPeer(r.PeerID)`, nothing written
  | none           -- `w.Write(nil)`: no requested id is known
  | id (i : ι)     -- the id written in the response
deriving Repr, DecidableEq

/-- `HandleRPCEndpointGetHighestCommonBlock`.  `req = none`: `r.Data == nil` or the body does not
decode; `okLen id` is `len(id) == 32`. -/
def handleHighestCommon (okLen : ι → Bool) (c : List (Blk ι)) (req : Option (List ι)) : HcbOut ι :=
  match req with
  | none => .ban
  | some [] => .ban
  | some ids =>
    if ids.all okLen then
      match maxHeight? (ids.filterMap (heightOf c)) with
      | none => .none
      | some h => match c[h]? with
        | some b => .id b.id
        | none => .none
    else .ban

inductive BfiOut (ι : Type) where
  | ban
  | err                        -- `w.Error(err)`: the id is not on the chain
  | blocks (l : List (Blk ι))
deriving Repr, DecidableEq

/-- the literal `103` of `HandleRPCEndpointGetBlocksFromID` -/
def maxBlocksPerResponse : Nat := 103

/-- `HandleRPCEndpointGetBlocksFromID`: `from = h+1`, `to = min(h+103, tip height)`,
`GetBlocksBetweenHeight(from, to)` (ascending). -/
def handleBlocksFromID (okLen : ι → Bool) (c : List (Blk ι)) (req : Option ι) : BfiOut ι :=
  match req with
  | none => .ban
  | some i =>
    if okLen i then
      match heightOf c i with
      | none => .err
      | some h =>
        let from_ := h + 1
        let to := min (h + maxBlocksPerResponse) (c.length - 1)
        .blocks ((c.drop from_).take (to + 1 - from_))
    else .ban

/-- `HandleRPCEndpointGetLastBlock` -/
def handleLastBlock (c : List (Blk ι)) : Option (Blk ι) := c.getLast?

end Handlers

/-! ## 3. Height helpers -/

/-- loop of `getHeightWithGap`: `fuel = num-1` iterations, `i` the loop counter -/
def gapLoop (start minimum gap : Nat) : Nat → Nat → List Nat
  | 0, _ => []
  | f + 1, i =>
    if start < u32 (minimum + u32 (i * gap)) then []
    else u32sub start (u32 (i * gap)) :: gapLoop start minimum gap f (i + 1)

/-- `getHeightWithGap(start, minimum uint32, gap, num int)` (gap, num ≥ 0) -/
def getHeightWithGap (start minimum gap num : Nat) : List Nat :=
  if start ≤ minimum then [minimum] else gapLoop start minimum gap (num - 1) 0

/-- loop of `getLastHeights` -/
def lastLoop (start : Nat) : Nat → Nat → List Nat
  | 0, _ => []
  | f + 1, i => if start < u32 i then [] else u32sub start (u32 i) :: lastLoop start f (i + 1)

/-- `getLastHeights(start uint32, num int)` -/
def getLastHeights (start num : Nat) : List Nat := lastLoop start (num - 1) 0

/-- `getCommonBlockStartSearchHeight(height uint32, roundLength int)` for `roundLength ≥ 1`:
`(ceil(height/roundLength) - 1) * roundLength`, `0` for height 0.  (The Go code computes the ceiling
in float64; the harness checks agreement with this integer formula.) -/
def getCommonBlockStartSearchHeight (height roundLength : Nat) : Nat :=
  let currentRound := (height + roundLength - 1) / roundLength
  if currentRound = 0 then 0 else (currentRound - 1) * roundLength

/-- `forkchoice.IsDifferentChain` -/
def isDifferentChain (lastMhp mhp lastHeight height : Nat) : Bool :=
  decide (lastMhp < mhp) || (decide (lastHeight < height) && decide (lastMhp = mhp))

/-! ## 4. Downloader (download.go, fixed) -/

section Download
variable {ι : Type} [DecidableEq ι]

inductive Scan (ι : Type) where
  | cont (lastId : ι) (lastH : Nat)   -- response consumed, continue from there
  | fin                               -- the end block was delivered
  | bad                               -- a block does not continue the segment: error item
deriving Repr

/-- the `for _, block := range blocks` loop of `Downloader.Start`: returns the blocks put on the
channel and how the loop ended -/
def scanSeg (endId : ι) (endH : Nat) : List (Blk ι) → ι → Nat → List (Blk ι) × Scan ι
  | [], lid, lh => ([], .cont lid lh)
  | b :: r, lid, lh =>
    if b.height ≠ lh + 1 ∨ b.prev ≠ lid ∨ (b.height ≥ endH ∧ b.id ≠ endId) then ([], .bad)
    else if b.id = endId then ([b], .fin)
    else
      let res := scanSeg endId endH r b.id b.height
      (b :: res.1, res.2)

/-- `SortBlockByHeightAsc` -/
def sortAsc (l : List (Blk ι)) : List (Blk ι) := isort (fun a b => decide (a.height ≤ b.height)) l

/-- the request loop of `Downloader.Start`; `seg id = none` is a failed request.  Returns the blocks
delivered on the channel and whether the channel was closed without an error item. -/
def dlLoop (seg : ι → Option (List (Blk ι))) (endId : ι) (endH : Nat) :
    Nat → ι → Nat → List (Blk ι) × Bool
  | 0, _, _ => ([], false)
  | f + 1, lid, lh =>
    match seg lid with
    | none => ([], false)
    | some [] => ([], false)
    | some (b :: bs) =>
      match scanSeg endId endH (sortAsc (b :: bs)) lid lh with
      | (em, .fin) => (em, true)
      | (em, .bad) => (em, false)
      | (em, .cont lid' lh') =>
        let res := dlLoop seg endId endH f lid' lh'
        (em ++ res.1, res.2)

/-- `NewDownloader(…, startID, startHeight, endID, endHeight)` + `Start`.  Every round that does
not end the download delivers at least one block of height `< endH`, so `endH - startH + 1` rounds
are enough. -/
def download (seg : ι → Option (List (Blk ι))) (startId : ι) (startH : Nat) (endId : ι) (endH : Nat) :
    List (Blk ι) × Bool :=
  dlLoop seg endId endH (endH - startH + 1) startId startH

end Download

/-! ## 5. The synchronisers as plans -/

section Plans
variable {ι : Type} [DecidableEq ι]

/-- what the requester sees of a peer. `none` results are failed requests (timeout, error reply). -/
structure Peer (ι : Type) where
  last : Option (Blk ι × Nat)                 -- getLastBlock: header and its maxHeightPrevoted
  common : List ι → Option (Option ι)        -- getHighestCommonBlock: `some none` = empty id
  segment : ι → Option (List (Blk ι))        -- getBlocksFromId

/-- an honest peer: the three handlers over its chain `p` (tip prevoted height `mhp`) -/
def honest (p : List (Blk ι)) (mhp : Nat) : Peer ι where
  last := (handleLastBlock p).map (fun b => (b, mhp))
  common := fun ids =>
    match handleHighestCommon (fun _ => true) p (some ids) with
    | .ban => none
    | .none => some none
    | .id i => some (some i)
  segment := fun i =>
    match handleBlocksFromID (fun _ => true) p (some i) with
    | .blocks l => some l
    | _ => none

inductive SyncErr where
  | requestFailed | noCommon | unknownCommon | belowFinalized | tooFar | download | invalidBlock
  | deleteFailed | applyFailed | restoreFailed | noPeer | notDifferent | invalidLast | noPriority
deriving Repr, DecidableEq

structure Out (ι : Type) where
  chain : List (Blk ι)         -- requester chain afterwards
  temp : List (Blk ι)          -- temp block table afterwards
  banned : Bool                -- `conn.BanPeer` was called
  err : Option SyncErr
deriving Repr

/-- apply blocks one after the other with the processor (`processValidated`); stops at the first
failure.  Returns the chain and whether all were applied. -/
def applyAll (applies : List (Blk ι) → Blk ι → Bool) : List (Blk ι) → List (Blk ι) → List (Blk ι) × Bool
  | c, [] => (c, true)
  | c, b :: r => if applies c b then applyAll applies (c ++ [b]) r else (c, false)

/-- `restoreBlocks`-style re-application which also tracks the temp blocks not yet re-applied -/
def reapply (applies : List (Blk ι) → Blk ι → Bool) : List (Blk ι) → List (Blk ι) → List (Blk ι) × List (Blk ι)
  | c, [] => (c, [])
  | c, b :: r => if applies c b then reapply applies (c ++ [b]) r else (c, b :: r)

/-- ids of the requester's blocks at the given heights (`GetBlockHeadersByHeights`, missing heights
are skipped) -/
def idsAt (q : List (Blk ι)) (hs : List Nat) : List ι := hs.filterMap (fun h => (q[h]?).map (·.id))

/-- `fastSyncer.Sync`: `n = len(ctx.CurrentValidators)`, `fin = ctx.FinalizedBlockHeader.Height`,
`target = ctx.Block`, the peer is `ctx.PeerID`.  `finAfter c` is the finalized height the BFT rules
give for chain `c`: applying downloaded blocks can finalize more blocks, and `deleteBlock` refuses
to delete a block at or below the (never decreasing) stored finalized height. -/
def fastSync (applies : List (Blk ι) → Blk ι → Bool) (finAfter : List (Blk ι) → Nat) (n fin : Nat)
    (q : List (Blk ι)) (target : Blk ι) (peer : Peer ι) : Out ι :=
  let tipH := q.length - 1
  match peer.common (idsAt q (getLastHeights tipH (2 * n))) with
  | none => ⟨q, [], false, some .requestFailed⟩
  | some none => ⟨q, [], true, some .noCommon⟩
  | some (some cid) =>
    match heightOf q cid with
    | none => ⟨q, [], false, some .unknownCommon⟩
    | some ch =>
      if ch < fin then ⟨q, [], true, some .belowFinalized⟩
      else if tipH - ch > 2 * n ∨ u32sub target.height ch > 2 * n then ⟨q, [], false, some .tooFar⟩
      else
        let dl := download peer.segment cid ch target.id target.height
        if dl.1.any (fun b => !b.ok) then ⟨q, [], true, some .invalidBlock⟩
        else if !dl.2 then ⟨q, [], false, some .download⟩
        else
          let base := q.take (ch + 1)
          let temp := q.drop (ch + 1)
          match applyAll applies base dl.1 with
          | (c', true) => ⟨c', [], false, none⟩
          | (c', false) =>
            -- restoreBlocks: delete down to the common block (without touching the temp table),
            -- re-apply the temp blocks
            let finNow := max fin (finAfter c')
            if ch < finNow ∧ ch + 1 < c'.length then
              -- the downloaded blocks finalized a block above the common block: it cannot be deleted
              ⟨c'.take (finNow + 1), temp, false, some .restoreFailed⟩
            else
              match reapply applies (c'.take (ch + 1)) temp with
              | (c'', []) => ⟨c'', [], true, some .applyFailed⟩
              | (c'', rest) => ⟨c'', rest, false, some .restoreFailed⟩

/-- `fastSyncer.getCommonBlock`: ONE `getHighestCommonBlock` request over the ids of the last `2n-1`
heights of the own chain (`getLastHeights tip (2n)`: tip, tip-1, …), whatever the finalized height is;
the answer must be a block of the own chain.  (`fastSync` starts with exactly this request; the
finalized height is only compared with the answer afterwards.) -/
def fastCommon (n : Nat) (q : List (Blk ι)) (peer : Peer ι) : Except SyncErr Nat :=
  match peer.common (idsAt q (getLastHeights (q.length - 1) (2 * n))) with
  | none => .error .requestFailed
  | some none => .error .noCommon
  | some (some cid) =>
    match heightOf q cid with
    | none => .error .unknownCommon
    | some ch => .ok ch

/-- the (at most three) rounds of `blockSyncer.getCommonBlockHeader` -/
def commonSearch (n fin : Nat) (q : List (Blk ι)) (peer : Peer ι) : Nat → Nat → Except SyncErr Nat
  | 0, _ => .error .noCommon
  | trial + 1, start =>
    let heights := getHeightWithGap start fin n 10
    match peer.common (idsAt q heights) with
    | none => .error .requestFailed
    | some none => commonSearch n fin q peer trial (u32sub (heights.getLastD 0) n)
    | some (some cid) =>
      match heightOf q cid with
      | none => .error .unknownCommon
      | some ch => .ok ch

/-- processing of the download stream by `blockSyncer.downloadAndProcess`: blocks are validated and
applied as they arrive -/
def streamApply (applies : List (Blk ι) → Blk ι → Bool) : List (Blk ι) → List (Blk ι) → List (Blk ι) × Option SyncErr
  | c, [] => (c, none)
  | c, b :: r =>
    if !b.ok then (c, some .invalidBlock)
    else if applies c b then streamApply applies (c ++ [b]) r
    else (c, some .applyFailed)

/-- `blockSyncer.Sync` once the best peer has been selected: `best` is its reported tip, `myMhp` the
`maxHeightPrevoted` of the requester's tip header (version 2 blocks).  `banned` covers both
`BanPeer(nodeInfo.PeerID)` and `BanPeer(ctx.PeerID)`. -/
def blockSync (applies : List (Blk ι) → Blk ι → Bool) (n fin myMhp : Nat) (q : List (Blk ι))
    (best : Tip ι) (peer : Peer ι) : Out ι :=
  let tipH := q.length - 1
  if !isDifferentChain myMhp best.mhp tipH best.height then ⟨q, [], false, some .notDifferent⟩
  else
    match peer.last with
    | none => ⟨q, [], false, some .requestFailed⟩
    | some (last, lastMhp) =>
      if !last.ok then ⟨q, [], true, some .invalidLast⟩
      else if !isDifferentChain myMhp lastMhp tipH last.height then ⟨q, [], true, some .noPriority⟩
      else
        match commonSearch n fin q peer 3 (getCommonBlockStartSearchHeight tipH n) with
        | .error e => ⟨q, [], false, some e⟩
        | .ok ch =>
          if ch < fin then
            -- deleteBlock refuses heights <= finalized: the chain is cut down to the finalized block
            ⟨q.take (fin + 1), (q.drop (fin + 1)), false, some .deleteFailed⟩
          else
            let base := q.take (ch + 1)
            let temp := q.drop (ch + 1)
            let cid := match q[ch]? with | some b => b.id | none => last.id
            let dl := download peer.segment cid ch last.id last.height
            match streamApply applies base dl.1 with
            | (c', some .invalidBlock) => ⟨c', temp, true, some .invalidBlock⟩
            | (c', some e) => ⟨c', temp, false, some e⟩
            | (c', none) =>
              if dl.2 then ⟨c', [], false, none⟩ else ⟨c', temp, false, some .download⟩

/-- the `NodeInfo` list `blockSyncer.Sync` builds: connected peer number `i` answered the
`getLastBlock` request of the peer selection with a header (height, maxHeightPrevoted, id) or the
request failed (`none`: error response, time-out, undecodable block) — failed peers contribute
NOTHING to the list -/
def answeringFrom : Nat → List (Option (Nat × Nat × ι) × Peer ι) → List (Tip ι)
  | _, [] => []
  | i, (none, _) :: r => answeringFrom (i + 1) r
  | i, (some (h, m, id), _) :: r => ⟨i, h, m, id⟩ :: answeringFrom (i + 1) r

/-- `blockSyncer.Sync` from the start: all connected peers are asked for their last block, the best
answer is selected (`getBestNodeInfo`, map visiting order `order`, random value `rnd`; no answer at
all: "peer does not exist to select"), then the round of `blockSync` runs with the selected peer. -/
def blockSyncPeers (applies : List (Blk ι) → Blk ι → Bool) (n fin myMhp : Nat) (q : List (Blk ι))
    (peers : List (Option (Nat × Nat × ι) × Peer ι)) (order : List ι) (rnd : Nat) : Out ι :=
  match bestWith order rnd (answeringFrom 0 peers) with
  | none => ⟨q, [], false, some .noPeer⟩
  | some best =>
    match peers[best.peer]? with
    | some p => blockSync applies n fin myMhp q best p.2
    | none => ⟨q, [], false, some .noPeer⟩

/-- `Syncer.shouldFastSync` / `shouldSync`: which synchroniser `Syncer.Sync` runs.
`genIn`: the generator of the received block is a current validator; `stale`: more than three
rounds of slots have passed since the finalized block. -/
inductive Mode where | fast | block | none
deriving Repr, DecidableEq

/-- `Syncer.shouldSync`: the slot of the finalized block is more than three rounds before the current
slot (`currentSlot-finalizedSlot > threeRounds`, Go `int`) -/
def shouldSync (n : Nat) (currentSlot finalizedSlot : Int) : Bool :=
  decide (currentSlot - finalizedSlot > 3 * (n : Int))

def chooseMode (n tipH blockH : Nat) (genIn stale : Bool) : Mode :=
  let diff := if blockH ≥ tipH then blockH - tipH else tipH - blockH
  if diff ≤ 2 * n ∧ genIn then .fast else if stale then .block else .none

/-- `Syncer.Sync`: the received block is validated first (`ctx.Block.Validate()`), then one of the
synchronisers runs (each of their `Sync` methods ends the retry loop after one round). -/
def syncTop (applies : List (Blk ι) → Blk ι → Bool) (finAfter : List (Blk ι) → Nat) (n fin myMhp : Nat)
    (q : List (Blk ι)) (target : Blk ι) (targetMhp : Nat) (genIn stale : Bool) (peer : Peer ι) : Out ι :=
  if !target.ok then ⟨q, [], false, some .invalidBlock⟩
  else
    match chooseMode n (q.length - 1) target.height genIn stale with
    | .fast => fastSync applies finAfter n fin q target peer
    | .block => blockSync applies n fin myMhp q ⟨0, target.height, targetMhp, target.id⟩ peer
    | .none => ⟨q, [], false, none⟩

end Plans

end LiskVerif.Sync
