/-
Steps of the node model (`LiskVerif.Model.Node`) under an application that REFUSES the removal of a block.

`Model.Node` abstracts the application (ABI): for `processValidated` the input `valid` says whether every call of
the execution succeeded; `deleteBlock` was modelled with an application that always answers. The failure-injection
histories of the harness (harness/c04/inject.go, token `ab=0`) make `InitStateMachine` / `Revert` of
`Executer.deleteBlock` fail: both calls happen BEFORE `Chain.RemoveBlock` writes (pkg/consensus/execute.go:
`newBlockRevertABI`, `abi.Revert`, then `c.chain.RemoveBlock`), so the step returns the error and nothing changed.

* `deleteTipA … appOK`  = `Executer.deleteBlock`; `appOK = false`: the application refused;
* `processA … appOK`    = `Executer.process`; the flag only matters on the tie-break path, whose first action is
                          `deleteBlock(lastBlock)` - its error is returned as it is;
* `deleteTillA … appOK` = `deleteTillCommonBlock`; the flag is consumed by the first `deleteBlock` of the loop.
-/
import LiskVerif.Model.Node

namespace LiskVerif.Node
open LiskVerif.DiffDB

/-- `Executer.deleteBlock` on the tip with an application that answers (`appOK`) or refuses -/
def deleteTipA (cd : Codecs) (cfg : Cfg) (s : St) (saveTemp : Bool) (appOK : Bool) : St × Res :=
  if appOK then deleteTip cd cfg s saveTemp
  else
    match s.cache with
    | [] => (s, .panic)
    | _ :: _ => (s, .err)

/-- `Executer.process`; `appOK = false`: the application refuses the removal of the tip that a tie-break starts with -/
def processA (cd : Codecs) (cfg : Cfg) (slot : Slot) (s : St) (i : Incoming) (appOK : Bool) : St × PRes :=
  if appOK then process cd cfg slot s i
  else
    match s.cache with
    | [] => (s, .panic)
    | tip :: _ =>
      match forkChoice slot tip.hdr i.block.hdr i.flags with
      | .tieBreak => (s, .err)   -- static validation error or the refused `deleteBlock`: returned as it is
      | _ => process cd cfg slot s i

/-- `deleteTillCommonBlock`; `appOK = false`: the first `deleteBlock` of the loop is refused by the application -/
def deleteTillA (cd : Codecs) (cfg : Cfg) (fuel : Nat) (s : St) (target : Nat) (appOK : Bool) : St × Res :=
  if appOK then deleteTill cd cfg fuel s target
  else
    match fuel, s.cache with
    | 0, _ => (s, .err)
    | _ + 1, [] => (s, .panic)
    | _ + 1, tip :: _ => if tip.hdr.height = target then (s, .ok) else (s, .err)

/-- operations of a history with refusals -/
inductive OpA where
  | op (o : Op)
  | deleteTip (saveTemp : Bool) (appOK : Bool)
  | process (i : Incoming) (appOK : Bool)

def stepA (cd : Codecs) (cfg : Cfg) (slot : Slot) (s : St) : OpA → St
  | .op o => step cd cfg slot s o
  | .deleteTip st ok => (deleteTipA cd cfg s st ok).1
  | .process i ok => (processA cd cfg slot s i ok).1

def runA (cd : Codecs) (cfg : Cfg) (slot : Slot) (s : St) (ops : List OpA) : St :=
  ops.foldl (stepA cd cfg slot) s

end LiskVerif.Node
