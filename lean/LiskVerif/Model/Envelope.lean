/-
What `MessageProtocol.onRequest` / `onResponse` (pkg/p2p/message_protocol.go) make of the BYTES a stream
delivered, on top of the rate-limiter / penalty model (`Model/RateLimit.lean`, where a received
envelope is already classified as `MsgKind.malformed` or `MsgKind.proc name`):

  buf, err := io.ReadAll(s)          -- a read error (stream reset by the remote): `s.Reset()`, return
  newMsg.Decode(buf)                 -- non-strict decoding with the generated codec of
                                     --   p2p.Request (id 1, procedure 2, data 3) /
                                     --   p2p.responseMsg (id 1, procedure 2, data 3, error 4)
  error        -> ban the sender     -- `MsgKind.malformed`
  otherwise    -> `newMsg.Procedure` -- `MsgKind.proc name`: unregistered -> ban, registered -> rate limit

The classification is DERIVED with the codec model (`Model/Codec.lean`) over the schema table regenerated
from the Go sources (`Gen/Schemas.lean`), not stated per shape: zero bytes decode to an envelope whose
fields are all absent, i.e. the empty procedure name, which no handler is registered for.
Core Lean only.
-/
import LiskVerif.Model.RateLimit
import LiskVerif.Model.Codec

namespace LiskVerif.Envelope
open LiskVerif.Codec LiskVerif.ConnGater LiskVerif.RateLimit

/-- the generated struct decoded by `onRequest` / `onResponse` -/
def schemaName (isRequest : Bool) : String := if isRequest then "p2p.Request" else "p2p.responseMsg"

/-- the bytes of a decoded string as a `String`, byte for byte (exact on ASCII, injective on all
byte strings: two procedure names are equal iff their bytes are) -/
def nameOf (b : Bytes) : String := String.ofList (b.map fun x => Char.ofNat x.toNat)

/-- classification of the bytes read from a request / response stream -/
def kindOf (t : Table) (nfc : NFC) (isRequest : Bool) (raw : Bytes) : MsgKind :=
  match t.find (schemaName isRequest) with
  | none => .malformed
  | some s =>
    match decode t nfc s raw with
    | .error _ => .malformed
    | .ok (_ :: .bytes p :: _) => .proc (nameOf p)
    | .ok _ => .malformed

/-- what a stream handler gets from its stream -/
inductive StreamIn
  | data (raw : Bytes)   -- `io.ReadAll` returned these bytes (the remote closed its side)
  | readError            -- `io.ReadAll` failed (the remote reset the stream): nothing is decoded
deriving Repr

/-- `onRequest` / `onResponse` on a stream from `(pid, remote)` -/
def receiveStream (t : Table) (nfc : NFC) (n : Node) (now : Nat) (isRequest : Bool) (remote : Addr)
    (pid : Nat) : StreamIn → Node
  | .readError => n
  | .data raw => receive n now isRequest remote pid (kindOf t nfc isRequest raw)

end LiskVerif.Envelope
