/-
Objects of pkg/blockchain that carry a CACHED identity next to their fields (C08):

* `Transaction` — `ID`, `size` (set by `Init`, copied by `Copy`; `ID` is also a JSON member `id`)
* `BlockHeader` — `ID` (set by `Init`, `Sign`, `NewBlockHeader`; JSON member `id`)
* `Block`       — `Init` = `Header.Init` and `Init` of every transaction

and the steps that produce or change such objects WITHOUT going through the byte decoders: building
the struct / `json.Unmarshal` (fields and whatever `id` the client supplied, size 0), assigning a
field, `Copy`, `Init`, `Sign`. The model follows the code: `Init` recomputes unconditionally
(ID = hash of the encoding, size = length of the encoding), every other step leaves the cache alone.
That the cache is right after `Init` — whatever happened before — is the theorem (Props/C08_Life.lean);
`initCached` is the variant "return early when an ID is already there", which the theorems refute.
-/
import LiskVerif.Model.Validators

namespace LiskVerif.CodecLife
open LiskVerif LiskVerif.Codec LiskVerif.Validators

/-- an object: the name of its generated struct, the field values, the cached ID and size -/
structure Obj where
  schema : String
  vals : List Value
  id : Bytes
  size : Nat

inductive Step where
  /-- `Init()` -/
  | init
  /-- assignment to the field at position `i` of the value list -/
  | set (i : Nat) (v : Value)
  /-- `Copy()`: a deep copy of the fields, ID and size copied as they are -/
  | copy
  /-- `BlockHeader.Sign`: the signature field (position `i`) is assigned, then the ID is recomputed;
  the size is not touched (headers have none) -/
  | sign (i : Nat) (sig : Bytes)

def encoding (t : Table) (nfc : NFC) (o : Obj) : Bytes := encodeNamed t nfc o.schema o.vals

/-- `json.Unmarshal` into a fresh struct (or a struct literal): the fields, the `id` member as the
client supplied it (empty if absent), `size` is unexported and stays 0 -/
def load (schema : String) (vals : List Value) (id : Bytes) : Obj :=
  { schema := schema, vals := vals, id := id, size := 0 }

/-- `Init`: ID and size recomputed from the encoding, unconditionally -/
def init (t : Table) (nfc : NFC) (H : Bytes → Bytes) (o : Obj) : Obj :=
  { o with id := H (encoding t nfc o), size := (encoding t nfc o).length }

/-- the REFUTED variant: `Init` returns early when an ID is already set -/
def initCached (t : Table) (nfc : NFC) (H : Bytes → Bytes) (o : Obj) : Obj :=
  if o.id.isEmpty then init t nfc H o else o

def step (t : Table) (nfc : NFC) (H : Bytes → Bytes) (o : Obj) : Step → Obj
  | .init => init t nfc H o
  | .set i v => { o with vals := o.vals.set i v }
  | .copy => o
  | .sign i sig =>
    let o' := { o with vals := o.vals.set i (.bytes sig) }
    { o' with id := H (encoding t nfc o') }

def run (t : Table) (nfc : NFC) (H : Bytes → Bytes) : Obj → List Step → Obj
  | o, [] => o
  | o, s :: rest => run t nfc H (step t nfc H o s) rest

/-- the cache agrees with the fields: ID = hash of the encoding -/
def IdOk (t : Table) (nfc : NFC) (H : Bytes → Bytes) (o : Obj) : Prop := o.id = H (encoding t nfc o)

/-- … and the size is the length of the encoding (transactions) -/
def SizeOk (t : Table) (nfc : NFC) (o : Obj) : Prop := o.size = (encoding t nfc o).length

/-- `Block.Init`: the header and every transaction -/
def blockInit (t : Table) (nfc : NFC) (H : Bytes → Bytes) (hdr : Obj) (txs : List Obj) : Obj × List Obj :=
  (init t nfc H hdr, txs.map (init t nfc H))

end LiskVerif.CodecLife
