/-
Shared core-only utilities for all models: byte strings, hex, lexicographic order.
No Mathlib import here (the driver executable links against this file).
-/
namespace LiskVerif

abbrev Bytes := List UInt8

namespace Hex

def digit (n : Nat) : Char :=
  if n < 10 then Char.ofNat (48 + n) else Char.ofNat (87 + n)

def ofByte (b : UInt8) : String :=
  String.singleton (digit (b.toNat / 16)) ++ String.singleton (digit (b.toNat % 16))

/-- hex of a byte string; the empty string is written `-` so that it survives space splitting. -/
def encode (b : Bytes) : String :=
  if b.isEmpty then "-" else String.join (b.map ofByte)

def val? (c : Char) : Option Nat :=
  if '0' ≤ c ∧ c ≤ '9' then some (c.toNat - 48)
  else if 'a' ≤ c ∧ c ≤ 'f' then some (c.toNat - 87)
  else if 'A' ≤ c ∧ c ≤ 'F' then some (c.toNat - 55)
  else none

def decodeChars : List Char → Option Bytes
  | [] => some []
  | [_] => none
  | a :: b :: rest =>
    match val? a, val? b, decodeChars rest with
    | some x, some y, some r => some (UInt8.ofNat (x * 16 + y) :: r)
    | _, _, _ => none

def decode? (s : String) : Option Bytes :=
  if s == "-" then some [] else decodeChars s.toList

end Hex

/-- Lexicographic comparison of byte strings, as Go's `bytes.Compare` (-1/0/1 ↦ lt/eq/gt). -/
def bcmp : Bytes → Bytes → Ordering
  | [], [] => .eq
  | [], _ :: _ => .lt
  | _ :: _, [] => .gt
  | a :: as, b :: bs =>
    if a < b then .lt else if b < a then .gt else bcmp as bs

def ble (a b : Bytes) : Bool := bcmp a b != .gt
def blt (a b : Bytes) : Bool := bcmp a b == .lt

/-- `bytes.HasPrefix k p` -/
def hasPrefix : Bytes → Bytes → Bool
  | _, [] => true
  | [], _ :: _ => false
  | a :: as, b :: bs => a == b && hasPrefix as bs

/-- insertion sort (structural recursion, so that `decide` evaluates it) -/
def insertBy {α : Type} (le : α → α → Bool) (a : α) : List α → List α
  | [] => [a]
  | b :: r => if le a b then a :: b :: r else b :: insertBy le a r

def isort {α : Type} (le : α → α → Bool) : List α → List α
  | [] => []
  | a :: r => insertBy le a (isort le r)

def splitWords (s : String) : List String :=
  (s.splitOn " ").filter (· ≠ "")

end LiskVerif
