/-
The inputs of the sync state machines as an explicit function of the node state (property C19, miss C19-17).

`Executer.createSyncContext` (pkg/consensus/execute.go) builds the `sync.SyncContext` the two synchronisers run
on: `FinalizedBlockHeader`, `CurrentValidators`, the received block and its sender.  Model/Sync.lean takes the
finalized height `fin` and the number of validators `n` as free parameters of `fastSync` / `blockSync`; here they
are COMPUTED from the node state, and the node state holds both values a finalized height could be read from:

* `marker` — the stored finalized height (`DataAccess.GetFinalizedHeight`, database key 27): `saveBlock` writes
  `max(stored, maxHeightPrecommitted)`, `removeBlock` never lowers it, `Executer.deleteBlock` refuses to delete a
  block at or below it;
* `Env.mhpc chain` — `maxHeightPrecommitted` of the BFT store (`liskBFT.API().GetBFTHeights(consensus store)`).
  The BFT votes are part of the per-block state diff: `deleteBlock` reverts the diff, so this value is a function of
  the CURRENT chain (C02 determinism, C05 `delete ∘ apply = id`) and goes down when blocks are deleted.

They agree as long as blocks are only applied (and after a restart); after blocks that raised finality were
deleted and not applied again (tie break, interrupted block synchronisation, restore of the fast synchroniser) the
BFT store lags behind the marker.  `context src` builds the context from one of the two (`FinSrc`); the code reads
the marker (`FinSrc.marker`, tied to the source by tools/syncpathgen → Gen/SyncCtxSrc.lean,
Props/C19_ContextGen.lean).

The synchronisers are the plans of Model/Sync.lean with the finalized height in its TWO roles kept apart
(`fastSyncG`, `blockSyncG`): `ctxFin` is what the context says (`commonBlockHeader.Height <
ctx.FinalizedBlockHeader.Height` → ban; lower bound of the block synchroniser's common block search), `marker` is
what `Executer.deleteBlock` compares with (the reverter callback reads `GetFinalizedHeight` itself).  With
`ctxFin = marker` they are the plans of Model/Sync.lean (Props/C19_Context.lean).

Core Lean only (linked into the driver: Driver/Sync.lean runs every `sync` op through `syncNode`).
-/
import LiskVerif.Model.Sync

namespace LiskVerif.SyncCtx
open LiskVerif.Sync

/-- where `createSyncContext` reads the height of `FinalizedBlockHeader` from -/
inductive FinSrc where
  | marker     -- `c.chain.DataAccess().GetFinalizedHeight()`
  | bftStore   -- `maxHeightPrecommitted` of `c.liskBFT.API().GetBFTHeights(diffStore)`
deriving Repr, DecidableEq

/-- what executing blocks yields, as functions of the chain they are applied to -/
structure Env (ι : Type) where
  applies : List (Blk ι) → Blk ι → Bool   -- `processValidated` succeeds
  mhpc : List (Blk ι) → Nat               -- `maxHeightPrecommitted` of the BFT store of a node whose chain this is
  nvals : List (Blk ι) → Nat              -- number of validators of the BFT parameters for height tip+1

/-- the persistent node state as far as the sync inputs are concerned -/
structure NodeSt (ι : Type) where
  chain : List (Blk ι)        -- committed blocks, genesis first
  marker : Nat                -- stored finalized height
  temp : List (Blk ι) := []   -- temp block table (ascending by height)
deriving Repr

section
variable {ι : Type} [DecidableEq ι]

def NodeSt.tipH (s : NodeSt ι) : Nat := s.chain.length - 1

/-- `maxHeightPrecommitted` of the node's BFT store -/
def storeMhpc (e : Env ι) (s : NodeSt ι) : Nat := e.mhpc s.chain

/-- `Executer.processValidated` + `saveBlock`: the marker becomes `max(marker, maxHeightPrecommitted)` -/
def applyBlock (e : Env ι) (s : NodeSt ι) (b : Blk ι) (removeTemp : Bool) : NodeSt ι :=
  if e.applies s.chain b then
    { chain := s.chain ++ [b], marker := max s.marker (e.mhpc (s.chain ++ [b])),
      temp := if removeTemp then s.temp.filter (fun t => t.height != b.height) else s.temp }
  else s

/-- `Executer.deleteBlock` + `removeBlock`: refused at or below the marker; the marker stays -/
def deleteTip (s : NodeSt ι) (saveTemp : Bool) : NodeSt ι :=
  if s.tipH ≤ s.marker then s
  else
    match s.chain.getLast? with
    | none => s
    | some t =>
      { chain := s.chain.dropLast, marker := s.marker,
        temp := if saveTemp then t :: s.temp.filter (fun x => x.height != t.height) else s.temp }

/-- a restart keeps the database -/
def restart (s : NodeSt ι) : NodeSt ι := s

/-- `DataAccess.ClearTempBlocks` -/
def clearTemp (s : NodeSt ι) : NodeSt ι := { s with temp := [] }

/-- the operations every history of the node consists of (`Executer.process`, both synchronisers and the restore
of the fast synchroniser change the node only through these: Props/C04_More `C04_process_is_run`,
Gen/SingleWriter) -/
inductive Op (ι : Type) where
  | apply (b : Blk ι) (removeTemp : Bool)
  | delete (saveTemp : Bool)
  | restart
  | clearTemp

def step (e : Env ι) (s : NodeSt ι) : Op ι → NodeSt ι
  | .apply b rt => applyBlock e s b rt
  | .delete st => deleteTip s st
  | .restart => restart s
  | .clearTemp => clearTemp s

def run (e : Env ι) (s : NodeSt ι) (ops : List (Op ι)) : NodeSt ι := ops.foldl (step e) s

/-- the chains the node held right after each successful `processValidated` of a history -/
def appliedChains (e : Env ι) : NodeSt ι → List (Op ι) → List (List (Blk ι))
  | _, [] => []
  | s, .apply b rt :: r =>
    if e.applies s.chain b then (s.chain ++ [b]) :: appliedChains e (applyBlock e s b rt) r
    else appliedChains e (applyBlock e s b rt) r
  | s, op :: r => appliedChains e (step e s op) r

/-! ### the sync context -/

/-- `sync.SyncContext` as far as the synchronisers read it -/
structure Ctx (ι : Type) where
  finH : Nat          -- `FinalizedBlockHeader.Height`
  fin : Blk ι         -- `FinalizedBlockHeader`
  nvals : Nat         -- `len(CurrentValidators)`
deriving Repr

def finHeight (src : FinSrc) (e : Env ι) (s : NodeSt ι) : Nat :=
  match src with
  | .marker => s.marker
  | .bftStore => storeMhpc e s

/-- `Executer.createSyncContext`: `GetBlockHeaderByHeight(<finalized height>)` (`none`: the error is returned),
validators of the BFT parameters at `tip + 1` -/
def context (src : FinSrc) (e : Env ι) (s : NodeSt ι) : Option (Ctx ι) :=
  (s.chain[finHeight src e s]?).map fun b => { finH := finHeight src e s, fin := b, nvals := e.nvals s.chain }

/-! ### the synchronisers with the two roles of the finalized height kept apart -/

/-- `fastSyncer.Sync` (`Sync.fastSync`): `ctxFin = ctx.FinalizedBlockHeader.Height` decides about the ban,
`marker` is what the reverter (`Executer.deleteBlock`) refuses to go below.  A refused deletion in
`deleteTillCommonBlock` returns the error as it is: the blocks deleted so far are in the temp table (cleared
right before), nothing is restored and nobody is banned. -/
def fastSyncG (applies : List (Blk ι) → Blk ι → Bool) (finAfter : List (Blk ι) → Nat) (n ctxFin marker : Nat)
    (q : List (Blk ι)) (target : Blk ι) (peer : Peer ι) : Out ι :=
  let tipH := q.length - 1
  match peer.common (idsAt q (getLastHeights tipH (2 * n))) with
  | none => ⟨q, [], false, some .requestFailed⟩
  | some none => ⟨q, [], true, some .noCommon⟩
  | some (some cid) =>
    match heightOf q cid with
    | none => ⟨q, [], false, some .unknownCommon⟩
    | some ch =>
      if ch < ctxFin then ⟨q, [], true, some .belowFinalized⟩
      else if tipH - ch > 2 * n ∨ u32sub target.height ch > 2 * n then ⟨q, [], false, some .tooFar⟩
      else
        let dl := download peer.segment cid ch target.id target.height
        if dl.1.any (fun b => !b.ok) then ⟨q, [], true, some .invalidBlock⟩
        else if !dl.2 then ⟨q, [], false, some .download⟩
        else if ch < marker then
          -- deleteTillCommonBlock: `deleteBlock` refuses the block at the marker
          ⟨q.take (marker + 1), q.drop (marker + 1), false, some .deleteFailed⟩
        else
          let base := q.take (ch + 1)
          let temp := q.drop (ch + 1)
          match applyAll applies base dl.1 with
          | (c', true) => ⟨c', [], false, none⟩
          | (c', false) =>
            let finNow := max marker (finAfter c')
            if ch < finNow ∧ ch + 1 < c'.length then
              ⟨c'.take (finNow + 1), temp, false, some .restoreFailed⟩
            else
              match reapply applies (c'.take (ch + 1)) temp with
              | (c'', []) => ⟨c'', [], true, some .applyFailed⟩
              | (c'', rest) => ⟨c'', rest, false, some .restoreFailed⟩

/-- `blockSyncer.Sync` (`Sync.blockSync`): `ctxFin` is the lower bound of the common block search
(`getHeightWithGap(start, ctx.FinalizedBlockHeader.Height, …)`), `marker` what `deleteBlock` refuses to go below -/
def blockSyncG (applies : List (Blk ι) → Blk ι → Bool) (n ctxFin marker myMhp : Nat) (q : List (Blk ι))
    (best : Tip ι) (peer : Peer ι) : Out ι :=
  let tipH := q.length - 1
  if !isDifferentChain myMhp best.mhp tipH best.height then ⟨q, [], false, some .notDifferent⟩
  else
    match peer.last with
    | none => ⟨q, [], false, some .requestFailed⟩
    | some (last, lastMhp) =>
      if !last.ok then ⟨q, [], true, some .invalidLast⟩
      else if !isDifferentChain myMhp lastMhp tipH last.height then ⟨q, [], true, some .noPriority⟩
      else
        match commonSearch n ctxFin q peer 3 (getCommonBlockStartSearchHeight tipH n) with
        | .error e => ⟨q, [], false, some e⟩
        | .ok ch =>
          if ch < marker then
            ⟨q.take (marker + 1), (q.drop (marker + 1)), false, some .deleteFailed⟩
          else
            let base := q.take (ch + 1)
            let temp := q.drop (ch + 1)
            let cid := match q[ch]? with | some b => b.id | none => last.id
            let dl := download peer.segment cid ch last.id last.height
            match streamApply applies base dl.1 with
            | (c', some .invalidBlock) => ⟨c', temp, true, some .invalidBlock⟩
            | (c', some e) => ⟨c', temp, false, some e⟩
            | (c', none) =>
              if dl.2 then ⟨c', [], false, none⟩ else ⟨c', temp, false, some .download⟩

/-- `Executer.process` on a block of a different chain: `createSyncContext`, then `Syncer.Sync`
(`Sync.syncTop`) on the node's chain.  `none`: `createSyncContext` returned an error. -/
def syncNode (src : FinSrc) (e : Env ι) (finAfter : List (Blk ι) → Nat) (s : NodeSt ι) (myMhp : Nat)
    (target : Blk ι) (targetMhp : Nat) (genIn stale : Bool) (force : Option Mode) (peer : Peer ι) :
    Option (Out ι) :=
  match context src e s with
  | none => none
  | some ctx =>
    let q := s.chain
    some <|
      if force.isNone && !target.ok then ⟨q, [], false, some .invalidBlock⟩
      else
        match (match force with
               | some m => m
               | none => chooseMode ctx.nvals (q.length - 1) target.height genIn stale) with
        | .fast => fastSyncG e.applies finAfter ctx.nvals ctx.finH s.marker q target peer
        | .block => blockSyncG e.applies ctx.nvals ctx.finH s.marker myMhp q
            ⟨0, target.height, targetMhp, target.id⟩ peer
        | .none => ⟨q, [], false, none⟩

end

end LiskVerif.SyncCtx
