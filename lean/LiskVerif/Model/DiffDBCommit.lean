/-
`cacheDB.commit` / `Database.Commit` as the code has it: a loop over the overlay that hands `Set` / `Del`
calls to the WRITER it was given and builds the diff. Whether the writer's batch is ever applied to the
database is the caller's business (framework `ABIHandler.Commit` with `DryRun`, or with a wrong expected
state root, throws it away and keeps using the same staged store; `consensus.Executer.processValidated`
drops it when a later step fails). `Model/DiffDB.lean` only has `commit` = "commit, write the batch, the
overlay object ends its life"; here the batch is a value and the overlay lives on.

The loop is parametrised by what it does to an entry after the entry was handed to the writer
(`after`): the code does nothing (`keep`); `rebase` is the variant "the written entries become the new
initial state of the overlay" (added / updated entries are marked persisted, tombstones are dropped) which
is only right if the batch is applied.
-/
import LiskVerif.Model.DiffDB

namespace LiskVerif.DiffDB

/-- one call on the `DatabaseWriter` handed to `Commit` -/
inductive BOp where
  | set (k v : Bytes)
  | del (k : Bytes)
deriving Repr, BEq, DecidableEq

abbrev Batch := List BOp

def applyOp (s : Store) : BOp → Store
  | .set k v => sset s k v
  | .del k => sdel s k

/-- `db.Write(batch)` -/
def applyBatch (s : Store) (b : Batch) : Store := b.foldl applyOp s

/-- what the commit loop hands to the writer / appends to the diff for one overlay entry -/
def entryOut (k : Bytes) (cv : CV) (d : Diff) : Batch × Diff :=
  match cv.init with
  | none => ([.set k cv.value], { d with added := d.added ++ [k] })
  | some i =>
    if cv.deleted then ([.del k], { d with deleted := d.deleted ++ [(k, i)] })
    else if cv.dirty then ([.set k cv.value], { d with updated := d.updated ++ [(k, i)] })
    else ([], d)

/-- the code: the entry stays as it is -/
def keep (_k : Bytes) (cv : CV) : Option CV := some cv

/-- the "rebase on commit" variant: `value.persisted()` for added / updated entries, `delete(c.data, key)`
for tombstones -/
def rebase (_k : Bytes) (cv : CV) : Option CV :=
  match cv.init with
  | none => some { cv with init := some cv.value, dirty := false }
  | some _ =>
    if cv.deleted then none
    else if cv.dirty then some { cv with init := some cv.value, dirty := false }
    else some cv

/-- the loop of `cacheDB.commit`: overlay after the loop, calls on the writer, diff -/
def commitLoop (after : Bytes → CV → Option CV) : Cache → Diff → Cache × Batch × Diff
  | [], d => ([], [], d)
  | (k, cv) :: r, d =>
    let (b, d1) := entryOut k cv d
    let (r', b', d') := commitLoop after r d1
    ((match after k cv with | some cv' => (k, cv') :: r' | none => r'), b ++ b', d')

/-- `Database.Commit(writer)` without the write of the batch: the staged store, what the writer received,
the returned diff -/
def commitWith (after : Bytes → CV → Option CV) (st : St) : St × Batch × Diff :=
  let (c', b, d) := commitLoop after st.cache {}
  ({ st with cache := c' }, b, d)

/-- the code -/
def commitKeep (st : St) : St × Batch × Diff := commitWith keep st

/-- the variant that assumes its batch is always written -/
def commitRebase (st : St) : St × Batch × Diff := commitWith rebase st

/-- canonical view of a batch (each key occurs once): the keys set with their values, the keys deleted -/
def batchSets (b : Batch) : List KV := b.filterMap fun | .set k v => some (k, v) | .del _ => none
def batchDels (b : Batch) : List Bytes := b.filterMap fun | .del k => some k | .set _ _ => none

end LiskVerif.DiffDB
