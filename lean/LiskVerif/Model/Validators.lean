/-
Model of the stateless front of every network-facing validator / handler of lisk-engine: what the node
does with bytes received from a peer BEFORE any chain state is consulted (C09).

* `newBlock`            — `blockchain.NewBlock` (RawBlock strict, header lenient, assets and transactions strict)
* `blockValidator`      — `Executer.blockValidator` = `NewBlock` then `Block.Validate`
* `transactionValidator`— `TransactionPool.transactionValidator` = `NewTransaction` then `Transaction.Validate`
* `commitsPrefix`       — the part of `Executer.singleCommitValidator` in front of the first state access
* `gossip`              — `newMessageValidator` (the `p2p.Message` envelope) around a validator
* `requestVerdict`      — `MessageProtocol.onRequest` + the registered RPC handlers' request checks
                          (`getLastBlock`, `getHighestCommonBlock`, `getBlocksFromId`, `getTransactions`)
* `responseVerdict`     — `MessageProtocol.onResponse` up to the lookup of the pending request
* `Bits.read` / `write` — `crypto.Bits` with the out-of-range index as an explicit outcome, and the
                          guarded aggregate-signature front (`aggSigFront`)
* `PostBlockReq` …      — the JSON RPC request records of `postBlock` / `postTransaction` after
                          `encoding/json` (any pointer may be nil) and the handlers' dereferences

Every Go panic (nil dereference, index out of range) is the explicit outcome `Verdict.panic` /
`none`; decoding is the codec model (`LiskVerif.Codec`), where panics are explicit too. Hash functions
are parameters.
-/
import LiskVerif.Model.Codec
import LiskVerif.Model.RMT

namespace LiskVerif.Validators
open LiskVerif LiskVerif.Codec

/-! ### decoded structs -/

/-- field `i` of a decoded struct as a byte string (`[]` if it is not one) -/
def fBytes (vs : List Value) (i : Nat) : Bytes :=
  match vs[i]? with
  | some (.bytes b) => b
  | _ => []

def fBytesArr (vs : List Value) (i : Nat) : List Bytes :=
  match vs[i]? with
  | some (.bytesArr l) => l
  | _ => []

def fMsgArr (vs : List Value) (i : Nat) : List (List Value) :=
  match vs[i]? with
  | some (.msgArr l) => l
  | _ => []

/-- `new(T).Decode(data)` / `DecodeStrict(data)` for the generated struct called `name`; a name
missing from the table is a modelling error, reported as `panic` -/
def decodeNamed (t : Table) (nfc : NFC) (strict : Bool) (name : String) (data : Bytes) :
    Except Err (List Value) :=
  match t.find name with
  | none => .error .panic
  | some s => if strict then decodeStrict t nfc s data else decode t nfc s data

/-- decode every element, stop at the first error (the loops of `NewBlock`) -/
def mapDecode (t : Table) (nfc : NFC) (strict : Bool) (name : String) :
    List Bytes → Except Err (List (List Value))
  | [] => .ok []
  | b :: rest =>
    match decodeNamed t nfc strict name b with
    | .error e => .error e
    | .ok v =>
      match mapDecode t nfc strict name rest with
      | .error e => .error e
      | .ok vs => .ok (v :: vs)

inductive Verdict where
  | accept | reject | ignore | panic
deriving Repr, DecidableEq

def Verdict.name : Verdict → String
  | .accept => "accept" | .reject => "reject" | .ignore => "ignore" | .panic => "panic"

/-! ### blocks -/

structure Block where
  header : List Value
  txs : List (List Value)
  assets : List (List Value)

/-- `blockchain.NewBlock`: the envelope strictly, the header leniently (`NewBlockHeader` uses `Decode`),
then the assets, then the transactions, both strictly -/
def newBlock (t : Table) (nfc : NFC) (data : Bytes) : Except Err Block :=
  match decodeNamed t nfc true "blockchain.RawBlock" data with
  | .error e => .error e
  | .ok raw =>
    match decodeNamed t nfc false "blockchain.BlockHeader" (fBytes raw 0) with
    | .error e => .error e
    | .ok header =>
      match mapDecode t nfc true "blockchain.BlockAsset" (fBytesArr raw 2) with
      | .error e => .error e
      | .ok assets =>
        match mapDecode t nfc true "blockchain.Transaction" (fBytesArr raw 1) with
        | .error e => .error e
        | .ok txs => .ok { header := header, txs := txs, assets := assets }

def rmtHashes (H : Bytes → Bytes) : RMT.HashFns :=
  { leaf := fun d => H (0 :: d), branch := fun l r => H (1 :: (l ++ r)), empty := H [] }

/-- re-encoding of a decoded struct (`v.Encode()`); an unknown name encodes to nothing -/
def encodeNamed (t : Table) (nfc : NFC) (name : String) (vals : List Value) : Bytes :=
  match t.find name with
  | none => []
  | some s => encode t nfc s vals

/-- `BlockHeader.Validate` (header fields: 3 previousBlockID, 4 generatorAddress, 14 signature, 8 stateRoot —
the last since fix 4d58fae) -/
def headerValid (h : List Value) : Bool :=
  (fBytes h 3).length == 32 && (fBytes h 4).length == 20 && (fBytes h 14).length == 64 &&
  (fBytes h 8).length == 32

/-- strictly increasing in the byte order (Go string `<`) -/
def strictlyIncreasing : List Bytes → Bool
  | [] => true
  | [_] => true
  | a :: b :: rest => blt a b && strictlyIncreasing (b :: rest)

/-- `Block.Validate`: header lengths; transaction root = Merkle root of the transaction IDs
(ID = hash of the re-encoded transaction); assets sorted by module without duplicates; asset root -/
def isAlnum (b : UInt8) : Bool :=
  (0x30 ≤ b.toNat && b.toNat ≤ 0x39) || (0x41 ≤ b.toNat && b.toNat ≤ 0x5a) || (0x61 ≤ b.toNat && b.toNat ≤ 0x7a)

/-- `Transaction.Validate` (fields: 0 module, 1 command, 4 senderPublicKey, 5 params, 6 signatures) -/
def txValid (tx : List Value) : Bool :=
  (fBytes tx 0).all isAlnum && (fBytes tx 1).all isAlnum &&
  decide ((fBytes tx 5).length ≤ 14 * 1024) && (fBytes tx 4).length == 32 &&
  !(fBytesArr tx 6).isEmpty && (fBytesArr tx 6).all (fun s => s.length == 64)

def blockValid (t : Table) (nfc : NFC) (H : Bytes → Bytes) (b : Block) : Bool :=
  headerValid b.header &&
  b.txs.all txValid &&
  (RMT.root (rmtHashes H) (b.txs.map fun tx => H (encodeNamed t nfc "blockchain.Transaction" tx))
      == fBytes b.header 5) &&
  strictlyIncreasing (b.assets.map fun a => fBytes a 0) &&
  (RMT.root (rmtHashes H) (b.assets.map fun a => encodeNamed t nfc "blockchain.BlockAsset" a)
      == fBytes b.header 6)

/-- `Executer.blockValidator` on the payload of a `postBlock` message -/
def blockValidator (t : Table) (nfc : NFC) (H : Bytes → Bytes) (data : Bytes) : Verdict :=
  match newBlock t nfc data with
  | .error .panic => .panic
  | .error _ => .reject
  | .ok b => if blockValid t nfc H b then .accept else .reject

/-! ### transactions -/

/-- `TransactionPool.transactionValidator` on the payload of a transaction announcement -/
def transactionValidator (t : Table) (nfc : NFC) (data : Bytes) : Verdict :=
  if data.isEmpty then .reject
  else
    match decodeNamed t nfc true "blockchain.Transaction" data with
    | .error .panic => .panic
    | .error _ => .reject
    | .ok tx => if txValid tx then .accept else .reject

/-! ### single commits -/

inductive CommitsPrefix where
  | reject     -- undecodable, or the first commit is malformed: peer rejected before any state access
  | empty      -- no commits: `ValidationIgnore`
  | stateful   -- the first commit is well formed: the verdict depends on the chain (never `accept`)
  | panic
deriving Repr, DecidableEq

def CommitsPrefix.name : CommitsPrefix → String
  | .reject => "reject" | .empty => "empty" | .stateful => "stateful" | .panic => "panic"

/-- `SingleCommit.Validate` (fields: 0 blockID, 2 validatorAddress, 3 certificateSignature) -/
def commitValid (c : List Value) : Bool :=
  (fBytes c 0).length == 32 && (fBytes c 2).length == 20 && (fBytes c 3).length == 96

def commitsPrefix (t : Table) (nfc : NFC) (data : Bytes) : CommitsPrefix :=
  match decodeNamed t nfc true "consensus.EventPostSingleCommits" data with
  | .error .panic => .panic
  | .error _ => .reject
  | .ok ev =>
    match fMsgArr ev 0 with
    | [] => .empty
    | c :: _ => if commitValid c then .stateful else .reject

/-! ### gossip envelope -/

/-- `newMessageValidator`: the pubsub payload is a `p2p.Message` (lenient decode), its `Data` goes to
the topic's validator -/
def gossip {α : Type} (t : Table) (nfc : NFC) (onReject onPanic : α) (v : Bytes → α) (raw : Bytes) : α :=
  match decodeNamed t nfc false "p2p.Message" raw with
  | .error .panic => onPanic
  | .error _ => onReject
  | .ok m => v (fBytes m 0)

/-! ### request / response protocol -/

inductive RpcVerdict where
  | ban      -- the peer is banned and disconnected
  | serve    -- the handler answered (data or error)
  | panic
deriving Repr, DecidableEq

def RpcVerdict.name : RpcVerdict → String
  | .ban => "ban" | .serve => "serve" | .panic => "panic"

def procGetLastBlock : Bytes := "getLastBlock".toUTF8.toList
def procGetHighestCommonBlock : Bytes := "getHighestCommonBlock".toUTF8.toList
def procGetBlocksFromID : Bytes := "getBlocksFromId".toUTF8.toList
def procGetTransactions : Bytes := "getTransactions".toUTF8.toList

def knownProcedure (p : Bytes) : Bool :=
  p == procGetLastBlock || p == procGetHighestCommonBlock || p == procGetBlocksFromID ||
    p == procGetTransactions

/-- `onRequest`: envelope (fields 0 id, 1 procedure, 2 data) decoded leniently; unknown procedure →
ban; then the handler: the two sync handlers decode their request leniently and ban on malformed
content (`r.Data == nil` never holds: the reader returns an empty slice) -/
def requestVerdict (t : Table) (nfc : NFC) (raw : Bytes) : RpcVerdict :=
  match decodeNamed t nfc false "p2p.Request" raw with
  | .error .panic => .panic
  | .error _ => .ban
  | .ok r =>
    let proc := fBytes r 1
    let data := fBytes r 2
    if proc == procGetLastBlock || proc == procGetTransactions then .serve
    else if proc == procGetHighestCommonBlock then
      match decodeNamed t nfc false "sync.GetHighestCommonBlockRequest" data with
      | .error .panic => .panic
      | .error _ => .ban
      | .ok q =>
        let ids := fBytesArr q 0
        if ids.isEmpty then .ban
        else if ids.all (fun id => id.length == 32) then .serve else .ban
    else if proc == procGetBlocksFromID then
      match decodeNamed t nfc false "sync.GetBlocksFromIDRequest" data with
      | .error .panic => .panic
      | .error _ => .ban
      | .ok q => if (fBytes q 0).length == 32 then .serve else .ban
    else .ban

/-- `onResponse` (fields 0 id, 1 procedure, 2 data, 3 error): `serve` = handed to the pending request
(or dropped as unknown request id) -/
def responseVerdict (t : Table) (nfc : NFC) (raw : Bytes) : RpcVerdict :=
  match decodeNamed t nfc false "p2p.responseMsg" raw with
  | .error .panic => .panic
  | .error _ => .ban
  | .ok r => if knownProcedure (fBytes r 1) then .serve else .ban

/-! ### aggregation bitmaps -/

/-- `Bits.read(i)`: `none` = index out of range (Go panics) -/
def bitsRead (b : Bytes) (i : Nat) : Option Bool :=
  match b[i / 8]? with
  | none => none
  | some x => some ((x.toNat >>> (i % 8)) % 2 == 1)

/-- `Bits.write(i, val)`: `none` = index out of range -/
def bitsWrite (b : Bytes) (i : Nat) (val : Bool) : Option Bytes :=
  match b[i / 8]? with
  | none => none
  | some x =>
    let y := if val then x.toNat ||| (1 <<< (i % 8)) else x.toNat &&& (255 - (1 <<< (i % 8)))
    some (b.set (i / 8) (UInt8.ofNat y))

/-- the loop of `BLSVerifyAggSig` / `BLSVerifyWeightedAggSig` that selects the signers' keys and adds
their weights: `none` = panic (bitmap or weight list too short) -/
def selectSigners (keys : List Bytes) (bits : Bytes) (weights : List Nat) :
    Nat → Option (List Bytes × Nat)
  | 0 => some ([], 0)
  | i + 1 =>
    match selectSigners keys bits weights i with
    | none => none
    | some (ks, w) =>
      match bitsRead bits i with
      | none => none
      | some false => some (ks, w)
      | some true =>
        match keys[i]?, weights[i]? with
        | some k, some wi => some (ks ++ [k], w + wi)
        | _, _ => none

/-- the guard the code needs in front of the loop (as added by the C06 fix): bitmap of exactly
⌈n/8⌉ bytes and one weight per key; `none` = panic, `some none` = rejected by the guard -/
def aggSigFront (keys : List Bytes) (bits : Bytes) (weights : List Nat) : Option (Option (List Bytes × Nat)) :=
  if bits.length ≠ (keys.length + 7) / 8 ∨ weights.length ≠ keys.length then some none
  else
    match selectSigners keys bits weights keys.length with
    | none => none
    | some r => some (some r)

/-! ### JSON RPC endpoints: request records after `encoding/json` -/

/-- outcome of a handler -/
inductive Out where
  | error      -- `w.Error(err)`
  | ok         -- `w.Write(resp)`
  | panic      -- nil dereference (the router runs handlers in a goroutine without recover)
deriving Repr, DecidableEq

/-- a pointer field: `none` = nil -/
abbrev Ptr (α : Type) := Option α

/-- dereference -/
def deref {α : Type} (p : Ptr α) : Except Out α :=
  match p with
  | none => .error .panic
  | some a => .ok a

structure HeaderJ where
  aggregateCommit : Ptr Unit

structure BlockJ where
  header : Ptr HeaderJ
  transactions : List (Ptr Unit)
  assets : List (Ptr Unit)

structure PostBlockReq where
  block : Ptr BlockJ

structure PostTxReq where
  transaction : Ptr Unit

def derefAll {α : Type} : List (Ptr α) → Except Out Unit
  | [] => .ok ()
  | p :: rest => match deref p with
    | .error e => .error e
    | .ok _ => derefAll rest

def toOut : Except Out Unit → Out
  | .ok _ => .ok
  | .error e => e

/-- what `HandlePostBlock` and the consensus loop dereference for a posted block: `req.Block.Init()`
(block, header, every transaction), then `process`: `Block.Validate` (every asset) and `verifyBlock`
(`verifyAggregateCommit(header.AggregateCommit)`) -/
def postBlockDerefs (r : PostBlockReq) : Except Out Unit := do
  let b ← deref r.block
  let h ← deref b.header
  derefAll b.transactions
  derefAll b.assets
  let _ ← deref h.aggregateCommit
  return ()

/-- the handler before the fix -/
def postBlockUnchecked (r : PostBlockReq) : Out := toOut (postBlockDerefs r)

/-- `validatePostedBlock` of the fix: every pointer is compared with nil first -/
def validatePostedBlock (r : PostBlockReq) : Bool :=
  match r.block with
  | none => false
  | some b =>
    match b.header with
    | none => false
    | some h => h.aggregateCommit.isSome && b.transactions.all Option.isSome && b.assets.all Option.isSome

/-- the fixed handler -/
def postBlock (r : PostBlockReq) : Out :=
  if validatePostedBlock r then postBlockUnchecked r else .error

def postTxUnchecked (r : PostTxReq) : Out := toOut (do let _ ← deref r.transaction; return ())

/-- the fixed `HandlePostTransaction` -/
def postTx (r : PostTxReq) : Out :=
  if r.transaction.isSome then postTxUnchecked r else .error

end LiskVerif.Validators
