/-
NFC as a finite table (C08NFC). `norm.NFC` is a parameter of the codec model (`Codec.NFC`); the
harness computes, with x/text, the normal form of every string it generates and sends the table
raw ↦ nfc along with the op. `tabNFC` is the instance of the parameter the driver runs with:

* `normalize` maps a string of the table to its normal form (anything else - ASCII, normal forms -
  to itself);
* `normal` holds for ASCII strings and for the normal forms of the table.

`substFields` puts strings into the fields of kind `string` of a value tree, following the schema
table (what the harness does to the real Go struct by reflection over its string fields).
-/
import LiskVerif.Model.Codec

namespace LiskVerif.CodecNFC
open LiskVerif LiskVerif.Codec

abbrev Tab := List (Bytes × Bytes)

def lookup (tab : Tab) (b : Bytes) : Bytes :=
  match tab.find? (fun p => p.1 == b) with
  | some p => p.2
  | none => b

def isAscii (b : Bytes) : Bool := b.all (fun c => c.toNat < 128)

def tabNFC (tab : Tab) : NFC :=
  { normal := fun b => isAscii b || tab.any (fun p => p.2 == b),
    normalize := lookup tab }

/-- placeholder `0x7f 'S' <decimal i> 0x7f` standing for string `i` of the table -/
def placeholder (i : Nat) : Bytes :=
  [0x7f, 0x53] ++ (toString i).toUTF8.toList ++ [0x7f]

/-- apply `σ` to every field of kind `string`, nested messages included (`fuel` bounds the nesting
depth as in `encodeFields`) -/
def substFields (t : Table) (σ : Bytes → Bytes) : Nat → List Field → List Value → List Value
  | _, [], vs => vs
  | _, _, [] => []
  | fuel, f :: fs, v :: vs =>
    let here : Value :=
      match f.kind, v with
      | .string, .bytes b => .bytes (σ b)
      | .msg name, .msg present vals =>
        match fuel, t.find name with
        | fuel' + 1, some s => .msg present (substFields t σ fuel' s.enc vals)
        | _, _ => v
      | .msgArr name, .msgArr l =>
        match fuel, t.find name with
        | fuel' + 1, some s => .msgArr (l.map fun vals => substFields t σ fuel' s.enc vals)
        | _, _ => v
      | _, _ => v
    here :: substFields t σ fuel fs vs

end LiskVerif.CodecNFC
