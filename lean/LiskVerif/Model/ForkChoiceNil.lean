/-
`pkg/consensus/forkchoice` with its POINTERS inside the model (property C09).

`forkChoice` holds four pointers: the two headers, the slot calculator and `lastBlockReceivedAt *time.Time` —
the time the node received its tip, nil as long as no block was applied through the "valid successor" or the
tie-break branch of `Executer.process` (after every (re)start, and while the tip comes from the synchroniser).
Model/Header.lean (`FC`) has values in these places, so "the fork choice never panics" could not even be
stated there. Here every pointer is an `Option` and every dereference the Go code performs is a `deref`
whose nil case is the explicit outcome `Res.panic`; `&&` / `||` short-circuit as in Go (a panic in the right
operand only happens when the right operand is evaluated).

`classify` is the sequence of questions `Executer.process` asks (Gen.processOrder / Gen.VS.Executer_process).

`receivedWithinMerged` / `isTieBreakMerged` / `classifyMerged` transcribe seeded change C09-15 (the two
received-in-slot helpers merged into one that takes the receive time as a pointer argument and dereferences
it without the nil check of the old "last block" variant).
-/
import LiskVerif.Model.Header

namespace LiskVerif.FCN
open LiskVerif

/-- outcome of evaluating a Go expression: a value, or a nil-pointer dereference (run-time panic) -/
inductive Res (α : Type) where
  | ok (a : α)
  | panic
deriving DecidableEq, Repr

namespace Res

def bind {α β : Type} (r : Res α) (f : α → Res β) : Res β :=
  match r with
  | ok a => f a
  | panic => panic

def map {α β : Type} (f : α → β) (r : Res α) : Res β := r.bind (fun a => ok (f a))

/-- Go `a && b`: `b` is only evaluated when `a` is true -/
def and (a : Res Bool) (b : Res Bool) : Res Bool :=
  match a with
  | panic => panic
  | ok false => ok false
  | ok true => b

/-- Go `!a` -/
def not (a : Res Bool) : Res Bool := a.map (!·)

def isOk {α : Type} : Res α → Bool
  | ok _ => true
  | panic => false

end Res

/-- `*p`, `p.f`, `p.m()` for a pointer `p` -/
def deref {α : Type} (p : Option α) : Res α :=
  match p with
  | some a => .ok a
  | none => .panic

/-- `forkChoice` as `NewForkChoice` builds it: the arguments are stored as given, any of the pointers may be
nil; `slot` = the two fields of `validator.BlockSlot`; times are unix seconds (`uint32(t.Unix())`) -/
structure FC where
  lastHeader : Option Hdr
  currentHeader : Option Hdr
  slot : Option (Nat × Nat)
  lastBlockReceivedAt : Option Nat
  currentBlockReceivedAt : Nat
deriving Repr, DecidableEq

/-- `c.slot.GetSlotNumber(t)`; `slotNumber t g bt` is `(*BlockSlot).GetSlotNumber` (a parameter here, the
theorems instantiate it with the regenerated `Gen.getSlotNumber`) -/
def slotOf (sn : Nat → Nat → Nat → Int) (c : FC) (t : Nat) : Res Int :=
  (deref c.slot).map (fun s => sn t s.1 s.2)

/-- `a == b` on two evaluated operands, left to right -/
def eqR {α : Type} [DecidableEq α] (a b : Res α) : Res Bool := a.bind (fun x => b.map (fun y => decide (x = y)))

def ltR (a b : Res Int) : Res Bool := a.bind (fun x => b.map (fun y => decide (x < y)))

/-- `c.lastHeader.f` / `c.currentHeader.f` -/
def lastF {α : Type} (c : FC) (f : Hdr → α) : Res α := (deref c.lastHeader).map f
def curF {α : Type} (c : FC) (f : Hdr → α) : Res α := (deref c.currentHeader).map f

/-- `IsValidBlock`: `c.lastHeader.Height+1 == c.currentHeader.Height && bytes.Equal(c.lastHeader.ID, c.currentHeader.PreviousBlockID)` -/
def isValidBlock (c : FC) : Res Bool :=
  (eqR ((lastF c (·.height)).map (fun h => (h + 1) % 4294967296)) (curF c (·.height))).and
    (eqR (lastF c (·.id)) (curF c (·.previousBlockID)))

/-- `IsIdenticalBlock`: `bytes.Equal(c.lastHeader.ID, c.currentHeader.ID)` -/
def isIdenticalBlock (c : FC) : Res Bool := eqR (lastF c (·.id)) (curF c (·.id))

/-- `isDuplicateBlock` -/
def isDuplicateBlock (c : FC) : Res Bool :=
  ((eqR (lastF c (·.height)) (curF c (·.height))).and
    (eqR (lastF c (·.maxHeightPrevoted)) (curF c (·.maxHeightPrevoted)))).and
    (eqR (lastF c (·.previousBlockID)) (curF c (·.previousBlockID)))

/-- `IsDoubleForging` -/
def isDoubleForging (c : FC) : Res Bool :=
  (isDuplicateBlock c).and (eqR (lastF c (·.generatorAddress)) (curF c (·.generatorAddress)))

/-- `receivedBlockWithinForgingSlot`: `c.currentBlockReceivedAt` is a VALUE (`time.Time`), nothing to dereference
but the slot calculator and the header -/
def receivedBlockWithinForgingSlot (sn : Nat → Nat → Nat → Int) (c : FC) : Res Bool :=
  eqR (slotOf sn c c.currentBlockReceivedAt) ((curF c (·.timestamp)).bind (slotOf sn c))

/-- `receivedLastBlockWithinForgingSlot`: the nil check, then the dereference -/
def receivedLastBlockWithinForgingSlot (sn : Nat → Nat → Nat → Int) (c : FC) : Res Bool :=
  match c.lastBlockReceivedAt with
  | none => .ok true      -- `if c.lastBlockReceivedAt == nil { return true }`: the block comes from syncing
  | some _ =>
    eqR ((deref c.lastBlockReceivedAt).bind (slotOf sn c)) ((lastF c (·.timestamp)).bind (slotOf sn c))

/-- `IsTieBreak` -/
def isTieBreak (sn : Nat → Nat → Nat → Int) (c : FC) : Res Bool :=
  (((isDuplicateBlock c).and
      (ltR ((lastF c (·.timestamp)).bind (slotOf sn c)) ((curF c (·.timestamp)).bind (slotOf sn c)))).and
      (receivedLastBlockWithinForgingSlot sn c).not).and
    (receivedBlockWithinForgingSlot sn c)

/-- the package function `IsDifferentChain` -/
def isDifferentChainFn (lastMhp mhp lastHeight height : Nat) : Bool :=
  decide (lastMhp < mhp) || (decide (lastHeight < height) && decide (lastMhp = mhp))

/-- the method `IsDifferentChain`: the four arguments are evaluated left to right -/
def isDifferentChain (c : FC) : Res Bool :=
  (lastF c (·.maxHeightPrevoted)).bind fun a => (curF c (·.maxHeightPrevoted)).bind fun b =>
    (lastF c (·.height)).bind fun x => (curF c (·.height)).map fun y => isDifferentChainFn a b x y

/-- what `Executer.process` does with the block -/
inductive Class where
  | identical | validSuccessor | doubleForging | tieBreak | differentChain | discard
deriving DecidableEq, Repr

/-- the questions of `Executer.process`, in its order; a panic anywhere is a panic of the consensus goroutine -/
def classifyWith (tie : FC → Res Bool) (c : FC) : Res Class :=
  (isIdenticalBlock c).bind fun b => if b then .ok .identical else
  (isValidBlock c).bind fun b => if b then .ok .validSuccessor else
  (isDoubleForging c).bind fun b => if b then .ok .doubleForging else
  (tie c).bind fun b => if b then .ok .tieBreak else
  (isDifferentChain c).bind fun b => if b then .ok .differentChain else .ok .discard

def classify (sn : Nat → Nat → Nat → Int) (c : FC) : Res Class := classifyWith (isTieBreak sn) c

/-! ### seeded change C09-15: one helper for both receive times -/

/-- `receivedWithinForgingSlot(header *BlockHeader, receivedAt *time.Time)`:
`c.slot.GetSlotNumber(uint32(receivedAt.Unix())) == c.slot.GetSlotNumber(header.Timestamp)` — no nil check -/
def receivedWithinMerged (sn : Nat → Nat → Nat → Int) (c : FC) (header : Option Hdr) (receivedAt : Option Nat) : Res Bool :=
  eqR ((deref receivedAt).bind (slotOf sn c)) (((deref header).map (·.timestamp)).bind (slotOf sn c))

/-- `IsTieBreak` of the seeded change: `…(c.lastHeader, c.lastBlockReceivedAt)`, `…(c.currentHeader, &c.currentBlockReceivedAt)` -/
def isTieBreakMerged (sn : Nat → Nat → Nat → Int) (c : FC) : Res Bool :=
  (((isDuplicateBlock c).and
      (ltR ((lastF c (·.timestamp)).bind (slotOf sn c)) ((curF c (·.timestamp)).bind (slotOf sn c)))).and
      (receivedWithinMerged sn c c.lastHeader c.lastBlockReceivedAt).not).and
    (receivedWithinMerged sn c c.currentHeader (some c.currentBlockReceivedAt))

def classifyMerged (sn : Nat → Nat → Nat → Int) (c : FC) : Res Class := classifyWith (isTieBreakMerged sn) c

end LiskVerif.FCN
