/-
C12 — gap-closing theorems for the staged state store (model `LiskVerif.Model.DiffDB`).

1. trace refinement: over every history the staged store returns, for every read, scan, snapshot
   and restore, what a plain sorted map with snapshot copies returns;
2. commit classification: the Added / Updated / Deleted lists of the diff, exactly;
3. scans in terms of the effective map only (no reference to `commit`): membership, strict order,
   limits incl. 0, empty ranges, dependence on the selected keys only;
4. prefix views: the operations the driver performs for `WithPrefix p` behave as the database
   restricted to the keys with prefix `p`; nesting, visibility across views, sibling isolation;
5. revert ∘ commit is the identity on the database (as a permutation of its entries), re-applying
   after a revert, chains of commits reverted in reverse order;
6. snapshots: exact restore, freshness of ids, restore of consumed / deleted / unknown ids;
7. `Updated` in terms of the history (which keys were written);
8. necessity of the invariant in the scan theorem; the database's own prefix scan and reverse seek.
-/
import LiskVerif.Props.C12_Scan
import LiskVerif.Lemmas.DiffDBMore

open LiskVerif LiskVerif.DiffDB

/-! ## 0. the non-snapshot operations leave store, snapshots and counter alone -/

private theorem get_frame (st : St) (k : Bytes) :
    (DiffDB.get st k).1.store = st.store ∧ (DiffDB.get st k).1.snaps = st.snaps ∧
      (DiffDB.get st k).1.snapCount = st.snapCount := by
  unfold DiffDB.get
  split
  · split <;> exact ⟨rfl, rfl, rfl⟩
  · split <;> exact ⟨rfl, rfl, rfl⟩

private theorem set_frame (st : St) (k v : Bytes) :
    (DiffDB.set st k v).store = st.store ∧ (DiffDB.set st k v).snaps = st.snaps ∧
      (DiffDB.set st k v).snapCount = st.snapCount := by
  unfold DiffDB.set
  split
  · exact ⟨rfl, rfl, rfl⟩
  · split <;> exact ⟨rfl, rfl, rfl⟩

private theorem del_frame (st : St) (k : Bytes) :
    (del st k).store = st.store ∧ (del st k).snaps = st.snaps ∧
      (del st k).snapCount = st.snapCount := by
  unfold del
  split <;> exact ⟨rfl, rfl, rfl⟩

private theorem scan_frame (st : St) (f : Bytes → Bool) (l : Int) (rv : Bool) :
    (scan st f l rv).1.store = st.store ∧ (scan st f l rv).1.snaps = st.snaps ∧
      (scan st f l rv).1.snapCount = st.snapCount := ⟨rfl, rfl, rfl⟩

private theorem inv_step (st : St) (h : C12Inv st) (op : Op) : C12Inv (step st op) :=
  C12_cache_invariant st h [op]

/-! ## 1. trace refinement to a sorted map with snapshot copies -/

/-- The reference: the database contents with all staged writes applied, as a plain map; a
snapshot is a copy of the map. -/
structure C12Ref where
  m : Store
  snaps : List (Nat × Store) := []
  cnt : Nat := 0

def C12find {β : Type} (l : List (Nat × β)) (id : Nat) : Option β :=
  match l with
  | [] => none
  | (i, c) :: r => if i = id then some c else C12find r id

def C12refStep (r : C12Ref) : Op → C12Ref
  | .set k v => { r with m := sset r.m k v }
  | .del k => { r with m := sdel r.m k }
  | .snapshot => { r with snaps := (r.cnt, r.m) :: r.snaps, cnt := r.cnt + 1 }
  | .restore id =>
    match C12find r.snaps id with
    | none => r
    | some m => { r with m := m, snaps := r.snaps.filter (fun e => e.1 ≠ id) }
  | .deleteSnapshot id => { r with snaps := r.snaps.filter (fun e => e.1 ≠ id) }
  | _ => r

def C12refRun (r : C12Ref) (ops : List Op) : C12Ref := ops.foldl C12refStep r

/-- what an operation returns to the caller -/
inductive C12Obs where
  | val (o : Option Bytes)
  | kvs (l : List KV)
  | id (n : Nat)
  | ok (b : Bool)
  | unit
deriving DecidableEq

/-- the observation of the staged store -/
def C12obs (st : St) : Op → C12Obs
  | .get k => .val (DiffDB.get st k).2
  | .range s e l r => .kvs (range st s e l r).2
  | .iterate p l r => .kvs (iterate st p l r).2
  | .snapshot => .id (snapshot st).2
  | .restore id => .ok (restore st id).2
  | _ => .unit

/-- the observation of the reference: the database's own lookups and scans on the map -/
def C12refObs (r : C12Ref) : Op → C12Obs
  | .get k => .val (slookup r.m k)
  | .range s e l rv => .kvs (dbRange r.m s e l rv)
  | .iterate p l rv => .kvs (dbIterate r.m p l rv)
  | .snapshot => .id r.cnt
  | .restore id => .ok (C12find r.snaps id).isSome
  | _ => .unit

private theorem findSnap_eq (l : List (Nat × Cache)) (id : Nat) : findSnap l id = C12find l id := by
  induction l with
  | nil => rfl
  | cons e r ih => obtain ⟨i, c⟩ := e; simp only [findSnap, C12find, ih]

private theorem find_filter {β : Type} (l : List (Nat × β)) (id id' : Nat) :
    C12find (l.filter (fun e => e.1 ≠ id')) id = if id = id' then none else C12find l id := by
  induction l with
  | nil => simp [C12find]
  | cons e r ih =>
    obtain ⟨i, c⟩ := e
    by_cases hi : i = id'
    · subst hi
      simp only [List.filter, ne_eq, not_true_eq_false, decide_false, ih, C12find]
      by_cases h2 : id = i
      · simp [h2]
      · simp [h2, Ne.symm h2]
    · simp only [List.filter, ne_eq, hi, not_false_eq_true, decide_true, C12find, ih]
      by_cases h2 : i = id
      · subst h2; simp [hi]
      · simp [h2]

/-- the simulation relation between the staged store and the reference -/
structure C12Sim (st : St) (r : C12Ref) : Prop where
  inv : C12Inv st
  nodupM : NoDupKeys r.m
  effOk : ∀ k, eff st k = slookup r.m k
  cntOk : st.snapCount = r.cnt
  snapsOk : ∀ id,
    (C12find st.snaps id = none ∧ C12find r.snaps id = none) ∨
    ∃ c m, C12find st.snaps id = some c ∧ C12find r.snaps id = some m ∧ NoDupKeys m ∧
      ∀ k, effC st.store c k = slookup m k

theorem C12_sim_init (s : Store) (h : NoDupKeys s) : C12Sim { store := s } { m := s } :=
  ⟨C12_inv_init s h, h, fun _ => rfl, rfl, fun _ => Or.inl ⟨rfl, rfl⟩⟩

private theorem sim_frame {st st' : St} {r r' : C12Ref} (h : C12Sim st r) (hinv : C12Inv st')
    (hs : st'.store = st.store) (hsn : st'.snaps = st.snaps) (hc : st'.snapCount = st.snapCount)
    (hr1 : r'.snaps = r.snaps) (hr2 : r'.cnt = r.cnt) (hnd : NoDupKeys r'.m)
    (he : ∀ k, eff st' k = slookup r'.m k) : C12Sim st' r' := by
  refine ⟨hinv, hnd, he, by rw [hc, hr2]; exact h.cntOk, ?_⟩
  intro id
  rw [hsn, hr1, hs]
  exact h.snapsOk id

theorem C12_sim_step (st : St) (r : C12Ref) (h : C12Sim st r) (op : Op) :
    C12Sim (step st op) (C12refStep r op) := by
  have hinv := inv_step st h.inv op
  cases op with
  | get k =>
    obtain ⟨f1, f2, f3⟩ := get_frame st k
    exact sim_frame h hinv f1 f2 f3 rfl rfl h.nodupM
      (fun k' => ((C12_get_refines st h.inv k).2.1 k').trans (h.effOk k'))
  | set k v =>
    obtain ⟨f1, f2, f3⟩ := set_frame st k v
    refine sim_frame h hinv f1 f2 f3 rfl rfl (nodup_sset _ _ _ h.nodupM) (fun k' => ?_)
    simp only [step, C12refStep]
    rw [(C12_set_refines st h.inv k v).1 k', slookup_sset, h.effOk k']
  | del k =>
    obtain ⟨f1, f2, f3⟩ := del_frame st k
    refine sim_frame h hinv f1 f2 f3 rfl rfl (nodup_sdel _ _ h.nodupM) (fun k' => ?_)
    simp only [step, C12refStep]
    rw [(C12_del_refines st h.inv k).1 k', slookup_sdel, h.effOk k']
  | range s e l rv =>
    exact sim_frame h hinv rfl rfl rfl rfl rfl h.nodupM
      (fun k' => ((C12_reads_do_not_change_state st h.inv).2.1 s e l rv k').trans (h.effOk k'))
  | iterate p l rv =>
    exact sim_frame h hinv rfl rfl rfl rfl rfl h.nodupM
      (fun k' => ((C12_reads_do_not_change_state st h.inv).2.2 p l rv k').trans (h.effOk k'))
  | snapshot =>
    refine ⟨hinv, h.nodupM, h.effOk, ?_, ?_⟩
    · simp only [step, snapshot, C12refStep]; rw [h.cntOk]
    · intro id
      simp only [step, snapshot, C12refStep, C12find]
      rw [h.cntOk]
      by_cases hid : r.cnt = id
      · simp only [hid, if_true]
        exact Or.inr ⟨st.cache, r.m, rfl, rfl, h.nodupM, h.effOk⟩
      · simp only [hid, if_false]
        exact h.snapsOk id
  | restore id =>
    simp only [step, restore, C12refStep] at hinv ⊢
    rcases h.snapsOk id with ⟨h1, h2⟩ | ⟨c, m, h1, h2, h3, h4⟩
    · rw [findSnap_eq, h1] at hinv ⊢
      rw [h2]
      exact h
    · rw [findSnap_eq, h1] at hinv ⊢
      rw [h2]
      simp only at hinv ⊢
      refine ⟨hinv, h3, h4, h.cntOk, ?_⟩
      intro id'
      simp only [find_filter]
      by_cases hid : id' = id
      · simp [hid]
      · simp only [hid, if_false]
        exact h.snapsOk id'
  | deleteSnapshot id =>
    refine ⟨hinv, h.nodupM, h.effOk, h.cntOk, ?_⟩
    intro id'
    simp only [step, deleteSnapshot, C12refStep, find_filter]
    by_cases hid : id' = id
    · simp [hid]
    · simp only [hid, if_false]
      exact h.snapsOk id'

theorem C12_sim_run (st : St) (r : C12Ref) (h : C12Sim st r) (ops : List Op) :
    C12Sim (run st ops) (C12refRun r ops) := by
  unfold run C12refRun
  induction ops generalizing st r with
  | nil => exact h
  | cons op rest ih => exact ih _ _ (C12_sim_step st r h op)

/-- related states return the same thing for every operation -/
theorem C12_sim_obs (st : St) (r : C12Ref) (h : C12Sim st r) (op : Op) :
    C12obs st op = C12refObs r op := by
  have hsame : SameMap (commit st).1.store r.m :=
    fun k => (C12_commit_exact st h.inv k).trans (h.effOk k)
  have hndc := nodup_commit st h.inv.nodupS
  cases op with
  | get k =>
    simp only [C12obs, C12refObs]
    rw [(C12_get_refines st h.inv k).1, h.effOk k]
  | range s e l rv =>
    simp only [C12obs, C12refObs]
    rw [C12_range_refines st h.inv]
    unfold dbRange
    rw [sortDir_filter_sameMap hsame hndc h.nodupM]
  | iterate p l rv =>
    simp only [C12obs, C12refObs]
    rw [C12_iterate_refines st h.inv]
    unfold dbIterate
    rw [sortDir_filter_sameMap hsame hndc h.nodupM]
  | snapshot => simp only [C12obs, C12refObs, snapshot, h.cntOk]
  | restore id =>
    simp only [C12obs, C12refObs, restore]
    rw [findSnap_eq]
    rcases h.snapsOk id with ⟨h1, h2⟩ | ⟨c, m, h1, h2, _, _⟩ <;> simp [h1, h2]
  | set k v => rfl
  | del k => rfl
  | deleteSnapshot id => rfl

/-- **Trace refinement.**  For every initial database, every history of
get / set / del / range / iterate / snapshot / restore / deleteSnapshot (full keys, i.e. through any
prefix views) and every next operation, the staged store returns exactly what the sorted-map
reference returns: the value under the key, the database's own scan of the map (every bound, limit
and direction), the snapshot id, and whether the restored id exists. -/
theorem C12_reads_refine_spec (s : Store) (hs : NoDupKeys s) (ops : List Op) (op : Op) :
    C12obs (run { store := s } ops) op = C12refObs (C12refRun { m := s } ops) op :=
  C12_sim_obs _ _ (C12_sim_run _ _ (C12_sim_init s hs) ops) op

/-- … and `Commit` after the history writes exactly the reference map. -/
theorem C12_commit_refines_spec (s : Store) (hs : NoDupKeys s) (ops : List Op) :
    (commit (run { store := s } ops)).1.store.Perm (C12refRun { m := s } ops).m := by
  have h := C12_sim_run _ _ (C12_sim_init s hs) ops
  exact SameMap.perm (fun k => (C12_commit_exact _ h.inv k).trans (h.effOk k))
    (nodup_commit _ h.inv.nodupS) h.nodupM

private def exS : Store := [([1], [10]), ([2], [20]), ([1, 0], [30]), ([4], [40])]
private def exOps : List Op :=
  [.set [2] [21], .snapshot, .del [1], .range [0] [9] 1 false, .snapshot, .set [3] [33], .restore 0,
   .set [5] [], .restore 0, .deleteSnapshot 1, .restore 1, .del [4]]
example : NoDupKeys exS := by unfold NoDupKeys exS; decide
example : C12obs (run { store := exS } exOps) (.range [0] [9] 2 true) = .kvs [([5], []), ([2], [21])] ∧
    C12refObs (C12refRun { m := exS } exOps) (.range [0] [9] 2 true) = .kvs [([5], []), ([2], [21])] := by
  decide

/-! ## 2. commit classification: the Added / Updated / Deleted lists, exactly -/

/-- the keys named by a diff -/
def C12diffKeys (d : Diff) : List Bytes := d.added ++ d.updated.map (·.1) ++ d.deleted.map (·.1)

/-- `Added` = the keys absent from the database before and present after the commit (a key that is
created and deleted again inside the overlay, in any order and any number of times, is in no list). -/
theorem C12_diff_added_iff (st : St) (h : C12Inv st) (k : Bytes) :
    k ∈ (commit st).2.added ↔ slookup st.store k = none ∧ (eff st k).isSome = true := by
  rw [commit_diff]
  simp only
  rw [mem_diffAdded _ h.cacheOk.nodupC]
  constructor
  · rintro ⟨cv, hl, hi⟩
    have h1 := h.cacheOk.initOk k cv hl
    have hd : cv.deleted = false := by
      cases hd : cv.deleted with
      | false => rfl
      | true => exact absurd hi (h.cacheOk.delOk k cv hl hd)
    refine ⟨by rw [← h1, hi], ?_⟩
    simp [eff, effC, hl, hd]
  · rintro ⟨hs, he⟩
    cases hl : clookup st.cache k with
    | none => simp [eff, effC, hl, hs] at he
    | some cv => exact ⟨cv, rfl, by rw [h.cacheOk.initOk k cv hl, hs]⟩

/-- `Deleted` = the keys present before and absent after, each with its value before (set-then-delete
and delete-set-delete of a stored key end here, never in `Updated`). -/
theorem C12_diff_deleted_iff (st : St) (h : C12Inv st) (k i : Bytes) :
    (k, i) ∈ (commit st).2.deleted ↔ slookup st.store k = some i ∧ eff st k = none := by
  rw [commit_diff]
  simp only
  rw [mem_diffDeleted _ h.cacheOk.nodupC]
  constructor
  · rintro ⟨cv, hl, hi, hd⟩
    refine ⟨by rw [← h.cacheOk.initOk k cv hl, hi], ?_⟩
    simp [eff, effC, hl, hd]
  · rintro ⟨hs, he⟩
    cases hl : clookup st.cache k with
    | none => simp [eff, effC, hl, hs] at he
    | some cv =>
      refine ⟨cv, rfl, by rw [h.cacheOk.initOk k cv hl, hs], ?_⟩
      cases hd : cv.deleted with
      | true => rfl
      | false => simp [eff, effC, hl, hd] at he

/-- `Updated` = the keys present before and after whose overlay entry is dirty, i.e. that were
*written* in this overlay — whether or not the final value differs from the old one — each with its
value before. -/
theorem C12_diff_updated_iff (st : St) (h : C12Inv st) (k i : Bytes) :
    (k, i) ∈ (commit st).2.updated ↔
      slookup st.store k = some i ∧ (eff st k).isSome = true ∧
        ∃ cv, clookup st.cache k = some cv ∧ cv.dirty = true := by
  rw [commit_diff]
  simp only
  rw [mem_diffUpdated _ h.cacheOk.nodupC]
  constructor
  · rintro ⟨cv, hl, hi, hd, hdi⟩
    refine ⟨by rw [← h.cacheOk.initOk k cv hl, hi], ?_, cv, hl, hdi⟩
    simp [eff, effC, hl, hd]
  · rintro ⟨hs, he, cv, hl, hdi⟩
    refine ⟨cv, hl, by rw [h.cacheOk.initOk k cv hl, hs], ?_, hdi⟩
    cases hd : cv.deleted with
    | false => rfl
    | true => simp [eff, effC, hl, hd] at he

/-- every key whose value really changed is in `Updated` … -/
theorem C12_diff_updated_of_changed (st : St) (h : C12Inv st) (k i v : Bytes)
    (hs : slookup st.store k = some i) (he : eff st k = some v) (hne : v ≠ i) :
    (k, i) ∈ (commit st).2.updated := by
  rw [C12_diff_updated_iff st h]
  refine ⟨hs, by simp [he], ?_⟩
  cases hl : clookup st.cache k with
  | none => simp [eff, effC, hl, hs] at he; exact absurd he.symm hne
  | some cv =>
    refine ⟨cv, rfl, ?_⟩
    cases hd : cv.deleted with
    | true => simp [eff, effC, hl, hd] at he
    | false =>
      simp [eff, effC, hl, hd] at he
      cases hdi : cv.dirty with
      | true => rfl
      | false =>
        exfalso
        have h1 := h.cacheOk.initOk k cv hl
        rw [hs] at h1
        rcases h.cacheOk.cleanOk k cv hl hdi hd with h2 | h2
        · rw [h1] at h2; cases h2
        · rw [h1, he] at h2; cases h2; exact hne rfl

/-- … the diff is complete: a key named by no list holds the same value before and after. -/
theorem C12_diff_complete (st : St) (h : C12Inv st) (k : Bytes)
    (hk : k ∉ C12diffKeys (commit st).2) :
    slookup (commit st).1.store k = slookup st.store k := by
  rw [C12_commit_exact st h k]
  simp only [C12diffKeys, List.mem_append, List.mem_map, not_or, not_exists, not_and] at hk
  obtain ⟨⟨ha, hu⟩, hd⟩ := hk
  cases hs : slookup st.store k with
  | none =>
    cases he : eff st k with
    | none => rfl
    | some v => exact absurd ((C12_diff_added_iff st h k).mpr ⟨hs, by simp [he]⟩) ha
  | some i =>
    cases he : eff st k with
    | none => exact absurd rfl (hd (k, i) ((C12_diff_deleted_iff st h k i).mpr ⟨hs, he⟩))
    | some v =>
      by_cases hv : v = i
      · rw [hv]
      · exact absurd rfl (hu (k, i) (C12_diff_updated_of_changed st h k i v hs he hv))

/-- The three lists name pairwise different keys, each at most once. -/
theorem C12_diff_disjoint (st : St) (h : C12Inv st) : (C12diffKeys (commit st).2).Nodup := by
  unfold C12diffKeys
  rw [commit_diff]
  exact diff_keys_nodup st.cache h.cacheOk.nodupC

/-- The diff determines the state before the commit on its keys (added: absent; updated / deleted:
the recorded value) and the state after it (added / updated: present; deleted: absent). -/
theorem C12_diff_determines_states (st : St) (h : C12Inv st) (k : Bytes) :
    (k ∈ (commit st).2.added →
      slookup st.store k = none ∧ (slookup (commit st).1.store k).isSome = true) ∧
    (∀ i, (k, i) ∈ (commit st).2.updated →
      slookup st.store k = some i ∧ (slookup (commit st).1.store k).isSome = true) ∧
    (∀ i, (k, i) ∈ (commit st).2.deleted →
      slookup st.store k = some i ∧ slookup (commit st).1.store k = none) := by
  rw [C12_commit_exact st h k]
  refine ⟨fun hm => (C12_diff_added_iff st h k).mp hm, fun i hm => ?_,
    fun i hm => (C12_diff_deleted_iff st h k i).mp hm⟩
  have := (C12_diff_updated_iff st h k i).mp hm
  exact ⟨this.1, this.2.1⟩

/-! the classifying sequences on a concrete database: key `[1]`, `[2]`, `[4]` stored, `[7]`, `[8]`
absent -/
private def exClass : St :=
  run { store := exS }
    [.set [1] [11], .del [1],                 -- stored: set then delete        → Deleted (old value)
     .del [2], .set [2] [22],                 -- stored: delete then set        → Updated (old value)
     .set [4] [40],                           -- stored: rewritten, same value  → Updated
     .set [7] [70], .del [7],                 -- absent: set then delete        → nowhere
     .del [8], .set [8] [80], .del [8], .set [8] [81],   -- absent: recreated    → Added
     .get [1, 0]]                             -- only read                      → nowhere
example : C12Inv exClass :=
  C12_cache_invariant _ (C12_inv_init exS (by unfold NoDupKeys exS; decide)) _
example : (commit exClass).2 =
    { added := [[8]], updated := [([4], [40]), ([2], [20])], deleted := [([1], [10])] } := by decide
/-- the converse of `C12_diff_updated_of_changed` fails: a rewritten key is in `Updated` although
its value did not change -/
example : ([4], [40]) ∈ (commit exClass).2.updated ∧ eff exClass [4] = slookup exClass.store [4] := by
  decide

/-! ## 3. scans in terms of the effective map only -/

/-- The result of a staged scan depends only on the effective values of the keys the filter
selects — not on what is cached, on the history, or on any other key. -/
theorem C12_scan_congr (st st' : St) (h : C12Inv st) (h' : C12Inv st') (f : Bytes → Bool)
    (he : ∀ k, f k = true → eff st k = eff st' k) (limit : Int) (rev : Bool) :
    (scan st f limit rev).2 = (scan st' f limit rev).2 := by
  rw [C12_scan_refines st h f limit rev, C12_scan_refines st' h' f limit rev]
  congr 1
  apply sortDir_eq_of_mem_iff _ _ (nodup_filter _ _ (nodup_commit st h.nodupS))
    (nodup_filter _ _ (nodup_commit st' h'.nodupS))
  intro ⟨k, v⟩
  simp only [List.mem_filter]
  rw [← slookup_iff_mem _ (nodup_commit st h.nodupS), ← slookup_iff_mem _ (nodup_commit st' h'.nodupS),
    C12_commit_exact st h k, C12_commit_exact st' h' k]
  constructor
  · rintro ⟨h1, h2⟩; exact ⟨by rw [← he k h2]; exact h1, h2⟩
  · rintro ⟨h1, h2⟩; exact ⟨by rw [he k h2]; exact h1, h2⟩

/-- An unlimited staged scan returns exactly the selected keys that are effectively present, each
with its effective value … -/
theorem C12_scan_mem_iff (st : St) (h : C12Inv st) (f : Bytes → Bool) (rev : Bool) (k v : Bytes) :
    (k, v) ∈ (scan st f (-1) rev).2 ↔ f k = true ∧ eff st k = some v := by
  rw [C12_scan_refines st h f (-1) rev]
  simp only [applyLimit, Int.reduceNeg, Int.reduceLT, if_true, mem_sortDir', List.mem_filter]
  rw [← slookup_iff_mem _ (nodup_commit st h.nodupS), C12_commit_exact st h k]
  exact and_comm

private theorem blt_of_ble_ne (a b : Bytes) (h : ble a b = true) (hne : a ≠ b) : blt a b = true := by
  unfold ble at h
  unfold blt
  cases hc : bcmp a b with
  | lt => rfl
  | eq => exact absurd ((bcmp_eq_iff a b).mp hc) hne
  | gt => simp [hc] at h

private theorem pairwise_strict (l : List KV) (hnd : NoDupKeys l) (le : Bytes → Bytes → Bool)
    (hp : l.Pairwise (fun x y => le x.1 y.1 = true)) :
    l.Pairwise (fun x y => le x.1 y.1 = true ∧ x.1 ≠ y.1) := by
  induction l with
  | nil => exact List.Pairwise.nil
  | cons a r ih =>
    unfold NoDupKeys at hnd
    simp only [List.map_cons, List.nodup_cons] at hnd
    have hp' := List.pairwise_cons.mp hp
    refine List.pairwise_cons.mpr ⟨fun y hy => ⟨hp'.1 y hy, ?_⟩, ih hnd.2 hp'.2⟩
    intro heq
    exact hnd.1 (List.mem_map.mpr ⟨y, hy, heq.symm⟩)

/-- … in strictly ascending key order (strictly descending when `reverse`), for every limit … -/
theorem C12_scan_sorted (st : St) (h : C12Inv st) (f : Bytes → Bool) (limit : Int) :
    ((scan st f limit false).2).Pairwise (fun x y => blt x.1 y.1 = true) ∧
    ((scan st f limit true).2).Pairwise (fun x y => blt y.1 x.1 = true) := by
  have hnd := nodup_filter _ (fun kv => f kv.1) (nodup_commit st h.nodupS)
  have hsub : ∀ (l : List KV), (applyLimit l limit).Sublist l := by
    intro l; unfold applyLimit; split
    · exact List.Sublist.refl _
    · exact List.take_sublist _ _
  constructor
  · rw [C12_scan_refines st h f limit false]
    refine List.Pairwise.sublist (hsub _) ?_
    simp only [sortDir, Bool.false_eq_true, if_false]
    have hnd' : NoDupKeys (isort kvLE ((commit st).1.store.filter fun kv => f kv.1)) := by
      unfold NoDupKeys at *
      exact ((isort_perm _ _).map _).nodup_iff.mpr hnd
    exact (pairwise_strict _ hnd' ble (isort_pairwise kvLE kvLE_trans' kvLE_total' _)).imp
      (fun hxy => blt_of_ble_ne _ _ hxy.1 hxy.2)
  · rw [C12_scan_refines st h f limit true]
    refine List.Pairwise.sublist (hsub _) ?_
    simp only [sortDir, if_true]
    have hnd' : NoDupKeys (isort kvGE ((commit st).1.store.filter fun kv => f kv.1)) := by
      unfold NoDupKeys at *
      exact ((isort_perm _ _).map _).nodup_iff.mpr hnd
    exact (pairwise_strict _ hnd' (fun a b => ble b a)
      (isort_pairwise kvGE kvGE_trans' kvGE_total' _)).imp
      (fun hxy => blt_of_ble_ne _ _ hxy.1 (Ne.symm hxy.2))

/-- … and a limit `n ≥ 0` keeps the first `n` entries of the unlimited result (in particular limit
`0` returns nothing; deleted keys never consume the limit).  No hypothesis on the state. -/
theorem C12_scan_limit (st : St) (f : Bytes → Bool) (n : Nat) (rev : Bool) :
    (scan st f n rev).2 = ((scan st f (-1) rev).2).take n ∧ (scan st f 0 rev).2 = [] := by
  unfold scan mergeSortLimit applyLimit
  have : ¬ ((n : Int) < 0) := by omega
  simp [this]

/-- A scan whose filter selects no key (`start > end`, an impossible prefix) is empty — for every
state, limit and direction. -/
theorem C12_scan_empty (st : St) (f : Bytes → Bool) (hf : ∀ k, f k = false) (limit : Int) (rev : Bool) :
    (scan st f limit rev).2 = [] := by
  have h1 : st.store.filter (fun kv => f kv.1) = [] := by
    rw [List.filter_eq_nil_iff]; intro e _; simp [hf e.1]
  have h2 : ∀ l : List KV, sortDir [] rev = ([] : List KV) := by
    intro _; unfold sortDir; cases rev <;> rfl
  have h3 : ∀ c : Cache, cacheLive c f = [] := by
    intro c; unfold cacheLive
    rw [List.filterMap_eq_nil_iff]; intro e _; simp [hf e.1]
  unfold scan mergeSortLimit
  simp only [h1, h2 [], absorb, h3, List.filter_nil, List.append_nil]
  unfold applyLimit; split <;> simp

theorem C12_range_empty (st : St) (s e : Bytes) (hse : ble s e = false) (limit : Int) (rev : Bool) :
    (range st s e limit rev).2 = [] := by
  apply C12_scan_empty
  intro k
  unfold inRange
  cases h1 : ble s k with
  | false => rfl
  | true =>
    cases h2 : ble k e with
    | false => rfl
    | true => rw [ble_trans _ _ _ h1 h2] at hse; cases hse

example : (scan exClass (inRange [0] [9]) (-1) false).2 =
    [([1, 0], [30]), ([2], [22]), ([4], [40]), ([8], [81])] := by decide
example : (range exClass [9] [0] (-1) false).2 = [] := C12_range_empty _ _ _ (by decide) _ _

/-! ## 4. prefix views

The model has no view objects: a view `WithPrefix p` (nested: `WithPrefix p₁ … WithPrefix pₙ`,
`p = p₁ ++ … ++ pₙ`) shares the overlay of the root, and the driver — as `Database.getKey` — performs
every operation of the view on the full key `p ++ key` and strips `p` from the keys a scan returns.
The definitions below are exactly these driver operations.  (Aliasing of the Go slices passed in and
out, and views that outlive a `RestoreSnapshot` of the root, are outside the model.) -/

def C12vget (p : Bytes) (st : St) (k : Bytes) : St × Option Bytes := DiffDB.get st (p ++ k)
def C12vset (p : Bytes) (st : St) (k v : Bytes) : St := DiffDB.set st (p ++ k) v
def C12vdel (p : Bytes) (st : St) (k : Bytes) : St := del st (p ++ k)
/-- `key[prefixLength:]` -/
def C12strip (p : Bytes) (l : List KV) : List KV := l.map fun kv => (kv.1.drop p.length, kv.2)
def C12vrange (p : Bytes) (st : St) (s e : Bytes) (limit : Int) (rev : Bool) : St × List KV :=
  ((range st (p ++ s) (p ++ e) limit rev).1, C12strip p (range st (p ++ s) (p ++ e) limit rev).2)
def C12viterate (p : Bytes) (st : St) (q : Bytes) (limit : Int) (rev : Bool) : St × List KV :=
  ((iterate st (p ++ q) limit rev).1, C12strip p (iterate st (p ++ q) limit rev).2)

/-- the database as seen through the view: the entries whose key has the prefix, prefix removed -/
def C12restrict (p : Bytes) (s : Store) : Store :=
  s.filterMap fun kv => if hasPrefix kv.1 p then some (kv.1.drop p.length, kv.2) else none

private theorem strip_append (p q : Bytes) (l : List KV) :
    C12strip (p ++ q) l = C12strip q (C12strip p l) := by
  unfold C12strip
  simp only [List.map_map]
  congr 1; funext kv
  simp only [Function.comp, List.length_append, List.drop_drop]

/-- **View algebra**: the view of a view is the view of the concatenated prefix, for every
operation, at any nesting depth; and the same holds for the restricted database. -/
theorem C12_view_nesting (p q : Bytes) (st : St) :
    (∀ k, C12vget (p ++ q) st k = C12vget p st (q ++ k)) ∧
    (∀ k v, C12vset (p ++ q) st k v = C12vset p st (q ++ k) v) ∧
    (∀ k, C12vdel (p ++ q) st k = C12vdel p st (q ++ k)) ∧
    (∀ s e l r, C12vrange (p ++ q) st s e l r =
      ((C12vrange p st (q ++ s) (q ++ e) l r).1, C12strip q (C12vrange p st (q ++ s) (q ++ e) l r).2)) ∧
    (∀ x l r, C12viterate (p ++ q) st x l r =
      ((C12viterate p st (q ++ x) l r).1, C12strip q (C12viterate p st (q ++ x) l r).2)) ∧
    (∀ s, C12restrict (p ++ q) s = C12restrict q (C12restrict p s)) := by
  refine ⟨fun k => ?_, fun k v => ?_, fun k => ?_, fun s e l r => ?_, fun x l r => ?_, fun s => ?_⟩
  · simp only [C12vget, List.append_assoc]
  · simp only [C12vset, List.append_assoc]
  · simp only [C12vdel, List.append_assoc]
  · simp only [C12vrange, List.append_assoc, strip_append]
  · simp only [C12viterate, List.append_assoc, strip_append]
  · unfold C12restrict
    rw [List.filterMap_filterMap]
    congr 1; funext kv
    by_cases h1 : hasPrefix kv.1 p = true
    · by_cases h2 : hasPrefix (kv.1.drop p.length) q = true
      · have := (hasPrefix_append_iff kv.1 p q).mpr ⟨h1, h2⟩
        simp [h1, h2, this, List.drop_drop]
      · have : ¬ hasPrefix kv.1 (p ++ q) = true := fun h => h2 ((hasPrefix_append_iff kv.1 p q).mp h).2
        simp [h1, h2, this]
    · have : ¬ hasPrefix kv.1 (p ++ q) = true := fun h => h1 ((hasPrefix_append_iff kv.1 p q).mp h).1
      simp [h1, this]

private theorem restrict_lookup (p : Bytes) (s : Store) (k : Bytes) :
    slookup (C12restrict p s) k = slookup s (p ++ k) := by
  induction s with
  | nil => rfl
  | cons e r ih =>
    obtain ⟨a, b⟩ := e
    unfold C12restrict at ih ⊢
    simp only [List.filterMap_cons]
    by_cases h1 : hasPrefix a p = true
    · simp only [h1, if_true, slookup]
      have ha := hasPrefix_eq_append a p h1
      by_cases h2 : a.drop p.length = k
      · have : a = p ++ k := by rw [← h2]; exact ha
        simp [this]
      · have : ¬ a = p ++ k := by
          intro h; apply h2; rw [h]; simp
        simp only [h2, this, if_false]
        exact ih
    · have : ¬ a = p ++ k := by
        intro h; apply h1; rw [h]; exact hasPrefix_append p k
      simp only [h1, slookup, this, if_false]
      exact ih

/-- the scan of a view: strip ∘ (scan of the full keys) = scan of the restricted database, whenever
the full-key filter `g` selects only keys of the view and agrees with the view's filter `g'` -/
private theorem restrict_scan (p : Bytes) (g g' : Bytes → Bool)
    (hg : ∀ a, g a = true → hasPrefix a p = true) (hgg : ∀ a, g (p ++ a) = g' a)
    (s : Store) (limit : Int) (rev : Bool) :
    C12strip p (applyLimit (sortDir (s.filter fun kv => g kv.1) rev) limit) =
      applyLimit (sortDir ((C12restrict p s).filter fun kv => g' kv.1) rev) limit := by
  unfold C12strip
  rw [← applyLimit_map, ← sortDir_strip p _ rev
    (fun e he => hg e.1 (by simpa using (List.mem_filter.mp he).2))]
  congr 2
  induction s with
  | nil => rfl
  | cons e r ih =>
    obtain ⟨a, b⟩ := e
    unfold C12restrict at ih ⊢
    simp only [List.filterMap_cons, List.filter_cons]
    by_cases h1 : hasPrefix a p = true
    · have ha := hasPrefix_eq_append a p h1
      have hga : g a = g' (a.drop p.length) := by
        conv => lhs; rw [ha]
        exact hgg _
      simp only [h1, if_true, List.filter_cons, hga]
      split
      · simp only [List.map_cons, ih]
      · exact ih
    · have hga : g a = false := by
        cases h : g a with
        | false => rfl
        | true => exact absurd (hg a h) h1
      simp only [h1, hga]
      exact ih

/-- **A view reads the restricted database**: `Get` through the view `p` returns what the database
restricted to the keys with prefix `p` (with the staged writes applied) holds under the key. -/
theorem C12_view_get_refines (p : Bytes) (st : St) (h : C12Inv st) (k : Bytes) :
    (C12vget p st k).2 = slookup (C12restrict p (commit st).1.store) k := by
  rw [restrict_lookup, C12_commit_exact st h]
  exact (C12_get_refines st h (p ++ k)).1

/-- `Range` through the view `p` = `IterateRange` of the restricted database: every returned key
had the prefix (so stripping it is well defined), and bounds, order, limit and direction commute
with the restriction. -/
theorem C12_view_range_refines (p : Bytes) (st : St) (h : C12Inv st) (s e : Bytes) (limit : Int)
    (rev : Bool) :
    (C12vrange p st s e limit rev).2 = dbRange (C12restrict p (commit st).1.store) s e limit rev := by
  unfold C12vrange
  simp only
  rw [C12_range_refines st h]
  unfold dbRange
  apply restrict_scan p (inRange (p ++ s) (p ++ e)) (inRange s e)
  · intro a ha
    unfold inRange at ha
    simp only [Bool.and_eq_true] at ha
    exact hasPrefix_of_between p s e a ha.1 ha.2
  · intro a
    simp only [inRange, ble_append_left]

/-- `Iterate` through the view `p` = `Iterate` of the restricted database. -/
theorem C12_view_iterate_refines (p : Bytes) (st : St) (h : C12Inv st) (q : Bytes) (limit : Int)
    (rev : Bool) :
    (C12viterate p st q limit rev).2 = dbIterate (C12restrict p (commit st).1.store) q limit rev := by
  unfold C12viterate
  simp only
  rw [C12_iterate_refines st h]
  unfold dbIterate
  apply restrict_scan p (fun k => hasPrefix k (p ++ q)) (fun k => hasPrefix k q)
  · intro a ha
    exact ((hasPrefix_append_iff a p q).mp ha).1
  · intro a
    exact hasPrefix_append_left p a q

/-- **Writes through one view are visible through every view and the root** (`q = []`): after
`Set k v` through view `p`, `Get k'` through any view `q` returns `v` when both name the same full
key and is unchanged otherwise; likewise for `Del`. -/
theorem C12_view_write_visible (p : Bytes) (st : St) (h : C12Inv st) (k v : Bytes) (q k' : Bytes) :
    (C12vget q (C12vset p st k v) k').2 =
      (if p ++ k = q ++ k' then some v else (C12vget q st k').2) ∧
    (C12vget q (C12vdel p st k) k').2 =
      (if p ++ k = q ++ k' then none else (C12vget q st k').2) := by
  unfold C12vget C12vset C12vdel
  have hs := C12_set_refines st h (p ++ k) v
  have hd := C12_del_refines st h (p ++ k)
  rw [(C12_get_refines _ hs.2 (q ++ k')).1, (C12_get_refines _ hd.2 (q ++ k')).1,
    (C12_get_refines st h (q ++ k')).1, hs.1, hd.1]
  exact ⟨rfl, rfl⟩

/-- sibling views (neither prefix extends the other) never name the same full key -/
theorem C12_view_siblings_disjoint (p q : Bytes) (hpq : hasPrefix p q = false)
    (hqp : hasPrefix q p = false) (k k' : Bytes) : p ++ k ≠ q ++ k' := by
  induction p generalizing q with
  | nil => simp [hasPrefix_nil] at hqp
  | cons x xs ih =>
    cases q with
    | nil => simp [hasPrefix_nil] at hpq
    | cons y ys =>
      simp only [hasPrefix] at hpq hqp
      intro heq
      simp only [List.cons_append, List.cons.injEq] at heq
      obtain ⟨rfl, h2⟩ := heq
      simp only [beq_self_eq_true, Bool.true_and] at hpq hqp
      exact ih ys hpq hqp h2

/-- **Sibling views are isolated**: a write or delete through view `p` changes no point read and no
scan (any bounds, limit, direction) through a sibling view `q`. -/
theorem C12_view_siblings_isolated (p q : Bytes) (hpq : hasPrefix p q = false)
    (hqp : hasPrefix q p = false) (st : St) (h : C12Inv st) (k v : Bytes) :
    (∀ k', (C12vget q (C12vset p st k v) k').2 = (C12vget q st k').2 ∧
           (C12vget q (C12vdel p st k) k').2 = (C12vget q st k').2) ∧
    (∀ s e l r, (C12vrange q (C12vset p st k v) s e l r).2 = (C12vrange q st s e l r).2 ∧
                (C12vrange q (C12vdel p st k) s e l r).2 = (C12vrange q st s e l r).2) ∧
    (∀ x l r, (C12viterate q (C12vset p st k v) x l r).2 = (C12viterate q st x l r).2 ∧
              (C12viterate q (C12vdel p st k) x l r).2 = (C12viterate q st x l r).2) := by
  have hs := C12_set_refines st h (p ++ k) v
  have hd := C12_del_refines st h (p ++ k)
  have hne : ∀ a, hasPrefix a q = true → p ++ k ≠ a := by
    intro a ha heq
    rw [hasPrefix_eq_append a q ha] at heq
    exact C12_view_siblings_disjoint p q hpq hqp _ _ heq
  refine ⟨fun k' => ?_, fun s e l r => ?_, fun x l r => ?_⟩
  · have := C12_view_write_visible p st h k v q k'
    rw [this.1, this.2]
    simp [C12_view_siblings_disjoint p q hpq hqp k k']
  · unfold C12vrange C12vset C12vdel range
    simp only
    have hsel : ∀ a, inRange (q ++ s) (q ++ e) a = true → p ++ k ≠ a := by
      intro a ha
      unfold inRange at ha
      simp only [Bool.and_eq_true] at ha
      exact hne a (hasPrefix_of_between q s e a ha.1 ha.2)
    rw [C12_scan_congr _ st hs.2 h _ (fun a ha => by rw [hs.1 a, if_neg (hsel a ha)]),
      C12_scan_congr _ st hd.2 h _ (fun a ha => by rw [hd.1 a, if_neg (hsel a ha)])]
    exact ⟨rfl, rfl⟩
  · unfold C12viterate C12vset C12vdel iterate
    simp only
    have hsel : ∀ a, hasPrefix a (q ++ x) = true → p ++ k ≠ a :=
      fun a ha => hne a ((hasPrefix_append_iff a q x).mp ha).1
    rw [C12_scan_congr _ st hs.2 h _ (fun a ha => by rw [hs.1 a, if_neg (hsel a ha)]),
      C12_scan_congr _ st hd.2 h _ (fun a ha => by rw [hd.1 a, if_neg (hsel a ha)])]
    exact ⟨rfl, rfl⟩

/-! views `[1]`, `[1,0]` (nested in `[1]`) and `[2]` over one overlay -/
private def exV : St :=
  C12vdel [2] (C12vset [1, 0] (C12vset [1] { store := exS } [5] [55]) [] [31]) []
example : C12Inv exV := by
  unfold exV C12vdel C12vset
  exact (C12_del_refines _ (C12_set_refines _ (C12_set_refines _
    (C12_inv_init exS (by unfold NoDupKeys exS; decide)) _ _).2 _ _).2 _).2
example : (C12vrange [1] exV [] [9] (-1) false).2 = [([], [10]), ([0], [31]), ([5], [55])] ∧
    dbRange (C12restrict [1] (commit exV).1.store) [] [9] (-1) false =
      [([], [10]), ([0], [31]), ([5], [55])] := by decide
example : (C12viterate [1] exV [0] 5 true).2 = [([0], [31])] ∧ (C12vget [] exV [1, 5]).2 = some [55] ∧
    (C12vget [2] exV []).2 = none := by decide
example : hasPrefix [1] [2] = false ∧ hasPrefix [2] [1] = false := by decide

/-! ## 5. revert ∘ commit is the identity on the database -/

/-- `RevertDiff` after `Commit` restores the database itself: the same entries (as a permutation of
the association list — pebble has no entry order other than the key order), hence … -/
theorem C12_revert_perm (st : St) (h : C12Inv st) :
    (revertDiff (commit st).1.store (commit st).2).Perm st.store :=
  SameMap.perm (fun k => C12_revert_exact st h k)
    (nodup_revertDiff (nodup_commit st h.nodupS) _) h.nodupS

/-- … every scan of the reverted database equals the scan of the database before the commit. -/
theorem C12_revert_scans (st : St) (h : C12Inv st) :
    (∀ a b l r, dbRange (revertDiff (commit st).1.store (commit st).2) a b l r = dbRange st.store a b l r) ∧
    (∀ p l r, dbIterate (revertDiff (commit st).1.store (commit st).2) p l r = dbIterate st.store p l r) := by
  have hsm : SameMap (revertDiff (commit st).1.store (commit st).2) st.store :=
    fun k => C12_revert_exact st h k
  have hnd := nodup_revertDiff (nodup_commit st h.nodupS) (commit st).2
  constructor
  · intro a b l r; unfold dbRange; rw [sortDir_filter_sameMap hsm hnd h.nodupS]
  · intro p l r; unfold dbIterate; rw [sortDir_filter_sameMap hsm hnd h.nodupS]

/-- the staged store never writes to the database before `Commit` -/
theorem C12_store_untouched (st : St) (ops : List Op) : (run st ops).store = st.store := by
  unfold run
  induction ops generalizing st with
  | nil => rfl
  | cons op r ih =>
    rw [List.foldl_cons, ih]
    cases op with
    | get k => exact (get_frame st k).1
    | set k v => exact (set_frame st k v).1
    | del k => exact (del_frame st k).1
    | range s e l rv => rfl
    | iterate p l rv => rfl
    | snapshot => rfl
    | restore id => simp only [step, restore]; split <;> rfl
    | deleteSnapshot id => rfl

/-- every operation sees the database only through its contents: replacing the database by one
with the same contents (e.g. the reverted one) commutes with every step -/
private theorem step_store_congr (st : St) (s' : Store) (hsm : SameMap st.store s')
    (hnd : NoDupKeys st.store) (hnd' : NoDupKeys s') (op : Op) :
    step { st with store := s' } op = { step st op with store := s' } := by
  cases op with
  | get k =>
    simp only [step, DiffDB.get]
    rw [← hsm k]
    split
    · split <;> rfl
    · split <;> rfl
  | set k v =>
    simp only [step, DiffDB.set, ensureCache]
    rw [← hsm k]
    split
    · rfl
    · cases slookup st.store k <;> rfl
  | del k =>
    simp only [step, del, ensureCache]
    rw [← hsm k]
    split
    · rfl
    · cases slookup st.store k <;> rfl
  | range s e l rv =>
    simp only [step, range, scan]
    rw [sortDir_filter_sameMap hsm hnd hnd']
  | iterate p l rv =>
    simp only [step, iterate, scan]
    rw [sortDir_filter_sameMap hsm hnd hnd']
  | snapshot => rfl
  | restore id => simp only [step, restore]; split <;> rfl
  | deleteSnapshot id => rfl

private theorem run_store_congr (st : St) (s' : Store) (hsm : SameMap st.store s')
    (hnd : NoDupKeys st.store) (hnd' : NoDupKeys s') (ops : List Op) :
    run { st with store := s' } ops = { run st ops with store := s' } := by
  induction ops generalizing st with
  | nil => rfl
  | cons op r ih =>
    have h1 : (step st op).store = st.store := C12_store_untouched st [op]
    show run (step { st with store := s' } op) r = { run (step st op) r with store := s' }
    rw [step_store_congr st s' hsm hnd hnd' op]
    exact ih (step st op) (by rw [h1]; exact hsm) (by rw [h1]; exact hnd)

/-- **Re-applying after a revert** (`commit ∘ revert ∘ commit`): running the same history on the
reverted database and committing again returns the same diff and the same database as the first
commit. -/
theorem C12_reapply_after_revert (s : Store) (hs : NoDupKeys s) (ops : List Op) :
    let c1 := commit (run { store := s } ops)
    let c2 := commit (run { store := revertDiff c1.1.store c1.2 } ops)
    c2.2 = c1.2 ∧ c2.1.store.Perm c1.1.store := by
  intro c1 c2
  have hinv : C12Inv (run { store := s } ops) := C12_cache_invariant _ (C12_inv_init s hs) ops
  have hst : (run { store := s } ops).store = s := C12_store_untouched _ ops
  have hsm : SameMap s (revertDiff c1.1.store c1.2) := by
    intro k
    have := C12_revert_exact _ hinv k
    rw [hst] at this
    exact this.symm
  have hnd' : NoDupKeys (revertDiff c1.1.store c1.2) :=
    nodup_revertDiff (nodup_commit _ hinv.nodupS) _
  have hrun := run_store_congr { store := s } (revertDiff c1.1.store c1.2) hsm hs hnd' ops
  have hrun' : run { store := revertDiff c1.1.store c1.2 } ops =
      { run { store := s } ops with store := revertDiff c1.1.store c1.2 } := hrun
  refine ⟨?_, ?_⟩
  · show (commit (run { store := revertDiff c1.1.store c1.2 } ops)).2 = (commit (run { store := s } ops)).2
    rw [hrun']
    exact (commit_diff _).trans (commit_diff (run { store := s } ops)).symm
  · apply SameMap.perm
    · intro k
      show slookup (commit (run { store := revertDiff c1.1.store c1.2 } ops)).1.store k =
        slookup (commit (run { store := s } ops)).1.store k
      rw [hrun']
      unfold commit
      simp only
      rw [commitCache_lookup' _ _ _ hinv.cacheOk.nodupC, commitCache_lookup' _ _ _ hinv.cacheOk.nodupC,
        hst, hsm k]
    · show NoDupKeys (commit (run { store := revertDiff c1.1.store c1.2 } ops)).1.store
      apply nodup_commit
      rw [hrun']
      exact hnd'
    · exact nodup_commit _ hinv.nodupS

/-- `k` blocks: each history runs on a fresh overlay over the current database and is committed.
Returns the final database and the diffs, latest first. -/
def C12rounds : Store → List (List Op) → Store × List Diff
  | s, [] => (s, [])
  | s, ops :: rest =>
    ((C12rounds (commit (run { store := s } ops)).1.store rest).1,
     (C12rounds (commit (run { store := s } ops)).1.store rest).2 ++ [(commit (run { store := s } ops)).2])

def C12revertAll (s : Store) (ds : List Diff) : Store := ds.foldl revertDiff s

private theorem nodup_revertAll (ds : List Diff) : ∀ (s : Store), NoDupKeys s →
    NoDupKeys (C12revertAll s ds) := by
  induction ds with
  | nil => intro s h; exact h
  | cons d r ih => intro s h; exact ih _ (nodup_revertDiff h d)

private theorem rounds_spec (hist : List (List Op)) : ∀ (s : Store), NoDupKeys s →
    NoDupKeys (C12rounds s hist).1 ∧
      SameMap (C12revertAll (C12rounds s hist).1 (C12rounds s hist).2) s := by
  induction hist with
  | nil => intro s h; exact ⟨h, fun _ => rfl⟩
  | cons ops rest ih =>
    intro s hs
    have hinv : C12Inv (run { store := s } ops) := C12_cache_invariant _ (C12_inv_init s hs) ops
    have hst : (run { store := s } ops).store = s := C12_store_untouched _ ops
    obtain ⟨h1, h2⟩ := ih (commit (run { store := s } ops)).1.store (nodup_commit _ hinv.nodupS)
    refine ⟨h1, ?_⟩
    have hfold : ∀ (x : Store) (ds : List Diff) (d : Diff),
        C12revertAll x (ds ++ [d]) = revertDiff (C12revertAll x ds) d := by
      intro x ds d; simp [C12revertAll, List.foldl_append]
    simp only [C12rounds, hfold]
    intro k
    rw [sameMap_revertDiff h2 _ k]
    have := C12_revert_exact _ hinv k
    rw [hst] at this
    exact this

/-- **Chains of commits**: applying the diffs of `k` successive commits in reverse order restores
the database the chain started from. -/
theorem C12_revert_chain (s : Store) (hs : NoDupKeys s) (hist : List (List Op)) :
    (C12revertAll (C12rounds s hist).1 (C12rounds s hist).2).Perm s := by
  obtain ⟨h1, h2⟩ := rounds_spec hist s hs
  exact SameMap.perm h2 (nodup_revertAll _ _ h1) hs

private def exHist : List (List Op) :=
  [[.set [7] [70], .del [1]], [.del [7], .set [1] [12], .set [2] [23]], [.set [7] [71], .del [2]]]
example : (C12rounds exS exHist).2.length = 3 ∧
    dbRange (C12revertAll (C12rounds exS exHist).1 (C12rounds exS exHist).2) [] [255] (-1) false =
      dbRange exS [] [255] (-1) false ∧
    dbRange (C12rounds exS exHist).1 [] [255] (-1) false =
      [([1], [12]), ([1, 0], [30]), ([4], [40]), ([7], [71])] := by decide
/-- the order matters: the same diffs applied oldest first do not restore the database -/
example : slookup (C12revertAll (C12rounds exS exHist).1 (C12rounds exS exHist).2.reverse) [2] ≠
    slookup exS [2] := by decide
example : (commit (run { store := revertDiff (commit exClass).1.store (commit exClass).2 }
    [.set [1] [11], .del [1]])).2 = (commit (run { store := exS } [.set [1] [11], .del [1]])).2 := by
  decide

/-! ## 6. snapshots: exact restore, ids, consumed / deleted / unknown ids -/

/-- live snapshot ids are distinct and below the counter (ids are never recycled) -/
def C12SnapIds (st : St) : Prop :=
  (st.snaps.map (·.1)).Nodup ∧ ∀ e ∈ st.snaps, e.1 < st.snapCount

theorem C12_snapIds_init (s : Store) : C12SnapIds { store := s } := by
  simp [C12SnapIds]

private theorem snapIds_step (st : St) (h : C12SnapIds st) (op : Op) :
    C12SnapIds (step st op) ∧ st.snapCount ≤ (step st op).snapCount := by
  have hfilter : ∀ id, ((st.snaps.filter (fun e => e.1 ≠ id)).map (·.1)).Nodup ∧
      ∀ e ∈ st.snaps.filter (fun e => e.1 ≠ id), e.1 < st.snapCount :=
    fun id => ⟨List.Sublist.nodup (List.Sublist.map _ List.filter_sublist) h.1,
      fun e he => h.2 e (List.mem_filter.mp he).1⟩
  cases op with
  | get k =>
    obtain ⟨_, f2, f3⟩ := get_frame st k
    simp only [step, C12SnapIds, f2, f3]; exact ⟨h, Nat.le_refl _⟩
  | set k v =>
    obtain ⟨_, f2, f3⟩ := set_frame st k v
    simp only [step, C12SnapIds, f2, f3]; exact ⟨h, Nat.le_refl _⟩
  | del k =>
    obtain ⟨_, f2, f3⟩ := del_frame st k
    simp only [step, C12SnapIds, f2, f3]; exact ⟨h, Nat.le_refl _⟩
  | range s e l rv => exact ⟨h, Nat.le_refl _⟩
  | iterate p l rv => exact ⟨h, Nat.le_refl _⟩
  | snapshot =>
    refine ⟨⟨?_, ?_⟩, Nat.le_succ _⟩
    · simp only [step, snapshot, List.map_cons, List.nodup_cons]
      refine ⟨?_, h.1⟩
      intro hm
      obtain ⟨e, he, heq⟩ := List.mem_map.mp hm
      have := h.2 e he
      omega
    · intro e he
      simp only [step, snapshot, List.mem_cons] at he ⊢
      rcases he with rfl | he
      · exact Nat.lt_succ_self _
      · exact Nat.lt_succ_of_lt (h.2 e he)
  | restore id =>
    simp only [step, restore]
    split
    · exact ⟨h, Nat.le_refl _⟩
    · exact ⟨hfilter id, Nat.le_refl _⟩
  | deleteSnapshot id => exact ⟨hfilter id, Nat.le_refl _⟩

/-- **Snapshot ids** over every history: live ids stay distinct and below the counter, the counter
never decreases — so the id returned by `Snapshot` after any history (including restores and
deletions) is different from every live id and from every id issued before. -/
theorem C12_snapshot_ids (st : St) (h : C12SnapIds st) (ops : List Op) :
    C12SnapIds (run st ops) ∧ st.snapCount ≤ (run st ops).snapCount ∧
    st.snapCount ≤ (snapshot (run st ops)).2 ∧
    findSnap (run st ops).snaps (snapshot (run st ops)).2 = none := by
  have key : C12SnapIds (run st ops) ∧ st.snapCount ≤ (run st ops).snapCount := by
    unfold run
    induction ops generalizing st with
    | nil => exact ⟨h, Nat.le_refl _⟩
    | cons op r ih =>
      obtain ⟨h1, h2⟩ := snapIds_step st h op
      obtain ⟨h3, h4⟩ := ih (step st op) h1
      exact ⟨h3, Nat.le_trans h2 h4⟩
  refine ⟨key.1, key.2, key.2, ?_⟩
  simp only [snapshot]
  rw [findSnap_eq]
  cases hf : C12find (run st ops).snaps (run st ops).snapCount with
  | none => rfl
  | some c =>
    exfalso
    obtain ⟨e, he, heq⟩ : ∃ e ∈ (run st ops).snaps, e.1 = (run st ops).snapCount := by
      generalize (run st ops).snaps = l at hf
      induction l with
      | nil => simp [C12find] at hf
      | cons a r ih =>
        obtain ⟨i, c'⟩ := a
        simp only [C12find] at hf
        by_cases hi : i = (run st ops).snapCount
        · exact ⟨(i, c'), List.mem_cons_self, hi⟩
        · simp only [hi, if_false] at hf
          obtain ⟨e, he, heq⟩ := ih hf
          exact ⟨e, List.mem_cons_of_mem _ he, heq⟩
    have := key.1.2 e he
    omega

private theorem keep_step (op : Op) (s0 : St) (id : Nat) (c : Cache)
    (hop : C12KeepsSnapshot id op) (hlt : id < s0.snapCount) (hf : C12find s0.snaps id = some c) :
    id < (step s0 op).snapCount ∧ C12find (step s0 op).snaps id = some c := by
  cases op with
  | get k => obtain ⟨_, f2, f3⟩ := get_frame s0 k; simp only [step, f2, f3]; exact ⟨hlt, hf⟩
  | set k v => obtain ⟨_, f2, f3⟩ := set_frame s0 k v; simp only [step, f2, f3]; exact ⟨hlt, hf⟩
  | del k => obtain ⟨_, f2, f3⟩ := del_frame s0 k; simp only [step, f2, f3]; exact ⟨hlt, hf⟩
  | range s e l rv => exact ⟨hlt, hf⟩
  | iterate p l rv => exact ⟨hlt, hf⟩
  | snapshot =>
    refine ⟨Nat.lt_succ_of_lt hlt, ?_⟩
    simp only [step, snapshot, C12find]
    have : s0.snapCount ≠ id := by omega
    simp [this, hf]
  | restore i =>
    simp only [C12KeepsSnapshot] at hop
    simp only [step, restore]
    split
    · exact ⟨hlt, hf⟩
    · refine ⟨hlt, ?_⟩
      simp only [find_filter, Ne.symm hop, if_false]; exact hf
  | deleteSnapshot i =>
    simp only [C12KeepsSnapshot] at hop
    refine ⟨hlt, ?_⟩
    simp only [step, deleteSnapshot, find_filter, Ne.symm hop, if_false]; exact hf

/-- **Exact restore.**  Restoring a snapshot — after any history that does not restore or delete
that id, with other snapshots taken, restored and deleted in between, nested to any depth — succeeds
and gives back exactly the overlay and the database of the snapshot time, not only the same
effective values: a `Commit` after the restore writes the same database and returns the same diff
(same Added / Updated / Deleted classification) as a commit at snapshot time would have. -/
theorem C12_snapshot_restore_exact (st : St) (ops : List Op)
    (hops : ∀ op ∈ ops, C12KeepsSnapshot (snapshot st).2 op) :
    (restore (run (snapshot st).1 ops) (snapshot st).2).2 = true ∧
    (restore (run (snapshot st).1 ops) (snapshot st).2).1.cache = st.cache ∧
    (restore (run (snapshot st).1 ops) (snapshot st).2).1.store = st.store ∧
    commit (restore (run (snapshot st).1 ops) (snapshot st).2).1 = commit st := by
  have key : ∀ (ops : List Op) (s0 : St) (id : Nat) (c : Cache),
      (∀ op ∈ ops, C12KeepsSnapshot id op) → id < s0.snapCount → C12find s0.snaps id = some c →
      C12find (run s0 ops).snaps id = some c := by
    intro ops
    induction ops with
    | nil => intro s0 id c _ _ hf; exact hf
    | cons op r ih =>
      intro s0 id c hk hlt hf
      obtain ⟨h1, h2⟩ := keep_step op s0 id c (hk op List.mem_cons_self) hlt hf
      exact ih (step s0 op) id c (fun o ho => hk o (List.mem_cons_of_mem _ ho)) h1 h2
  have hfind := key ops (snapshot st).1 (snapshot st).2 st.cache hops
    (by simp [snapshot]) (by simp [snapshot, C12find])
  have hstore : (run (snapshot st).1 ops).store = st.store := C12_store_untouched _ ops
  have h1 : (restore (run (snapshot st).1 ops) (snapshot st).2).1.cache = st.cache := by
    simp only [restore, findSnap_eq, hfind]
  have h2 : (restore (run (snapshot st).1 ops) (snapshot st).2).1.store = st.store := by
    simp only [restore, findSnap_eq, hfind]; exact hstore
  refine ⟨by simp only [restore, findSnap_eq, hfind], h1, h2, ?_⟩
  unfold commit
  rw [h1, h2]

private theorem gone_step (op : Op) (s0 : St) (id : Nat)
    (hlt : id < s0.snapCount) (hf : C12find s0.snaps id = none) :
    id < (step s0 op).snapCount ∧ C12find (step s0 op).snaps id = none := by
  cases op with
  | get k => obtain ⟨_, f2, f3⟩ := get_frame s0 k; simp only [step, f2, f3]; exact ⟨hlt, hf⟩
  | set k v => obtain ⟨_, f2, f3⟩ := set_frame s0 k v; simp only [step, f2, f3]; exact ⟨hlt, hf⟩
  | del k => obtain ⟨_, f2, f3⟩ := del_frame s0 k; simp only [step, f2, f3]; exact ⟨hlt, hf⟩
  | range s e l rv => exact ⟨hlt, hf⟩
  | iterate p l rv => exact ⟨hlt, hf⟩
  | snapshot =>
    refine ⟨Nat.lt_succ_of_lt hlt, ?_⟩
    simp only [step, snapshot, C12find]
    have : s0.snapCount ≠ id := by omega
    simp [this, hf]
  | restore i =>
    simp only [step, restore]
    split
    · exact ⟨hlt, hf⟩
    · refine ⟨hlt, ?_⟩
      simp only [find_filter, hf]; simp
  | deleteSnapshot i =>
    refine ⟨hlt, ?_⟩
    simp only [step, deleteSnapshot, find_filter, hf]; simp

/-- an id that was issued and is no longer live never comes back: after any history, restoring it
fails and changes nothing -/
theorem C12_restore_gone (st : St) (id : Nat) (hlt : id < st.snapCount)
    (hf : findSnap st.snaps id = none) (ops : List Op) :
    restore (run st ops) id = (run st ops, false) := by
  have key : id < (run st ops).snapCount ∧ C12find (run st ops).snaps id = none := by
    unfold run
    rw [findSnap_eq] at hf
    induction ops generalizing st with
    | nil => exact ⟨hlt, hf⟩
    | cons op r ih =>
      obtain ⟨h1, h2⟩ := gone_step op st id hlt hf
      exact ih (step st op) h1 h2
  simp only [restore, findSnap_eq, key.2]

/-- **Double restore, restore of a deleted id, restore of an unknown id.**  From a state whose live
ids are below the counter (every reachable state): (a) once a restore of `id` succeeded, every later
restore of `id` — after any history — fails and leaves the state unchanged; (b) the same after
`DeleteSnapshot id` of an issued id; (c) restoring an id that was never issued fails and leaves the
state unchanged. -/
theorem C12_restore_consumed (st : St) (h : C12SnapIds st) (id : Nat) (ops : List Op) :
    ((restore st id).2 = true →
      restore (run (restore st id).1 ops) id = (run (restore st id).1 ops, false)) ∧
    (id < st.snapCount →
      restore (run (deleteSnapshot st id) ops) id = (run (deleteSnapshot st id) ops, false)) ∧
    (st.snapCount ≤ id → restore st id = (st, false)) := by
  refine ⟨fun hok => ?_, fun hlt => ?_, fun hge => ?_⟩
  · apply C12_restore_gone
    · -- the id was live, hence below the counter
      simp only [restore] at hok ⊢
      cases hf : findSnap st.snaps id with
      | none => simp [hf] at hok
      | some c =>
        simp only
        obtain ⟨e, he, _⟩ : ∃ e ∈ st.snaps, e.1 = id := by
          generalize st.snaps = l at hf
          induction l with
          | nil => simp [findSnap] at hf
          | cons a r ih =>
            obtain ⟨i, c'⟩ := a
            simp only [findSnap] at hf
            by_cases hi : i = id
            · exact ⟨(i, c'), List.mem_cons_self, hi⟩
            · simp only [hi, if_false] at hf
              obtain ⟨e, he, heq⟩ := ih hf
              exact ⟨e, List.mem_cons_of_mem _ he, heq⟩
        rename_i heq
        rw [← heq]
        exact h.2 e he
    · simp only [restore] at hok ⊢
      cases hf : findSnap st.snaps id with
      | none => simp [hf] at hok
      | some c => simp only [findSnap_eq, find_filter]; simp
  · apply C12_restore_gone (deleteSnapshot st id) id hlt
    simp only [deleteSnapshot, findSnap_eq, find_filter]; simp
  · simp only [restore]
    cases hf : findSnap st.snaps id with
    | none => rfl
    | some c =>
      exfalso
      obtain ⟨e, he, heq⟩ : ∃ e ∈ st.snaps, e.1 = id := by
        generalize st.snaps = l at hf
        induction l with
        | nil => simp [findSnap] at hf
        | cons a r ih =>
          obtain ⟨i, c'⟩ := a
          simp only [findSnap] at hf
          by_cases hi : i = id
          · exact ⟨(i, c'), List.mem_cons_self, hi⟩
          · simp only [hi, if_false] at hf
            obtain ⟨e, he, heq⟩ := ih hf
            exact ⟨e, List.mem_cons_of_mem _ he, heq⟩
      have := h.2 e he
      omega

instance (id : Nat) : DecidablePred (C12KeepsSnapshot id) := fun op => by
  cases op <;> simp only [C12KeepsSnapshot] <;> infer_instance

example : C12SnapIds (run { store := exS } exOps) :=
  (C12_snapshot_ids _ (C12_snapIds_init exS) exOps).1

/-! nested snapshots on a concrete history: ids 0 (outer) and 1 (inner); inner restored, outer
restored, then both again -/
private def exN0 : St := run { store := exS } [.set [2] [21], .del [4]]
private def exNops : List Op :=
  [.set [3] [33], .snapshot, .del [2], .range [0] [9] (-1) true, .restore 1, .set [5] [55], .snapshot,
   .deleteSnapshot 2]
example : (snapshot exN0).2 = 0 ∧ ∀ op ∈ exNops, C12KeepsSnapshot (snapshot exN0).2 op := by decide
example : commit (restore (run (snapshot exN0).1 exNops) 0).1 = commit exN0 :=
  (C12_snapshot_restore_exact exN0 exNops (by decide)).2.2.2
example : (restore (run (snapshot exN0).1 exNops) 1).2 = false ∧
    (restore (run (snapshot exN0).1 exNops) 2).2 = false ∧
    (snapshot (restore (run (snapshot exN0).1 exNops) 0).1).2 = 3 := by decide

/-! ## 7. `Updated` in terms of the history (histories without `RestoreSnapshot`) -/

/-- the entry of `k` keeps its dirty flag from `c` to `c'`; a new entry is clean -/
private def Keep (c c' : Cache) (k : Bytes) : Prop :=
  (∀ o, clookup c k = some o → ∃ o', clookup c' k = some o' ∧ o'.dirty = o.dirty) ∧
  (clookup c k = none → clookup c' k = none ∨ ∃ o', clookup c' k = some o' ∧ o'.dirty = false)

private theorem Keep.of_eq {c c' : Cache} {k : Bytes} (h : clookup c' k = clookup c k) : Keep c c' k :=
  ⟨fun o ho => ⟨o, by rw [h, ho], rfl⟩, fun hn => Or.inl (by rw [h, hn])⟩

private theorem Keep.trans {c c1 c' : Cache} {k : Bytes} (h1 : Keep c c1 k) (h2 : Keep c1 c' k) :
    Keep c c' k := by
  refine ⟨fun o ho => ?_, fun hn => ?_⟩
  · obtain ⟨o1, ho1, hd1⟩ := h1.1 o ho
    obtain ⟨o', ho', hd'⟩ := h2.1 o1 ho1
    exact ⟨o', ho', hd'.trans hd1⟩
  · rcases h1.2 hn with h | ⟨o1, ho1, hd1⟩
    · exact h2.2 h
    · obtain ⟨o', ho', hd'⟩ := h2.1 o1 ho1
      exact Or.inr ⟨o', ho', hd'.trans hd1⟩

private theorem Keep.ccache {c : Cache} {k0 : Bytes} (v : Bytes) (h0 : clookup c k0 = none) (k : Bytes) :
    Keep c (ccache c k0 v) k := by
  by_cases hk : k0 = k
  · subst hk
    refine ⟨fun o ho => (by rw [h0] at ho; cases ho), fun _ => Or.inr ⟨_, by rw [DiffDB.ccache, clookup_cput, if_pos rfl], rfl⟩⟩
  · exact Keep.of_eq (by simp [DiffDB.ccache, hk])

private theorem keep_absorb (l : List KV) (k : Bytes) : ∀ c : Cache, Keep c (absorb c l).1 k := by
  induction l with
  | nil => intro c; exact Keep.of_eq rfl
  | cons e r ih =>
    intro c
    obtain ⟨k0, v0⟩ := e
    unfold absorb
    cases hc : clookup c k0 with
    | some cv =>
      simp only
      by_cases hd : cv.deleted = true
      · simp only [hd, if_true]; exact ih c
      · simp only [hd]; exact ih c
    | none =>
      simp only
      exact (Keep.ccache v0 hc k).trans (ih _)

private theorem keep_get (st : St) (k0 k : Bytes) : Keep st.cache (DiffDB.get st k0).1.cache k := by
  unfold DiffDB.get
  cases hc : clookup st.cache k0 with
  | some cv => simp only; split <;> exact Keep.of_eq rfl
  | none =>
    simp only
    cases hs : slookup st.store k0 with
    | none => exact Keep.of_eq rfl
    | some v => exact Keep.ccache v hc k

private theorem keep_del (st : St) (h : C12Inv st) (k0 k : Bytes)
    (hk : slookup st.store k ≠ none) : Keep st.cache (del st k0).cache k := by
  unfold del
  cases hc : clookup st.cache k0 with
  | some o =>
    simp only
    unfold cdel
    simp only [hc]
    cases hi : o.init with
    | none =>
      simp only
      have hne : k0 ≠ k := by
        intro heq; subst heq
        have := h.cacheOk.initOk k0 o hc
        rw [hi] at this
        exact hk this.symm
      exact Keep.of_eq (by simp [hne])
    | some i =>
      simp only
      by_cases hk0 : k0 = k
      · subst hk0
        refine ⟨fun o' ho' => ?_, fun hn => (by rw [hc] at hn; cases hn)⟩
        rw [hc] at ho'; cases ho'
        refine ⟨{ o with deleted := true }, ?_, rfl⟩
        rw [clookup_cput, if_pos rfl, hi]
      · exact Keep.of_eq (by simp [hk0])
  | none =>
    simp only
    unfold ensureCache
    cases hs : slookup st.store k0 with
    | none =>
      simp only
      unfold cdel
      simp only [hc]
      exact Keep.of_eq rfl
    | some v =>
      simp only
      unfold cdel
      have : clookup (ccache st.cache k0 v) k0 =
          some { init := some v, value := v, dirty := false, deleted := false } := by
        simp [DiffDB.ccache]
      simp only [this]
      by_cases hk0 : k0 = k
      · subst hk0
        exact ⟨fun o ho => (by rw [hc] at ho; cases ho), fun _ => Or.inr ⟨_, by rw [clookup_cput, if_pos rfl], rfl⟩⟩
      · exact Keep.of_eq (by simp [DiffDB.ccache, hk0])

private theorem set_lookup_ne (st : St) (k0 v k : Bytes) (hne : k0 ≠ k) :
    clookup (DiffDB.set st k0 v).cache k = clookup st.cache k := by
  unfold DiffDB.set
  cases hc : clookup st.cache k0 with
  | some o => simp only; unfold cset; simp [hc, hne]
  | none =>
    simp only
    unfold ensureCache
    cases hs : slookup st.store k0 with
    | none => simp [cadd, hne]
    | some v0 =>
      simp only
      unfold cset
      simp [DiffDB.ccache, hne]

private theorem set_dirty (st : St) (k v : Bytes) (hk : slookup st.store k ≠ none) :
    ∃ cv, clookup (DiffDB.set st k v).cache k = some cv ∧ cv.dirty = true := by
  unfold DiffDB.set
  cases hc : clookup st.cache k with
  | some o => simp only; unfold cset; simp [hc]
  | none =>
    simp only
    unfold ensureCache
    cases hs : slookup st.store k with
    | none => exact absurd hs hk
    | some v0 =>
      simp only
      unfold cset
      simp [DiffDB.ccache]

/-- histories without `RestoreSnapshot` -/
def C12NoRestore : Op → Prop
  | .restore _ => False
  | _ => True

instance : DecidablePred C12NoRestore := fun op => by
  cases op <;> simp only [C12NoRestore] <;> infer_instance

/-- for a key of the database: its overlay entry is dirty iff the history wrote it -/
private def DK (c : Cache) (hist : List Op) (k : Bytes) : Prop :=
  match clookup c k with
  | some cv => (cv.dirty = true ↔ ∃ v, Op.set k v ∈ hist)
  | none => ¬ ∃ v, Op.set k v ∈ hist

private theorem DK.keep {c c' : Cache} {hist : List Op} {k : Bytes} {op : Op}
    (hkeep : Keep c c' k) (hop : ∀ v, op ≠ Op.set k v) (h : DK c hist k) : DK c' (hist ++ [op]) k := by
  have hmem : (∃ v, Op.set k v ∈ hist ++ [op]) ↔ ∃ v, Op.set k v ∈ hist := by
    constructor
    · rintro ⟨v, hv⟩
      rcases List.mem_append.mp hv with hv | hv
      · exact ⟨v, hv⟩
      · exact absurd (List.mem_singleton.mp hv).symm (hop v)
    · rintro ⟨v, hv⟩; exact ⟨v, List.mem_append_left _ hv⟩
  unfold DK at h ⊢
  cases hc : clookup c k with
  | some o =>
    obtain ⟨o', ho', hd⟩ := hkeep.1 o hc
    rw [hc] at h
    simp only [ho', hmem, hd]
    exact h
  | none =>
    rw [hc] at h
    simp only at h
    rcases hkeep.2 hc with hn | ⟨o', ho', hd⟩
    · simp only [hn, hmem]; exact h
    · simp only [ho', hmem, hd]
      exact ⟨fun hf => (by cases hf), fun hx => absurd hx h⟩

private theorem dk_step (st : St) (h : C12Inv st) (hist : List Op) (op : Op) (hop : C12NoRestore op)
    (k : Bytes) (hk : slookup st.store k ≠ none) (hdk : DK st.cache hist k) :
    DK (step st op).cache (hist ++ [op]) k := by
  cases op with
  | get k0 => exact hdk.keep (keep_get st k0 k) (fun v => by simp)
  | set k0 v0 =>
    by_cases hk0 : k0 = k
    · subst hk0
      obtain ⟨cv, hcv, hd⟩ := set_dirty st k0 v0 hk
      unfold DK
      simp only [step, hcv, hd, true_iff]
      exact ⟨v0, List.mem_append_right _ List.mem_cons_self⟩
    · refine hdk.keep (Keep.of_eq (set_lookup_ne st k0 v0 k hk0)) (fun v hv => ?_)
      simp only [Op.set.injEq] at hv
      exact hk0 hv.1
  | del k0 => exact hdk.keep (keep_del st h k0 k hk) (fun v => by simp)
  | range s e l rv => exact hdk.keep (keep_absorb _ k st.cache) (fun v => by simp)
  | iterate p l rv => exact hdk.keep (keep_absorb _ k st.cache) (fun v => by simp)
  | snapshot => exact hdk.keep (Keep.of_eq rfl) (fun v => by simp)
  | restore id => exact absurd hop (by simp [C12NoRestore])
  | deleteSnapshot id => exact hdk.keep (Keep.of_eq rfl) (fun v => by simp)

private theorem dk_run (ops : List Op) : ∀ (st : St) (hist : List Op), C12Inv st →
    (∀ op ∈ ops, C12NoRestore op) → ∀ k, slookup st.store k ≠ none → DK st.cache hist k →
    DK (run st ops).cache (hist ++ ops) k := by
  induction ops with
  | nil => intro st hist _ _ k _ h; simpa [run] using h
  | cons op r ih =>
    intro st hist hinv hops k hk hdk
    have h1 := dk_step st hinv hist op (hops op List.mem_cons_self) k hk hdk
    have hstore : (step st op).store = st.store := C12_store_untouched st [op]
    have := ih (step st op) (hist ++ [op]) (inv_step st hinv op)
      (fun o ho => hops o (List.mem_cons_of_mem _ ho)) k (by rw [hstore]; exact hk) h1
    rw [List.append_assoc] at this
    exact this

/-- **`Updated`, in terms of the history.**  For a history without `RestoreSnapshot` on a fresh
overlay: `(k, i)` is in `Updated` iff `k` held `i` before, is present after, and the history contains
a `Set k _` — *rewritten*, not *changed*: writing back the old value, or delete-then-set, counts; a
key that was only read, scanned or cached does not. -/
theorem C12_diff_updated_history (s : Store) (hs : NoDupKeys s) (ops : List Op)
    (hops : ∀ op ∈ ops, C12NoRestore op) (k i : Bytes) :
    (k, i) ∈ (commit (run { store := s } ops)).2.updated ↔
      slookup s k = some i ∧ (eff (run { store := s } ops) k).isSome = true ∧
        ∃ v, Op.set k v ∈ ops := by
  have hinv : C12Inv (run { store := s } ops) := C12_cache_invariant _ (C12_inv_init s hs) ops
  have hst : (run { store := s } ops).store = s := C12_store_untouched _ ops
  rw [C12_diff_updated_iff _ hinv, hst]
  constructor
  · rintro ⟨h1, h2, cv, hcv, hd⟩
    refine ⟨h1, h2, ?_⟩
    have := dk_run ops { store := s } [] (C12_inv_init s hs) hops k (by simp [h1])
      (by simp [DK, clookup])
    unfold DK at this
    rw [hcv] at this
    simpa using this.mp hd
  · rintro ⟨h1, h2, hset⟩
    refine ⟨h1, h2, ?_⟩
    have := dk_run ops { store := s } [] (C12_inv_init s hs) hops k (by simp [h1])
      (by simp [DK, clookup])
    unfold DK at this
    simp only [List.nil_append] at this
    cases hc : clookup (run { store := s } ops).cache k with
    | none => rw [hc] at this; exact absurd hset this
    | some cv => rw [hc] at this; exact ⟨cv, rfl, this.mpr hset⟩

example : ∀ op ∈ [Op.del [2], .set [2] [22], .get [4], .set [1] [10], .snapshot], C12NoRestore op := by
  decide
/-- with a restore the characterisation fails: the write was rolled back with the overlay -/
example : (commit (run { store := exS } [.snapshot, .set [2] [22], .restore 0])).2.updated = [] ∧
    eff (run { store := exS } [.snapshot, .set [2] [22], .restore 0]) [2] = some [20] := by decide

/-! ## 8. the hypothesis of the scan theorem is needed; the database's own scans -/

/-- `C12_scan_refines` needs the overlay invariant: on an (unreachable) overlay that marks a key
deleted which the database never held, the staged scan and the scan of the committed database
differ — `commit` writes such an entry as `Added`, the scan hides it. -/
theorem C12_scan_refines_needs_inv :
    ∃ st : St, NoDupKeys st.store ∧ NoDupKeys st.cache ∧
      (scan st (fun _ => true) (-1) false).2 ≠
        applyLimit (sortDir ((commit st).1.store.filter fun _ => true) false) (-1) :=
  ⟨{ store := [], cache := [([1], { init := none, value := [9], dirty := false, deleted := true })] },
    by unfold NoDupKeys; decide, by unfold NoDupKeys; decide, by decide⟩

/-- `Iterate prefix` of the database: ordered both ways, and a limit `n ≥ 0` keeps the first `n`
(`C12_db_iterate_mem` gives the membership). -/
theorem C12_db_iterate_sorted_limit (s : Store) (p : Bytes) (n : Nat) (rev : Bool) :
    (dbIterate s p (-1) false).Pairwise (fun x y => ble x.1 y.1 = true) ∧
    (dbIterate s p (-1) true).Pairwise (fun x y => ble y.1 x.1 = true) ∧
    dbIterate s p n rev = (dbIterate s p (-1) rev).take n := by
  unfold dbIterate applyLimit sortDir
  have : ¬ ((n : Int) < 0) := by omega
  simp only [Int.reduceNeg, Int.reduceLT, if_true, Bool.false_eq_true, if_false, this, Int.toNat_natCast]
  exact ⟨isort_pairwise _ kvLE_trans' kvLE_total' _, isort_pairwise _ kvGE_trans' kvGE_total' _, trivial⟩

/-- the reverse seek of `iterateRange` (`SeekLT (end ++ [0])`): the keys strictly below
`end ++ [0]` are exactly the keys `≤ end` — which is what the model's `inRange` filter assumes. -/
theorem C12_reverse_seek_bound (k e : Bytes) : blt k (e ++ [0]) = ble k e := by
  induction e generalizing k with
  | nil =>
    cases k with
    | nil => rfl
    | cons x xs =>
      have h0 : ¬ x < 0 := by
        rw [UInt8.lt_iff_toNat_lt]; simp
      cases xs <;> by_cases hx : (0 : UInt8) < x <;> simp [blt, ble, bcmp, h0, hx]
  | cons y ys ih =>
    cases k with
    | nil => rfl
    | cons x xs =>
      have := ih xs
      unfold blt ble at this ⊢
      simp only [List.cons_append, bcmp]
      by_cases h1 : x < y
      · simp [h1]
      · by_cases h2 : y < x
        · simp [h1, h2]
        · simp only [h1, h2, if_false]; exact this

example : dbIterate exS [1] 1 true = [([1, 0], [30])] := by decide
