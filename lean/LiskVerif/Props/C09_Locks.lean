/-
C09, clause "no message received from a peer or an RPC client can HANG the node" — the lock side.

The network-facing handlers that read chain data (the three sync RPC handlers, run on libp2p stream goroutines;
the read API of `Chain` / `DataAccess` behind the gossip validators and the JSON-RPC endpoints) run WHILE the
node's own block processing adds and removes blocks (`Chain.AddBlock` / `RemoveBlock` / `PrepareCache`, which take
the block-cache write lock). A well-formed request hangs the node for ever when the handler's lock use admits a
cycle with such a writer — e.g. a read lock that is still held while the function waits for goroutines that take the
same read lock (Go's `RWMutex` makes new readers wait behind a pending writer): the seeded change C09-12 in
`DataAccess.GetBlocksBetweenHeight`. No sequence of sequential calls shows it.

This file states the obligation for C09 on the skeletons REGENERATED from the source on every run of the C09 check
(tools/skelgen, group c20: `Gen/Skeletons.lean`; `RLocker().Lock()` is extracted as a read lock), and derives the
no-hang clause from the generic theorems about the interleaving semantics (`Lemmas/LocksSound.lean`):
any number of goroutines running any sequence of handler / reader / writer invocations never reaches a state in
which some goroutine is unfinished and none can move.
-/
import LiskVerif.Lemmas.LocksSound
import LiskVerif.Gen.Skeletons

open LiskVerif LiskVerif.Locks

namespace C09L

/-- configuration regenerated from the source: call table, guards, lock order -/
def cfg : Cfg := ⟨Gen.Skeletons.table, Gen.Skeletons.guards, Gen.Skeletons.lockOrder⟩

/-- the sync RPC handlers registered by `Executer.Init` (served to every peer) -/
def handlers : List String :=
  ["Syncer.HandleRPCEndpointGetLastBlock", "Syncer.HandleRPCEndpointGetHighestCommonBlock",
   "Syncer.HandleRPCEndpointGetBlocksFromID"]

/-- the chain read API used by the gossip validators, the handlers above and the JSON-RPC endpoints -/
def readers : List String :=
  ["Chain.LastBlock", "Chain.GetLastNBlocks", "Chain.ChainID", "Chain.MaxTransactionsLength", "Chain.DataAccess",
   "Chain.GenesisBlockExist",
   "DataAccess.CachedLastBlock", "DataAccess.Cached", "DataAccess.GetBlockHeader", "DataAccess.GetBlockHeaders",
   "DataAccess.GetBlockHeadersByHeights", "DataAccess.GetBlockHeaderByHeight", "DataAccess.GetLastBlockHeader",
   "DataAccess.GetBlock", "DataAccess.GetLastBlock", "DataAccess.GetBlockByHeight",
   "DataAccess.GetBlocksBetweenHeight", "DataAccess.GetTransaction", "DataAccess.GetTransactions",
   "DataAccess.GetTempBlocks", "DataAccess.GetEvents", "DataAccess.GetFinalizedHeight"]

/-- what the node's own block processing does to the chain concurrently -/
def writers : List String :=
  ["Chain.AddBlock", "Chain.RemoveBlock", "Chain.PrepareCache", "DataAccess.Cache", "DataAccess.RemoveCache",
   "DataAccess.ClearTempBlocks"]

def roots : List String := handlers ++ readers ++ writers

def inRoots (e : String × Skel) : Bool := roots.contains e.1

/-- the skeleton shape of the class closed here: a read lock held for the whole function while it spawns
goroutines that take the same read lock, and waits for them -/
def rangeUnderReadLock : Skel :=
  [.rlock "blockCache.mutex", .deferRUnlock "blockCache.mutex",
   .loop [.go [.call "blockCache.getByHeight", .ret]],
   .wait "eg", .ret]

def getByHeight : Skel :=
  [.rlock "blockCache.mutex", .deferRUnlock "blockCache.mutex", .read "blockCache.heightIndex",
   .choice [[.ret], []], .read "blockCache.cachedBlocks", .ret]

def badCfg : Cfg :=
  ⟨[("DataAccess.GetBlocksBetweenHeight", rangeUnderReadLock), ("blockCache.getByHeight", getByHeight)],
   Gen.Skeletons.guards, Gen.Skeletons.lockOrder⟩

end C09L

/-! ## obligations over the regenerated skeletons -/

/-- every function named above still exists in the regenerated table and is an extracted entry point (a renamed
or removed handler breaks this theorem instead of silently shrinking the quantifier below) -/
theorem C09_gen_handler_skeletons_present :
    C09L.roots.all (fun n => Gen.Skeletons.entries.contains n &&
      (Gen.Skeletons.table.filter (fun e => e.1 == n)).length == 1) = true := by
  decide +kernel

/-- **Lock obligations of the network-facing chain readers and of the chain writers they run against**:
well-formed (nothing the extractor does not understand, every lock released), (1) no re-entrant acquisition — also
through calls, (2) the fixed lock order, (3) nothing blocking (channel operation, `Wait()` for spawned goroutines,
call into the network or the application) while a lock is held. -/
theorem C09_gen_handlers_lock_criteria :
    (Gen.Skeletons.table.filter C09L.inRoots).all (fun e => deadlockCriteria C09L.cfg e.2) = true := by
  decide +kernel

/-- the specific diagnoses for the bulk range lookup behind `getBlocksFromId` (and behind the cache refill of
`RemoveBlock` / `PrepareCache`): no lock is held while it waits for its workers, and no lock is taken twice -/
theorem C09_gen_bulk_range_holds_no_lock_while_waiting :
    noBlockingInCS C09L.cfg Gen.Skeletons.DataAccess_GetBlocksBetweenHeight = true ∧
    noReentrantAcquire C09L.cfg Gen.Skeletons.DataAccess_GetBlocksBetweenHeight = true ∧
    noBlockingInCS C09L.cfg Gen.Skeletons.Syncer_HandleRPCEndpointGetBlocksFromID = true ∧
    noBlockingInCS C09L.cfg Gen.Skeletons.Chain_RemoveBlock = true ∧
    noBlockingInCS C09L.cfg Gen.Skeletons.Chain_PrepareCache = true := by
  decide +kernel

/-- the criteria are not vacuous for this class: the shape "read lock held across the fan-out and the `Wait()`"
is rejected (criterion 3), while the worker alone is fine -/
theorem C09_range_under_read_lock_rejected :
    noBlockingInCS C09L.badCfg C09L.rangeUnderReadLock = false ∧
    deadlockCriteria C09L.badCfg C09L.rangeUnderReadLock = false ∧
    deadlockCriteria C09L.badCfg C09L.getByHeight = true := by
  decide +kernel

/-! ## the no-hang clause -/

/-- a state in which some thread can take an internal step, or which is quiescent, is not deadlocked
(a parked communication is completed by the environment) -/
private theorem no_deadlocked_of_progress (st : State)
    (h : quiescent st = true ∨ ∃ i, canStepInternal st i = true) : deadlocked st = false := by
  cases hd : deadlocked st with
  | false => rfl
  | true =>
    exfalso
    simp only [deadlocked, Bool.and_eq_true, List.all_eq_true, List.mem_range, Bool.not_eq_true',
      Option.isNone_iff_eq_none] at hd
    obtain ⟨hnone, hnf⟩ := hd
    have hstuck : ∀ (i : Nat) (t : Thread), st[i]? = some t → stepThread st t = none := by
      intro i t hi
      have hlt : i < st.length := by
        rcases Nat.lt_or_ge i st.length with h | h
        · exact h
        · rw [List.getElem?_eq_none h] at hi; cases hi
      have := hnone i hlt
      simp only [stepT, hi] at this
      cases hs : stepThread st t with
      | none => rfl
      | some t' => simp [hs] at this
    rcases h with hq | ⟨i, hi⟩
    · obtain ⟨t, ht, hfin⟩ := List.all_eq_false.mp hnf
      obtain ⟨i, hi⟩ := List.getElem?_of_mem ht
      have hq' := List.all_eq_true.mp hq t ht
      have hfin' : finished t = false := Bool.eq_false_iff.mpr hfin
      simp only [hfin', Bool.false_or, Bool.and_eq_true] at hq'
      have hstep := hstuck i t hi
      have hb := hq'.1.1
      unfold atBlock at hb
      cases hp : t.prog with
      | nil => simp [hp] at hb
      | cons a rest =>
        cases a <;> simp [hp] at hb
        simp [stepThread, hp] at hstep
    · simp only [canStepInternal] at hi
      cases hti : st[i]? with
      | none => simp [hti] at hi
      | some t =>
        simp only [hti, Bool.and_eq_true] at hi
        rw [hstuck i t hti] at hi
        simp at hi

private theorem pathOk_append (order : List String) {p q : Path}
    (hp : pathOk order p = true) (hq : pathOk order q = true) : pathOk order (p ++ q) = true := by
  have hend : heldAfterPath [] p = [] := by
    simp only [pathOk, pathOkFrom, Bool.and_eq_true] at hp
    simpa using hp.2
  simp only [pathOk, pathOkFrom, Bool.and_eq_true, trace_append, heldAfterPath_append, hend,
    List.all_append] at hp hq ⊢
  exact ⟨⟨hp.1, hq.1⟩, hq.2⟩

private theorem pathOk_flatten (order : List String) (segs : List Path)
    (h : ∀ q ∈ segs, pathOk order q = true) : pathOk order segs.flatten = true := by
  induction segs with
  | nil => simp [pathOk, pathOkFrom, trace, heldAfterPath]
  | cons q segs ih =>
    simp only [List.flatten_cons]
    exact pathOk_append order (h q (by simp)) (ih (fun q' hq' => h q' (by simp [hq'])))

/-- **Handlers never hang on the chain locks.** Any number of goroutines — peers' requests served by the sync RPC
handlers, validators / endpoints reading the chain, the node's own block processing adding and removing blocks and
refilling the block cache — each running any finite sequence of invocations of the functions in `C09L.roots` (or
the body of a goroutine one of them spawned), under any schedule and with Go's writer-preferring `RWMutex`: in no
reachable state is some goroutine unfinished while none can move. -/
theorem C09_handlers_never_deadlock_with_chain_writer (u : Nat) (ps : List Path)
    (hps : ∀ p ∈ ps, ∃ segs : List Path, p = segs.flatten ∧ ∀ q ∈ segs,
      ∃ e ∈ Gen.Skeletons.table, C09L.inRoots e = true ∧ IsThreadPath Gen.Skeletons.table u e.2 q)
    (st : State) (hr : Reachable (initState ps) st) :
    deadlocked st = false ∧ (quiescent st = true ∨ ∃ i, canStepInternal st i = true) := by
  have hall := C09_gen_handlers_lock_criteria
  simp only [List.all_eq_true, List.mem_filter] at hall
  have hok : ∀ p ∈ ps, pathOk C09L.cfg.order p = true := by
    intro p hp
    obtain ⟨segs, rfl, hsegs⟩ := hps p hp
    apply pathOk_flatten
    intro q hq
    obtain ⟨e, he, hin, hpath⟩ := hsegs q hq
    exact deadlockCriteria_paths C09L.cfg e.2 (hall e ⟨he, hin⟩) u q hpath
  have hprog := deadlock_free C09L.cfg.order ps hok st hr
  exact ⟨no_deadlocked_of_progress st hprog, hprog⟩

/-- non-vacuity: the quantifier of `C09_gen_handlers_lock_criteria` ranges over all 31 named functions -/
example : (Gen.Skeletons.table.filter C09L.inRoots).length = C09L.roots.length := by decide +kernel
