/-
C11 — Regular Merkle tree: incremental, batch and proof computations agree.

Property theorems about `LiskVerif.Model.RMT` (the model of pkg/trie/rmt with the C11 fixes applied).
The hash functions are parameters; injectivity is an explicit hypothesis where it is needed.
Helper lemmas: `LiskVerif/Lemmas/RMT.lean` (binary counter of perfect subtrees).

Proved for all inputs:
* `C11_append_eq_batch`, `C11_append_tree` — appending one by one gives the LIP-0031 batch root, and the
  append path is the list of roots of the perfect subtrees of the binary decomposition of the size;
* `C11_predicted_append` — `CalculateRootFromAppendPath` agrees with `Append` on every reachable state;
* `C11_reload` — the stored information always equals (root, append path, size) once a leaf exists;
* `C11_path_complete`, `C11_path_sound`, `C11_path_other_leaf`, `C11_path_one_root` — the LIP-0031 inclusion
  path of a leaf folds to the root; under injectivity of the branch hash nothing else of that shape does;
* `C11_proof_sound`, `C11_proof_other_leaf`, `C11_proof_one_root` — `VerifyProof` (the transcription of
  `calculatePathNodes` with its index arithmetic) for one index: if it accepts, the query is the hash of
  the leaf at that index and the sibling hashes it consumed are the LIP-0031 path; other leaf data and
  other roots are rejected;
* `C11_proof_complete_partial` — `VerifyProof` accepts the LIP-0031 path of every leaf (trees whose
  indexes fit the 32-bit index parser, height ≤ 30); that `GenerateProof` produces this path is checked
  by the harness (`single-proof-not-reference-path` oracle, `specpath` op), not proved;
* `C11_right_witness_partial` — the append path alone (split point 0 or `size`) reconstructs the root.
Kept as statements (checked by the correspondence harness on the real code, not proved here):
`C11_proof_complete_Statement` (generation, any subset), `C11_proof_sound_multi_Statement`,
`C11_update_via_proof_Statement`, `C11_right_witness_Statement`, `C11_store_Statement`.
-/
import LiskVerif.Lemmas.RMT
import LiskVerif.Lemmas.RMTProof

open LiskVerif LiskVerif.RMT

/-! ### incremental = batch -/

/-- Appending the leaves one by one to the empty tree never fails and yields the LIP-0031 root of
the list, the append path `peaks` (roots of the perfect subtrees of the binary decomposition of the
size, smallest first) and the size. -/
theorem C11_append_eq_batch (hf : HashFns) (data : List Bytes) :
    appendAll hf (initCore hf) data
      = some ⟨root hf data, peaks hf (data.map hf.leaf), data.length⟩ := by
  have h0 : initCore hf = coreOf hf [] := by
    simp [initCore, coreOf, Ctr.flat, Ctr.path, Ctr.toNat]; rw [rootH]
  have hinv := ctrFrom_inv [] (data.map hf.leaf) (by simp [Ctr.WF]) (by simp [Ctr.Canon])
  rw [h0, appendAll_ctr hf [] data (by simp [Ctr.WF]) (by simp [Ctr.Canon])]
  obtain ⟨hw, _, hfl, hn⟩ := hinv
  simp only [coreOf, Ctr.path_eq_peaks hf hw, hfl, hn, root]
  simp [Ctr.flat, Ctr.toNat]

example : appendAll ⟨id, fun l r => l ++ r, []⟩ (initCore ⟨id, fun l r => l ++ r, []⟩) [[1], [2], [3]]
    = some ⟨[1, 2, 3], [[3], [1, 2]], 3⟩ := by
  decide

/-- A successful `Append` of the tree changes (root, append path, size) as `appendCore` does and
stores exactly that. -/
theorem C11_append_core (hf : HashFns) (t : Tree) (v : Bytes) (h : (append hf t v).2 = true) :
    appendCore hf t.core v = some (append hf t v).1.core ∧
    (append hf t v).1.info = some (append hf t v).1.core := by
  unfold append at h ⊢
  by_cases hz : t.core.size = 0
  · simp only [hz, if_true] at h ⊢
    split at h <;> simp_all
  · simp only [hz, if_false] at h ⊢
    split at h <;> simp_all

/-- a run of `Append`s on the tree; `none` if one of them returns an error -/
def C11.appendTreeAll (hf : HashFns) (t : Tree) : List Bytes → Option Tree
  | [] => some t
  | v :: vs => if (append hf t v).2 then C11.appendTreeAll hf (append hf t v).1 vs else none

private theorem appendTreeAll_core (hf : HashFns) (t t' : Tree) (data : List Bytes)
    (h : C11.appendTreeAll hf t data = some t') : appendAll hf t.core data = some t'.core := by
  induction data generalizing t with
  | nil => simp [C11.appendTreeAll] at h; simp [appendAll, h]
  | cons v vs ih =>
    simp only [C11.appendTreeAll] at h
    split at h
    · rename_i hok
      have := (C11_append_core hf t v hok).1
      simp only [appendAll, this]
      exact ih _ h
    · cases h

/-- The tree after appending `data` one by one to the empty tree has the batch root of `data`. -/
theorem C11_append_tree (hf : HashFns) (data : List Bytes) (t : Tree)
    (h : C11.appendTreeAll hf (emptyTree hf) data = some t) :
    t.core = ⟨root hf data, peaks hf (data.map hf.leaf), data.length⟩ := by
  have := appendTreeAll_core hf _ _ _ h
  rw [show (emptyTree hf).core = initCore hf from rfl, C11_append_eq_batch] at this
  exact (Option.some.inj this).symm

/-! ### predicted = actual -/

/-- For every state reached by appends, `CalculateRootFromAppendPath` on the current append path
and size returns exactly the root, append path and size that `Append` produces. -/
theorem C11_predicted_append (hf : HashFns) (data : List Bytes) (c : Core) (v : Bytes)
    (h : appendAll hf (initCore hf) data = some c) :
    rootFromAppendPath hf v c.path c.size = appendCore hf c v ∧
    appendCore hf c v = some ⟨root hf (data ++ [v]), peaks hf ((data ++ [v]).map hf.leaf), data.length + 1⟩ := by
  have h0 : initCore hf = coreOf hf [] := by
    simp [initCore, coreOf, Ctr.flat, Ctr.path, Ctr.toNat]; rw [rootH]
  obtain ⟨hw, hc, _, _⟩ := ctrFrom_inv [] (data.map hf.leaf) (by simp [Ctr.WF]) (by simp [Ctr.Canon])
  have hc' : c = coreOf hf (ctrFrom [] (data.map hf.leaf)) := by
    rw [h0, appendAll_ctr hf [] data (by simp [Ctr.WF]) (by simp [Ctr.Canon])] at h
    exact (Option.some.inj h).symm
  have hstep : appendCore hf c v = some ⟨root hf (data ++ [v]), peaks hf ((data ++ [v]).map hf.leaf), data.length + 1⟩ := by
    have h2 := C11_append_eq_batch hf (data ++ [v])
    have h3 : appendAll hf (initCore hf) (data ++ [v]) = appendCore hf c v := by
      have : ∀ (c0 : Core) (l : List Bytes), appendAll hf c0 (l ++ [v])
          = (appendAll hf c0 l).bind (fun c => appendCore hf c v) := by
        intro c0 l
        induction l generalizing c0 with
        | nil => simp [appendAll]; cases appendCore hf c0 v <;> simp [appendAll]
        | cons a l ih => simp only [List.cons_append, appendAll]; cases appendCore hf c0 a <;> simp [ih]
      rw [this, h]; rfl
    rw [← h3, h2]; simp
  refine ⟨?_, hstep⟩
  rw [hc']
  show rootFromAppendPath hf v (Ctr.path hf _) (Ctr.toNat _) = _
  rw [rootFromAppendPath_ctr hf _ hw hc v, appendCore_ctr hf _ hw hc v]

example : rootFromAppendPath ⟨id, fun l r => l ++ r, []⟩ [3] [[1, 2]] 2
    = appendCore ⟨id, fun l r => l ++ r, []⟩ ⟨[1, 2], [[1, 2]], 2⟩ [3] := by
  decide

/-- The code before the fix folded the *whole* append path into the first entry of the new path.
For a tree of two leaves (one path entry `p`) `Append` stores `[leaf v, p]`, while the unfixed
prediction was `[branch p (leaf v), p]` — different as soon as a branch hash is not a leaf hash. -/
theorem C11_original_predicted_path_wrong (hf : HashFns) (r p v : Bytes)
    (hsep : ∀ x y z, hf.branch x y ≠ hf.leaf z) :
    (appendCore hf ⟨r, [p], 2⟩ v).map (·.path) = some [hf.leaf v, p] ∧
    foldPath hf (hf.leaf v) [p] :: [p] ≠ [hf.leaf v, p] := by
  have h1 : Nat.log2 1 = 0 := by decide
  constructor
  · simp [appendCore, getHeight, clog2, h1, foldBits, nextPath, trailingOnes, foldPath]
  · simp only [foldPath, List.foldl_cons, List.foldl_nil]
    intro heq
    exact hsep _ _ _ (List.cons.inj heq).1

/-! ### reload -/

/-- the trees reachable by the operations of the API -/
inductive C11.Reach (hf : HashFns) : Tree → Prop
  | init : C11.Reach hf (emptyTree hf)
  | append {t : Tree} (v : Bytes) : C11.Reach hf t → C11.Reach hf (append hf t v).1
  | update {t t' : Tree} (idxs : List Nat) (data : List Bytes) :
      C11.Reach hf t → update hf t idxs data = some t' → C11.Reach hf t'
  | reload {t t' : Tree} : C11.Reach hf t → reload t = some t' → C11.Reach hf t'

private theorem append_fail_core (hf : HashFns) (t : Tree) (v : Bytes) (h : (append hf t v).2 = false) :
    (append hf t v).1.core = t.core ∧ (append hf t v).1.info = t.info := by
  unfold append at h ⊢
  by_cases hz : t.core.size = 0
  · simp only [hz, if_true] at h ⊢
    split at h <;> simp_all [Tree.saveNode]
  · simp only [hz, if_false] at h ⊢
    have hsl : ∀ (f hh : Nat) (p : List Bytes) (cur : Bytes) (t0 : Tree),
        (storeLoop hf (getHeight t.core.size) t.core.size f hh p cur t0).1.core = t0.core ∧
        (storeLoop hf (getHeight t.core.size) t.core.size f hh p cur t0).1.info = t0.info := by
      intro f
      induction f with
      | zero => intro hh p cur t0; simp [storeLoop]
      | succ f ih =>
        intro hh p cur t0
        simp only [storeLoop]
        split
        · split
          · simp
          · split
            · split
              · simp
              · exact ih _ _ _ _
            · exact ih _ _ _ _
        · exact ih _ _ _ _
    have hs := hsl (getHeight t.core.size) 0 t.core.path (hf.leaf v) (t.saveNode (hf.leaf v) (0, t.core.size))
    revert h hs
    generalize storeLoop hf (getHeight t.core.size) t.core.size (getHeight t.core.size) 0 t.core.path (hf.leaf v)
      (t.saveNode (hf.leaf v) (0, t.core.size)) = sl
    intro h hs
    obtain ⟨t2, b⟩ := sl
    cases b <;> cases hac : appendCore hf t.core v <;> simp_all [Tree.saveNode]

private theorem update_info (hf : HashFns) (t t' : Tree) (idxs : List Nat) (data : List Bytes)
    (hu : update hf t idxs data = some t') : t'.info = some t'.core := by
  rw [update_eq] at hu
  split at hu
  case isFalse => cases hu
  unfold updateOrig at hu
  dsimp only at hu
  split at hu
  · cases hu
  · split at hu
    · cases hu
    · split at hu
      · cases hu
      · split at hu
        · cases hu
        · split at hu
          · cases hu
          · split at hu
            · cases hu; rfl
            · cases hu

private theorem reach_info (hf : HashFns) (t : Tree) (h : C11.Reach hf t) :
    (t.core.size = 0 ∧ t.info = none) ∨ t.info = some t.core := by
  induction h with
  | init => left; simp [emptyTree, initCore]
  | @append t v _ ih =>
    by_cases hok : (append hf t v).2 = true
    · right; exact (C11_append_core hf t v hok).2
    · have := append_fail_core hf t v (by simpa using hok)
      rw [this.1, this.2]; exact ih
  | @update t t' idxs data _ hu ih => right; exact update_info hf t t' idxs data hu
  | @reload t t' _ hr ih =>
    unfold RMT.reload at hr
    split at hr
    · cases hr
    · rename_i c hc
      cases hr
      rcases ih with ⟨_, h2⟩ | h2
      · rw [h2] at hc; cases hc
      · right; simp [hc]

/-- Reload: once the tree holds a leaf, the stored information is exactly (root, append path, size):
`NewRegularMerkleTreeWithPastData` over the same database gives back the same tree, after any
sequence of appends (successful or not), updates and reloads. -/
theorem C11_reload (hf : HashFns) (t : Tree) (h : C11.Reach hf t) (hne : t.core.size ≠ 0) :
    reload t = some t := by
  rcases reach_info hf t h with ⟨h0, _⟩ | h1
  · exact absurd h0 hne
  · obtain ⟨c, a, b, i⟩ := t
    simp_all [RMT.reload]

/-- non-vacuity: the tree of one leaf is reachable, is not empty, and reloads to itself -/
example : ∃ t : Tree, C11.Reach ⟨id, fun l r => l ++ r, []⟩ t ∧ t.core.size ≠ 0 := by
  refine ⟨_, C11.Reach.append [7] C11.Reach.init, ?_⟩
  decide

/-! ### inclusion proofs: the LIP-0031 path -/

/-- Completeness: the inclusion path of leaf `i` folds to the root. -/
theorem C11_path_complete (hf : HashFns) (l : List Bytes) (i : Nat) (h : Bytes)
    (hi : l[i]? = some h) : foldProof hf h (pathSpec hf l i) = rootH hf l :=
  foldProof_pathSpec hf l.length l i h rfl hi

/-- Soundness: if the branch hash is injective, a path with the shape (left/right pattern) of
position `i` that folds from `h` to the root proves that `h` is the `i`-th leaf hash and is the path
of that leaf: no other leaf hash and no other sibling verifies. -/
theorem C11_path_sound (hf : HashFns) (hinj : BranchInj hf) (l : List Bytes) (i : Nat)
    (hi : i < l.length) (h : Bytes) (p : List (Bool × Bytes))
    (hshape : p.map (·.1) = (pathSpec hf l i).map (·.1)) (hfold : foldProof hf h p = rootH hf l) :
    l[i]? = some h ∧ p = pathSpec hf l i :=
  foldProof_sound hf hinj l.length l i h p rfl hi hshape hfold

/-- In terms of leaf data: with an injective leaf hash, other data at position `i` is rejected. -/
theorem C11_path_other_leaf (hf : HashFns) (hinj : BranchInj hf)
    (hleaf : ∀ a b, hf.leaf a = hf.leaf b → a = b) (data : List Bytes) (i : Nat) (hi : i < data.length)
    (d : Bytes) (hd : data[i]? ≠ some d) :
    foldProof hf (hf.leaf d) (pathSpec hf (data.map hf.leaf) i) ≠ root hf data := by
  intro hfold
  have := (C11_path_sound hf hinj (data.map hf.leaf) i (by simpa using hi) (hf.leaf d) _ rfl hfold).1
  rw [List.getElem?_map] at this
  cases hx : data[i]? with
  | none => rw [hx] at this; cases this
  | some x =>
    rw [hx] at this
    have : x = d := hleaf _ _ (Option.some.inj this)
    exact hd (by rw [hx, this])

/-- A path verifies against exactly one root. -/
theorem C11_path_one_root (hf : HashFns) (l : List Bytes) (i : Nat) (h r : Bytes)
    (hi : l[i]? = some h) : foldProof hf h (pathSpec hf l i) = r ↔ r = rootH hf l := by
  rw [C11_path_complete hf l i h hi]; exact eq_comm

example : foldProof ⟨id, fun l r => l ++ r, []⟩ [2] (pathSpec ⟨id, fun l r => l ++ r, []⟩ [[1], [2], [3]] 1)
    = rootH ⟨id, fun l r => l ++ r, []⟩ [[1], [2], [3]] :=
  C11_path_complete _ _ 1 [2] rfl

/-! ### inclusion proofs: `VerifyProof` with its index arithmetic, one index -/

/-- Soundness of `VerifyProof` for one index: in a tree over the leaf hashes `l`, if the proof
`(size, [2^height + i], siblingHashes)` for the query hash `q` is accepted against the root of `l`,
then `q` is the hash of leaf `i`, and the sibling hashes that were consumed are exactly the LIP-0031
path of that leaf. (Injectivity of the branch hash is the only assumption.) -/
theorem C11_proof_sound (hf : HashFns) (hinj : BranchInj hf) (l : List Bytes) (i : Nat)
    (hi : i < l.length) (q : Bytes) (sibs : List Bytes)
    (h : verifyProof hf [q] ⟨l.length, [2 ^ getHeight l.length + i], sibs⟩ (rootH hf l) = true) :
    l[i]? = some q ∧ (pathSpec hf l i).map (·.2) <+: sibs := by
  have hw := verify_single_walk hf l.length i (by omega) hi q sibs _ h
  obtain ⟨p, hp1, hp3, hp2⟩ := walk_foldProof hf _ _ _ _ _ _ _ hw
  rw [← pathSpec_sides hf l.length l i rfl (by omega) hi] at hp1
  obtain ⟨h1, h2⟩ := C11_path_sound hf hinj l i hi q p hp1 hp2
  exact ⟨h1, by rw [← h2]; exact hp3⟩

/-- Other leaf data is rejected: a proof accepted for the data `d` at index `i` shows that the
`i`-th leaf is `d` (leaf hash injective). -/
theorem C11_proof_other_leaf (hf : HashFns) (hinj : BranchInj hf)
    (hleaf : ∀ a b, hf.leaf a = hf.leaf b → a = b) (data : List Bytes) (i : Nat) (hi : i < data.length)
    (d : Bytes) (sibs : List Bytes)
    (h : verifyProof hf [hf.leaf d] ⟨data.length, [2 ^ getHeight data.length + i], sibs⟩ (root hf data) = true) :
    data[i]? = some d := by
  have hlen : (data.map hf.leaf).length = data.length := by simp
  have := (C11_proof_sound hf hinj (data.map hf.leaf) i (by simpa using hi) (hf.leaf d) sibs
    (by rw [hlen]; exact h)).1
  rw [List.getElem?_map] at this
  cases hx : data[i]? with
  | none => rw [hx] at this; cases this
  | some x =>
    rw [hx] at this
    rw [hleaf _ _ (Option.some.inj this)]

/-- A proof is accepted for at most one root. -/
theorem C11_proof_one_root (hf : HashFns) (q : List Bytes) (p : Proof) (r r' : Bytes)
    (h : verifyProof hf q p r = true) (h' : verifyProof hf q p r' = true) : r = r' := by
  rw [verifyProof_eq, Bool.and_eq_true] at h h'
  replace h := h.2
  replace h' := h'.2
  unfold verifyProofOrig at h h'
  by_cases hz : p.size = 0
  · simp [hz] at h
  · simp only [hz, if_false] at h h'
    cases hc : calcPathNodes hf q p.size p.idxs p.sibs with
    | none => simp [hc] at h
    | some res =>
      rw [hc] at h h'
      simp only at h h'
      cases hl : res.lookup 2 with
      | none => simp [hl] at h
      | some x =>
        rw [hl] at h h'
        simp only [beq_iff_eq] at h h'
        rw [← h, ← h']

/-- Completeness of `VerifyProof` for one index: the LIP-0031 path of leaf `i` is accepted (for trees
of height at most 30, i.e. at most 2^29 leaves: above, the 32-bit index parser of the implementation
returns an error). -/
theorem C11_proof_complete_partial (hf : HashFns) (l : List Bytes) (i : Nat) (q : Bytes)
    (hi : l[i]? = some q) (hb : getHeight l.length ≤ 30) (extra : List Bytes) :
    verifyProof hf [q] ⟨l.length, [2 ^ getHeight l.length + i], (pathSpec hf l i).map (·.2) ++ extra⟩
      (rootH hf l) = true := by
  have hil : i < l.length := by
    rcases Nat.lt_or_ge i l.length with h' | h'
    · exact h'
    · rw [List.getElem?_eq_none h'] at hi; cases hi
  apply verify_single_complete hf l.length i (by omega) hil hb
  rw [walk_of_foldProof hf l.length i _ 0 q (pathSpec hf l i) extra
    (pathSpec_sides hf l.length l i rfl (by omega) hil)]
  rw [C11_path_complete hf l i q hi]

example : verifyProof ⟨id, fun l r => l ++ r, []⟩ [[2]]
    ⟨3, [2 ^ getHeight 3 + 1], (pathSpec ⟨id, fun l r => l ++ r, []⟩ [[1], [2], [3]] 1).map (·.2) ++ []⟩
    (rootH ⟨id, fun l r => l ++ r, []⟩ [[1], [2], [3]]) = true :=
  C11_proof_complete_partial ⟨id, fun l r => l ++ r, []⟩ [[1], [2], [3]] 1 [2] rfl (by decide) []

/-- an injective pairing of byte strings: unary length of the left part, a zero, both parts -/
def C11.pairHash : HashFns :=
  { leaf := id, branch := fun l r => List.replicate l.length 1 ++ 0 :: (l ++ r), empty := [] }

private theorem replicate_prefix_inj : ∀ (n m : Nat) (a b : Bytes),
    List.replicate n (1 : UInt8) ++ 0 :: a = List.replicate m 1 ++ 0 :: b → n = m ∧ a = b := by
  intro n
  induction n with
  | zero =>
    intro m a b h
    cases m with
    | zero => simpa using h
    | succ m => simp [List.replicate_succ] at h
  | succ n ih =>
    intro m a b h
    cases m with
    | zero => simp [List.replicate_succ] at h
    | succ m =>
      simp only [List.replicate_succ, List.cons_append, List.cons.injEq, true_and] at h
      obtain ⟨e1, e2⟩ := ih m a b h
      exact ⟨by omega, e2⟩

theorem C11.pairHash_inj : BranchInj C11.pairHash := by
  intro a b c d h
  simp only [C11.pairHash] at h
  obtain ⟨e1, e2⟩ := replicate_prefix_inj _ _ _ _ h
  have := List.append_inj e2 e1
  exact this

/-- non-vacuity of `C11_proof_sound`: its hypotheses hold for the path of every leaf -/
example : ([[1], [2], [3]] : List Bytes)[1]? = some [2] ∧
    (pathSpec C11.pairHash [[1], [2], [3]] 1).map (·.2) <+: (pathSpec C11.pairHash [[1], [2], [3]] 1).map (·.2) ++ [] :=
  C11_proof_sound C11.pairHash C11.pairHash_inj [[1], [2], [3]] 1 (by decide) [2] _
    (C11_proof_complete_partial C11.pairHash [[1], [2], [3]] 1 [2] rfl (by decide) [])

/-! ### right witness -/

/-- The append path alone reconstructs the root: for the split points `0` (the witness is the whole
append path, as `GenerateRightWitness(0)` returns it) and `size` (the witness is empty). -/
theorem C11_right_witness_partial (hf : HashFns) (l : List Bytes) :
    rootFromRightWitness hf 0 (peaks hf []) (peaks hf l) = some (rootH hf l) ∧
    rootFromRightWitness hf l.length (peaks hf l) [] = some (rootH hf l) := by
  have hnil : peaks hf [] = [] := by unfold peaks; rw [peaksDesc]; rfl
  constructor
  · rw [hnil]; simp [rootFromRightWitness, rootFromPath_peaks]
  · cases hp : peaks hf l with
    | nil =>
      have := rootFromPath_peaks hf l
      rw [hp] at this
      simp [rootFromRightWitness, this]
    | cons a r =>
      have := rootFromPath_peaks hf l
      rw [hp] at this
      simp [rootFromRightWitness, this]

/-- `GenerateRightWitness(0)` on a non-empty tree is the append path. -/
theorem C11_witness_zero (t : Tree) (h : t.core.size ≠ 0) : genWitness t 0 = some t.core.path := by
  simp [genWitness, h]

example : rootFromRightWitness ⟨id, fun l r => l ++ r, []⟩ 3 (peaks ⟨id, fun l r => l ++ r, []⟩ [[1], [2], [3]]) []
    = some (rootH ⟨id, fun l r => l ++ r, []⟩ [[1], [2], [3]]) :=
  (C11_right_witness_partial ⟨id, fun l r => l ++ r, []⟩ [[1], [2], [3]]).2

/-! ### statements checked by the correspondence harness only -/

/-- the node store holds every node of the LIP-0031 tree over the current leaves at its location -/
def C11.StoreOK (hf : HashFns) (t : Tree) (hashes : List Bytes) : Prop :=
  ∀ e ∈ nodeList hf hashes 0, t.getHash e.1 = some e.2

/-- `Append` keeps the node store exact (harness: op `nodes` on the model and `stored-node-differs`
oracle on the real code). -/
def C11_store_Statement : Prop :=
  ∀ (hf : HashFns) (data : List Bytes) (t : Tree),
    C11.appendTreeAll hf (emptyTree hf) data = some t → C11.StoreOK hf t (data.map hf.leaf)

/-- Full completeness: for a tree built by appends whose leaf hashes are pairwise distinct, the proof
generated for any list of distinct leaf hashes verifies against the root. -/
def C11_proof_complete_Statement : Prop :=
  ∀ (hf : HashFns) (data : List Bytes) (t : Tree) (q : List Bytes),
    C11.appendTreeAll hf (emptyTree hf) data = some t → (data.map hf.leaf).Nodup →
    q ≠ [] → q.Nodup → (∀ h ∈ q, h ∈ data.map hf.leaf) →
    ∃ p, generateProof t q = some p ∧ verifyProof hf q p t.core.root = true

/-- Soundness for several indexes: an accepted proof for distinct leaf indexes shows that every query
is the hash of the leaf at its index. -/
def C11_proof_sound_multi_Statement : Prop :=
  ∀ (hf : HashFns), BranchInj hf → ∀ (l : List Bytes) (pos : List Nat) (q sibs : List Bytes),
    pos.Nodup → (∀ p ∈ pos, p < l.length) → q.length = pos.length →
    verifyProof hf q ⟨l.length, pos.map (fun p => 2 ^ getHeight l.length + p), sibs⟩ (rootH hf l) = true →
    ∀ k (hk : k < pos.length), l[pos[k]]? = q[k]?

/-- `Update` through a proof yields the tree of the modified list. -/
def C11_update_via_proof_Statement : Prop :=
  ∀ (hf : HashFns) (data : List Bytes) (t t' : Tree) (pos : List Nat) (upd : List Bytes),
    C11.appendTreeAll hf (emptyTree hf) data = some t → pos.Nodup → pos.length = upd.length →
    (∀ p ∈ pos, p < data.length) →
    update hf t (pos.map fun p => 2 ^ getHeight data.length + p) upd = some t' →
    let data' := (pos.zip upd).foldl (fun d pu => d.set pu.1 pu.2) data
    t'.core = ⟨root hf data', peaks hf (data'.map hf.leaf), data.length⟩

/-- every split point: the append path of the first `i` leaves and the right witness generated by
the full tree reconstruct the root. -/
def C11_right_witness_Statement : Prop :=
  ∀ (hf : HashFns) (data : List Bytes) (t : Tree) (i : Nat),
    C11.appendTreeAll hf (emptyTree hf) data = some t → i ≤ data.length →
    ∃ w, genWitness t i = some w ∧
      rootFromRightWitness hf i (peaks hf ((data.take i).map hf.leaf)) w = some (root hf data)
