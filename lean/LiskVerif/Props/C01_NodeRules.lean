/-
C01 — the block-acceptance rules OUTSIDE `liskbft` that finality safety rests on.

`Props/C01_Safety.lean` and `C01_More.lean` prove safety for trees of chains that are *chain-valid*
(`C01ChainValid`, `C01NodeValid`): every header carries the chain's own `maxHeightPrevoted` and does
not contradict the generator's latest header in the vote window. Both rules are enforced by
`pkg/consensus` (`Executer.verifyBlock`, modelled in `Model/Verify.lean`), not by the BFT module the
C01 correspondence drives. This file makes the dependency explicit:

(i)   which rules of `Verify.verifyBlock` the safety proof uses (`C01_rules_used_by_safety`,
      `C01_accepted_chain_is_node_valid`, `C01_finality_safety_accepted_chains_partial`), and the key
      lemma behind the one-comparison window scan of `BFTVotes.contradicting`: if every accepted header
      carries the chain's own `maxHeightPrevoted`, then "not contradicting the generator's LATEST
      header in the window" implies "not contradicting ANY of its headers in the window" — for every
      chain, window length and (monotone) chain value (`C01_window_scan_complete`), for the
      specification (`C01_spec_scan_complete`) and for the windowed transcription of the Go module on
      chains of any length (`C01_model_window_scan_complete`);
(ii)  the equality cannot be weakened to the one-sided bound `header.maxHeightPrevoted ≤ chain value`:
      by kernel evaluation of the model, a three-header sequence (an ordinary block, a block that
      implies no votes, a block repeating the first one's `maxHeightGenerated` with an understated
      `maxHeightPrevoted`) passes the scan and adds the generator's prevote weight a second time
      (`C01_one_sided_bound_double_vote`), and with weights 34/34/32 and the standard thresholds 67/67
      two chains accepted under the one-sided rule finalize conflicting blocks although only the
      validator of weight 32 misbehaves (`C01_one_sided_bound_conflicting_finalization`; the two chains
      were found by the node harness, pseudo-property C01NODE, on a tree of real nodes);
(iii) obligations on the regenerated verification skeleton `Gen/VerifySkeleton.lean` (tools/vskelgen):
      `verifyBlock` compares `block.Header.MaxHeightPrevoted` with the first result of
      `GetBFTHeights(consensusStore)` by an equality test (`!=` → error exit), before the contradiction
      check, nothing else on the acceptance path compares that field, and the test runs before the vote
      update and before anything is staged, written or published (`C01_gen_*`).
-/
import LiskVerif.Props.C01_More
import LiskVerif.Model.Verify
import LiskVerif.Lemmas.Verify
import LiskVerif.Gen.VerifySkeleton

open LiskVerif LiskVerif.BFT LiskVerif.BFTSpec

set_option linter.unusedSimpArgs false
set_option linter.unusedVariables false

/-! ## (i) the window scan is complete when every header carries the chain's maxHeightPrevoted -/

/-- the full scan: does `x` contradict ANY header of its generator among `win`? -/
def C01scanAll (win : List Header) (x : Header) : Bool :=
  win.any fun b => decide (b.gen = x.gen) && Gen.areDistinctHeadersContradicting (toHdr b) (toHdr x)

/-- The chain `r` (NEWEST first) was accepted header by header by a node with vote window `n`, genesis
height `g` and chain value `cv` (the `maxHeightPrevoted` of the view of a chain) under the rules
* height = height of the parent + 1,
* `mhpOK field (cv parent)` — `verifyBlock` has the equality; the weakened variant of part (ii) has `≤`,
* `BFTVotes.contradicting` over the window of the parent: the comparison with the LATEST header of the
  generator among the last `n` blocks (`contradictingSpec` = first match, newest first). -/
def C01acceptedB (mhpOK : Nat → Nat → Bool) (n g : Nat) (cv : List Header → Nat) : List Header → Bool
  | [] => true
  | x :: p => decide (x.height = g + p.length + 1) && mhpOK x.mhp (cv p) &&
      !(contradictingSpec Gen.areDistinctHeadersContradicting (p.take n) x) && C01acceptedB mhpOK n g cv p

/-- the rule of `verifyBlock` -/
def C01mhpEq (field chain : Nat) : Bool := decide (field = chain)
/-- the one-sided bound -/
def C01mhpLe (field chain : Nat) : Bool := decide (field ≤ chain)

private theorem accepted_cons (mhpOK : Nat → Nat → Bool) (n g : Nat) (cv : List Header → Nat) (x : Header)
    (p : List Header) : C01acceptedB mhpOK n g cv (x :: p) = true ↔
      x.height = g + p.length + 1 ∧ mhpOK x.mhp (cv p) = true ∧
      contradictingSpec Gen.areDistinctHeadersContradicting (p.take n) x = false ∧
      C01acceptedB mhpOK n g cv p = true := by
  simp [C01acceptedB, and_assoc]

private theorem accepted_suffix (mhpOK : Nat → Nat → Bool) (n g : Nat) (cv : List Header → Nat)
    {r s : List Header} (h : C01acceptedB mhpOK n g cv r = true) (hs : s <:+ r) :
    C01acceptedB mhpOK n g cv s = true := by
  induction r with
  | nil => rw [List.suffix_nil] at hs; subst hs; exact h
  | cons y r ih =>
    rcases List.suffix_cons_iff.mp hs with h' | h'
    · subst h'; exact h
    · exact ih ((accepted_cons mhpOK n g cv y r).mp h).2.2.2 h'

/-- monotonicity of the chain value along the chain `r` gives monotonicity between any two ancestors -/
private theorem cv_suffix_mono (cv : List Header → Nat) (r : List Header)
    (hmono : ∀ x p, x :: p <:+ r → cv p ≤ cv (x :: p)) :
    ∀ {t s : List Header}, t <:+ r → s <:+ t → cv s ≤ cv t := by
  intro t
  induction t with
  | nil => intro s _ hs; rw [List.suffix_nil] at hs; subst hs; exact Nat.le_refl _
  | cons y t ih =>
    intro s ht hs
    rcases List.suffix_cons_iff.mp hs with h' | h'
    · subst h'; exact Nat.le_refl _
    · exact Nat.le_trans (ih ((List.suffix_cons y t).trans ht) h') (hmono y t ht)

private theorem take_split {α : Type} (p : List α) (n : Nat) (as bs : List α) (b : α)
    (h : p.take n = as ++ b :: bs) :
    p = as ++ b :: (bs ++ p.drop n) ∧ ∀ e ∈ bs, e ∈ (bs ++ p.drop n).take n := by
  refine ⟨?_, ?_⟩
  · conv => lhs; rw [← List.take_append_drop n p, h]
    simp
  · intro e he
    have hl : (p.take n).length ≤ n := by simp [List.length_take]; omega
    rw [h] at hl
    simp at hl
    rw [List.take_append]
    rw [List.take_of_length_le (by omega)]
    exact List.mem_append_left _ he

/-- **Every accepted header is a legitimate successor (C07) of every header of its generator in the
window** — provided each accepted header carries the chain's own `maxHeightPrevoted` and the chain value
never decreases along the chain. The scan itself compares with the latest such header only. -/
theorem C01_window_legit (n g : Nat) (cv : List Header → Nat) (r : List Header)
    (hmono : ∀ x p, x :: p <:+ r → cv p ≤ cv (x :: p))
    (hacc : C01acceptedB C01mhpEq n g cv r = true) :
    ∀ (x : Header) (p : List Header), x :: p <:+ r → ∀ e ∈ p.take n, e.gen = x.gen →
      C07LegitSucc (toHdr e) (toHdr x) := by
  -- induction on the length of the ancestor
  suffices H : ∀ (k : Nat) (x : Header) (p : List Header), p.length = k → x :: p <:+ r →
      ∀ e ∈ p.take n, e.gen = x.gen → C07LegitSucc (toHdr e) (toHdr x) from
    fun x p hs e he hg => H p.length x p rfl hs e he hg
  intro k
  induction k using Nat.strongRecOn with
  | ind k ih =>
    intro x p hk hs e he hg
    have hax := (accepted_cons C01mhpEq n g cv x p).mp (accepted_suffix C01mhpEq n g cv hacc hs)
    have hc := hax.2.2.1
    unfold contradictingSpec at hc
    cases hf : (p.take n).find? (fun b => decide (b.gen = x.gen)) with
    | none =>
      rw [List.find?_eq_none] at hf
      have := hf e he
      simp [hg] at this
    | some b =>
      rw [hf] at hc
      simp only at hc
      obtain ⟨hb, as, bs, hp, has⟩ := List.find?_eq_some_iff_append.mp hf
      have hbg : b.gen = x.gen := by simpa using hb
      obtain ⟨hp', hin⟩ := take_split p n as bs b hp
      have hsb : b :: (bs ++ p.drop n) <:+ p := by
        conv => rhs; rw [hp']
        exact List.suffix_append _ _
      have hsbr : b :: (bs ++ p.drop n) <:+ r := hsb.trans ((List.suffix_cons x p).trans hs)
      have hab := (accepted_cons C01mhpEq n g cv b _).mp (accepted_suffix C01mhpEq n g cv hacc hsbr)
      have hlen : (bs ++ p.drop n).length < p.length := by
        have := congrArg List.length hp'
        simp at this ⊢
        omega
      -- the chain value the latest own header carries is below the one `x` carries
      have hm : b.mhp ≤ x.mhp := by
        have h1 : b.mhp = cv (bs ++ p.drop n) := by simpa [C01mhpEq] using hab.2.1
        have h2 : x.mhp = cv p := by simpa [C01mhpEq] using hax.2.1
        rw [h1, h2]
        exact cv_suffix_mono cv r hmono ((List.suffix_cons x p).trans hs) ((List.suffix_cons b _).trans hsb)
      have hbx : C07LegitSucc (toHdr b) (toHdr x) := by
        rcases (C07_spec (toHdr b) (toHdr x) hbg).mp hc with h1 | h1
        · exact h1
        · exfalso
          have hbh := hab.1
          have hxh := hax.1
          unfold C07LegitSucc toHdr at h1
          simp only at h1
          omega
      rw [hp] at he
      rcases List.mem_append.mp he with he | he
      · have := has e he
        simp [hg] at this
      · rcases List.mem_cons.mp he with he | he
        · subst he; exact hbx
        · exact C07_legit_trans _ _ _
            (ih (bs ++ p.drop n).length (by omega) b (bs ++ p.drop n) rfl hsbr e (hin e he) (by rw [hg, hbg])) hbx

/-- **Key lemma (the window scan is complete).** For every chain accepted under the rules of
`verifyBlock` (equality of `maxHeightPrevoted`, comparison with the generator's latest header in the
window) no accepted header contradicts ANY header of its generator in its window. -/
theorem C01_window_scan_complete (n g : Nat) (cv : List Header → Nat) (r : List Header)
    (hmono : ∀ x p, x :: p <:+ r → cv p ≤ cv (x :: p))
    (hacc : C01acceptedB C01mhpEq n g cv r = true) :
    ∀ (x : Header) (p : List Header), x :: p <:+ r → C01scanAll (p.take n) x = false := by
  intro x p hs
  unfold C01scanAll
  rw [List.any_eq_false]
  intro e he
  by_cases hg : e.gen = x.gen
  · have := C01_window_legit n g cv r hmono hacc x p hs e he hg
    have hnc := (C07_spec (toHdr e) (toHdr x) hg).mpr (Or.inl this)
    simp [hg, hnc]
  · simp [hg]

/-- … in the form the node uses it: a NEW header `x` that passes the three rules on top of an accepted
chain `p` contradicts none of its generator's headers among the last `n` blocks. -/
theorem C01_latest_scan_suffices (n g : Nat) (cv : List Header → Nat) (x : Header) (p : List Header)
    (hmono : ∀ y q, y :: q <:+ x :: p → cv q ≤ cv (y :: q))
    (hp : C01acceptedB C01mhpEq n g cv p = true)
    (hh : x.height = g + p.length + 1) (hm : x.mhp = cv p)
    (hlatest : contradictingSpec Gen.areDistinctHeadersContradicting (p.take n) x = false) :
    C01scanAll (p.take n) x = false := by
  apply C01_window_scan_complete n g cv (x :: p) hmono ?_ x p (List.suffix_refl _)
  rw [accepted_cons]
  exact ⟨hh, by simp [C01mhpEq, hm], hlatest, hp⟩

/-! ### the specification and the windowed model of the Go module -/

/-- Specification (`Model/BFTSpec.lean`, scan over the whole chain): on a chain-valid chain no header
contradicts any earlier header of its generator. -/
theorem C01_spec_scan_complete (cfg : Cfg) (l : List Header) (hv : C01ChainValid cfg l) :
    ∀ (B : List Header) (x : Header), B ++ [x] <+: l → C01scanAll B x = false := by
  intro B x hpre
  have hs : x :: B.reverse <:+ l.reverse := by
    have := List.reverse_suffix.mpr hpre
    simpa using this
  unfold C01scanAll
  rw [List.any_eq_false]
  intro e he
  by_cases hg : e.gen = x.gen
  · have hl := valid_legit cfg hv hs e (by simpa using he) hg
    have hnc := (C07_spec (toHdr e) (toHdr x) hg).mpr (Or.inl hl)
    simp [hg, hnc]
  · simp [hg]

private theorem heightsFrom_of_heights : ∀ (l : List Header) (k : Nat),
    (∀ (B : List Header) (x : Header), B ++ [x] <+: l → x.height = k + B.length) → HeightsFrom k l := by
  intro l
  induction l with
  | nil => intro _ _; trivial
  | cons h t ih =>
    intro k hk
    refine ⟨by simpa using hk [] h (by simp), ih (k + 1) ?_⟩
    intro B x hpre
    have := hk (h :: B) x (by simpa using hpre)
    simp only [List.length_cons] at this
    omega

/-- `maxHeightPrevoted` of the model's view of the chain `p` (newest first) -/
def C01modelMhp (s0 : State) (p : List Header) : Nat :=
  match C01runChain s0 p.reverse with
  | some s => s.mhp
  | none => 0

private theorem accepted_of_rules (mhpOK : Nat → Nat → Bool) (n g : Nat) (cv : List Header → Nat) :
    ∀ (r : List Header),
      (∀ x p, x :: p <:+ r → x.height = g + p.length + 1 ∧ mhpOK x.mhp (cv p) = true ∧
        contradictingSpec Gen.areDistinctHeadersContradicting (p.take n) x = false) →
      C01acceptedB mhpOK n g cv r = true := by
  intro r
  induction r with
  | nil => intro _; rfl
  | cons y r ih =>
    intro h
    rw [accepted_cons]
    obtain ⟨h1, h2, h3⟩ := h y r (List.suffix_refl _)
    exact ⟨h1, h2, h3, ih fun x p hs => h x p (hs.trans (List.suffix_cons y r))⟩

/-- **The window scan of the Go module is complete on every chain the node accepts**, of any length:
with the parameters installed by `SetBFTParameters` on the genesis state, if the chain `l` is valid for
the node (`C01NodeValid`: the MODEL's `maxHeightPrevoted` in every header, the MODEL's windowed
`BFTVotes.contradicting` false for every header), then no header of `l` contradicts any header of its
generator among the `3·batchSize` blocks before it. -/
theorem C01_model_window_scan_complete (bs g pcThr certThr : Nat) (vs : List Validator) (s0 : State)
    (hinit : setParams (initGenesis bs g) pcThr certThr vs = .ok s0) (l : List Header)
    (hv : C01NodeValid s0 g l) (hu : g + l.length + 1 < 4294967296) :
    ∀ (B : List Header) (x : Header), B ++ [x] <+: l →
      C01scanAll (B.reverse.take (3 * bs)) x = false := by
  have hH : HeightsFrom (g + 1) l :=
    heightsFrom_of_heights l (g + 1) fun B x hpre => by have := (hv B x hpre).1; omega
  -- facts about every block `x :: p` of the chain
  have hblock : ∀ x p, x :: p <:+ l.reverse →
      p.reverse ++ [x] <+: l ∧ HeightsFrom (g + 1) (p.reverse ++ [x]) ∧
        g + (p.reverse ++ [x]).length + 1 < 4294967296 := by
    intro x p hs
    have hpre : p.reverse ++ [x] <+: l := by
      have : (p.reverse ++ [x]).reverse <:+ l.reverse := by simpa using hs
      exact List.reverse_suffix.mp this
    obtain ⟨t, ht⟩ := hpre
    refine ⟨⟨t, ht⟩, ?_, ?_⟩
    · rw [← ht] at hH; exact (heightsFrom_append hH).1
    · have := congrArg List.length ht
      simp only [List.length_append] at this ⊢
      omega
  have hmono : ∀ x p, x :: p <:+ l.reverse → C01modelMhp s0 p ≤ C01modelMhp s0 (x :: p) := by
    intro x p hs
    obtain ⟨_, hh, hlen⟩ := hblock x p hs
    obtain ⟨s₁, s, h1, h2, hm, _⟩ :=
      C01_heights_monotone_any_length bs g pcThr certThr vs s0 p.reverse [x] hinit hh hlen
    unfold C01modelMhp
    rw [h1, List.reverse_cons, h2]
    exact hm
  have hacc : C01acceptedB C01mhpEq (3 * bs) g (C01modelMhp s0) l.reverse = true := by
    apply accepted_of_rules
    intro x p hs
    obtain ⟨hpre, hh, hlen⟩ := hblock x p hs
    obtain ⟨hheight, s, hrun, hmhp, hcontra⟩ := hv p.reverse x hpre
    obtain ⟨s', hrun', hscan, _⟩ := C01_model_contradiction_check_any_length bs g pcThr certThr vs s0 p.reverse
      hinit (heightsFrom_append hh).1 (by simp only [List.length_append, List.length_singleton] at hlen; omega)
    rw [hrun] at hrun'
    injection hrun' with hrun'
    subst hrun'
    refine ⟨by simpa using hheight, ?_, ?_⟩
    · unfold C01modelMhp C01mhpEq
      rw [hrun]
      simpa using hmhp
    · rw [← hcontra, hscan x, List.reverse_reverse]
  intro B x hpre
  have hs : x :: B.reverse <:+ l.reverse := by
    have := List.reverse_suffix.mpr hpre
    simpa using this
  exact C01_window_scan_complete (3 * bs) g (C01modelMhp s0) l.reverse hmono hacc x B.reverse hs

/-! ### which rules of `verifyBlock` the safety theorem uses -/

/-- A block that passes `Executer.verifyBlock` (`Model/Verify.lean`; the store `s` is the consensus
store of the tip) satisfies the three rules the safety proof needs: next height, the header's
`maxHeightPrevoted` EQUALS the store's, `IsHeaderContradictingChain` is false. (The other rules —
slot, generator, signature — make "a header by `v`" a header SIGNED by `v`, the reading of
`C01Honest`.) -/
theorem C01_rules_used_by_safety (n : Verify.Node) (s : State) (b : Verify.Cand)
    (h : Verify.verifyBlock n s b = none) :
    b.height = n.tipHeight + 1 ∧ b.mhp = s.mhp ∧
    contradicting Gen.areDistinctHeadersContradicting s (Verify.hdrOf b) = false ∧
    Verify.slotGenerator n s b = some b.gen ∧ b.sigOK = true := by
  rw [Verify.verifyBlock_eq, Verify.firstFailure_none_iff] at h
  have h1 := h (.height, decide (b.height = n.tipHeight + 1)) (by simp [Verify.verifyChecks])
  have h2 := h (.mhp, decide (b.mhp = s.mhp)) (by simp [Verify.verifyChecks])
  have h3 := h (.contradicting, !Verify.isContradicting s b) (by simp [Verify.verifyChecks])
  have h4 := h (.generator, decide (Verify.slotGenerator n s b = some b.gen)) (by simp [Verify.verifyChecks])
  have h5 := h (.signature, b.sigOK) (by simp [Verify.verifyChecks])
  refine ⟨by simpa using h1, by simpa using h2, ?_, by simpa using h4, h5⟩
  simpa [Verify.isContradicting] using h3

/-- The chain `l` (oldest first) was accepted block by block by `verifyBlock`: for every block `x` on
top of the prefix `B` there are a node whose tip is at height `g + |B|`, the consensus store the model
computes for `B`, and a candidate carrying the header `x`, which `verifyBlock` accepts. -/
def C01VerifyAccepted (s0 : State) (g : Nat) (l : List Header) : Prop :=
  ∀ (B : List Header) (x : Header), B ++ [x] <+: l →
    ∃ (n : Verify.Node) (s : State) (b : Verify.Cand),
      n.tipHeight = g + B.length ∧ C01runChain s0 B = some s ∧ Verify.hdrOf b = x ∧
      Verify.verifyBlock n s b = none

/-- chains accepted by `verifyBlock` are valid for the node in the sense of `C01_More.lean` -/
theorem C01_accepted_chain_is_node_valid (s0 : State) (g : Nat) (l : List Header)
    (h : C01VerifyAccepted s0 g l) : C01NodeValid s0 g l := by
  intro B x hpre
  obtain ⟨n, s, b, hn, hrun, hb, hacc⟩ := h B x hpre
  obtain ⟨h1, h2, h3, _, _⟩ := C01_rules_used_by_safety n s b hacc
  subst hb
  refine ⟨?_, s, hrun, ?_, h3⟩
  · show b.height = g + B.length + 1
    omega
  · exact h2

/-- **Finality safety for trees of chains the node accepted** (`verifyBlock` of `Model/Verify.lean` on
the windowed model of `liskbft`), chains of any length: `C01_finality_safety_node_rules_partial` with
its hypothesis `C01NodeValid` discharged by the acceptance rules. -/
theorem C01_finality_safety_accepted_chains_partial (bs g pcThr certThr : Nat) (vs : List Validator)
    (s0 : State) (hinit : setParams (initGenesis bs g) pcThr certThr vs = .ok s0)
    (T : List (List Header)) (byz : List Bytes) (hpc : 0 < pcThr)
    (hthr : C01byzWeight (C01sortedCfg g pcThr vs) byz + totalWeight (C01sortedCfg g pcThr vs) <
      pcThr + prevoteThreshold (C01sortedCfg g pcThr vs))
    (hacc : ∀ l ∈ T, C01VerifyAccepted s0 g l)
    (hu : ∀ l ∈ T, g + l.length + 1 < 4294967296)
    (hhon : ∀ v ∈ (C01sortedCfg g pcThr vs).validators, v.address ∉ byz → C01Honest T v.address)
    (l₁ l₂ : List Header) (h₁ : l₁ ∈ T) (h₂ : l₂ ∈ T) :
    ∃ s₁ s₂, C01runChain s0 l₁ = some s₁ ∧ C01runChain s0 l₂ = some s₂ ∧
      (l₁.take (s₁.mhpc - g) <+: l₂.take (s₂.mhpc - g) ∨ l₂.take (s₂.mhpc - g) <+: l₁.take (s₁.mhpc - g)) :=
  C01_finality_safety_node_rules_partial bs g pcThr certThr vs s0 hinit T byz hpc hthr
    (fun l hl => C01_accepted_chain_is_node_valid s0 g l (hacc l hl)) hu hhon l₁ l₂ h₁ h₂

/-! ## (ii) the equality cannot be weakened to `header.maxHeightPrevoted ≤ chain value` -/

/-- `C01nodeValidB` with the one-sided bound in place of the equality: heights consecutive, the
header's `maxHeightPrevoted` is AT MOST the model's value after the parent chain, the model's windowed
`BFTVotes.contradicting` is false. -/
def C01nodeValidLeB (s0 : State) (g : Nat) (l : List Header) : Bool :=
  (List.range l.length).all fun i =>
    match l[i]? with
    | none => true
    | some x =>
      decide (x.height = g + i + 1) &&
        match C01runChain s0 (l.take i) with
        | none => false
        | some s => decide (x.mhp ≤ s.mhp) && !(contradicting Gen.areDistinctHeadersContradicting s x)

/-- validators a, b (honest, weight 34 each) and z (weight 32: less than one third of 100) -/
def C01nrVals : List Validator := [⟨[0x0a], 34⟩, ⟨[0x0b], 34⟩, ⟨[0x0e], 32⟩]

/-- the state after `SetBFTParameters(67, 67, …)` on the genesis state: batch size 4 (vote window 12),
prevote threshold `⌊2·100/3⌋+1 = 67`, precommit threshold 67 — the standard thresholds -/
def C01nrInit : State :=
  match setParams (initGenesis 4 0) 67 67 C01nrVals with
  | .ok s => s
  | .error _ => initGenesis 4 0

theorem C01nrInit_eq : setParams (initGenesis 4 0) 67 67 C01nrVals = .ok C01nrInit := by rfl

def C01nrCfg : Cfg := C01sortedCfg 0 67 C01nrVals

/-- "I generated a block far above this one": a header with this `maxHeightGenerated` implies no votes -/
def C01nrFar : Nat := 2147483648

/-- a, b, z, a, then z's ordinary block `b0` (height 5, previous own block 3: prevotes 4..5) and z's block
`b1` (height 6) that implies no votes; every header carries the chain's `maxHeightPrevoted` -/
def C01nrThree : List Header :=
  [⟨1, [0x0a], 0, 0, none⟩, ⟨2, [0x0b], 0, 0, none⟩, ⟨3, [0x0e], 0, 1, none⟩, ⟨4, [0x0a], 1, 1, none⟩,
   ⟨5, [0x0e], 3, 2, none⟩, ⟨6, [0x0e], C01nrFar, 2, none⟩]

/-- z's third header: `maxHeightGenerated = 3` AGAIN (as in `b0`), reporting `mhp` -/
def C01nrH (mhp : Nat) : Header := ⟨7, [0x0e], 3, mhp, none⟩

/-- **The three-header sequence.** On the windowed model of the Go module, parameters 34/34/32, 67/67:
* the chain up to `b1` is valid for the node (real rules);
* `H` with the chain's value 2 contradicts `b1` and is rejected under either rule;
* `H` with the understated value 1 is rejected by the equality and ACCEPTED under the one-sided bound:
  the scan compares it with `b1` only, although it contradicts `b0` (full scan);
* `b0` and `H` both prevote height 4 (per-header rule of the specification), and the vote store counts
  z's 32 twice: the block at height 4 goes from prevote weight 66 to 98 (all three validators together
  hold 100, the voters a and z hold 66) and `maxHeightPrevoted` from 2 to 4 — a prevote quorum (67) that
  no two thirds of the weight stand behind. -/
theorem C01_one_sided_bound_double_vote :
    C01nodeValidB C01nrInit 0 C01nrThree = true ∧
    C01nodeValidB C01nrInit 0 (C01nrThree ++ [C01nrH 2]) = false ∧
    C01nodeValidLeB C01nrInit 0 (C01nrThree ++ [C01nrH 2]) = false ∧
    C01nodeValidB C01nrInit 0 (C01nrThree ++ [C01nrH 1]) = false ∧
    C01nodeValidLeB C01nrInit 0 (C01nrThree ++ [C01nrH 1]) = true ∧
    contradictingSpec Gen.areDistinctHeadersContradicting (C01nrThree.reverse.take 12) (C01nrH 1) = false ∧
    C01scanAll (C01nrThree.reverse.take 12) (C01nrH 1) = true ∧
    (C01nrThree[4]?.map fun b0 => (b0.gen, prevotes C01nrCfg b0 4)) = some ([0x0e], true) ∧
    prevotes C01nrCfg (C01nrH 1) 4 = true ∧
    ((C01runChain C01nrInit C01nrThree).map fun s =>
      (s.mhp, (s.infos.find? (·.height = 4)).map (·.prevoteWeight))) = some (2, some 66) ∧
    ((C01runChain C01nrInit (C01nrThree ++ [C01nrH 1])).map fun s =>
      (s.mhp, (s.infos.find? (·.height = 4)).map (·.prevoteWeight))) = some (4, some 98) := by
  decide +kernel

/-- the common prefix of the two chains below -/
def C01nrPrefix : List Header :=
  [⟨1, [0x0a], 0, 0, none⟩, ⟨2, [0x0b], 0, 0, none⟩, ⟨3, [0x0a], 1, 1, none⟩]

/-- the public chain: a and b alone go on (z is busy elsewhere); 68 ≥ 67 suffices to finalize -/
def C01nrChainA : List Header :=
  C01nrPrefix ++ [⟨4, [0x0a], 3, 2, none⟩, ⟨5, [0x0b], 2, 2, none⟩, ⟨6, [0x0a], 4, 4, none⟩, ⟨7, [0x0b], 5, 5, none⟩]

/-- the private fork of z from block 3: no-vote headers alternate with headers that repeat an earlier
`maxHeightGenerated` (0, 3, 4) under an understated `maxHeightPrevoted`; each repetition adds z's 32
again to the prevote weight of the blocks below. When the fork's `maxHeightPrevoted` is ahead of the
public chain's, a and b — following fork choice, reporting their largest heights 6 and 7 truthfully,
contradicting none of their own headers — move over (heights 19, 20) and precommit what z "prevoted". -/
def C01nrChainB : List Header :=
  C01nrPrefix ++
  [⟨4, [0x0e], C01nrFar, 0, none⟩, ⟨5, [0x0e], C01nrFar, 2, none⟩, ⟨6, [0x0e], 4, 1, none⟩,
   ⟨7, [0x0e], C01nrFar, 2, none⟩, ⟨8, [0x0e], 0, 0, none⟩, ⟨9, [0x0e], C01nrFar, 2, none⟩,
   ⟨10, [0x0e], 0, 1, none⟩, ⟨11, [0x0e], C01nrFar, 6, none⟩, ⟨12, [0x0e], 0, 0, none⟩,
   ⟨13, [0x0e], C01nrFar, 8, none⟩, ⟨14, [0x0e], 0, 1, none⟩, ⟨15, [0x0e], C01nrFar, 10, none⟩,
   ⟨16, [0x0e], 3, 9, none⟩, ⟨17, [0x0e], C01nrFar, 12, none⟩, ⟨18, [0x0e], 4, 9, none⟩,
   ⟨19, [0x0a], 6, 14, none⟩, ⟨20, [0x0b], 7, 16, none⟩]

/-- what the model computes on the two chains: (maxHeightPrevoted, maxHeightPrecommitted) -/
theorem C01_one_sided_bound_views :
    ((C01runChain C01nrInit C01nrChainA).map fun s => (s.mhp, s.mhpc)) = some (6, 4) ∧
    ((C01runChain C01nrInit C01nrChainB).map fun s => (s.mhp, s.mhpc)) = some (19, 14) := by
  decide +kernel

/-- **Conflicting finalization under the one-sided bound, standard thresholds, 32 % Byzantine weight.**
Every hypothesis of `C01_finality_safety_node_rules_partial` holds for the tree `{A, B}` — parameters
installed by `SetBFTParameters`, (H-thr) in its "less than one third" form with the standard threshold,
a and b honest in the tree (no two of their headers contradict), heights small — except that chain B is
accepted under `maxHeightPrevoted ≤ chain value` only (it is NOT valid under the equality). The
conclusion fails: view A finalizes 4 blocks, view B 14, and the blocks at height 4 differ (generated by
a resp. z), so neither finalized prefix is a prefix of the other. -/
theorem C01_one_sided_bound_conflicting_finalization :
    C01nodeValidB C01nrInit 0 C01nrChainA = true ∧
    C01nodeValidLeB C01nrInit 0 C01nrChainA = true ∧
    C01nodeValidLeB C01nrInit 0 C01nrChainB = true ∧
    C01nodeValidB C01nrInit 0 C01nrChainB = false ∧
    3 * C01byzWeight C01nrCfg [[0x0e]] < totalWeight C01nrCfg ∧
    totalWeight C01nrCfg * 2 / 3 + 1 ≤ C01nrCfg.precommitThreshold ∧
    C01byzWeight C01nrCfg [[0x0e]] + totalWeight C01nrCfg < 67 + prevoteThreshold C01nrCfg ∧
    (∀ v ∈ C01nrCfg.validators, v.address ∉ [[0x0e]] → C01Honest [C01nrChainA, C01nrChainB] v.address) ∧
    ∃ sA sB, C01runChain C01nrInit C01nrChainA = some sA ∧ C01runChain C01nrInit C01nrChainB = some sB ∧
      sA.mhpc = 4 ∧ sB.mhpc = 14 ∧
      ¬ (C01nrChainA.take (sA.mhpc - 0) <+: C01nrChainB.take (sB.mhpc - 0)) ∧
      ¬ (C01nrChainB.take (sB.mhpc - 0) <+: C01nrChainA.take (sA.mhpc - 0)) := by
  have hb : ∀ v ∈ C01nrCfg.validators, v.address ∉ [[0x0e]] →
      C01honestB [C01nrChainA, C01nrChainB] v.address = true := by decide +kernel
  refine ⟨by decide +kernel, by decide +kernel, by decide +kernel, by decide +kernel, by decide +kernel,
    by decide +kernel, by decide +kernel, fun v hv hn => C01honestB_sound _ _ (hb v hv hn), ?_⟩
  have hv := C01_one_sided_bound_views
  cases hA : C01runChain C01nrInit C01nrChainA with
  | none => rw [hA] at hv; simp at hv
  | some sA =>
    cases hB : C01runChain C01nrInit C01nrChainB with
    | none => rw [hB] at hv; simp at hv
    | some sB =>
      rw [hA, hB] at hv
      simp only [Option.map_some, Option.some.injEq, Prod.mk.injEq] at hv
      obtain ⟨⟨_, hA4⟩, ⟨_, hB14⟩⟩ := hv
      refine ⟨sA, sB, rfl, rfl, hA4, hB14, ?_, ?_⟩
      · rw [hA4, hB14]; decide +kernel
      · rw [hA4, hB14]; decide +kernel

/-- The same chain B is what the safety theorem excludes: under the node's real rules the first header
of z's fork is already refused (its `maxHeightPrevoted` 0 is not the chain's 2), and so is every
understated header after it. -/
theorem C01_one_sided_bound_chain_refused_by_equality :
    (List.range (C01nrChainB.length + 1)).map (fun i => C01nodeValidB C01nrInit 0 (C01nrChainB.take i)) =
      [true, true, true, true] ++ List.replicate 17 false := by
  decide +kernel

/-- non-vacuity of (i) for the model: on the (valid) public chain the completeness theorem applies — the
last header of b contradicts none of b's headers among the 12 blocks before it -/
example : C01scanAll ((C01nrChainA.take 6).reverse.take (3 * 4)) ⟨7, [0x0b], 5, 5, none⟩ = false :=
  C01_model_window_scan_complete 4 0 67 67 C01nrVals C01nrInit C01nrInit_eq C01nrChainA
    (C01nodeValidB_sound _ _ _ (by decide +kernel)) (by decide) (C01nrChainA.take 6) _ ⟨[], by decide⟩

/-- non-vacuity of the abstract lemma, and the one-sided counterpart: with the specification's chain value
the three-header sequence plus `H` is accepted under `≤`, not under `=`, and its conclusion fails -/
example :
    C01acceptedB C01mhpEq 12 0 (mhp C01nrCfg) C01nrThree.reverse = true ∧
    C01acceptedB C01mhpEq 12 0 (mhp C01nrCfg) (C01nrH 1 :: C01nrThree.reverse) = false ∧
    C01acceptedB C01mhpLe 12 0 (mhp C01nrCfg) (C01nrH 1 :: C01nrThree.reverse) = true ∧
    C01scanAll (C01nrThree.reverse.take 12) (C01nrH 1) = true := by
  decide +kernel

/-! ## (iii) the regenerated skeleton: an equality test, in `verifyBlock`, before anything is written -/

namespace C01Gen
open LiskVerif.Gen

def body (f : String) : List VS.Item := (VS.fns.lookup f).getD []

/-- the header field, as the translator prints it -/
def field : String := "block.Header.MaxHeightPrevoted"

/-- every step of every extracted function that reads the field (operand or atom of a comparison) -/
def readers : List (String × VS.Item) :=
  VS.fns.flatMap fun p => (p.2.filter fun i => i.lhs == field || i.rhs == field || i.atoms.contains field).map fun i => (p.1, i)

/-- kinds that change something outside the function's own memory (database, batch, application,
event emitter, receiver fields) -/
def effectKinds : List String := ["write", "stage", "appwrite", "publish", "set", "clear"]

def idxOf (f : String) (q : VS.Item → Bool) : Nat := (body f).findIdx q

end C01Gen

open C01Gen LiskVerif.Gen in
/-- **The comparison is an equality test.** On the current source the only step of the whole
acceptance path that reads `block.Header.MaxHeightPrevoted` is one unconditional check of
`Executer.verifyBlock` with operator `!=` against `bftHeights#0`, an error exit; `bftHeights` is
`GetBFTHeights(consensusStore)`; and the generated guard is `a ≠ b` for all values — the block passes
iff the two are EQUAL. (A one-sided comparison, a comparison elsewhere, or none breaks this theorem.) -/
theorem C01_gen_mhp_is_equality_test :
    readers =
      [("Executer.verifyBlock",
        { kind := "check", op := "!=", lhs := "block.Header.MaxHeightPrevoted", rhs := "bftHeights#0", ret := "errorf",
          guard := "g_Executer_verifyBlock_MaxHeightPrevoted",
          atoms := ["block.Header.MaxHeightPrevoted", "bftHeights#0"] })] ∧
    ("Executer.verifyBlock", "bftHeights", "self.liskBFT.API().GetBFTHeights(consensusStore)") ∈ VS.handles ∧
    ∀ a b : Nat, VS.g_Executer_verifyBlock_MaxHeightPrevoted a b = decide (a ≠ b) := by
  refine ⟨by decide +kernel, by decide +kernel, fun a b => rfl⟩

open C01Gen LiskVerif.Gen in
/-- **… executed before the contradiction check**, on the store the heights were just read from:
`GetBFTHeights(consensusStore)`, the equality test, `IsHeaderContradictingChain(consensusStore, header)`
follow each other directly (only the error exit of the read in between), all unconditional — the scan
runs only for headers that carry the chain's own `maxHeightPrevoted` (the premise of
`C01_window_scan_complete`). -/
theorem C01_gen_mhp_before_contradiction_check :
    let i := idxOf "Executer.verifyBlock" (fun i => i.lhs == field)
    ((body "Executer.verifyBlock").drop (i - 2) |>.take 6).map (fun i => (i.kind, i.ctx, i.op, i.lhs)) =
      [("call", [], "", "self.liskBFT.API().GetBFTHeights(consensusStore)"),
       ("check", [], "callerr", "bftHeights"),
       ("check", [], "!=", "block.Header.MaxHeightPrevoted"),
       ("call", [], "", "self.liskBFT.API().IsHeaderContradictingChain(consensusStore, block.Header.Readonly())"),
       ("check", [], "callerr", "self.liskBFT.API().IsHeaderContradictingChain(consensusStore, block.Header.Readonly())"),
       ("check", [], "is", "self.liskBFT.API().IsHeaderContradictingChain(consensusStore, block.Header.Readonly())#0")] := by
  decide +kernel

open C01Gen LiskVerif.Gen in
/-- **… and before any state is written.** `verifyBlock` itself changes nothing (no write, staging,
application call, publication or field assignment); `processValidated` calls it as its first step after
creating the staged store — before the vote update (`abi.Execute`, whose first step is
`bft.BeforeTransactionsExecute` on that store), before anything is staged into the batch, before the
chain write and before every publication — and returns its error unchanged. -/
theorem C01_gen_mhp_before_any_write :
    (body "Executer.verifyBlock").all (fun i => !effectKinds.contains i.kind) = true ∧
    ((body "Executer.processValidated").take 3).map (fun i => (i.kind, i.ctx, i.op, i.lhs, i.ret, i.callee)) =
      [("call", [], "", "diffdb.New(self.database, blockchain.DBPrefixToBytes(blockchain.DBPrefixState))", "", ""),
       ("sub", [], "", "self.verifyBlock(store, block)", "", "Executer.verifyBlock"),
       ("check", [], "callerr", "self.verifyBlock(store, block)", "err", "Executer.verifyBlock")] ∧
    2 < idxOf "Executer.processValidated" (fun i => i.callee == "stateExecuter.Execute") ∧
    2 < idxOf "Executer.processValidated" (fun i => effectKinds.contains i.kind) ∧
    ((body "stateExecuter.Execute").head?.map fun i => (i.kind, i.lhs)) =
      some ("call", "self.bft.BeforeTransactionsExecute(block.Header.Readonly(), diffStore)") := by
  decide +kernel
