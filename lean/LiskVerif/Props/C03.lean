/-
C03 — Only fully valid blocks extend the chain; rejected blocks change nothing.

Theorems about `LiskVerif.Verify` (Model/Verify.lean), the model of `Block.Validate`,
`Executer.verifyBlock`, `verifyAggregateCommit`, `stateExecuter.Execute` and
`Executer.processValidated` with the fixes /verif/fixes/C03-*.patch applied.

* `C03_first_failure_order`: the error returned is the error of the first failing entry of the
  declarative rule list `checkList` (the rules in code order); `C03_first_failure_characterisation`
  spells this out.
* `C03_accept_iff_spec`: a block is accepted iff `SpecValid true n b` — the conjunction of EVERY
  rule the property lists (for the repository with the four C03 fixes and the aggregate-commit
  bound fix, `Config.acBound = true`).  `C03_accept_iff_spec_partial` is the same statement for both
  values of `Config.acBound`; for the code before the bound fix (`acBound = false`)
  `C03_missing_conjunct_counterexample` exhibits an accepted block that skips a change of BFT
  parameters with its aggregate commit, so `C03_accept_iff_spec_Statement` (no hypothesis on the
  configuration) fails.
* `C03_reject_leaves_state` / `C03_process_not_accepted_leaves_state`: every exit other than
  acceptance returns the node (chain, consensus store, finalized height, published events)
  unchanged: all fallible steps of the staged machine only touch the staged store.
* `C03_accept_effect`, `C03_history_only_valid_blocks`: what acceptance does; over any sequence of
  offered blocks the chain only ever grows by blocks that were `SpecValid` when they were offered.
* `C03_signature_covers_all_fields`: by the regenerated schema table, the signed encoding
  (`blockchain.signingBlockHeader`) has every field of `blockchain.BlockHeader` except field 15
  (the signature), with the same number, kind and order; `C03_signing_bytes_injective`: equal
  signing bytes imply equal signed fields.
* `C03_implies_max_prevotes_unchecked`: header field 12 is read by no rule.
-/
import LiskVerif.Lemmas.Verify
import LiskVerif.Gen.Schemas
import LiskVerif.Props.C08_Msg

open LiskVerif LiskVerif.Verify

namespace LiskVerif.Verify
open LiskVerif.BFT

/-! ### the specification: every rule the property lists -/

/-- a valid aggregate commit; `bound` selects whether the next-BFT-parameters bound is part of it -/
def ACValid (bound : Bool) (n : Node) (ac : AC) : Prop :=
  (ac.bitsLen = 0 ∧ ac.sigLen = 0 ∧ ac.height = n.bft.mhc) ∨
  ((ac.bitsLen ≠ 0 ∧ ac.sigLen ≠ 0) ∧ n.bft.mhc < ac.height ∧ ac.height ≤ n.bft.mhpc ∧
    nextBoundViolated bound n.bft ac.height = false ∧
    ac.height ≤ n.tipHeight ∧ (getParams n.bft ac.height).isSome = true ∧ ac.sigOK = true)

/-- the block executes: the vote update and the application succeed, every transaction is
verified Ok and not Invalid on execution, a parameter update (if any) is admissible -/
def ExecOK (n : Node) (b : Cand) : Prop :=
  b.abiInit = true ∧ b.abiVerifyAssets = true ∧ b.abiBefore = true ∧ b.abiAfter = true ∧
  (∀ t ∈ b.txs, t.1 = TxV.ok ∧ t.2 ≠ TxV.error ∧ t.2 ≠ TxV.invalid) ∧
  (storeAfterBFT n b).isSome = true ∧ infoOKAfterBFT n b = true ∧ changeOK n b = true ∧
  nextParamsOK n b = true ∧ b.nEvents ≤ maxEventsPerBlock

structure SpecValid (bound : Bool) (n : Node) (b : Cand) : Prop where
  version : b.version = 2
  height : b.height = n.tipHeight + 1
  link : b.prevID = n.tipID
  lengths : b.prevID.length = 32 ∧ b.gen.length = 20 ∧ b.sigLen = 64
  /-- the header carries a 32-byte state root (an empty one would switch the application's comparison off) -/
  stateRootLength : b.stateRootLen = 32
  slotLater : slotOf n.cfg n.tipTimestamp < slotOf n.cfg b.timestamp
  notFuture : slotOf n.cfg b.timestamp ≤ slotOf n.cfg n.cfg.now
  /-- the generator assigned to the slot … -/
  generator : slotGenerator n n.bft b = some b.gen
  /-- … signed all header fields for this chain ID -/
  signature : b.sigOK = true
  maxHeightPrevoted : b.mhp = n.bft.mhp
  notContradicting : isContradicting n.bft b = false
  aggregateCommit : ACValid bound n b.ac
  transactionRoot : b.txRootOK = true
  assets : b.assets = AssetsV.ok
  assetRoot : b.assetRootOK = true
  eventRoot : b.eventRootOK = true
  validatorsHash : b.vhOK = true
  stateRoot : b.commitOK = true
  transactionsStatic : ∀ v ∈ b.txStatic, v = true
  payloadSize : b.payloadSize ≤ n.cfg.maxTxLen
  executes : ExecOK n b

/-- the model accepts the block (`Block.Validate` and `processValidated` return nil) -/
def accepts (n : Node) (b : Cand) : Prop := (applyBlock n b).2 = none

/-! ### helper equivalences -/

theorem applyBlock_err (n : Node) (b : Cand) :
    (applyBlock n b).2 = firstFailure (checkList n b) := by
  unfold applyBlock checkList
  rw [firstFailure_append, firstFailure_append, ← validate_eq, ← verifyBlock_eq, ← execErr_eq]
  cases hv : validate b with
  | some e => rfl
  | none =>
    simp only
    unfold processValidated
    have h := (runSteps_pre n b).1
    generalize runSteps (preSteps b) { node := n, store := n.bft } = r at h
    obtain ⟨s, oe⟩ := r
    simp only at h
    cases oe with
    | some e => simp only; exact h
    | none => simp only; exact h

theorem validateChecks_all (b : Cand) :
    (∀ p ∈ validateChecks b, p.2 = true) ↔
      (b.prevID.length = 32 ∧ b.gen.length = 20 ∧ b.sigLen = 64 ∧ b.stateRootLen = 32) ∧ (∀ v ∈ b.txStatic, v = true) ∧
      b.txRootOK = true ∧ b.assets = AssetsV.ok ∧ b.assetRootOK = true := by
  unfold validateChecks
  simp only [List.cons_append, List.nil_append, List.forall_mem_cons, List.forall_mem_append,
    List.forall_mem_map, decide_eq_true_eq]
  have ha : (b.assets ≠ AssetsV.unsorted ∧ b.assets ≠ AssetsV.duplicate) ↔ b.assets = AssetsV.ok := by
    cases b.assets <;> simp
  constructor
  · rintro ⟨h1, h2, h3, h3', h4, h5, h6, h7, h8, _⟩
    exact ⟨⟨h1, h2, h3, h3'⟩, h4, h5, ha.mp ⟨h6, h7⟩, h8⟩
  · rintro ⟨⟨h1, h2, h3, h3'⟩, h4, h5, h6, h7⟩
    exact ⟨h1, h2, h3, h3', h4, h5, (ha.mpr h6).1, (ha.mpr h6).2, h7, by simp⟩

theorem acChecks_all (n : Node) (ac : AC) :
    (∀ p ∈ acChecks n n.bft ac, p.2 = true) ↔ ACValid n.cfg.acBound n ac := by
  unfold acChecks ACValid
  by_cases h0 : ac.bitsLen = 0 ∧ ac.sigLen = 0 ∧ ac.height = n.bft.mhc
  · simp [h0]
  · simp only [h0, if_false, false_or, List.forall_mem_cons, decide_eq_true_eq, Bool.not_eq_true']
    constructor
    · rintro ⟨h1, h2, h3, h4, h5, h6, h7, _⟩
      exact ⟨h1, h2, h3, h4, h5, h6, h7⟩
    · rintro ⟨h1, h2, h3, h4, h5, h6, h7⟩
      exact ⟨h1, h2, h3, h4, h5, h6, h7, by simp⟩

theorem verifyChecks_all (n : Node) (b : Cand) :
    (∀ p ∈ verifyChecks n n.bft b, p.2 = true) ↔
      b.version = 2 ∧ b.height = n.tipHeight + 1 ∧ b.prevID = n.tipID ∧
      b.payloadSize ≤ n.cfg.maxTxLen ∧ slotOf n.cfg b.timestamp ≤ slotOf n.cfg n.cfg.now ∧
      slotOf n.cfg n.tipTimestamp < slotOf n.cfg b.timestamp ∧
      slotGenerator n n.bft b = some b.gen ∧ b.mhp = n.bft.mhp ∧ isContradicting n.bft b = false ∧
      ACValid n.cfg.acBound n b.ac ∧ b.sigOK = true := by
  rw [← acChecks_all]
  unfold verifyChecks
  simp only [List.cons_append, List.nil_append, List.forall_mem_cons, List.forall_mem_append,
    decide_eq_true_eq, Bool.not_eq_true']
  constructor
  · rintro ⟨h1, h2, h3, h4, h5, h6, _, h7, h8, h9, h10, h11, _⟩
    exact ⟨h1, h2, h3, h4, h5, h6, h7, h8, h9, h10, h11⟩
  · rintro ⟨h1, h2, h3, h4, h5, h6, h7, h8, h9, h10, h11⟩
    exact ⟨h1, h2, h3, h4, h5, h6, by simp [h7], h7, h8, h9, h10, h11, by simp⟩

theorem txChecks_all (l : List (TxV × TxV)) :
    (∀ p ∈ txChecks l, p.2 = true) ↔ ∀ t ∈ l, t.1 = TxV.ok ∧ t.2 ≠ TxV.error ∧ t.2 ≠ TxV.invalid := by
  induction l with
  | nil => simp [txChecks]
  | cons t rest ih =>
    obtain ⟨v, e⟩ := t
    simp only [txChecks, List.cons_append, List.nil_append, List.forall_mem_cons, ih,
      decide_eq_true_eq]
    constructor
    · rintro ⟨_, h2, h3, h4, h5⟩
      exact ⟨⟨h2, h3, h4⟩, h5⟩
    · rintro ⟨⟨h2, h3, h4⟩, h5⟩
      exact ⟨by simp [h2], h2, h3, h4, h5⟩

theorem execChecks_all (n : Node) (b : Cand) :
    (∀ p ∈ execChecks n b, p.2 = true) ↔ (ExecOK n b ∧ b.vhOK = true ∧ b.eventRootOK = true ∧ b.commitOK = true) := by
  unfold execChecks ExecOK
  simp only [List.cons_append, List.nil_append, List.forall_mem_cons, List.forall_mem_append,
    txChecks_all, decide_eq_true_eq]
  constructor
  · rintro ⟨h1, h2, h3, h4, h5, h6, h7, h8, h9, h10, h11, h12, h13, _⟩
    exact ⟨⟨h1, h2, h5, h7, h6, h3, h4, h8, h9, h11⟩, h10, h12, h13⟩
  · rintro ⟨⟨h1, h2, h5, h7, h6, h3, h4, h8, h9, h11⟩, h10, h12, h13⟩
    exact ⟨h1, h2, h3, h4, h5, h6, h7, h8, h9, h10, h11, h12, h13, by simp⟩

theorem accepts_iff (n : Node) (b : Cand) : accepts n b ↔ SpecValid n.cfg.acBound n b := by
  unfold accepts
  rw [applyBlock_err, firstFailure_none_iff]
  unfold checkList
  simp only [List.forall_mem_append, validateChecks_all, verifyChecks_all, execChecks_all]
  constructor
  · rintro ⟨⟨⟨⟨l1, l2, l3, l4⟩, hs, h3, h4, h5⟩, v1, v2, v3, v4, v5, v6, v7, v8, v9, v10, v11⟩, e1, e2, e3, e4⟩
    exact ⟨v1, v2, v3, ⟨l1, l2, l3⟩, l4, v6, v5, v7, v11, v8, v9, v10, h3, h4, h5, e3, e2, e4, hs, v4, e1⟩
  · intro h
    exact ⟨⟨⟨⟨h.lengths.1, h.lengths.2.1, h.lengths.2.2, h.stateRootLength⟩, h.transactionsStatic, h.transactionRoot, h.assets, h.assetRoot⟩,
      h.version, h.height, h.link, h.payloadSize, h.notFuture, h.slotLater, h.generator,
      h.maxHeightPrevoted, h.notContradicting, h.aggregateCommit, h.signature⟩,
      h.executes, h.validatorsHash, h.eventRoot, h.stateRoot⟩

/-! ### acceptance: the node afterwards -/

theorem applyBlock_rejected_node (n : Node) (b : Cand) (e : Err) (h : (applyBlock n b).2 = some e) :
    (applyBlock n b).1 = n := by
  unfold applyBlock at h ⊢
  cases hv : validate b with
  | some e' => rfl
  | none =>
    simp only [hv] at h ⊢
    unfold processValidated at h ⊢
    have hn := runSteps_node (preSteps b) (preSteps_preserve b) { node := n, store := n.bft }
    generalize runSteps (preSteps b) { node := n, store := n.bft } = r at h hn
    obtain ⟨s, oe⟩ := r
    cases oe with
    | some e' => exact hn
    | none => simp at h

theorem applyBlock_accepted_node (n : Node) (b : Cand) (h : (applyBlock n b).2 = none) :
    ∃ s2, storeAfterExec n b = some s2 ∧ (applyBlock n b).1 = addBlock n s2 b := by
  unfold applyBlock at h ⊢
  cases hv : validate b with
  | some e' => simp [hv] at h
  | none =>
    simp only [hv] at h ⊢
    unfold processValidated at h ⊢
    have hn := runSteps_node (preSteps b) (preSteps_preserve b) { node := n, store := n.bft }
    have hs := (runSteps_pre n b).2
    generalize runSteps (preSteps b) { node := n, store := n.bft } = r at h hn hs
    obtain ⟨s, oe⟩ := r
    cases oe with
    | some e' => simp at h
    | none =>
      simp only at hn ⊢
      refine ⟨s.store, (hs rfl).symm, ?_⟩
      simp [commitStep, hn]

/-- the blocks offered one after the other (each through `Block.Validate` + `processValidated`) -/
def runAll (n : Node) : List Cand → Node
  | [] => n
  | b :: rest => runAll (applyBlock n b).1 rest

end LiskVerif.Verify

/-! ## property theorems -/

/-- The error returned by `Block.Validate` + `processValidated` is the error of the first failing
rule in code order. -/
theorem C03_first_failure_order (n : Node) (b : Cand) :
    (applyBlock n b).2 = firstFailure (checkList n b) := applyBlock_err n b

/-- … i.e. error `e` is returned iff some rule with error class `e` fails and every rule before it
in `checkList` holds. -/
theorem C03_first_failure_characterisation (n : Node) (b : Cand) (e : Err) :
    (applyBlock n b).2 = some e ↔
      ∃ pre post, checkList n b = pre ++ (e, false) :: post ∧ ∀ p ∈ pre, p.2 = true := by
  rw [applyBlock_err, firstFailure_some_iff]

/-- Accepted ⇔ every rule holds, for both versions of the repository: the next-BFT-parameters bound
of the aggregate commit is part of the conjunction exactly when the code enforces it
(`Config.acBound`). -/
theorem C03_accept_iff_spec_partial (n : Node) (b : Cand) :
    accepts n b ↔ SpecValid n.cfg.acBound n b := accepts_iff n b

/-- **Accepted ⇔ every rule the property lists holds** (repository with the C03 fixes and the
aggregate-commit bound fix). -/
theorem C03_accept_iff_spec (n : Node) (b : Cand) (hb : n.cfg.acBound = true) :
    accepts n b ↔ SpecValid true n b := by
  rw [accepts_iff, hb]

/-- The full statement without a hypothesis on the configuration: false, because the model also
covers the code before the aggregate-commit bound fix (see below). -/
def C03_accept_iff_spec_Statement : Prop := ∀ (n : Node) (b : Cand), accepts n b ↔ SpecValid true n b

/-- Every exit with an error returns the node unchanged: chain, tip, consensus store, finalized
height and the published events. -/
theorem C03_reject_leaves_state (n : Node) (b : Cand) (e : Err) (h : (applyBlock n b).2 = some e) :
    (applyBlock n b).1 = n := applyBlock_rejected_node n b e h

/-- The same for `Executer.process`: an identical block, a rejected block and a block that is not a
successor of the tip leave the node unchanged (nothing is published). -/
theorem C03_process_not_accepted_leaves_state (n : Node) (b : Cand)
    (h : (process n b).2 ≠ Outcome.accepted) : (process n b).1 = n := by
  unfold process at h ⊢
  by_cases h1 : b.id = n.tipID
  · simp [h1]
  · simp only [h1, if_false] at h ⊢
    by_cases h2 : b.height = n.tipHeight + 1 ∧ b.prevID = n.tipID
    · simp only [h2, and_self, if_true] at h ⊢
      have hr := applyBlock_rejected_node n b
      generalize applyBlock n b = r at h hr
      obtain ⟨n', oe⟩ := r
      cases oe with
      | some e => exact hr e rfl
      | none => simp at h
    · simp [h2]

/-- What acceptance does: one block appended, the staged consensus store committed, finalized
height raised to `maxHeightPrecommitted` if that is larger, and the publications in order. -/
theorem C03_accept_effect (n : Node) (b : Cand) (h : accepts n b) :
    ∃ s2, storeAfterExec n b = some s2 ∧
      let n' := (applyBlock n b).1
      n'.tipHeight = b.height ∧ n'.tipID = b.id ∧ n'.chain = (b.height, b.id) :: n.chain ∧
      n'.bft = s2 ∧ n'.finalized = max n.finalized s2.mhpc ∧ n'.cfg = n.cfg ∧
      n'.events = n.events ++
        (if s2.mhpc > n.finalized then [Ev.finalize n.finalized s2.mhpc b.height] else []) ++
        [Ev.newBlock b.height b.id b.nEvents] ++
        (match b.change with
          | some c => [Ev.validators c.generators.length c.precommit c.cert]
          | none => []) := by
  obtain ⟨s2, h1, h2⟩ := applyBlock_accepted_node n b h
  refine ⟨s2, h1, ?_⟩
  simp only [h2, addBlock, decide_eq_true_eq, true_and]
  refine ⟨?_, rfl⟩
  by_cases hm : s2.mhpc > n.finalized
  · simp [hm]; omega
  · simp [hm]; omega

/-- Over any sequence of offered blocks the chain only grows by blocks that satisfied every rule
against the state they were offered to; everything else is still the old chain. -/
theorem C03_history_only_valid_blocks (bs : List Cand) (n : Node) (e : Nat × Bytes)
    (he : e ∈ (runAll n bs).chain) :
    e ∈ n.chain ∨ ∃ n' b, b ∈ bs ∧ n'.cfg = n.cfg ∧ SpecValid n.cfg.acBound n' b ∧ e = (b.height, b.id) := by
  induction bs generalizing n with
  | nil => exact Or.inl he
  | cons b rest ih =>
    simp only [runAll] at he
    cases hr : (applyBlock n b).2 with
    | some err =>
      rw [applyBlock_rejected_node n b err hr] at he
      rcases ih n he with h | ⟨n', b', hb', hc, hs, heq⟩
      · exact Or.inl h
      · exact Or.inr ⟨n', b', List.mem_cons_of_mem _ hb', hc, hs, heq⟩
    | none =>
      obtain ⟨s2, _, hn⟩ := applyBlock_accepted_node n b hr
      have hcfg : (applyBlock n b).1.cfg = n.cfg := by rw [hn]; rfl
      have hchain : (applyBlock n b).1.chain = (b.height, b.id) :: n.chain := by rw [hn]; rfl
      rcases ih (applyBlock n b).1 he with h | ⟨n', b', hb', hc, hs, heq⟩
      · rw [hchain] at h
        rcases List.mem_cons.mp h with h | h
        · exact Or.inr ⟨n, b, by simp, rfl, (accepts_iff n b).mp hr, h⟩
        · exact Or.inl h
      · rw [hcfg] at hc hs
        exact Or.inr ⟨n', b', List.mem_cons_of_mem _ hb', hc, hs, heq⟩

/-! ### the signature covers every header field -/

/-- By the regenerated schema table: the signed encoding of a block header consists of exactly the
fields of `blockchain.BlockHeader` without field 15 (the signature), same numbers, kinds and order.
A header field added without adding it to `signingBlockHeader` breaks this theorem. -/
theorem C03_signature_covers_all_fields :
    ∃ hdr sig, Gen.allSchemas.find "blockchain.BlockHeader" = some hdr ∧
      Gen.allSchemas.find "blockchain.signingBlockHeader" = some sig ∧
      sig.enc = hdr.enc.filter (fun f => f.num != 15) ∧
      (hdr.enc.filter (fun f => f.num == 15)).map (·.kind) = [Codec.Kind.bytes] ∧
      (hdr.enc.map (·.num)) = (List.range 16).drop 1 := by
  refine ⟨_, _, rfl, rfl, ?_, ?_, ?_⟩ <;> decide +kernel

/-- The signed encoding determines every signed field: two well-typed value lists of the
`signingBlockHeader` schema (version … aggregateCommit, the nested aggregate commit present) with the
same signing bytes are equal — no alteration of a header field can keep the signed message.
(From the one-level-nesting round trip of the codec model, `C08_roundtrip_nested1`.) -/
theorem C03_signing_bytes_injective (sig : Codec.Schema)
    (hs : Gen.allSchemas.find "blockchain.signingBlockHeader" = some sig)
    (v1 v2 : List Codec.Value)
    (h1 : C08Typed1 Gen.allSchemas Codec.asciiNFC sig.enc v1 = true)
    (h2 : C08Typed1 Gen.allSchemas Codec.asciiNFC sig.enc v2 = true)
    (l1 : (Codec.encode Gen.allSchemas Codec.asciiNFC sig v1).length < 2 ^ 63)
    (l2 : (Codec.encode Gen.allSchemas Codec.asciiNFC sig v2).length < 2 ^ 63)
    (heq : Codec.encode Gen.allSchemas Codec.asciiNFC sig v1 = Codec.encode Gen.allSchemas Codec.asciiNFC sig v2) :
    v1 = v2 := by
  have hn : C08Nested1 Gen.allSchemas sig = true := by
    have : (Gen.allSchemas.find "blockchain.signingBlockHeader").all (C08Nested1 Gen.allSchemas) = true := by
      decide +kernel
    rw [hs] at this
    exact this
  have r1 := (C08_roundtrip_nested1 Gen.allSchemas Codec.asciiNFC sig v1 hn h1 l1).1
  have r2 := (C08_roundtrip_nested1 Gen.allSchemas Codec.asciiNFC sig v2 hn h2 l2).1
  rw [heq, r2] at r1
  exact (Except.ok.inj r1).symm

/-- Header field 12 (`impliesMaxPrevotes`) is read by no rule: changing it never changes the verdict
(nothing on this path verifies the claim; it is not among the rules the property lists). -/
theorem C03_implies_max_prevotes_unchecked (n : Node) (b : Cand) (x : Bool) :
    (applyBlock n { b with impliesMaxPrevotes := x }).2 = (applyBlock n b).2 := by
  rw [applyBlock_err, applyBlock_err]
  rfl

/-! ### a concrete chain: non-vacuity and the missing conjunct -/

namespace LiskVerif.Verify.Example

def addr : Bytes := List.replicate 20 1
def bid (k : Nat) : Bytes := List.replicate 32 (UInt8.ofNat k)

def cfg (bound : Bool) : Config :=
  { genesisTimestamp := 1000, blockTime := 10, now := 100000, maxTxLen := 15360, acBound := bound }

/-- the consensus store after the genesis block: one validator of weight 1 -/
def genesisBFT : BFT.State :=
  match BFT.setParams (BFT.initGenesis 1 0) 1 1 [{ address := addr, weight := 1 }] with
  | .ok s => BFT.setKeys s [addr]
  | .error _ => BFT.initGenesis 1 0

def genesis (bound : Bool) : Node :=
  { cfg := cfg bound, tipHeight := 0, tipID := bid 0, tipTimestamp := 1000, chain := [(0, bid 0)],
    bft := genesisBFT, finalized := 0 }

/-- the honest block of height `k` (empty payload, empty aggregate commit at height 0) -/
def blk (k mhp : Nat) : Cand :=
  { version := 2, height := k, timestamp := 1000 + 10 * k, prevID := bid (k - 1), gen := addr,
    id := bid k, mhp := mhp, mhg := k - 1,
    ac := { height := 0, bitsLen := 0, sigLen := 0, sigOK := false }, sigLen := 64, sigOK := true }

/-- block 2 changes the BFT parameters (weight 2, thresholds 2): they become active at height 3 -/
def change : Change :=
  { precommit := 2, cert := 2, validators := [{ address := addr, weight := 2 }], generators := [addr] }

def history : List Cand := [blk 1 0, { blk 2 1 with change := some change }, blk 3 2, blk 4 3]

/-- after four blocks: tip 4, maxHeightPrecommitted 3, maxHeightCertified 0, parameters at 1 and 3 -/
def node4 (bound : Bool) : Node := runAll (genesis bound) history

/-- block 5 certifying height 3 although the parameters change at height 3 and nothing is
certified yet: LIP-0061 only allows heights ≤ 2 here -/
def skipping : Cand := { blk 5 4 with ac := { height := 3, bitsLen := 1, sigLen := 96, sigOK := true } }

instance (bound : Bool) (n : Node) (ac : AC) : Decidable (ACValid bound n ac) := by
  unfold ACValid; infer_instance

end LiskVerif.Verify.Example

open LiskVerif.Verify.Example in
/-- The code before the aggregate-commit bound fix (`acBound = false`) accepts a block whose
aggregate commit skips a change of BFT parameters: the conjunct that was missing. -/
theorem C03_missing_conjunct_counterexample :
    accepts (node4 false) skipping ∧ ¬ SpecValid true (node4 false) skipping := by
  refine ⟨by unfold accepts; decide +kernel, fun h => ?_⟩
  have := h.aggregateCommit
  revert this
  decide +kernel

open LiskVerif.Verify.Example in
/-- hence the unrestricted statement does not hold -/
theorem C03_accept_iff_spec_Statement_fails : ¬ C03_accept_iff_spec_Statement := by
  intro h
  exact C03_missing_conjunct_counterexample.2 ((h _ _).mp C03_missing_conjunct_counterexample.1)

open LiskVerif.Verify.Example in
/-- with the bound enforced the same block is rejected with the aggregate-commit error -/
theorem C03_bound_enforced_rejects : (applyBlock (node4 true) skipping).2 = some Err.acNextParams := by
  decide +kernel

/-! ### non-vacuity -/

section
open LiskVerif.Verify.Example

/-- `C03_accept_iff_spec`: a block that is accepted / satisfies the full specification exists -/
example : accepts (genesis true) (blk 1 0) := by unfold accepts; decide +kernel
example : SpecValid true (genesis true) (blk 1 0) :=
  (C03_accept_iff_spec _ _ rfl).mp (by unfold accepts; decide +kernel)
/-- … also with a non-empty aggregate commit inside the window -/
example : accepts (node4 true)
    { blk 5 4 with ac := { height := 2, bitsLen := 1, sigLen := 96, sigOK := true } } := by
  unfold accepts; decide +kernel
/-- `C03_first_failure_order`: with two rules violated the earlier one in code order is reported -/
example : (applyBlock (genesis true) { blk 1 0 with eventRootOK := false, mhp := 7 }).2 = some Err.mhp := by
  decide +kernel
example : (applyBlock (genesis true) { blk 1 0 with eventRootOK := false }).2 = some Err.eventRoot := by
  decide +kernel
example : (applyBlock (genesis true) { blk 1 0 with txs := [(TxV.ok, TxV.invalid)], commitOK := false }).2
    = some Err.txExecute := by decide +kernel
example : (applyBlock (genesis true) { blk 1 0 with txStatic := [true, false], payloadSize := 99999 }).2
    = some Err.txStatic := by decide +kernel
example : (applyBlock (genesis true) { blk 1 0 with payloadSize := 15361 }).2 = some Err.payloadSize := by
  decide +kernel
/-- `C03_signing_bytes_injective`: well-typed value lists of the signing schema exist -/
example : (Gen.allSchemas.find "blockchain.signingBlockHeader").any (fun s =>
    C08Typed1 Gen.allSchemas Codec.asciiNFC s.enc
      [.uint 2, .uint 1010, .uint 1, .bytes (bid 0), .bytes addr, .bytes (bid 9), .bytes (bid 8), .bytes (bid 7),
       .bytes (bid 6), .uint 0, .uint 0, .bool false, .bytes (bid 5), .msg true [.uint 0, .bytes [], .bytes []]]) = true := by
  decide +kernel
/-- `C03_reject_leaves_state`: the hypothesis is satisfiable (a rejected block exists), and
`C03_accept_effect` really changes the node -/
example : ∃ e, (applyBlock (genesis true) { blk 1 0 with sigOK := false }).2 = some e :=
  ⟨Err.signature, by decide +kernel⟩
example : (applyBlock (genesis true) (blk 1 0)).1.tipHeight = 1 ∧
    (applyBlock (genesis true) (blk 1 0)).1.events = [Ev.newBlock 1 (bid 1) 0] := by decide +kernel
/-- `C03_history_only_valid_blocks`: the history above really extends the chain -/
example : (node4 true).chain.map (·.1) = [4, 3, 2, 1, 0] ∧ (node4 true).finalized = 3 := by decide +kernel
/-- `C03_process_not_accepted_leaves_state`: identical block and non-successor are such exits -/
example : (Verify.process (node4 true) (blk 4 3)).2 = Outcome.ignored := by decide +kernel
example : (Verify.process (node4 true) (blk 7 3)).2 = Outcome.other := by decide +kernel

end
