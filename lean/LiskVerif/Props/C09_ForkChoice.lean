/-
C09 — the fork choice `Executer.process` runs on every block taken from the postBlock queue never panics,
in particular not in a node STATE in which an optional piece of state is absent.

`Executer.process` builds `forkchoice.NewForkChoice(tip header, block header, slot calculator,
c.lastBlockReceived)` for every block a peer gossips (or an RPC client posts) and asks
`IsIdenticalBlock → IsValidBlock → IsDoubleForging → IsTieBreak → IsDifferentChain`. `c.lastBlockReceived` is a
`*time.Time` that is nil after every (re)start and stays nil while the tip comes from the synchroniser; the
block reaching this code is attacker-chosen (a statelessly valid block of any shape). Seeded change C09-15
merged the two received-within-slot helpers and lost the nil case: a competing block of tie-break shape then
crashes the consensus goroutine.

Model: `Model/ForkChoiceNil.lean` — every pointer of `forkChoice` is an `Option`, every dereference has the
explicit outcome `Res.panic`, so that "never panics" is a statement about the model and not a convention.

Tie A (regenerated on every run by tools/fngen, typed translation with the NIL DISCIPLINE of tools/fngen/nil.go):
`Gen.fcnIsIdenticalBlock, fcnIsValidBlock, fcnIsDuplicateBlock, fcnIsDoubleForging, fcnLastReceivedInSlot,
fcnIsTieBreak, fcnIsDifferentChainFn, fcnIsDifferentChain` — every fork-choice predicate `process` evaluates; the
receive time of the tip is an `Option` parameter, the nil case is part of the generated definition
(`match lastReceivedAt with | none => true | some t => …`), and the translator REFUSES a dereference of
`c.lastBlockReceivedAt` that is not dominated by a nil check (`Gen.nilDiscipline` lists what it checked and
what it assumes). `Gen.processOrder` / `Gen.VS.Executer_process`: the order of the questions and where
`lastBlockReceived` is written.

* `C09_fc_model_is_generated_*`        : with the three pointers `process` always supplies, each model predicate
                                          returns `ok` of the regenerated definition, for every other input.
* `C09_fc_predicates_total`            : … hence none of the seven predicates panics, whatever the headers, times
                                          and the (absent or present) receive time of the tip are.
* `C09_fc_never_panics`                : `classify` (the questions in `process` order) never panics.
* `C09_fc_panic_needs_nil_required`    : for ARBITRARY `forkChoice` values a panic implies that one of the three
                                          pointers `process` supplies is nil; `lastBlockReceivedAt` never matters.
* `C09_fc_absent_receive_time_is_in_slot`, `C09_fc_tiebreak_absent_receive_time`,
  `C09_fc_absent_time_eq_received_in_slot`, `C09_fc_absent_time_lip14`
                                        : LIP-0014 — a tip without receive time counts as received within its
                                          slot: no tie break, and the same answers as for any receive time in
                                          the tip's slot of the grid.
* `C09_fc_merged_panics_iff`, `C09_fc_merged_classify_panics_iff`, `C09_fc_merged_agrees_otherwise`,
  `C09_fc_merged_violates`, `C09_fc_merged_counterexample`
                                        : the merged helper of C09-15 panics EXACTLY for a duplicate-height
                                          competitor of a later slot at a tip without receive time (that is not
                                          identical, a successor or double forging), and is the old code elsewhere.
* `C09_fc_gen_nil_discipline`, `C09_fc_gen_process_order`, `C09_fc_gen_receive_time_written_only_on_apply`,
  `C09_fc_gen_tiebreak_eq_c07`          : obligations on the regenerated tables.
-/
import LiskVerif.Model.ForkChoiceNil
import LiskVerif.Gen.Fns
import LiskVerif.Gen.Fns2
import LiskVerif.Gen.VerifySkeleton
import LiskVerif.Props.C07_Slot

open LiskVerif LiskVerif.Gen
open LiskVerif.FCN hiding FC isDifferentChain

/-! ### evaluation lemmas of the outcome type -/

namespace LiskVerif.FCN

@[simp] theorem Res.bind_ok {α β : Type} (a : α) (f : α → Res β) : (Res.ok a).bind f = f a := rfl
@[simp] theorem Res.bind_panic {α β : Type} (f : α → Res β) : (Res.panic : Res α).bind f = .panic := rfl
@[simp] theorem Res.map_ok {α β : Type} (a : α) (f : α → β) : (Res.ok a).map f = .ok (f a) := rfl
@[simp] theorem Res.map_panic {α β : Type} (f : α → β) : (Res.panic : Res α).map f = .panic := rfl
@[simp] theorem Res.and_ok (a b : Bool) : (Res.ok a).and (.ok b) = .ok (a && b) := by cases a <;> rfl
@[simp] theorem Res.and_false (b : Res Bool) : (Res.ok false).and b = .ok false := rfl
@[simp] theorem Res.and_true (b : Res Bool) : (Res.ok true).and b = b := rfl
@[simp] theorem Res.and_panic (b : Res Bool) : (Res.panic).and b = .panic := rfl
@[simp] theorem Res.not_ok (a : Bool) : (Res.ok a).not = .ok (!a) := rfl
@[simp] theorem Res.not_panic : (Res.panic : Res Bool).not = .panic := rfl
@[simp] theorem deref_some {α : Type} (a : α) : deref (some a) = .ok a := rfl
@[simp] theorem deref_none {α : Type} : deref (none : Option α) = .panic := rfl
@[simp] theorem eqR_ok {α : Type} [DecidableEq α] (a b : α) : eqR (.ok a) (.ok b) = .ok (decide (a = b)) := rfl
@[simp] theorem eqR_panic {α : Type} [DecidableEq α] (b : Res α) : eqR (.panic) b = .panic := rfl
@[simp] theorem ltR_ok (a b : Int) : ltR (.ok a) (.ok b) = .ok (decide (a < b)) := rfl

end LiskVerif.FCN

/-- the slot-number method of the model is the regenerated `(*BlockSlot).GetSlotNumber` -/
abbrev C09sn : Nat → Nat → Nat → Int := getSlotNumber

/-- the `forkChoice` value `Executer.process` builds: tip header, block header and slot calculator are there
(`Gen.nilDiscipline`: the three `nonnil-assumed` pointers), the receive time of the tip may be absent -/
def C09fc (tip cur : Hdr) (g bt : Nat) (recvTip : Option Nat) (now : Nat) : FCN.FC :=
  { lastHeader := some tip, currentHeader := some cur, slot := some (g, bt), lastBlockReceivedAt := recvTip,
    currentBlockReceivedAt := now }

/-- the duplicate test on two headers through the regenerated definition -/
def C09dup (tip cur : Hdr) : Bool :=
  fcnIsDuplicateBlock tip.height cur.height tip.maxHeightPrevoted cur.maxHeightPrevoted
    (decide (tip.previousBlockID = cur.previousBlockID))

/-- `IsTieBreak` through the regenerated definition -/
def C09tie (tip cur : Hdr) (g bt : Nat) (recvTip : Option Nat) (now : Nat) : Bool :=
  fcnIsTieBreak tip.height cur.height tip.maxHeightPrevoted cur.maxHeightPrevoted
    (decide (tip.previousBlockID = cur.previousBlockID)) tip.timestamp cur.timestamp recvTip now g bt

/-! ### the model is the regenerated code -/

theorem C09_fc_model_is_generated_identical (tip cur : Hdr) (g bt : Nat) (r : Option Nat) (now : Nat) :
    isIdenticalBlock (C09fc tip cur g bt r now) = .ok (fcnIsIdenticalBlock (decide (tip.id = cur.id))) := rfl

theorem C09_fc_model_is_generated_valid (tip cur : Hdr) (g bt : Nat) (r : Option Nat) (now : Nat) :
    isValidBlock (C09fc tip cur g bt r now) =
      .ok (fcnIsValidBlock tip.height cur.height (decide (tip.id = cur.previousBlockID))) := by
  simp [isValidBlock, C09fc, lastF, curF, fcnIsValidBlock]

theorem C09_fc_model_is_generated_duplicate (tip cur : Hdr) (g bt : Nat) (r : Option Nat) (now : Nat) :
    isDuplicateBlock (C09fc tip cur g bt r now) = .ok (C09dup tip cur) := by
  simp [isDuplicateBlock, C09fc, lastF, curF, C09dup, fcnIsDuplicateBlock]

theorem C09_fc_model_is_generated_double_forging (tip cur : Hdr) (g bt : Nat) (r : Option Nat) (now : Nat) :
    isDoubleForging (C09fc tip cur g bt r now) =
      .ok (fcnIsDoubleForging tip.height cur.height tip.maxHeightPrevoted cur.maxHeightPrevoted
        (decide (tip.previousBlockID = cur.previousBlockID)) (decide (tip.generatorAddress = cur.generatorAddress))) := by
  unfold isDoubleForging
  rw [C09_fc_model_is_generated_duplicate]
  simp [C09fc, lastF, curF, C09dup, fcnIsDoubleForging]

/-- the helper with the nil check: the model's `match` on the pointer is the generated `match` on the `Option` -/
theorem C09_fc_model_is_generated_received_last (tip cur : Hdr) (g bt : Nat) (r : Option Nat) (now : Nat) :
    receivedLastBlockWithinForgingSlot C09sn (C09fc tip cur g bt r now) = .ok (fcnLastReceivedInSlot r tip.timestamp g bt) := by
  cases r <;> simp [receivedLastBlockWithinForgingSlot, C09fc, lastF, slotOf, fcnLastReceivedInSlot]

theorem C09_fc_model_is_generated_received (tip cur : Hdr) (g bt : Nat) (r : Option Nat) (now : Nat) :
    receivedBlockWithinForgingSlot C09sn (C09fc tip cur g bt r now) =
      .ok (fcReceivedBlockWithinForgingSlot now cur.timestamp g bt) := by
  simp [receivedBlockWithinForgingSlot, C09fc, curF, slotOf, fcReceivedBlockWithinForgingSlot]

theorem C09_fc_model_is_generated_tiebreak (tip cur : Hdr) (g bt : Nat) (r : Option Nat) (now : Nat) :
    isTieBreak C09sn (C09fc tip cur g bt r now) = .ok (C09tie tip cur g bt r now) := by
  unfold isTieBreak
  rw [C09_fc_model_is_generated_duplicate, C09_fc_model_is_generated_received_last, C09_fc_model_is_generated_received]
  simp [C09fc, lastF, curF, slotOf, C09tie, fcnIsTieBreak, C09dup]

theorem C09_fc_model_is_generated_different_chain (tip cur : Hdr) (g bt : Nat) (r : Option Nat) (now : Nat) :
    FCN.isDifferentChain (C09fc tip cur g bt r now) =
      .ok (fcnIsDifferentChain tip.height cur.height tip.maxHeightPrevoted cur.maxHeightPrevoted) := by
  simp [FCN.isDifferentChain, C09fc, lastF, curF, fcnIsDifferentChain, fcnIsDifferentChainFn, isDifferentChainFn]

/-! ### totality -/

/-- **none of the predicates `Executer.process` evaluates panics** — for all headers (any heights, ids of any
length incl. empty, timestamps before the genesis timestamp, …), any slot calculator (block time 0 included), any
receive time of the block, and an ABSENT or present receive time of the tip -/
theorem C09_fc_predicates_total (tip cur : Hdr) (g bt : Nat) (r : Option Nat) (now : Nat) :
    let c := C09fc tip cur g bt r now
    (isIdenticalBlock c).isOk ∧ (isValidBlock c).isOk ∧ (isDuplicateBlock c).isOk ∧ (isDoubleForging c).isOk ∧
    (receivedLastBlockWithinForgingSlot C09sn c).isOk ∧ (receivedBlockWithinForgingSlot C09sn c).isOk ∧
    (isTieBreak C09sn c).isOk ∧ (FCN.isDifferentChain c).isOk := by
  intro c
  refine ⟨?_, ?_, ?_, ?_, ?_, ?_, ?_, ?_⟩
  · rfl
  · show (isValidBlock (C09fc tip cur g bt r now)).isOk = true; rw [C09_fc_model_is_generated_valid]; rfl
  · show (isDuplicateBlock (C09fc tip cur g bt r now)).isOk = true; rw [C09_fc_model_is_generated_duplicate]; rfl
  · show (isDoubleForging (C09fc tip cur g bt r now)).isOk = true; rw [C09_fc_model_is_generated_double_forging]; rfl
  · show (receivedLastBlockWithinForgingSlot C09sn (C09fc tip cur g bt r now)).isOk = true
    rw [C09_fc_model_is_generated_received_last]; rfl
  · show (receivedBlockWithinForgingSlot C09sn (C09fc tip cur g bt r now)).isOk = true
    rw [C09_fc_model_is_generated_received]; rfl
  · show (isTieBreak C09sn (C09fc tip cur g bt r now)).isOk = true; rw [C09_fc_model_is_generated_tiebreak]; rfl
  · show (FCN.isDifferentChain (C09fc tip cur g bt r now)).isOk = true; rw [C09_fc_model_is_generated_different_chain]; rfl

/-- the classification `process` makes, computed from the regenerated definitions -/
def C09class (tip cur : Hdr) (tie : Bool) : Class :=
  if fcnIsIdenticalBlock (decide (tip.id = cur.id)) then .identical
  else if fcnIsValidBlock tip.height cur.height (decide (tip.id = cur.previousBlockID)) then .validSuccessor
  else if fcnIsDoubleForging tip.height cur.height tip.maxHeightPrevoted cur.maxHeightPrevoted
      (decide (tip.previousBlockID = cur.previousBlockID)) (decide (tip.generatorAddress = cur.generatorAddress)) then .doubleForging
  else if tie then .tieBreak
  else if fcnIsDifferentChain tip.height cur.height tip.maxHeightPrevoted cur.maxHeightPrevoted then .differentChain
  else .discard

theorem C09_fc_classify_eq (tip cur : Hdr) (g bt : Nat) (r : Option Nat) (now : Nat) :
    classify C09sn (C09fc tip cur g bt r now) = .ok (C09class tip cur (C09tie tip cur g bt r now)) := by
  unfold classify classifyWith
  rw [C09_fc_model_is_generated_identical, C09_fc_model_is_generated_valid, C09_fc_model_is_generated_double_forging,
    C09_fc_model_is_generated_tiebreak, C09_fc_model_is_generated_different_chain]
  unfold C09class
  simp only [Res.bind_ok]
  split <;> try rfl
  split <;> try rfl
  split <;> try rfl
  split <;> try rfl
  split <;> rfl

/-- the clause of C09 for this code: whatever block a peer sends and whatever the node knows about its tip, the
fork choice of `Executer.process` answers -/
def C09NeverPanics (classifier : FCN.FC → Res Class) : Prop :=
  ∀ (tip cur : Hdr) (g bt : Nat) (recvTip : Option Nat) (now : Nat), classifier (C09fc tip cur g bt recvTip now) ≠ .panic

/-- **the fork choice of `Executer.process` never panics** -/
theorem C09_fc_never_panics : C09NeverPanics (classify C09sn) := by
  intro tip cur g bt r now h
  rw [C09_fc_classify_eq] at h
  cases h

/-- **for arbitrary `forkChoice` values (any pointer nil): a panic of the classification means that the tip
header, the block header or the slot calculator is nil** — the three pointers `process` always supplies; the
receive time of the tip (`lastBlockReceivedAt`) can be nil or not -/
theorem C09_fc_panic_needs_nil_required (c : FCN.FC) (h : classify C09sn c = .panic) :
    c.lastHeader = none ∨ c.currentHeader = none ∨ c.slot = none := by
  obtain ⟨l, cu, s, r, now⟩ := c
  cases l with
  | none => exact Or.inl rfl
  | some tip =>
    cases cu with
    | none => exact Or.inr (Or.inl rfl)
    | some cur =>
      cases s with
      | none => exact Or.inr (Or.inr rfl)
      | some p =>
        obtain ⟨g, bt⟩ := p
        exact absurd h (C09_fc_never_panics tip cur g bt r now)

/-! ### LIP-0014: a tip without receive time counts as received within its slot -/

/-- the nil case of the regenerated helper -/
theorem C09_fc_absent_receive_time_is_in_slot (ts g bt : Nat) : fcnLastReceivedInSlot none ts g bt = true := rfl

/-- **no tie break against a tip without receive time** (just restarted / tip from the synchroniser) -/
theorem C09_fc_tiebreak_absent_receive_time (tip cur : Hdr) (g bt now : Nat) :
    isTieBreak C09sn (C09fc tip cur g bt none now) = .ok false := by
  rw [C09_fc_model_is_generated_tiebreak]
  simp [C09tie, fcnIsTieBreak, fcnLastReceivedInSlot]

/-- **an absent receive time gives the answers of ANY receive time inside the tip's slot** (same slot number as
the tip's timestamp): tie-break verdict and classification -/
theorem C09_fc_absent_time_eq_received_in_slot (tip cur : Hdr) (g bt t now : Nat)
    (h : getSlotNumber t g bt = getSlotNumber tip.timestamp g bt) :
    isTieBreak C09sn (C09fc tip cur g bt none now) = isTieBreak C09sn (C09fc tip cur g bt (some t) now) ∧
    classify C09sn (C09fc tip cur g bt none now) = classify C09sn (C09fc tip cur g bt (some t) now) := by
  have e : C09tie tip cur g bt none now = C09tie tip cur g bt (some t) now := by
    simp [C09tie, fcnIsTieBreak, fcnLastReceivedInSlot, h]
  exact ⟨by rw [C09_fc_model_is_generated_tiebreak, C09_fc_model_is_generated_tiebreak, e],
    by rw [C09_fc_classify_eq, C09_fc_classify_eq, e]⟩

/-- … stated on the LIP-0014 grid (slot `k` = `[g + k·bt, g + (k+1)·bt)`, Props/C07_Slot.lean): a receive time in
the slot of the tip's timestamp -/
theorem C09_fc_absent_time_lip14 (tip cur : Hdr) (g bt t now k : Nat) (hbt : 0 < bt)
    (h1 : g ≤ tip.timestamp ∧ tip.timestamp < 4294967296) (h2 : g ≤ t ∧ t < 4294967296)
    (hk : C07SlotSpec g bt tip.timestamp k) (ht : C07SlotSpec g bt t k) :
    classify C09sn (C09fc tip cur g bt none now) = classify C09sn (C09fc tip cur g bt (some t) now) := by
  refine (C09_fc_absent_time_eq_received_in_slot tip cur g bt t now ?_).2
  rw [(C07_slot_number_iff g bt t k hbt h2.1 h2.2).mpr ht, (C07_slot_number_iff g bt _ k hbt h1.1 h1.2).mpr hk]

/-- the regenerated `Option` form is the C07 form (`fromSync` flag + receive time) of the same Go function, and
`IsTieBreak` over the `Option` is the timed `IsTieBreak` of Props/C07_Slot.lean: the C07 theorems about the
tie break (`C07_slot_tiebreak_lip14` …) speak about the definition used here -/
theorem C09_fc_gen_tiebreak_eq_c07 (tip cur : Hdr) (g bt : Nat) (r : Option Nat) (now : Nat) :
    fcnLastReceivedInSlot r tip.timestamp g bt =
      fcReceivedLastBlockWithinForgingSlot r.isNone (r.getD 0) tip.timestamp g bt ∧
    C09tie tip cur g bt r now =
      fcIsTieBreakTimed (C09dup tip cur) tip.timestamp cur.timestamp
        (fcReceivedLastBlockWithinForgingSlot r.isNone (r.getD 0) tip.timestamp g bt)
        (fcReceivedBlockWithinForgingSlot now cur.timestamp g bt) g bt := by
  cases r <;> exact ⟨rfl, rfl⟩

/-! ### the merged helper of seeded change C09-15 -/

private theorem merged_last (tip cur : Hdr) (g bt : Nat) (r : Option Nat) (now : Nat) :
    receivedWithinMerged C09sn (C09fc tip cur g bt r now) (some tip) r =
      match r with
      | none => .panic
      | some t => .ok (decide (getSlotNumber t g bt = getSlotNumber tip.timestamp g bt)) := by
  cases r <;> simp [receivedWithinMerged, C09fc, slotOf]

private theorem merged_cur (tip cur : Hdr) (g bt : Nat) (r : Option Nat) (now : Nat) :
    receivedWithinMerged C09sn (C09fc tip cur g bt r now) (some cur) (some now) =
      .ok (fcReceivedBlockWithinForgingSlot now cur.timestamp g bt) := by
  simp [receivedWithinMerged, C09fc, slotOf, fcReceivedBlockWithinForgingSlot]

/-- the merged `IsTieBreak`, evaluated -/
theorem C09_fc_merged_tiebreak_eq (tip cur : Hdr) (g bt : Nat) (r : Option Nat) (now : Nat) :
    isTieBreakMerged C09sn (C09fc tip cur g bt r now) =
      if C09dup tip cur && decide (getSlotNumber tip.timestamp g bt < getSlotNumber cur.timestamp g bt) then
        match r with
        | none => .panic
        | some _ => .ok (C09tie tip cur g bt r now)
      else .ok false := by
  unfold isTieBreakMerged
  rw [C09_fc_model_is_generated_duplicate]
  have hl := merged_last tip cur g bt r now
  have hc := merged_cur tip cur g bt r now
  simp only [C09fc] at hl hc ⊢
  rw [hl, hc]
  cases hd : C09dup tip cur <;> cases hs : decide (getSlotNumber tip.timestamp g bt < getSlotNumber cur.timestamp g bt) <;>
    cases r <;> simp [lastF, curF, slotOf, hd, hs, C09tie, fcnIsTieBreak, fcnLastReceivedInSlot, C09dup] <;>
    simp_all [C09dup]

/-- **the merged helper panics EXACTLY when the tip has no receive time and the incoming block is a duplicate-height
competitor (same height, maxHeightPrevoted, parent) of a LATER slot** -/
theorem C09_fc_merged_panics_iff (tip cur : Hdr) (g bt : Nat) (r : Option Nat) (now : Nat) :
    isTieBreakMerged C09sn (C09fc tip cur g bt r now) = .panic ↔
      r = none ∧ C09dup tip cur = true ∧ getSlotNumber tip.timestamp g bt < getSlotNumber cur.timestamp g bt := by
  rw [C09_fc_merged_tiebreak_eq]
  cases hd : C09dup tip cur <;> cases hs : decide (getSlotNumber tip.timestamp g bt < getSlotNumber cur.timestamp g bt) <;>
    cases r <;> simp_all

/-- with a receive time the merged helper IS the old code (the change is invisible once a block was applied
through the valid-successor path) -/
theorem C09_fc_merged_agrees_otherwise (tip cur : Hdr) (g bt t now : Nat) :
    isTieBreakMerged C09sn (C09fc tip cur g bt (some t) now) = isTieBreak C09sn (C09fc tip cur g bt (some t) now) := by
  rw [C09_fc_merged_tiebreak_eq, C09_fc_model_is_generated_tiebreak]
  cases hd : C09dup tip cur <;> cases hs : decide (getSlotNumber tip.timestamp g bt < getSlotNumber cur.timestamp g bt) <;>
    simp_all [C09tie, fcnIsTieBreak, C09dup] <;> (intro h; omega)

/-- **`Executer.process` with the merged helper panics exactly for**: tip without receive time ∧ block not
identical ∧ not the successor ∧ not double forging (another generator) ∧ duplicate-height competitor ∧ later slot -/
theorem C09_fc_merged_classify_panics_iff (tip cur : Hdr) (g bt : Nat) (r : Option Nat) (now : Nat) :
    classifyMerged C09sn (C09fc tip cur g bt r now) = .panic ↔
      r = none ∧ tip.id ≠ cur.id ∧
      fcnIsValidBlock tip.height cur.height (decide (tip.id = cur.previousBlockID)) = false ∧
      tip.generatorAddress ≠ cur.generatorAddress ∧
      C09dup tip cur = true ∧ getSlotNumber tip.timestamp g bt < getSlotNumber cur.timestamp g bt := by
  unfold classifyMerged classifyWith
  rw [C09_fc_model_is_generated_identical, C09_fc_model_is_generated_valid, C09_fc_model_is_generated_double_forging,
    C09_fc_model_is_generated_different_chain]
  have hp := C09_fc_merged_panics_iff tip cur g bt r now
  have hd : fcnIsDoubleForging tip.height cur.height tip.maxHeightPrevoted cur.maxHeightPrevoted
      (decide (tip.previousBlockID = cur.previousBlockID)) (decide (tip.generatorAddress = cur.generatorAddress)) =
      (C09dup tip cur && decide (tip.generatorAddress = cur.generatorAddress)) := rfl
  simp only [Res.bind_ok, fcnIsIdenticalBlock, hd]
  by_cases h1 : tip.id = cur.id
  · simp [h1]
  · by_cases h2 : fcnIsValidBlock tip.height cur.height (decide (tip.id = cur.previousBlockID)) = true
    · simp [h1, h2]
    · have h2' : fcnIsValidBlock tip.height cur.height (decide (tip.id = cur.previousBlockID)) = false := by
        simpa using h2
      by_cases h3 : tip.generatorAddress = cur.generatorAddress
      · by_cases h4 : C09dup tip cur = true
        · simp [h1, h2', h3, h4]
        · have h4' : C09dup tip cur = false := by simpa using h4
          have hnp : isTieBreakMerged C09sn (C09fc tip cur g bt r now) ≠ .panic := by
            rw [Ne, hp]; simp [h4']
          simp only [h1, h2', h3, h4', decide_false, decide_true, Bool.false_and, Bool.false_eq_true, if_false, ne_eq,
            not_true_eq_false, false_and, and_false, iff_false]
          cases hm : isTieBreakMerged C09sn (C09fc tip cur g bt r now) with
          | panic => exact absurd hm hnp
          | ok b => cases b <;> simp <;> split <;> simp
      · simp only [h1, h2', h3, decide_false, Bool.and_false, Bool.false_eq_true, if_false, ne_eq, not_false_eq_true,
          true_and]
        cases hm : isTieBreakMerged C09sn (C09fc tip cur g bt r now) with
        | panic =>
          have := hp.mp hm
          simp [this]
        | ok b =>
          have hnp : ¬ (r = none ∧ C09dup tip cur = true ∧ getSlotNumber tip.timestamp g bt < getSlotNumber cur.timestamp g bt) := by
            intro h; have := hp.mpr h; rw [hm] at this; cases this
          cases b <;> simp [hnp] <;> split <;> simp

/-- the scenario of the demonstration test (block time 10, genesis 1000003, tip of slot 999 and competing block of
slot 1000 by another generator, same height / parent / maxHeightPrevoted, node just restarted): the merged code
panics, the real code answers "discard" -/
theorem C09_fc_merged_counterexample :
    let tip : Hdr := { height := 500, generatorAddress := [0xa], maxHeightGenerated := 0, maxHeightPrevoted := 430,
                       id := [1], previousBlockID := [7], timestamp := 1009993 }
    let cur : Hdr := { height := 500, generatorAddress := [0xb], maxHeightGenerated := 0, maxHeightPrevoted := 430,
                       id := [2], previousBlockID := [7], timestamp := 1010003 }
    classifyMerged C09sn (C09fc tip cur 1000003 10 none 1010005) = .panic ∧
    classify C09sn (C09fc tip cur 1000003 10 none 1010005) = .ok .discard ∧
    classifyMerged C09sn (C09fc tip cur 1000003 10 (some 1010004) 1010005) = .ok .tieBreak := by
  decide +kernel

/-- **the merged helper violates the clause** -/
theorem C09_fc_merged_violates : ¬ C09NeverPanics (classifyMerged C09sn) := by
  intro h
  exact h _ _ _ _ _ _ C09_fc_merged_counterexample.1

/-! ### obligations on the regenerated tables -/

/-- the nil discipline the translator checked on the current source (`tools/fngen/nil.go`):
* every dereference of `c.lastBlockReceivedAt` is dominated by a nil check (status `nil-checked`; an undominated
  one is a translator error), and both translations of `receivedLastBlockWithinForgingSlot` contain that check;
* the pointers ASSUMED non-nil are exactly the three `Executer.process` supplies;
* all eight `fcn…` definitions and the three C07 definitions were translated under the discipline -/
theorem C09_fc_gen_nil_discipline :
    (nilDiscipline.filter (fun e => e.2.2.1 == "c.lastBlockReceivedAt")).all (fun e => e.2.2.2.1 == "nil-checked") = true ∧
    (nilDiscipline.filter (fun e => e.2.2.1 == "c.lastBlockReceivedAt")).map (fun e => e.1) =
      ["fcReceivedLastBlockWithinForgingSlot", "fcnLastReceivedInSlot"] ∧
    ((nilDiscipline.filter (fun e => e.2.2.2.1 == "nonnil-assumed")).map (fun e => e.2.2.1)).eraseDups =
      ["c.slot", "c.currentHeader", "c.lastHeader"] ∧
    (nilDiscipline.map (fun e => e.1)).eraseDups =
      ["fcReceivedBlockWithinForgingSlot", "fcReceivedLastBlockWithinForgingSlot", "fcIsTieBreakTimed", "fcnIsIdenticalBlock",
       "fcnIsValidBlock", "fcnIsDuplicateBlock", "fcnIsDoubleForging", "fcnLastReceivedInSlot", "fcnIsTieBreak",
       "fcnIsDifferentChain"] := by
  decide +kernel

/-- `classifyWith` asks in the order of `Executer.process` (first-generation fngen: the method names in the order of
the `if` statements; vskelgen: the checks and branches of the body) -/
theorem C09_fc_gen_process_order :
    processOrder = ["IsIdenticalBlock", "IsValidBlock", "IsDoubleForging", "IsTieBreak", "IsDifferentChain"] ∧
    (VS.Executer_process.filter (fun i => i.ctx == [] && (i.kind == "check" || i.kind == "branch") && i.op == "is")).map (fun i => i.lhs) =
      ["fc.IsIdenticalBlock()", "fc.IsValidBlock()", "fc.IsDoubleForging()", "fc.IsTieBreak()", "fc.IsDifferentChain()"] := by
  decide +kernel

/-- **why the receive time is absent in reachable states**: `process` hands `self.lastBlockReceived` to
`NewForkChoice`, and the ONLY assignments to it are at the end of the valid-successor and the tie-break branch —
not in `Init` (restart), not on the different-chain branch (tip applied by the synchroniser). A node that has not
yet applied a block through one of the two branches evaluates the fork choice with a nil receive time. -/
theorem C09_fc_gen_receive_time_written_only_on_apply :
    (VS.Executer_process.filter (fun i => i.kind == "call" && i.lhs.startsWith "forkchoice.NewForkChoice")).map (fun i => i.lhs) =
      ["forkchoice.NewForkChoice(self.chain.LastBlock().Header, ctx.block.Header, self.blockSlot, self.lastBlockReceived)"] ∧
    (VS.Executer_process.filter (fun i => i.kind == "set" && i.lhs == "self.lastBlockReceived")).map (fun i => (i.ctx, i.rhs)) =
      [(["fc.IsValidBlock()"], "&time.Now()"), (["fc.IsTieBreak()"], "&time.Now()")] := by
  decide +kernel

/-! ### non-vacuity -/

/-- a tie-break competitor at a tip WITH a receive time outside its slot wins the tie break; at a tip without
receive time it is discarded; an absent receive time and a zero block time do not panic -/
example :
    let tip : Hdr := { height := 7, generatorAddress := [1], maxHeightGenerated := 0, maxHeightPrevoted := 2, id := [1], previousBlockID := [9], timestamp := 1000053 }
    let cur : Hdr := { height := 7, generatorAddress := [2], maxHeightGenerated := 0, maxHeightPrevoted := 2, id := [2], previousBlockID := [9], timestamp := 1000063 }
    classify C09sn (C09fc tip cur 1000003 10 (some 1000063) 1000071) = .ok .tieBreak ∧
    classify C09sn (C09fc tip cur 1000003 10 none 1000071) = .ok .discard ∧
    classify C09sn (C09fc tip cur 1000003 10 (some 1000055) 1000071) = .ok .discard ∧
    classify C09sn (C09fc tip cur 1000003 0 none 1000071) = .ok .discard ∧
    classify C09sn { lastHeader := some tip, currentHeader := some cur, slot := none, lastBlockReceivedAt := none, currentBlockReceivedAt := 0 } = .panic ∧
    classify C09sn { lastHeader := none, currentHeader := some cur, slot := some (1, 1), lastBlockReceivedAt := some 5, currentBlockReceivedAt := 0 } = .panic := by
  decide +kernel

example : C09NeverPanics (classify C09sn) ∧ ¬ C09NeverPanics (classifyMerged C09sn) :=
  ⟨C09_fc_never_panics, C09_fc_merged_violates⟩
