/-
C04 — the guards of the property evaluated IMMEDIATELY after a restart.

A restart (`restart` = a new `Chain` + `Executer` over the same database: `Chain.PrepareCache`)
keeps nothing in memory. Every guard of C04 therefore has to be decided from the database: the
`already finalized` check of `Executer.deleteBlock` (`deleteTip`), `deleteTillCommonBlock` of both
synchronisers (`deleteTill`) and the finalized block header that `Executer.createSyncContext` hands
to the synchronisers (`syncFinalized`, Model/Node.lean). Props/C04.lean proves the guards for every
state refined by a chain; this file states them for the state *right after a restart, before the
new Executer has applied a single block*, in terms of what was stored BEFORE the restart — the
situation of a node that was restarted and synchronises first:

* the restart leaves the database and hence the stored finalized height alone
  (`C04_restart_keeps_db`, `C04_restart_keeps_finalized`);
* `deleteBlock` on a tip at or below the height stored before the restart is refused, nothing is
  written (`C04_restart_delete_refused`);
* `deleteTillCommonBlock` never completes for a common block below the height stored before the
  restart (`C04_restart_deleteTill_refused`);
* the sync context's finalized header is the same before and after the restart
  (`C04_restart_sync_context`), it is the header of the chain's block at the stored finalized height
  (`C04_sync_context_is_finalized_block`) and it has that height (`C04_sync_context_height`): the fast
  synchroniser's refusal of common blocks below it (`C04_fast_sync_bans_below_fin`) and the block
  synchroniser's `getHeightWithGap(minimum = its height)` (`C04_sync_heights_ge_fin`) are evaluated
  against the stored finalized height, also right after a restart.

The model is tied to the real Executer by the C04 correspondence harness: the recorder follows every
restart directly by `sctx` (createSyncContext), `delat` (deleteBlock at / below the finalized height)
and `till` (deleteTillCommonBlock below the finalized height) operations, replayed on a real node and
on the compiled model; oracles `c04-sync-context-finalized-wrong`, `c04-finalized-delete-accepted`.
-/
import LiskVerif.Props.C04
import LiskVerif.Props.C04_More

open LiskVerif LiskVerif.Node
open LiskVerif.DiffDB (Store KV CV Cache Diff slookup sset sdel)

/-- A restart does not write to the database. -/
theorem C04_restart_keeps_db (cd : Codecs) (cfg : Cfg) (s : St) :
    (restart cd cfg s).1.db = s.db := by
  unfold restart
  split <;> rfl

/-- … so the stored finalized height is what it was. -/
theorem C04_restart_keeps_finalized (cd : Codecs) (cfg : Cfg) (s : St) :
    finOf (restart cd cfg s).1.db = finOf s.db := by
  rw [C04_restart_keeps_db]

private theorem run_restart (cd : Codecs) (cfg : Cfg) (slot : Slot) (s : St) (a : List Op) :
    run cd cfg slot s (a ++ [Op.restart]) = (restart cd cfg (run cd cfg slot s a)).1 := by
  rw [run_append]
  rfl

/-- **deleteBlock right after a restart**: a tip at or below the finalized height stored before the
restart is refused; the state (database, cache, published events) is untouched. -/
theorem C04_restart_delete_refused (cd : Codecs) (cfg : Cfg) (s : St) (tip : Block)
    (rest : List Block) (saveTemp : Bool) (fin : Nat) (hf : finOf s.db = some fin)
    (hc : (restart cd cfg s).1.cache = tip :: rest) (hle : tip.hdr.height ≤ fin) :
    deleteTip cd cfg (restart cd cfg s).1 saveTemp = ((restart cd cfg s).1, .err) :=
  C04_delete_refuses_finalized cd cfg _ tip rest saveTemp fin hc
    (by rw [C04_restart_keeps_finalized]; exact hf) hle

/-- **deleteTillCommonBlock right after a restart**: after any history that ends with a restart, the
synchronisers' revert loop completes only for common blocks at or above the finalized height that was
stored before the restart. -/
theorem C04_restart_deleteTill_refused (cd : Codecs) (cfg : Cfg) (slot : Slot) (base : Store)
    (baseH : Nat) (hbase : BaseOK cd base baseH) (s : St) (c : Chain) (a : List Op)
    (hR : Ref cd base baseH s c) (hok : RunOK cd cfg slot base s c (a ++ [Op.restart]))
    (fuel target : Nat) (s' : St) (f : Nat) (hf : finOf (run cd cfg slot s a).db = some f)
    (hd : deleteTill cd cfg fuel (run cd cfg slot s (a ++ [Op.restart])) target = (s', .ok)) :
    f ≤ target := by
  have hR' := (trans_run hbase (a ++ [Op.restart]) s c hR hok).ref
  have hf' : finOf (run cd cfg slot s (a ++ [Op.restart])).db = some f := by
    rw [run_restart, C04_restart_keeps_finalized]; exact hf
  exact C04_deleteTill_stops_at_fin cd cfg slot base baseH hbase _ _ hR' fuel target s' hd f hf'

/-- **The sync context right after a restart**: the finalized block header `createSyncContext` hands
to the synchronisers after a history that ends with a restart is the one it would have handed over
before the restart. -/
theorem C04_restart_sync_context (cd : Codecs) (cfg : Cfg) (slot : Slot) (base : Store)
    (baseH : Nat) (hbase : BaseOK cd base baseH) (s : St) (c : Chain) (a : List Op)
    (hR : Ref cd base baseH s c) (hok : RunOK cd cfg slot base s c (a ++ [Op.restart])) :
    syncFinalized cd (run cd cfg slot s (a ++ [Op.restart])) =
      syncFinalized cd (run cd cfg slot s a) := by
  have hdb : (run cd cfg slot s (a ++ [Op.restart])).db = (run cd cfg slot s a).db := by
    rw [run_restart]; exact C04_restart_keeps_db cd cfg _
  unfold syncFinalized
  rw [hdb]
  cases hf : finOf (run cd cfg slot s a).db with
  | none => rfl
  | some f =>
    simp only
    exact (C04_finalized_prefix_stable cd cfg slot base baseH hbase s c a [Op.restart] hR hok f hf f
      (Nat.le_refl f)).1

/-- The sync context's finalized header is the header of the chain's block at the stored finalized
height (for every state refined by a chain — in particular right after a restart). -/
theorem C04_sync_context_is_finalized_block (cd : Codecs) (base : Store) (baseH : Nat)
    (hbase : BaseOK cd base baseH) (s : St) (c : Chain) (hR : Ref cd base baseH s c) (f : Nat)
    (hf : finOf s.db = some f) (hlt : baseH < f) :
    ∃ bx ∈ c, bx.1.hdr.height = f ∧ syncFinalized cd s = some bx.1.hdr := by
  obtain ⟨f', hf', _, hle⟩ := hR.db.finOk
  have : f' = f := by rw [hf] at hf'; exact (Option.some.inj hf').symm
  subst this
  obtain ⟨bx, hm, hh⟩ := chain_covers hR.db.wf f' hlt hle
  refine ⟨bx, hm, hh, ?_⟩
  unfold syncFinalized
  rw [hf]
  simp only
  rw [← hh]
  exact C04_finalized_block_served cd base baseH hbase s c hR bx hm

/-- … hence it has the stored finalized height: the synchronisers compare common blocks and choose
request heights against the stored finalized height. -/
theorem C04_sync_context_height (cd : Codecs) (base : Store) (baseH : Nat)
    (hbase : BaseOK cd base baseH) (s : St) (c : Chain) (hR : Ref cd base baseH s c) (f : Nat)
    (hf : finOf s.db = some f) (hlt : baseH < f) (hd : Hdr) (hs : syncFinalized cd s = some hd) :
    hd.height = f := by
  obtain ⟨bx, _, hh, hb⟩ := C04_sync_context_is_finalized_block cd base baseH hbase s c hR f hf hlt
  rw [hb] at hs
  rw [← Option.some.inj hs]
  exact hh

/-! ### non-vacuity: apply a block that raises the finalized height 0 → 1, restart, evaluate the guards -/

namespace C04Restart
open LiskVerif.Node.Example

def opsA : List Op := [.apply b1 true C04More.xr false]

theorem runOKA : RunOK cd cfg slot base s0 [] (opsA ++ [Op.restart]) :=
  ⟨fun _ => C04More.stepR, trivial, trivial⟩

end C04Restart

/-- after the restart the sync context carries block 1 (id `[7]`), `deleteBlock` on the tip is
refused and `deleteTillCommonBlock(0)` fails -/
example :
    (syncFinalized Example.cd (run Example.cd Example.cfg Example.slot Example.s0
      (C04Restart.opsA ++ [Op.restart]))).map (fun h => (h.height, h.id)) = some (1, [7]) ∧
    (deleteTip Example.cd Example.cfg (run Example.cd Example.cfg Example.slot Example.s0
      (C04Restart.opsA ++ [Op.restart])) true).2 = .err ∧
    (deleteTill Example.cd Example.cfg 5 (run Example.cd Example.cfg Example.slot Example.s0
      (C04Restart.opsA ++ [Op.restart])) 0).2 = .err := by
  decide +kernel

example : syncFinalized Example.cd (run Example.cd Example.cfg Example.slot Example.s0
      (C04Restart.opsA ++ [Op.restart])) =
    syncFinalized Example.cd (run Example.cd Example.cfg Example.slot Example.s0 C04Restart.opsA) :=
  C04_restart_sync_context _ _ _ _ _ Example.baseOK _ _ _ Example.ref0 C04Restart.runOKA

example : ∀ (fuel target : Nat) (s' : St),
    deleteTill Example.cd Example.cfg fuel (run Example.cd Example.cfg Example.slot Example.s0
      (C04Restart.opsA ++ [Op.restart])) target = (s', .ok) → 1 ≤ target :=
  fun fuel target s' hd =>
    C04_restart_deleteTill_refused _ _ _ _ _ Example.baseOK _ _ _ Example.ref0 C04Restart.runOKA
      fuel target s' 1 (by decide +kernel) hd
