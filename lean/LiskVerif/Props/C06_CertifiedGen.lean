/-
C06 — tie A for "the last certified height is a function of the chain" (`Props/C06_Certified.lean`).

`LiskVerif/Gen/BFTSkeleton.lean` is REGENERATED from /repo on every run by tools/vskelgen (go/ast, table `-set bft`,
tools/vskelgen/run_bft.sh): the skeletons of `liskbft.Module.BeforeTransactionsExecute` and
`BFTVotes.updateMaxHeightCertified` (every statement-level call, every `if … { return … }`, every return, every
assignment to a receiver field, in program order, with the enclosing conditions in `ctx`; anything the translator
does not understand is an error and nothing is written).

`Model/BFT.lean` transcribes `BeforeTransactionsExecute` as a straight line:
insert → cache → votes → prevoted → precommitted → `mhc := h.commitHeight.getD mhc` → prune, for EVERY header.
The obligations below state that the source still has that shape:

* `C06_gen_bte_straight_line` : the function has no conditional structure at all — every item is at the top level
  (`ctx = []`), every exit before the final `return nil` is the error of the call just made
  (`if err := f(…); err != nil { return err }`), there is no `branch`;
* `C06_gen_bte_no_early_return` : in particular nothing returns `nil` (or anything but a callee's error) before
  `updateMaxHeightCertified`, the store write and the two pruning calls;
* `C06_gen_bte_certified_update_unconditional`, `C06_gen_bte_pruning_unconditional`, `C06_gen_bte_calls` : the calls
  `updateMaxHeightCertified(blockHeader)` (with the header being processed), `diffdb.SetEncodable` of the votes,
  `deleteBFTParams` and `deleteGeneratorKeys` occur exactly once, unconditionally, in this order and after the three
  vote / height updates; the pruning bound is `ints.Min(oldest.height, maxHeightCertified + 1)` of the UPDATED votes;
* `C06_gen_update_certified_shape` : `updateMaxHeightCertified` is exactly "both fields empty → unchanged; otherwise
  `maxHeightCertified = header.AggregateCommit().Height`" — the model's `h.commitHeight.getD s.mhc`.

A change that puts the update (or the pruning) behind a condition — such as an early return for headers that imply no
votes, the seeded change C06-16 — adds a `branch` / a conditional `ret` to the regenerated list and breaks
`C06_gen_bte_straight_line`, `C06_gen_bte_no_early_return` and the exact-sequence obligation `C06_gen_bte_calls`.
-/
import LiskVerif.Gen.BFTSkeleton

open LiskVerif LiskVerif.Gen

namespace C06CertGen

abbrev Item := BFTS.Item

def body (f : String) : List Item := (BFTS.fns.lookup f).getD []

def bte : List Item := body "Module.BeforeTransactionsExecute"

/-- the item is the error exit of a call: `if err := f(…); err != nil { return err }` -/
def isCallErrExit (i : Item) : Bool := i.kind == "check" && i.op == "callerr" && i.ret == "err"

/-- the statement-level calls (canonical text: locals inlined), in program order -/
def calls (l : List Item) : List String := (l.filter (·.kind == "call")).map (·.lhs)

/-- the items strictly before the first statement-level call with the text `c` -/
def before (l : List Item) (c : String) : List Item :=
  l.takeWhile (fun i => !(i.kind == "call" && i.lhs == c))

def votes : String := "&BFTVotes{}"
def votesStore : String := "diffStore.WithPrefix(dbPrefix(storePrefixBFTVotes))"
def paramsStore : String := "diffStore.WithPrefix(dbPrefix(storePrefixBFTParams))"
def keysStore : String := "diffStore.WithPrefix(dbPrefix(storePrefixGeneratorKeys))"
def cache : String := "newBFTParamsCache(" ++ paramsStore ++ ")"
def oldest : String := votes ++ ".blockBFTInfos[len(" ++ votes ++ ".blockBFTInfos) - 1].height"
/-- `ints.Min(oldest.height, maxHeightCertified + 1)` read from the votes object AFTER the updates -/
def pruneBound : String := "ints.Min(" ++ oldest ++ ", " ++ votes ++ ".maxHeightCertified + 1)"

def cUpdateVotes : String := votes ++ ".updatePrevotesPrecommits(" ++ cache ++ ")"
def cUpdatePrevoted : String := votes ++ ".updateMaxHeightPrevoted(" ++ cache ++ ")"
def cUpdatePrecommitted : String := votes ++ ".updateMaxHeightPrecommitted(" ++ cache ++ ")"
def cUpdateCertified : String := votes ++ ".updateMaxHeightCertified(blockHeader)"
def cStoreVotes : String := "diffdb.SetEncodable(" ++ votesStore ++ ", emptyKey, " ++ votes ++ ")"
def cPruneParams : String := "deleteBFTParams(" ++ paramsStore ++ ", " ++ pruneBound ++ ")"
def cPruneKeys : String := "deleteGeneratorKeys(" ++ keysStore ++ ", " ++ pruneBound ++ ")"

end C06CertGen

open C06CertGen

/-- the skeletons were generated (a renamed or removed function gives the empty list and breaks this) -/
theorem C06_gen_bte_present : bte.length = 25 ∧ (body "BFTVotes.updateMaxHeightCertified").length = 3 := by
  decide +kernel

/-- `BeforeTransactionsExecute` is a straight line: no item lies under a condition, a loop, `go` or `defer`;
there is no `branch`; every `check` is the error exit of a call; the only other return is the final
`return nil`. -/
theorem C06_gen_bte_straight_line :
    bte.all (fun i => i.ctx == []) = true ∧
    bte.all (fun i => i.kind == "call" || isCallErrExit i || (i.kind == "ret" && i.ret == "nil")) = true ∧
    (bte.filter (fun i => i.kind == "ret")).length = 1 ∧
    bte.getLast? = some { kind := "ret", ret := "nil" } := by
  decide +kernel

/-- the exact sequence of statement-level calls: insert → cache → votes → prevoted → precommitted →
certified (from the header being processed) → store → prune parameters → prune generator keys, the pruning
bound being computed from the updated votes -/
theorem C06_gen_bte_calls :
    calls bte =
      [votesStore, paramsStore, cache,
       "diffdb.GetDecodable(" ++ votesStore ++ ", emptyKey, " ++ votes ++ ")",
       votes ++ ".insertBlockBFTInfo(blockHeader, self.maxLengthBlock)",
       cache ++ ".cache(" ++ oldest ++ ", " ++ votes ++ ".blockBFTInfos[0].height)",
       cUpdateVotes, cUpdatePrevoted, cUpdatePrecommitted, cUpdateCertified, cStoreVotes, pruneBound,
       cPruneParams, keysStore, cPruneKeys] := by
  decide +kernel

/-- nothing but the error of a callee leaves the function before the certified-height update, the store
write and the two pruning calls (each of which exists): no early `return nil` -/
theorem C06_gen_bte_no_early_return :
    ([cUpdateCertified, cStoreVotes, cPruneParams, cPruneKeys].all fun c =>
      decide ((before bte c).length < bte.length) &&
      (before bte c).all (fun i => i.kind == "call" || isCallErrExit i)) = true := by
  decide +kernel

/-- the certified height is updated exactly once, unconditionally, from the header being processed -/
theorem C06_gen_bte_certified_update_unconditional :
    bte.filter (fun i => i.kind == "call" && i.lhs == cUpdateCertified) = [{ kind := "call", lhs := cUpdateCertified }] ∧
    (bte.filter (fun i => i.kind == "set")).length = 0 := by
  decide +kernel

/-- the updated votes are stored and both stores are pruned exactly once, unconditionally -/
theorem C06_gen_bte_pruning_unconditional :
    bte.filter (fun i => i.kind == "call" && (i.lhs == cStoreVotes || i.lhs == cPruneParams || i.lhs == cPruneKeys)) =
      [{ kind := "call", lhs := cStoreVotes }, { kind := "call", lhs := cPruneParams },
       { kind := "call", lhs := cPruneKeys }] := by
  decide +kernel

/-- `updateMaxHeightCertified` is the model's `h.commitHeight.getD s.mhc`: unchanged iff aggregation bits AND
signature are empty, otherwise the height field of the header's aggregate commit -/
theorem C06_gen_update_certified_shape :
    body "BFTVotes.updateMaxHeightCertified" =
      [{ kind := "check", op := "&&", lhs := "len(header.AggregateCommit().AggregationBits) == 0",
         rhs := "len(header.AggregateCommit().CertificateSignature) == 0", ret := "nil" },
       { kind := "set", lhs := "self.maxHeightCertified", rhs := "header.AggregateCommit().Height" },
       { kind := "ret", ret := "nil" }] := by
  decide +kernel

/-- non-vacuity of the queries: a list with the early return of the seeded change (a `branch` on "the header
implied no votes" whose body stores the votes and returns nil, placed before `updateMaxHeightPrevoted`) is
rejected by the straight-line and the no-early-return predicates, which hold of the regenerated list -/
example :
    let seeded : List C06CertGen.Item :=
      (before bte cUpdatePrevoted) ++
      [{ kind := "branch", op := "not", lhs := "voted" },
       { kind := "call", ctx := ["!voted"], lhs := "diffdb.SetEncodable(voteStore, emptyKey, bftVotes)" },
       { kind := "ret", ctx := ["!voted"], ret := "nil" }] ++
      bte.drop (before bte cUpdatePrevoted).length
    seeded.length = bte.length + 3 ∧
    seeded.all (fun i => i.ctx == []) = false ∧
    (before seeded cUpdateCertified).all (fun i => i.kind == "call" || isCallErrExit i) = false ∧
    (before bte cUpdateCertified).all (fun i => i.kind == "call" || isCallErrExit i) = true := by
  decide +kernel
