/-
C17 — per-request objects are fresh: nothing is carried over from one request to another.

Clause: "every request ends with either the response the remote handler produced for that very request or an
error".  Props/C17.lean proves correlation for a handler result `P id` that is a FUNCTION of the request id.
That the responder really answers with a function of the request's own handler run was taken on trust: it
fails as soon as a per-request object (the response writer, a message, a read buffer) is reused and keeps
something of its previous use (seeded change C17-17: a pooled `responseWriter` whose release clears the
payload only; C17-16: a pooled read buffer the decoded payload is a view of).

* tie A (`C17_fresh_gen_*`): tools/reqgen regenerates into Gen/ReqFacts.lean, on every run, the origin of every
  value assigned / declared / sent / returned / deferred in the functions of the request-response path of
  pkg/p2p, every mention of `sync.Pool` in the package, every package-level variable and those the path
  reaches, and the statements of pkg/codec `Reader.readBytes`.  The obligations pin the exact lists: the
  response writer is `&responseWriter{}`, the messages come from constructors returning composite literals,
  the stream is read by `io.ReadAll`, the response channel is `make(chan *Response, 1)`, decoded bytes are
  copied into a `make`d slice, the package has no `sync.Pool`, and the only package-level variable on the
  path is the sentinel `errTimeout`.
* model (`C17_fresh_*`, Model/ReqFresh.lean): any number of requests in flight at the responder, handler
  calls interleaved arbitrarily.  With a fresh writer per request (and with a pool whose release resets the
  whole writer) every response sent is exactly what the handler of its own request produced, for ALL
  schedules and any pool content; composed with `C17_correlation`: what a requester receives is the
  intended (data, error) of its own request.  With the release of C17-17 a concrete schedule (evaluated by
  the kernel) answers a request whose handler only wrote data with that data PLUS the error of an earlier
  request.
-/
import LiskVerif.Model.ReqFresh
import LiskVerif.Gen.ReqFacts
import LiskVerif.Props.C17

open LiskVerif LiskVerif.ReqFresh

/-! ### tie A: where the per-request objects come from -/

/-- Every function of the request-response path was found, and the per-request objects are allocated per
request: the exact rows of the objects that carry a response or a request. -/
theorem C17_fresh_gen_objects_allocated_per_request :
    Gen.ReqFacts.freshPathMissing = [] ∧
    (Gen.ReqFacts.perRequestObjects.filter (fun r => r.2.2.1.startsWith "fresh:" || r.2.2.1 == "imported-call:io.ReadAll")) =
      [("MessageProtocol.onRequest", "buf,err", "imported-call:io.ReadAll", "io.ReadAll(s)"),
       ("MessageProtocol.onRequest", "newMsg", "fresh:ctor:newRequestMessage", "newRequestMessage(s.Conn().RemotePeer(), \"\", nil)"),
       ("MessageProtocol.onRequest", "w", "fresh:&lit:responseWriter", "&responseWriter{}"),
       ("MessageProtocol.onResponse", "buf,err", "imported-call:io.ReadAll", "io.ReadAll(s)"),
       ("MessageProtocol.onResponse", "newMsg", "fresh:ctor:newResponseMessage", "newResponseMessage(\"\", \"\", nil, nil)"),
       ("MessageProtocol.onResponse", "send:ch", "fresh:ctor:NewResponse", "NewResponse( newMsg.Timestamp, s.Conn().RemotePeer(), newMsg.Data, resError, )"),
       ("MessageProtocol.respond", "resMsg", "fresh:ctor:newResponseMessage", "newResponseMessage(reqMsgID, procedure, data, err)"),
       ("MessageProtocol.sendRequestMessage", "reqMsg", "fresh:ctor:newRequestMessage", "newRequestMessage(mp.peer.ID(), procedure, data)"),
       ("MessageProtocol.sendRequestMessage", "ch", "fresh:make", "make(chan *Response, 1)"),
       ("MessageProtocol.RequestFrom", "return", "fresh:lit:Response", "Response{err: err}"),
       ("newRequestMessage", "return", "fresh:&lit:Request", "&Request{ ID: uuid.New().String(), Timestamp: time.Now().Unix(), PeerID: peerID, Procedure: procedure, Data: data, }"),
       ("newResponseMessage", "return", "fresh:&lit:responseMsg", "&responseMsg{ ID: reqMsgID, Procedure: procedure, Timestamp: time.Now().Unix(), Data: data, Error: errString, }"),
       ("NewResponse", "return", "fresh:&lit:Response", "&Response{ timestamp: timestamp, peerID: peerID, data: data, err: err, }")] := by
  decide +kernel

/-- The handler's writer, the decoded messages, the stream contents and the response channel of a request
are bound exactly once per function, to the fresh values above: the (function, variable) pairs of those
objects occur nowhere else in the table with another origin. -/
theorem C17_fresh_gen_objects_bound_once :
    (Gen.ReqFacts.perRequestObjects.filter (fun r => r.2.1 == "w" || r.2.1 == "newMsg" || r.2.1 == "buf,err" || r.2.1 == "buf"
        || r.2.1 == "resMsg" && r.1 == "MessageProtocol.respond" || r.2.1 == "reqMsg" || r.2.1 == "ch")).map (fun r => (r.1, r.2.1, r.2.2.1)) =
      [("MessageProtocol.onRequest", "buf,err", "imported-call:io.ReadAll"),
       ("MessageProtocol.onRequest", "newMsg", "fresh:ctor:newRequestMessage"),
       ("MessageProtocol.onRequest", "w", "fresh:&lit:responseWriter"),
       ("MessageProtocol.onResponse", "buf,err", "imported-call:io.ReadAll"),
       ("MessageProtocol.onResponse", "newMsg", "fresh:ctor:newResponseMessage"),
       ("MessageProtocol.respond", "resMsg", "fresh:ctor:newResponseMessage"),
       ("MessageProtocol.sendRequestMessage", "reqMsg", "fresh:ctor:newRequestMessage"),
       ("MessageProtocol.sendRequestMessage", "ch", "fresh:make")] := by
  decide +kernel

/-- Nothing on the path is recycled: no value comes from a package-level variable, from a local function that
reaches one or returns anything but fresh memory, from a view into another buffer or from an imported call
outside the known allocating ones; nothing is handed back by a `defer`.  The single exception is the
immutable error sentinel `errTimeout`. -/
theorem C17_fresh_gen_nothing_recycled :
    Gen.ReqFacts.perRequestRecycled =
      [("MessageProtocol.sendRequestMessage", "return", "pkgvar:errTimeout", "errTimeout")] ∧
    Gen.ReqFacts.reqPathPkgVars = ["errTimeout"] ∧
    (Gen.ReqFacts.p2pPkgVars.filter (fun v => v.2.1 == "errTimeout")) =
      [("message_protocol.go", "errTimeout", "", "errors.New(\"timeout\")")] := by
  decide +kernel

/-- pkg/p2p declares and uses no `sync.Pool`, and its package-level variables are the error sentinels and the
libp2p option tables of peer.go — no buffer, writer or message. -/
theorem C17_fresh_gen_no_pool_no_shared_buffers :
    Gen.ReqFacts.p2pSyncPools = [] ∧
    Gen.ReqFacts.p2pPkgVars.map (fun v => (v.1, v.2.1)) =
      [("conngater.go", "errInvalidDuration"), ("conngater.go", "errConnGaterIsNotrunning"),
       ("gossipsub.go", "ErrGossipSubIsNotRunnig"), ("gossipsub.go", "ErrGossipSubIsRunning"),
       ("gossipsub.go", "ErrDuplicateHandler"), ("gossipsub.go", "ErrTopicNotFound"),
       ("message_protocol.go", "errTimeout"), ("peer.go", "ttlPeerstoreSet"), ("peer.go", "connMgrOptions"),
       ("peer.go", "autoRelayOptions"), ("peer.go", "relayServiceOptions")] := by
  decide +kernel

/-- The bytes of a decoded message are copied into a slice made for them (pkg/codec `Reader.readBytes`): a kept
payload is no view into the buffer the message was read into. -/
theorem C17_fresh_gen_decoded_bytes_are_copied :
    Gen.ReqFacts.codecReadBytes =
      [("size,err", "method:r.readUInt", "r.readUInt()"),
       ("return", "value", "nil"),
       ("return", "local:err", "err"),
       ("remaining", "value", "len(r.data) - r.index"),
       ("return", "value", "nil"),
       ("return", "imported-call:fmt.Errorf", "fmt.Errorf(\"invalid byte size %d. Remaining data length is %d\", size, remaining)"),
       ("result", "fresh:make", "make([]byte, int(size))"),
       ("stmt", "stmt", "copy(result, r.data[r.index:r.index+int(size)])"),
       ("r.index", "conv(local:size)", "int(size)"),
       ("return", "local:result", "result"),
       ("return", "value", "nil")] := by
  decide +kernel

/-! ### model: a fresh writer per request -/

section
variable {D E : Type}

/-- the part of the handler still to run turns the flight's writer into the intended result -/
private def FlightOk (f : Flight D E) : Prop := runHandler f.w f.todo = intended f.acts

private def SentOk (x : Sent D E) : Prop := x.w = intended x.acts

private def FInv (s : State D E) : Prop := (∀ f ∈ s.flights, FlightOk f) ∧ (∀ x ∈ s.sent, SentOk x)

private def CleanPool (s : State D E) : Prop := ∀ w ∈ s.pool, w = Writer.empty

private theorem advance_ok (f : Flight D E) (h : FlightOk f) : FlightOk (advance f) := by
  unfold advance
  cases hf : f.todo with
  | nil => simpa [hf] using h
  | cons a rest =>
    simp only [FlightOk, hf, runHandler, List.foldl_cons] at h ⊢
    exact h

private theorem done_ok (id : Nat) (f : Flight D E) (h : FlightOk f) (hd : isDone id f = true) : f.w = intended f.acts := by
  simp only [isDone, Bool.and_eq_true, List.isEmpty_iff] at hd
  simpa [FlightOk, hd.2, runHandler] using h

/-- one step keeps the invariant whenever the writer handed to a new request is empty -/
private theorem step_inv (al : Alloc D E) (s : State D E) (a : Action D E) (h : FInv s)
    (hacq : (acquire al s.pool).1 = Writer.empty) : FInv (step al s a) := by
  obtain ⟨hf, hs⟩ := h
  cases a with
  | start id acts =>
    refine ⟨?_, hs⟩
    intro f hfm
    simp only [step, List.mem_cons] at hfm
    rcases hfm with rfl | hfm
    · simp only [FlightOk, hacq, intended]
    · exact hf f hfm
  | act id =>
    refine ⟨?_, hs⟩
    intro f hfm
    simp only [step, List.mem_map] at hfm
    obtain ⟨g, hg, rfl⟩ := hfm
    by_cases c : (g.id == id) = true
    · simp only [c, if_true]; exact advance_ok g (hf g hg)
    · simp only [c]; exact hf g hg
  | finish id =>
    constructor
    · intro f hfm
      simp only [step, List.mem_filter] at hfm
      exact hf f hfm.1
    · intro x hx
      simp only [step, List.mem_append, List.mem_map, List.mem_filter] at hx
      rcases hx with hx | ⟨g, ⟨hg, hd⟩, rfl⟩
      · exact hs x hx
      · exact done_ok id g (hf g hg) hd

private theorem run_fresh_inv (s : State D E) (sched : List (Action D E)) (h : FInv s) : FInv (run .fresh s sched) := by
  induction sched generalizing s with
  | nil => exact h
  | cons a rest ih => exact ih _ (step_inv .fresh s a h rfl)

private theorem acquire_clean (r : Writer D E → Writer D E) (s : State D E) (hp : CleanPool s) :
    (acquire (.pooled r) s.pool).1 = Writer.empty := by
  unfold CleanPool at hp
  cases hpool : s.pool with
  | nil => rfl
  | cons w rest => simp only [acquire]; exact hp w (by simp [hpool])

private theorem step_clean (s : State D E) (a : Action D E) (hp : CleanPool s) :
    CleanPool (step (.pooled releaseAllFields) s a) := by
  unfold CleanPool at *
  cases a with
  | start id acts =>
    intro w hw
    cases hpool : s.pool with
    | nil => simp [step, acquire, hpool] at hw
    | cons w0 rest =>
      simp only [step, acquire, hpool] at hw
      exact hp w (by simp [hpool, hw])
  | act id => intro w hw; exact hp w hw
  | finish id =>
    intro w hw
    simp only [step, releaseAll, List.mem_append, List.mem_map] at hw
    rcases hw with ⟨_, _, rfl⟩ | hw
    · rfl
    · exact hp w hw

end

private theorem init_inv {D E : Type} (pool : List (Writer D E)) : FInv ({ pool := pool } : State D E) := by
  constructor
  · intro f hf; cases hf
  · intro x hx; cases hx

/-- FRESH WRITER PER REQUEST: for every schedule (any number of requests in flight, handler calls interleaved
in any order, responses sent in any order) and whatever the pool holds, every response the responder sends is
exactly the (data, error) the handler of its OWN request produced. -/
theorem C17_fresh_response_is_own_handler_result {D E : Type} (pool : List (Writer D E)) (sched : List (Action D E)) :
    ∀ x ∈ (run .fresh ({ pool := pool } : State D E) sched).sent, x.w = intended x.acts := by
  have h : FInv ({ pool := pool } : State D E) := (init_inv _)
  exact (run_fresh_inv _ sched h).2

/-- The same with a pool, provided the release resets the WHOLE writer (and the pool starts clean). -/
theorem C17_fresh_pool_with_full_reset_is_sound {D E : Type} (sched : List (Action D E)) :
    ∀ x ∈ (run (.pooled releaseAllFields) ({} : State D E) sched).sent, x.w = intended x.acts := by
  have key : ∀ (sched : List (Action D E)) (s : State D E), FInv s → CleanPool s →
      FInv (run (.pooled releaseAllFields) s sched) := by
    intro sched
    induction sched with
    | nil => intro s h _; exact h
    | cons a rest ih =>
      intro s h hp
      exact ih _ (step_inv _ s a h (acquire_clean _ s hp)) (step_clean s a hp)
  exact (key sched {} (init_inv []) (fun w hw => by cases hw)).2

/-- In particular the response does not depend on what else was served: two schedules (and two pools) that serve a
request with the same handler script answer it identically. -/
theorem C17_fresh_response_independent_of_other_requests {D E : Type} (pool₁ pool₂ : List (Writer D E))
    (sched₁ sched₂ : List (Action D E)) (x₁ x₂ : Sent D E)
    (h₁ : x₁ ∈ (run .fresh ({ pool := pool₁ } : State D E) sched₁).sent)
    (h₂ : x₂ ∈ (run .fresh ({ pool := pool₂ } : State D E) sched₂).sent)
    (hacts : x₁.acts = x₂.acts) : x₁.w = x₂.w := by
  rw [C17_fresh_response_is_own_handler_result pool₁ sched₁ x₁ h₁,
      C17_fresh_response_is_own_handler_result pool₂ sched₂ x₂ h₂, hacts]

/-- Composition with `C17_correlation`: when the responder's answer to request `id` is `enc (intended (script id))`
— which the theorems above give for a fresh writer — whatever a requester receives (or has in its channel) is
the intended (data, error) of its own current request, in every reachable state of the protocol model. -/
theorem C17_fresh_requester_gets_own_intended {D E : Type} (script : Nat → List (HAct D E)) (enc : Writer D E → Nat)
    (s : ReqResp.State) (hs : ReqResp.Reachable (fun id => enc (intended (script id))) s)
    (i : Nat) (r : ReqResp.Req) (hr : s.reqs[i]? = some r) :
    ∀ m, r.out = some (.got m) → m.rid = r.id ∧ m.payload = enc (intended (script r.id)) :=
  (C17_correlation _ s hs i r hr).1

/-- non-vacuity: two requests in flight together, handler calls interleaved, error before data and data before error -/
example :
    (run .fresh ({ pool := [⟨some 99, some 98⟩] } : State Nat Nat)
      [.start 1 [.error 7, .write 5], .start 2 [.write 6], .act 1, .act 2, .act 1, .finish 2, .finish 1]).sent.map (fun x => (x.id, x.w))
      = [(2, ⟨some 6, none⟩), (1, ⟨some 5, some 7⟩)] := by
  decide +kernel

/-- COUNTEREXAMPLE (seeded change C17-17): a pooled writer whose release drops the payload but keeps the error.
Request 1's handler reports error 7; request 2, served afterwards with the recycled writer, only writes 6 —
and is answered with data 6 AND error 7, which its handler never produced. -/
theorem C17_fresh_recycled_writer_carries_error_over :
    let s := run (.pooled releaseDataOnly) ({} : State Nat Nat)
      [.start 1 [.error 7], .act 1, .finish 1, .start 2 [.write 6], .act 2, .finish 2]
    s.sent.map (fun x => (x.id, x.w)) = [(1, ⟨none, some 7⟩), (2, ⟨some 6, some 7⟩)] ∧
    intended ([.write 6] : List (HAct Nat Nat)) = ⟨some 6, none⟩ ∧
    ¬ (∀ x ∈ s.sent, x.w = intended x.acts) := by
  decide +kernel
