/-
C12 — the staged store AFTER a Commit.

`Database.Commit(writer)` hands `Set` / `Del` calls to the writer it is given and returns the diff. It does
not know whether the writer's batch is ever applied: `framework.ABIHandler.Commit` with `DryRun` (and with
a wrong `ExpectedStateRoot`) throws the batch away and keeps the execution context — the SAME staged store
is read, written and committed again; `consensus.Executer.processValidated` drops its batch when
`abi.Commit` fails afterwards. The property clause "reads always return the database with all staged writes
applied … Commit writes exactly that final state and returns a diff whose reversal restores the previous
database" therefore needs Commit to be an OBSERVATION of the overlay.

`Model/DiffDBCommit.lean` transcribes the commit loop with the batch as a value (`commitKeep`; the op
`commitd` of the correspondence harness runs it against the real `Commit` with a recording writer that is
thrown away, followed by further reads, writes, commits). Theorems:

* `C12_commit_pure`            — Commit leaves the staged store as it is; hence every later observation and
                                 every later state is the one without that Commit (`C12_commit_pure_run`,
                                 `C12_commit_pure_reads`);
* `C12_commit_twice_equal`     — committing twice yields equal batches and equal diffs;
* `C12_commit_batch_is_commit` — database + batch and the diff are those of `commit` (`Model/DiffDB.lean`),
                                 so `C12_commit_exact` / `C12_revert_exact` hold for the batch:
                                 `C12_commit_batch_final_state`, `C12_commit_batch_revert_exact`;
* `C12_commit_discard_then_commit` — discard, any further operations, commit and write: the database is
                                 the staged state, as if the discarded Commit had never happened, and the
                                 diff reverses it;
* `C12_commit_either_batch_same_database` — writing the first or the second batch gives the same database;
* counterexample `C12_rebase_on_commit_breaks_discarded_batch` — the variant that makes the handed-out
  entries the new initial state of the overlay (`commitRebase`: seeded change C12-14) satisfies the
  single-commit clauses (`C12_rebase_same_batch_and_diff`) but, with the batch discarded, a deleted key
  reappears in reads, a second Commit writes nothing and returns an empty diff, and a later `Del` of a key
  it added tombstones a key the database never had.
-/
import LiskVerif.Props.C12
import LiskVerif.Props.C12_More
import LiskVerif.Model.DiffDBCommit

open LiskVerif LiskVerif.DiffDB

namespace C12.Commit2

theorem commitLoop_keep (c : Cache) : ∀ d : Diff, (commitLoop keep c d).1 = c := by
  induction c with
  | nil => intro d; rfl
  | cons e r ih =>
    intro d
    obtain ⟨k, cv⟩ := e
    simp only [commitLoop, keep]
    rw [ih]

/-- the loop with the batch as a value = the loop of `Model/DiffDB.lean` with the batch applied -/
theorem commitLoop_eq (after : Bytes → CV → Option CV) (c : Cache) : ∀ (s : Store) (d : Diff),
    commitCache c s d = (applyBatch s (commitLoop after c d).2.1, (commitLoop after c d).2.2) := by
  induction c with
  | nil => intro s d; rfl
  | cons e r ih =>
    intro s d
    obtain ⟨k, cv⟩ := e
    unfold commitCache
    simp only [commitLoop, entryOut]
    cases hi : cv.init with
    | none => simp only [applyBatch, List.foldl_append, List.foldl_cons, List.foldl_nil, applyOp]; rw [ih]; rfl
    | some i =>
      simp only
      cases hd : cv.deleted with
      | true =>
        simp only [if_true, applyBatch, List.foldl_append, List.foldl_cons, List.foldl_nil, applyOp]; rw [ih]; rfl
      | false =>
        cases hdi : cv.dirty with
        | true =>
          simp only [Bool.false_eq_true, if_false, if_true, applyBatch, List.foldl_append, List.foldl_cons,
            List.foldl_nil, applyOp]
          rw [ih]; rfl
        | false =>
          simp only [Bool.false_eq_true, if_false, applyBatch, List.nil_append]
          rw [ih]; rfl

/-- batch and diff do not depend on what the loop does to the entries afterwards -/
theorem commitLoop_out (a b : Bytes → CV → Option CV) (c : Cache) : ∀ d : Diff,
    (commitLoop a c d).2 = (commitLoop b c d).2 := by
  induction c with
  | nil => intro d; rfl
  | cons e r ih =>
    intro d
    obtain ⟨k, cv⟩ := e
    simp only [commitLoop, ih]

end C12.Commit2

/-- **Commit is an observation**: the staged store (database, overlay, snapshots) after `Commit` is the
one before. -/
theorem C12_commit_pure (st : St) : (commitKeep st).1 = st := by
  unfold commitKeep commitWith
  simp only [C12.Commit2.commitLoop_keep]

/-- every later state is the one without the Commit, for every sequence of later operations -/
theorem C12_commit_pure_run (st : St) (ops : List Op) : run (commitKeep st).1 ops = run st ops := by
  rw [C12_commit_pure]

/-- every later observation is the one without the Commit: point reads, scans in both directions with
any limit, the effective value of every key, and a later Commit — after any sequence of operations -/
theorem C12_commit_pure_reads (st : St) (ops : List Op) (k a b p : Bytes) (limit : Int) (rev : Bool) :
    (get (run (commitKeep st).1 ops) k).2 = (get (run st ops) k).2 ∧
    (range (run (commitKeep st).1 ops) a b limit rev).2 = (range (run st ops) a b limit rev).2 ∧
    (iterate (run (commitKeep st).1 ops) p limit rev).2 = (iterate (run st ops) p limit rev).2 ∧
    eff (run (commitKeep st).1 ops) k = eff (run st ops) k ∧
    (commitKeep (run (commitKeep st).1 ops)).2 = (commitKeep (run st ops)).2 := by
  rw [C12_commit_pure]
  exact ⟨rfl, rfl, rfl, rfl, rfl⟩

/-- **Committing twice yields equal batches and equal diffs** -/
theorem C12_commit_twice_equal (st : St) :
    (commitKeep (commitKeep st).1).2 = (commitKeep st).2 := by
  rw [C12_commit_pure]

/-- database + batch and the returned diff are exactly those of `commit` (commit + write of the batch) -/
theorem C12_commit_batch_is_commit (st : St) :
    applyBatch st.store (commitKeep st).2.1 = (commit st).1.store ∧ (commitKeep st).2.2 = (commit st).2 := by
  unfold commitKeep commitWith commit
  simp only [C12.Commit2.commitLoop_eq keep st.cache st.store {}]
  exact ⟨trivial, trivial⟩

/-- **The batch is the final state**: applied to the database, every key holds its effective value. -/
theorem C12_commit_batch_final_state (st : St) (h : C12Inv st) (k : Bytes) :
    slookup (applyBatch st.store (commitKeep st).2.1) k = eff st k := by
  rw [(C12_commit_batch_is_commit st).1]
  exact C12_commit_exact st h k

/-- **The diff reverses the batch**, byte for byte. -/
theorem C12_commit_batch_revert_exact (st : St) (h : C12Inv st) (k : Bytes) :
    slookup (revertDiff (applyBatch st.store (commitKeep st).2.1) (commitKeep st).2.2) k = slookup st.store k := by
  rw [(C12_commit_batch_is_commit st).1, (C12_commit_batch_is_commit st).2]
  exact C12_revert_exact st h k

/-- **Dry run, keep working, commit.** A Commit whose batch is discarded, then ANY sequence of reads,
writes, deletes, snapshots and restores, then a Commit whose batch is written: the database holds exactly
the staged state — the same state, batch and diff as without the discarded Commit — and the diff restores
the previous database. -/
theorem C12_commit_discard_then_commit (st : St) (h : C12Inv st) (ops : List Op) (k : Bytes) :
    let st' := run (commitKeep st).1 ops
    (commitKeep st').2 = (commitKeep (run st ops)).2 ∧
    slookup (applyBatch st'.store (commitKeep st').2.1) k = eff (run st ops) k ∧
    slookup (revertDiff (applyBatch st'.store (commitKeep st').2.1) (commitKeep st').2.2) k = slookup st.store k := by
  intro st'
  have hst' : st' = run st ops := by simp only [st', C12_commit_pure]
  rw [hst']
  have hinv := C12_cache_invariant st h ops
  refine ⟨rfl, C12_commit_batch_final_state _ hinv k, ?_⟩
  rw [C12_commit_batch_revert_exact _ hinv k, C12_store_untouched]

/-- **Writing either batch gives the same database** (and the same diff is returned), when only reads lie
between the two Commits: reads are the operations `get` / `range` / `iterate`. -/
theorem C12_commit_either_batch_same_database (st : St) :
    applyBatch st.store (commitKeep (commitKeep st).1).2.1 = applyBatch st.store (commitKeep st).2.1 ∧
    (commitKeep (commitKeep st).1).2.2 = (commitKeep st).2.2 := by
  rw [C12_commit_twice_equal]
  exact ⟨rfl, rfl⟩

/-! ## the "rebase on commit" variant -/

/-- for a single Commit whose batch is written the variant is indistinguishable: same batch, same diff -/
theorem C12_rebase_same_batch_and_diff (st : St) : (commitRebase st).2 = (commitKeep st).2 := by
  unfold commitRebase commitKeep commitWith
  have h := C12.Commit2.commitLoop_out rebase keep st.cache {}
  simp only [h]

namespace C12.Commit2

/-- database `[1] ↦ [10]`, `[2] ↦ [20]`; staged: `[1]` updated to `[11]`, `[2]` deleted, `[3]` added -/
def exStore : Store := [([1], [10]), ([2], [20])]
def exSt : St := run { store := exStore } [.set [1] [11], .del [2], .set [3] [30]]

end C12.Commit2

/-- **Counterexample: rebasing the overlay on Commit is wrong when the batch is discarded.** On `exSt`
(a state reached by operations from a fresh store, invariant included) the variant returns the right batch
and diff for the first Commit; the batch is thrown away (dry run), the database is unchanged. Then:
the deleted key `[2]` is back in point reads and scans (reads ≠ database + staged writes); a second Commit
hands NOTHING to the writer and returns the empty diff although the staged state differs from the database
in three keys; and after `Del [3]` (the key it added) the overlay holds a tombstone for a key the database
never had, which the next Commit lists as Deleted. The code (`commitKeep`) gets all of these right. -/
theorem C12_rebase_on_commit_breaks_discarded_batch :
    let st := C12.Commit2.exSt
    let sr := (commitRebase st).1
    let sk := (commitKeep st).1
    -- same first batch and diff, database untouched
    (commitRebase st).2 = (commitKeep st).2 ∧ sr.store = st.store ∧
    -- staged state before: [1] ↦ [11], [2] deleted, [3] ↦ [30]
    eff st [1] = some [11] ∧ eff st [2] = none ∧ eff st [3] = some [30] ∧
    -- the deleted key reappears
    eff sr [2] = some [20] ∧ (get sr [2]).2 = some [20] ∧
    (iterate sr [] (-1) false).2 = [([1], [11]), ([2], [20]), ([3], [30])] ∧
    eff sk [2] = none ∧ (iterate sk [] (-1) false).2 = [([1], [11]), ([3], [30])] ∧
    -- the second Commit writes nothing and returns an empty diff
    (commitRebase sr).2 = ([], {}) ∧
    (commitKeep sk).2 = ([.set [3] [30], .del [2], .set [1] [11]], { added := [[3]], updated := [([1], [10])], deleted := [([2], [20])] }) ∧
    -- Del of the key added before the first Commit: a tombstone against a database that never had it
    (commitKeep (del sr [3])).2.2.deleted = [([3], [30])] ∧ slookup sr.store [3] = none ∧
    (commitKeep (del sk [3])).2.2.deleted = [([2], [20])] := by
  decide +kernel

/-! ## non-vacuity -/

example : C12Inv C12.Commit2.exSt :=
  C12_cache_invariant _ (C12_inv_init C12.Commit2.exStore (by unfold NoDupKeys C12.Commit2.exStore; decide)) _

example : (commitKeep C12.Commit2.exSt).2.1 = [.set [3] [30], .del [2], .set [1] [11]] := by decide +kernel

example : applyBatch C12.Commit2.exSt.store (commitKeep C12.Commit2.exSt).2.1 = [([1], [11]), ([3], [30])] := by
  decide +kernel

example : revertDiff (applyBatch C12.Commit2.exSt.store (commitKeep C12.Commit2.exSt).2.1)
    (commitKeep C12.Commit2.exSt).2.2 = [([1], [10]), ([2], [20])] := by decide +kernel
