/-
C20 / C04 — the event emitter (`pkg/event`) at the data level.  Model: `Model/Emitter.lean` (tied to the code by
the pseudo-property EMITTER: every generated history runs on the real `EventEmitter` with live, partly slow
receivers and on the compiled model; receive logs, results and panics are diffed).

The lock discipline of the emitter is C20's skeleton part (`Props/C20.lean`; `Publish` sends under its lock:
known finding).  Here: WHAT subscribers receive.  With subscribers that keep receiving, a publication is
delivered to every channel registered for the topic, once per registration, in publication order, however far
the publisher runs ahead (the sends are rendezvous sends: there is no buffer that could overflow and no
non-blocking send that could drop); other operations never touch a receive log; an emitter used the way the
engine uses it (`Subscribe` only — every channel registered once) never panics; a closed channel receives
nothing more.  `On` with a channel that is registered twice makes `Close` / `Unsubscribe` panic
(counterexample theorems; the engine never does this).
-/
import LiskVerif.Lemmas.Emitter

open LiskVerif LiskVerif.Emitter

/-- one publication, any emitter state whose channels for the topic are open: nobody panics, the log of
EVERY channel grows by exactly one copy of the message per registration under the topic, registrations,
closed set and allocation are untouched -/
theorem C20_emitter_publish_delivers_per_registration (s : St) (t : String) (m : Msg)
    (hd : s.dead = false) (hc : ∀ c ∈ s.chansOf t, c ∉ s.closed) :
    (publish s t m).dead = false ∧ (publish s t m).subs = s.subs ∧ (publish s t m).closed = s.closed ∧
    ∀ d, (publish s t m).recvOf d = s.recvOf d ++ List.replicate ((s.chansOf t).count d) m := by
  have sp := sendAll_spec m (s.chansOf t) s hd hc
  exact ⟨sp.1, sp.2.1, sp.2.2.2.1, sp.2.2.2.2.2⟩

private theorem closeList_recv (l : List Chan) (s : St) : (closeList s l).recv = s.recv := by
  induction l generalizing s with
  | nil => rfl
  | cons c r ih =>
    simp only [closeList]
    split
    · rfl
    · rw [ih]

/-- no operation other than a publication changes any receive log — in every state, panicking or not -/
theorem C20_emitter_only_publish_changes_logs (s : St) (o : Op) (h : ∀ t m, o ≠ .publish t m) (d : Chan) :
    (step s o).recvOf d = s.recvOf d := by
  unfold step
  split
  · rfl
  · cases o with
    | newChan => rfl
    | on t c => rfl
    | subscribe t => rfl
    | publish t m => exact absurd rfl (h t m)
    | close =>
      simp only [closeAll, St.recvOf]
      split <;> simp [closeList_recv]
    | unsubscribeAll t =>
      simp only [unsubscribeAll, St.recvOf]
      split
      · rfl
      · split <;> simp [closeList_recv]
    | unsubscribe t c =>
      simp only [unsubscribe, St.recvOf]
      split
      · rfl
      · split <;> simp [closeList_recv]

/-- used the way the engine uses it (fresh channels from `Subscribe`; `On` never with a registered channel),
no history of emitter operations ever panics (no double close, no send on a closed channel), whatever the
order of subscribe / publish / unsubscribe / unsubscribe-all / close -/
theorem C20_emitter_subscribe_discipline_never_panics (ops : List Op) (h : ∀ o ∈ ops, o.fresh = true) :
    (run ops).dead = false :=
  (inv_foldl inv_init ops h).alive

/-- … and all its registered channels stay pairwise distinct and open -/
theorem C20_emitter_subscribe_discipline_invariant (ops : List Op) (h : ∀ o ∈ ops, o.fresh = true) :
    Inv (run ops) :=
  inv_foldl inv_init ops h

example : (run [.subscribe "a", .subscribe "a", .publish "a" 1, .unsubscribe "a" 0, .publish "a" 2, .close]).dead = false :=
  C20_emitter_subscribe_discipline_never_panics _ (by decide)

/-- a channel registered under two topics through `On` makes `Close` panic (close of closed channel) -/
theorem C20_emitter_shared_channel_close_panics :
    (run [.newChan, .on "a" 0, .on "b" 0, .close]).dead = true := by decide

/-- … and a channel registered twice under one topic makes `Unsubscribe` panic, while publications to it
are delivered twice -/
theorem C20_emitter_double_registration :
    (run [.newChan, .on "a" 0, .on "a" 0, .publish "a" 7]).recvOf 0 = [7, 7] ∧
    (run [.newChan, .on "a" 0, .on "a" 0, .unsubscribe "a" 0]).dead = true := by decide

/-- a closed channel receives nothing more, whatever happens afterwards -/
theorem C20_emitter_closed_channel_receives_nothing (s : St) (c : Chan) (hi : Inv s) (hc : c ∈ s.closed)
    (ops : List Op) (h : ∀ o ∈ ops, o.fresh = true) :
    (ops.foldl step s).recvOf c = s.recvOf c := by
  induction ops generalizing s with
  | nil => rfl
  | cons o r ih =>
    have hf : o.fresh = true := h o (by simp)
    have hi' := inv_step hi o hf
    have hclosed : c ∈ (step s o).closed := by
      unfold step
      simp only [hi.alive, Bool.false_eq_true, if_false]
      cases o with
      | newChan => exact hc
      | on t x => simp [Op.fresh] at hf
      | subscribe t => exact hc
      | publish t m =>
        have sp := sendAll_spec m (s.chansOf t) s hi.alive (hi.chansOf_open t)
        show c ∈ (sendAll s m (s.chansOf t)).closed
        rw [sp.2.2.2.1]; exact hc
      | close =>
        have sp := closeList_spec (s.subs.map (·.2)) s hi.alive hi.nodup (by
          intro x hx
          obtain ⟨p, hp, rfl⟩ := List.mem_map.mp hx
          exact hi.open_ p hp)
        simp only [closeAll, sp.1, Bool.false_eq_true, if_false]
        show c ∈ (closeList s _).closed
        rw [sp.2.1]; exact List.mem_append_left _ hc
      | unsubscribeAll t =>
        simp only [unsubscribeAll]
        split
        · exact hc
        · have sp := closeList_spec (s.chansOf t) s hi.alive (hi.chansOf_nodup t) (hi.chansOf_open t)
          simp only [sp.1, Bool.false_eq_true, if_false]
          show c ∈ (closeList s _).closed
          rw [sp.2.1]; exact List.mem_append_left _ hc
      | unsubscribe t x =>
        simp only [unsubscribe]
        split
        · exact hc
        · have hsub : ((s.chansOf t).filter (· == x)).Sublist (s.chansOf t) := List.filter_sublist
          have sp := closeList_spec ((s.chansOf t).filter (· == x)) s hi.alive
            (List.Sublist.nodup hsub (hi.chansOf_nodup t)) (fun y hy => hi.chansOf_open t y (hsub.subset hy))
          simp only [sp.1, Bool.false_eq_true, if_false]
          show c ∈ (closeList s _).closed
          rw [sp.2.1]; exact List.mem_append_left _ hc
    rw [List.foldl_cons, ih (step s o) hi' hclosed (fun x hx => h x (by simp [hx]))]
    -- the step itself leaves c's log alone: c is closed, hence not registered
    by_cases hp : ∃ t m, o = .publish t m
    · obtain ⟨t, m, rfl⟩ := hp
      unfold step
      simp only [hi.alive, Bool.false_eq_true, if_false]
      have sp := sendAll_spec m (s.chansOf t) s hi.alive (hi.chansOf_open t)
      show (sendAll s m (s.chansOf t)).recvOf c = _
      rw [sp.2.2.2.2.2 c]
      have : (s.chansOf t).count c = 0 := by
        apply List.count_eq_zero_of_not_mem
        intro hm
        exact hi.chansOf_open t c hm hc
      simp [this]
    · exact C20_emitter_only_publish_changes_logs s o (fun t m e => hp ⟨t, m, e⟩) c
