/-
C09 — gap theorems: memory bound, multi-stage work bound, validator ⇒ handler decoder dependency,
RPC handler fronts against the handler specifications, exact bitmap guards.

1. Memory (`C09_decode_alloc_linear`, `C09_decodeFields_alloc_le_consumed`, `C09_decoded_fields_bounded`,
   `C09_decode_tree_size_linear`, `C09_decode_all_schemas_tree_size`, `C09_readBytes_slice_in_range`)
   Whatever `Decode` / `DecodeStrict` return has at most `|input|` dynamically allocated units (bytes
   of byte strings and strings, `[][]byte` elements, packed integers, elements of arrays of structs),
   at ANY nesting depth, for every struct of every ranked table: a length prefix or element count can
   not make the decoder allocate more than the input it has read. The reader-level form holds for
   every table and every fuel: units ≤ bytes consumed. Counting every node of the returned tree
   (scalars and the default structs of absent fields included): ≤ static size of the struct (< 40 for
   all 95 structs) + 40·|input|.
2. Work of the multi-stage validators (`C09_new_block_steps_linear`, `C09_block_gossip_steps_linear`,
   `C09_request_steps_linear`): `NewBlock` decodes the envelope, then the header, every asset and every
   transaction it carries; the second-stage inputs together (plus one per asset / transaction)
   fit in the first-stage input, so the whole validator makes ≤ 242·(|payload|+1) decoder calls, ≤ 363·(|raw|+1)
   with the `p2p.Message` envelope in front (the one-stage bound is `C09_decode_steps_linear`).
3. Validator ⇒ handler (`C09_decoder_dependency`, `C09_block_accept_handler_decodes`,
   `C09_tx_accept_handler_decodes`, `C09_tx_validator_handler_matrix`, …): the event handlers
   `onBlockReceived` / `onTransactionAnnoucement` `panic(err)` when `NewBlock` / `NewTransaction`
   fails, relying on the gossip validator having decoded the same bytes. Safe exactly when the
   validator's decoder is at least as strict as the handler's: strict ⇒ strict and lenient ⇒ lenient
   trivially (same function), strict ⇒ lenient by `C09_strict_accept_implies_lenient`; lenient ⇒ strict
   is FALSE (a valid transaction followed by one byte; a transaction without module/command).
4. RPC handlers (`C09_hcb_request_refines`, `C09_bfi_request_refines`, `C09_hcb_lookups_bounded`):
   for every request byte string, the verdict of the byte-level front (`requestVerdict`) is the
   ban / answer decision of the handler specifications of `Model/Sync.lean` on the decoded request,
   on every chain, duplicates included; the number of ids looked up (goroutines started, WaitGroup
   count) is at most |raw| / 33. NOT modelled: the goroutines / WaitGroup / channel of
   `HandleRPCEndpointGetHighestCommonBlock` — the model is a function of the id list, so a hang
   (fewer `Done` than `Add`) cannot be expressed in it; that obligation is with the harness (watchdog).
5. Bitmaps (`C09_bits_read_iff`, `C09_bits_write_iff`, `C09_select_signers_iff`, `C09_bits_guard_exact`):
   `Bits.read/write(i)` is in range iff `i < 8·len`; the signer-selection loop over `n` keys is panic
   free iff every index is in the bitmap and every SET bit has a key and a weight.

Helper lemmas: `LiskVerif/Lemmas/C09More.lean`.
-/
import LiskVerif.Lemmas.C09More
import LiskVerif.Model.Sync
import LiskVerif.Props.C09_Validators

open LiskVerif LiskVerif.Codec LiskVerif.Gen LiskVerif.Validators

/-! ## 1. Memory: allocation ≤ input length -/

/-- Dynamically allocated units of a decoded struct (`Value.dynList`): see the unfolding theorem
`C09_allocUnits_unfold`. Scalars and the struct behind a `.msg` pointer have a static size fixed by
the schema (also when the field is absent: `creator()`), so they count 0. -/
def C09allocUnits (vals : List Value) : Nat := Value.dynList vals

/-- what is counted: every byte of a `[]byte` / string; for `[][]byte` one unit per element plus its
bytes; one unit per packed integer; for an array of structs one unit per element (the struct
`creator()` allocates) plus the units of its fields, recursively; a nested struct contributes the
units of its fields. -/
theorem C09_allocUnits_unfold :
    C09allocUnits [] = 0 ∧
    (∀ v vs, C09allocUnits (v :: vs) = Value.dyn v + C09allocUnits vs) ∧
    (∀ n, Value.dyn (.uint n) = 0) ∧ (∀ i, Value.dyn (.int i) = 0) ∧ (∀ b, Value.dyn (.bool b) = 0) ∧
    (∀ b, Value.dyn (.bytes b) = b.length) ∧
    (∀ l, Value.dyn (.bytesArr l) = (l.map List.length).sum + l.length) ∧
    (∀ l, Value.dyn (.uints l) = l.length) ∧
    (∀ p vals, Value.dyn (.msg p vals) = C09allocUnits vals) ∧
    (∀ l, Value.dyn (.msgArr l) = (l.map fun vals => C09allocUnits vals + 1).sum) := by
  refine ⟨rfl, fun _ _ => by simp [C09allocUnits, Value.dynList], fun _ => by simp [Value.dyn],
    fun _ => by simp [Value.dyn], fun _ => by simp [Value.dyn], fun _ => by simp [Value.dyn],
    fun l => by simp [Value.dyn, baSize_eq], fun _ => by simp [Value.dyn],
    fun _ _ => by simp [Value.dyn, C09allocUnits], ?_⟩
  intro l
  simp only [Value.dyn, C09allocUnits]
  induction l with
  | nil => simp [Value.dynLL]
  | cons a r ih => simp only [Value.dynLL, List.map_cons, List.sum_cons, ih]; try omega

/-- **Reader level, no hypotheses.** For every table (ranked or not), NFC implementation, fuel, field
list and reader state — hence inside nested structs at any depth — a successful `decodeFields`
returns at most as many allocation units as it consumed bytes. -/
theorem C09_decodeFields_alloc_le_consumed (t : Table) (nfc : NFC) (fuel : Nat) (fs : List Field)
    (r r' : Reader) (vs : List Value) (h : decodeFields t nfc fuel fs r = .ok (vs, r')) :
    r.index ≤ r'.index ∧ C09allocUnits vs ≤ r'.index - r.index := by
  have := decodeFields_dyn t nfc h
  simp only [C09allocUnits]
  omega

/-- **`readBytes` slices inside the buffer whatever the reader's `end` is.** A nested reader's `end`
(`index + declared size`) is never compared with the buffer, so it may lie beyond it (or be negative);
`readBytes` bounds the declared length by `len(data) - index`, not by `end`, and so the slice
`data[index : index+size]` is in range for EVERY reader state: the result has exactly the bytes
consumed after the length prefix, and the new index is inside the buffer. (Bounding by `end` instead —
seeded change C09-2 — makes `0a 03 0a 01` slice out of range; in the model it is `byteSize`.) -/
theorem C09_readBytes_slice_in_range (r r' : Reader) (b : Bytes) (h : r.readBytes = .ok (b, r')) :
    r.index + 1 + b.length ≤ r'.index ∧ r'.index ≤ r.data.length := by
  have := Reader.readBytes_dyn h
  omega

/-- **Allocation is linear in the input.** On every ranked table, for every struct, every NFC
implementation and every byte string: a successful `Decode` or `DecodeStrict` returns a value tree
with at most `|data|` allocation units. In particular no length prefix, element count or nested size
can make the decoder allocate more than the input is long. -/
theorem C09_decode_alloc_linear (t : Table) (rank : String → Nat) (hR : C09Ranked t rank = true)
    (nfc : NFC) (s : Schema) (hs : s ∈ t) (data : Bytes) (vals : List Value) :
    (decode t nfc s data = .ok vals → C09allocUnits vals ≤ data.length) ∧
    (decodeStrict t nfc s data = .ok vals → C09allocUnits vals ≤ data.length) := by
  obtain ⟨_, _, _, hdec, hstr⟩ := schemaOK_dec (ranked_mem hR hs)
  constructor
  · intro h
    unfold decode at h
    split at h
    · cases h
    · rename_i vs r' he
      cases h
      have h1 := decodeFields_dyn t nfc he
      have h2 := decodeFields_adv hR hdec he
      simp only [Adv, Reader.new] at h1 h2
      simp only [C09allocUnits]
      omega
  · intro h
    unfold decodeStrict at h
    split at h
    · cases h
    · rename_i vs r' he
      split at h
      · cases h
      · cases h
        have h1 := decodeFields_dyn t nfc he
        have h2 := decodeFields_adv hR hstr he
        simp only [Adv, Reader.new] at h1 h2
        simp only [C09allocUnits]
        omega

/-- units of the field at position `i` (0 if there is none) -/
private def dynAt (vs : List Value) (i : Nat) : Nat :=
  match vs[i]? with
  | some v => Value.dyn v
  | none => 0

private theorem dynAt_le (vs : List Value) (i : Nat) : dynAt vs i ≤ Value.dynList vs := by
  unfold dynAt
  split
  · rename_i v h; exact Value.dynList_getElem? h
  · omega

private theorem dynAt_three (vs : List Value) :
    dynAt vs 0 + dynAt vs 1 + dynAt vs 2 ≤ Value.dynList vs := by
  match vs with
  | [] => simp [dynAt]
  | [a] => simp [dynAt, Value.dynList]
  | [a, b] => simp [dynAt, Value.dynList]
  | a :: b :: c :: rest => simp [dynAt, Value.dynList]; omega

private theorem fBytes_le_dynAt (vs : List Value) (i : Nat) : (fBytes vs i).length ≤ dynAt vs i := by
  unfold fBytes dynAt
  cases vs[i]? with
  | none => simp
  | some v => cases v <;> simp [Value.dyn]

private theorem fBytesArr_le_dynAt (vs : List Value) (i : Nat) : baSize (fBytesArr vs i) ≤ dynAt vs i := by
  unfold fBytesArr dynAt
  cases vs[i]? with
  | none => simp [baSize]
  | some v => cases v <;> simp [Value.dyn, baSize]

private theorem fMsgArr_le_dynAt (vs : List Value) (i : Nat) : Value.dynLL (fMsgArr vs i) ≤ dynAt vs i := by
  unfold fMsgArr dynAt
  cases vs[i]? with
  | none => simp [Value.dynLL]
  | some v => cases v <;> simp [Value.dyn, Value.dynLL]

/-- `decodeNamed` (the decoder the validators and handlers call) on the regenerated table -/
private theorem decodeNamed_alloc (nfc : NFC) (strict : Bool) (name : String) (data : Bytes)
    (vals : List Value) (h : decodeNamed allSchemas nfc strict name data = .ok vals) :
    Value.dynList vals ≤ data.length := by
  unfold decodeNamed at h
  split at h
  · cases h
  · rename_i s hf
    have hs : s ∈ allSchemas := by
      unfold Table.find at hf
      exact List.mem_of_find?_eq_some hf
    have := C09_decode_alloc_linear allSchemas C09rank C09_allSchemas_ranked nfc s hs data vals
    cases strict
    · exact this.1 (by simpa using h)
    · exact this.2 (by simpa using h)

/-- **Every decoded field is bounded by the input**, as the validators and handlers read them
(`fBytes`, `fBytesArr`, `fMsgArr`), for all 95 generated structs, lenient or strict: a byte string
field is not longer than the message; a `[][]byte` field has fewer elements than the message has
bytes, and its elements together (plus one per element) fit in the message; an array of structs has
at most `|data|` elements. -/
theorem C09_decoded_fields_bounded (nfc : NFC) (strict : Bool) (name : String) (data : Bytes)
    (vals : List Value) (h : decodeNamed allSchemas nfc strict name data = .ok vals) (i : Nat) :
    (fBytes vals i).length ≤ data.length ∧
    ((fBytesArr vals i).map List.length).sum + (fBytesArr vals i).length ≤ data.length ∧
    (∀ b ∈ fBytesArr vals i, b.length < data.length) ∧
    (fMsgArr vals i).length ≤ data.length ∧
    (∀ e ∈ fMsgArr vals i, C09allocUnits e < data.length) := by
  have hd := decodeNamed_alloc nfc strict name data vals h
  have hi := dynAt_le vals i
  have h1 := fBytes_le_dynAt vals i
  have h2 := fBytesArr_le_dynAt vals i
  have h3 := fMsgArr_le_dynAt vals i
  refine ⟨by omega, by rw [← baSize_eq]; omega, ?_, ?_, ?_⟩
  · intro b hb
    have := baSize_mem hb
    omega
  · have := Value.dynLL_length_le (fMsgArr vals i)
    omega
  · intro e he
    have := Value.dynLL_mem he
    simp only [C09allocUnits]
    omega

/-! ### the whole tree, static part included -/

/-- the lenient field list of a struct is its strict list with weaker flags (same numbers, same
kinds): a decidable check on the table -/
def C09LenientIsLaxer (t : Table) : Bool := t.all fun s => laxerFields s.dec s.decStrict

/-- true of the regenerated table (re-checked on every build) -/
theorem C09_allSchemas_lenient_is_laxer : C09LenientIsLaxer allSchemas = true := by
  decide +kernel


/-- Number of nodes of the decoded value tree (`Value.nodesList`): one per scalar, per struct (also the
default structs `creator()` returns for absent nested fields), per array, per array element, per
packed integer and per byte. This is the size of what `Decode` leaves on the heap, up to the
constant size of a node. -/
def C09treeSize (vals : List Value) : Nat := Value.nodesList vals

theorem C09_treeSize_unfold :
    C09treeSize [] = 0 ∧
    (∀ v vs, C09treeSize (v :: vs) = Value.nodes v + C09treeSize vs) ∧
    (∀ n, Value.nodes (.uint n) = 1) ∧ (∀ i, Value.nodes (.int i) = 1) ∧ (∀ b, Value.nodes (.bool b) = 1) ∧
    (∀ b, Value.nodes (.bytes b) = 1 + b.length) ∧
    (∀ l, Value.nodes (.bytesArr l) = 1 + ((l.map List.length).sum + l.length)) ∧
    (∀ l, Value.nodes (.uints l) = 1 + l.length) ∧
    (∀ p vals, Value.nodes (.msg p vals) = 1 + C09treeSize vals) ∧
    (∀ l, Value.nodes (.msgArr l) = 1 + (l.map fun vals => 1 + C09treeSize vals).sum) := by
  refine ⟨rfl, fun _ _ => by simp [C09treeSize, Value.nodesList], fun _ => by simp [Value.nodes],
    fun _ => by simp [Value.nodes], fun _ => by simp [Value.nodes], fun _ => by simp [Value.nodes],
    fun l => by simp [Value.nodes, baSize_eq], fun _ => by simp [Value.nodes],
    fun _ _ => by simp [Value.nodes, C09treeSize], ?_⟩
  intro l
  simp only [Value.nodes, C09treeSize]
  induction l with
  | nil => simp [Value.nodesLL]
  | cons a r ih =>
    simp only [Value.nodesLL, List.map_cons, List.sum_cons]
    omega

/-- `σ` is a static-size table for `t`: for every struct `s`, the sum over its fields of
`1 (+ 1 + σ n` for a `.msg n` field`)` is at most `σ s.name`, and `σ s.name < 40` (decidable) -/
def C09StaticOK (t : Table) (σ : String → Nat) : Bool := staticOK t σ

/-- `k` rounds of "sum of the static field sizes" -/
def C09staticIter (t : Table) : Nat → String → Nat
  | 0, _ => 0
  | k + 1, name =>
    match t.find name with
    | none => 0
    | some s => staticFields (C09staticIter t k) s.dec

/-- static size (fields + default nested structs, transitively) of a struct of the regenerated table -/
def C09static : String → Nat := C09staticIter allSchemas 9

/-- every generated struct has a static size below 40 nodes (the largest,
`labi.ExecuteTransactionRequest`, has 35). Re-checked on every build. -/
theorem C09_allSchemas_static_ok : C09StaticOK allSchemas C09static = true := by
  decide +kernel

/-- **The whole decoded tree is linear in the input.** On a ranked table with static sizes `σ`
(`< 40`), for every struct and byte string: what `Decode` / `DecodeStrict` return has at most
`σ s.name + 40·|data|` nodes — the static size of the struct plus 40 nodes per input byte (an element
of an array of structs costs ≥ 2 input bytes and brings at most 1 + 39 static nodes; the factor is
not 1: two empty blocks in a 4-byte `GetBlocksFromIDResponse` decode to 39 nodes, see the examples). -/
theorem C09_decode_tree_size_linear (t : Table) (rank : String → Nat) (hR : C09Ranked t rank = true)
    (σ : String → Nat) (hσ : C09StaticOK t σ = true) (hl : C09LenientIsLaxer t = true)
    (nfc : NFC) (s : Schema) (hs : s ∈ t) (data : Bytes) (vals : List Value) :
    (decode t nfc s data = .ok vals → C09treeSize vals ≤ σ s.name + 40 * data.length) ∧
    (decodeStrict t nfc s data = .ok vals → C09treeSize vals ≤ σ s.name + 40 * data.length) := by
  obtain ⟨_, _, _, hdec, hstr⟩ := schemaOK_dec (ranked_mem hR hs)
  have hst : staticFields σ s.dec ≤ σ s.name := by
    have := List.all_eq_true.mp hσ s hs
    simp only [Bool.and_eq_true, decide_eq_true_eq] at this
    exact this.1
  have hlax := staticFields_lax σ _ _ (List.all_eq_true.mp hl s hs)
  constructor
  · intro h
    unfold decode at h
    split at h
    · cases h
    · rename_i vs r' he
      cases h
      have h1 := decodeFields_nodes t nfc σ hσ he
      have h2 := decodeFields_adv hR hdec he
      simp only [Adv, Reader.new] at h1 h2
      simp only [C09treeSize]
      omega
  · intro h
    unfold decodeStrict at h
    split at h
    · cases h
    · rename_i vs r' he
      split at h
      · cases h
      · cases h
        have h1 := decodeFields_nodes t nfc σ hσ he
        have h2 := decodeFields_adv hR hstr he
        simp only [Adv, Reader.new] at h1 h2
        simp only [C09treeSize]
        omega

/-- for all 95 generated structs, any NFC implementation, lenient or strict: at most
`40·(|data|+1)` nodes -/
theorem C09_decode_all_schemas_tree_size (nfc : NFC) :
    ∀ s ∈ allSchemas, ∀ (data : Bytes) (vals : List Value),
      (decode allSchemas nfc s data = .ok vals ∨ decodeStrict allSchemas nfc s data = .ok vals) →
      C09treeSize vals ≤ 40 * (data.length + 1) := by
  intro s hs data vals h
  have hlt : C09static s.name < 40 := by
    have := List.all_eq_true.mp C09_allSchemas_static_ok s hs
    simp only [Bool.and_eq_true, decide_eq_true_eq] at this
    exact this.2
  have := C09_decode_tree_size_linear allSchemas C09rank C09_allSchemas_ranked C09static
    C09_allSchemas_static_ok C09_allSchemas_lenient_is_laxer nfc s hs data vals
  rcases h with h | h
  · have := this.1 h; omega
  · have := this.2 h; omega

/-! ## 2. Work of the multi-stage validators -/

/-- decoder calls (`costFields`, see `C09_decode_steps_linear`) of one `decodeNamed` -/
def C09costNamed (t : Table) (nfc : NFC) (strict : Bool) (name : String) (data : Bytes) : Nat :=
  match t.find name with
  | none => 1
  | some s =>
    costFields t nfc (fuelFor data) (if strict then s.decStrict else s.dec) (Reader.new data)

/-- decoder calls of the loops of `NewBlock` if every element is decoded (the loop stops at the
first error, so this is an upper bound) -/
def C09costMap (t : Table) (nfc : NFC) (strict : Bool) (name : String) : List Bytes → Nat
  | [] => 0
  | b :: rest => C09costNamed t nfc strict name b + C09costMap t nfc strict name rest

/-- decoder calls of `blockchain.NewBlock`, following `Validators.newBlock`: the RawBlock envelope,
then — if it decodes — the header, the assets and the transactions it carries -/
def C09newBlockCost (t : Table) (nfc : NFC) (data : Bytes) : Nat :=
  C09costNamed t nfc true "blockchain.RawBlock" data +
    match decodeNamed t nfc true "blockchain.RawBlock" data with
    | .error _ => 0
    | .ok raw =>
      C09costNamed t nfc false "blockchain.BlockHeader" (fBytes raw 0) +
      C09costMap t nfc true "blockchain.BlockAsset" (fBytesArr raw 2) +
      C09costMap t nfc true "blockchain.Transaction" (fBytesArr raw 1)

/-- decoder calls of the block gossip validator behind the `p2p.Message` envelope -/
def C09blockGossipCost (t : Table) (nfc : NFC) (raw : Bytes) : Nat :=
  C09costNamed t nfc false "p2p.Message" raw +
    match decodeNamed t nfc false "p2p.Message" raw with
    | .error _ => 0
    | .ok m => C09newBlockCost t nfc (fBytes m 0)

/-- decoder calls of `onRequest` + the sync handlers' request decoding, following
`Validators.requestVerdict` (at most one of the two bodies is decoded) -/
def C09requestCost (t : Table) (nfc : NFC) (raw : Bytes) : Nat :=
  C09costNamed t nfc false "p2p.Request" raw +
    match decodeNamed t nfc false "p2p.Request" raw with
    | .error _ => 0
    | .ok r =>
      max (C09costNamed t nfc false "sync.GetHighestCommonBlockRequest" (fBytes r 2))
        (C09costNamed t nfc false "sync.GetBlocksFromIDRequest" (fBytes r 2))

/-- one stage: ≤ 121·(|data|+1), whatever the name -/
theorem C09_costNamed_le (nfc : NFC) (strict : Bool) (name : String) (data : Bytes) :
    C09costNamed allSchemas nfc strict name data ≤ 121 * (data.length + 1) := by
  unfold C09costNamed
  split
  · omega
  · rename_i s hf
    have hs : s ∈ allSchemas := by
      unfold Table.find at hf
      exact List.mem_of_find?_eq_some hf
    have := C09_decode_steps_linear allSchemas C09rank C09_allSchemas_ranked nfc s hs data (fuelFor data)
    cases strict
    · simpa using this.1
    · simpa using this.2

private theorem costMap_le (nfc : NFC) (strict : Bool) (name : String) (l : List Bytes) :
    C09costMap allSchemas nfc strict name l ≤ 121 * baSize l := by
  induction l with
  | nil => simp [C09costMap]
  | cons b rest ih =>
    have := C09_costNamed_le nfc strict name b
    simp only [C09costMap, baSize]
    omega

/-- **The inputs of the second stage fit in the first-stage input**: header, assets and transactions
of a strictly decoded RawBlock (with one unit per asset / transaction) together are at most `|data|`
long. -/
theorem C09_new_block_stage_inputs_bounded (nfc : NFC) (data : Bytes) (raw : List Value)
    (h : decodeNamed allSchemas nfc true "blockchain.RawBlock" data = .ok raw) :
    (fBytes raw 0).length +
      (((fBytesArr raw 1).map List.length).sum + (fBytesArr raw 1).length) +
      (((fBytesArr raw 2).map List.length).sum + (fBytesArr raw 2).length) ≤ data.length := by
  have hd := decodeNamed_alloc nfc true _ data raw h
  have h3 := dynAt_three raw
  have h0 := fBytes_le_dynAt raw 0
  have h1 := fBytesArr_le_dynAt raw 1
  have h2 := fBytesArr_le_dynAt raw 2
  rw [← baSize_eq, ← baSize_eq]
  omega

/-- **`NewBlock` (hence `blockValidator`, `onBlockReceived`, the sync responses) makes at most
`242·(|data|+1)` decoder calls**, for every payload: envelope + header + every asset + every
transaction. -/
theorem C09_new_block_steps_linear (nfc : NFC) (data : Bytes) :
    C09newBlockCost allSchemas nfc data ≤ 242 * (data.length + 1) := by
  unfold C09newBlockCost
  have h0 := C09_costNamed_le nfc true "blockchain.RawBlock" data
  split
  · omega
  · rename_i raw hraw
    have hb := C09_new_block_stage_inputs_bounded nfc data raw hraw
    rw [← baSize_eq, ← baSize_eq] at hb
    have h1 := C09_costNamed_le nfc false "blockchain.BlockHeader" (fBytes raw 0)
    have h2 := costMap_le nfc true "blockchain.BlockAsset" (fBytesArr raw 2)
    have h3 := costMap_le nfc true "blockchain.Transaction" (fBytesArr raw 1)
    exact Nat.le_trans (Nat.add_le_add h0 (Nat.add_le_add (Nat.add_le_add h1 h2) h3)) (by omega)

/-- … and at most `363·(|raw|+1)` from the pubsub bytes (envelope included) -/
theorem C09_block_gossip_steps_linear (nfc : NFC) (raw : Bytes) :
    C09blockGossipCost allSchemas nfc raw ≤ 363 * (raw.length + 1) := by
  unfold C09blockGossipCost
  have h0 := C09_costNamed_le nfc false "p2p.Message" raw
  split
  · omega
  · rename_i m hm
    have hb := (C09_decoded_fields_bounded nfc false _ raw m hm 0).1
    have h1 := C09_new_block_steps_linear nfc (fBytes m 0)
    omega

/-- `onRequest` with the sync handlers' request decoding: at most `242·(|raw|+1)` decoder calls -/
theorem C09_request_steps_linear (nfc : NFC) (raw : Bytes) :
    C09requestCost allSchemas nfc raw ≤ 242 * (raw.length + 1) := by
  unfold C09requestCost
  have h0 := C09_costNamed_le nfc false "p2p.Request" raw
  split
  · omega
  · rename_i r hr
    have hb := (C09_decoded_fields_bounded nfc false _ raw r hr 2).1
    have h1 := C09_costNamed_le nfc false "sync.GetHighestCommonBlockRequest" (fBytes r 2)
    have h2 := C09_costNamed_le nfc false "sync.GetBlocksFromIDRequest" (fBytes r 2)
    have h3 := Nat.max_le.mpr ⟨h1, h2⟩
    exact Nat.le_trans (Nat.add_le_add h0 h3) (by omega)

/-! ## 3. Validator ⇒ handler: which decoder each side uses -/

/-- **`DecodeStrict` accepts ⇒ `Decode` accepts, with the same value** (any table with the check
above, any struct, NFC implementation and input). -/
theorem C09_strict_accept_implies_lenient (t : Table) (hl : C09LenientIsLaxer t = true) (nfc : NFC)
    (s : Schema) (hs : s ∈ t) (data : Bytes) (vals : List Value)
    (h : decodeStrict t nfc s data = .ok vals) : decode t nfc s data = .ok vals :=
  decodeStrict_ok_decode_ok t nfc s data vals (List.all_eq_true.mp hl s hs) h

/-- **The decoder dependency, per message type.** If the validator decodes struct `name` with mode
`sv` and the handler decodes the same bytes with mode `sh`, the handler's decode succeeds (with the
same value) whenever the validator's did, provided the validator is at least as strict:
`sv = strict` or `sh = lenient`. This is what the `panic(err)` in the handlers relies on. Instances in
the engine: PostBlock (`NewBlock` / `NewBlock`: strict / strict on RawBlock, Transaction, BlockAsset;
lenient / lenient on BlockHeader), PostTransactionsAnnouncement (`NewTransaction` / `NewTransaction`:
strict / strict), PostSingleCommits (strict / no decoding: `onSingleCommitsReceived` is empty), the
`p2p.Message` envelope (lenient / lenient, decoded again by the subscription loop). -/
theorem C09_decoder_dependency (nfc : NFC) (name : String) (sv sh : Bool)
    (hdep : sv = true ∨ sh = false) (data : Bytes) (vals : List Value)
    (h : decodeNamed allSchemas nfc sv name data = .ok vals) :
    decodeNamed allSchemas nfc sh name data = .ok vals := by
  cases sv with
  | false =>
    cases sh with
    | false => exact h
    | true => rcases hdep with h' | h' <;> cases h'
  | true =>
    cases sh with
    | true => exact h
    | false =>
      unfold decodeNamed at h ⊢
      split at h
      · cases h
      · rename_i s hf
        have hs : s ∈ allSchemas := by
          unfold Table.find at hf
          exact List.mem_of_find?_eq_some hf
        simp only [if_true] at h
        simp only [Bool.false_eq_true, if_false]
        exact C09_strict_accept_implies_lenient allSchemas C09_allSchemas_lenient_is_laxer nfc s hs
          data vals h

/-- **PostBlock.** Whenever `blockValidator` accepts a payload, `NewBlock` of the same payload — what
`onBlockReceived` evaluates before `panic(err)` — succeeds, with a block that passes `Validate`.
(Any table, NFC implementation and hash function: both sides call the same function.) -/
theorem C09_block_accept_handler_decodes (t : Table) (nfc : NFC) (H : Bytes → Bytes) (data : Bytes)
    (h : blockValidator t nfc H data = .accept) :
    ∃ b, newBlock t nfc data = .ok b ∧ blockValid t nfc H b = true := by
  unfold blockValidator at h
  split at h
  · cases h
  · cases h
  · rename_i b hb
    split at h
    · rename_i hv; exact ⟨b, hb, hv⟩
    · cases h

/-- PostBlock from the pubsub bytes: if the registered validator (envelope + `blockValidator`)
accepts, the subscription loop's own lenient decode of the envelope succeeds and `NewBlock` of its
`Data` succeeds: the handler's `panic(err)` is unreachable. -/
theorem C09_block_gossip_accept_handler_decodes (t : Table) (nfc : NFC) (H : Bytes → Bytes)
    (raw : Bytes)
    (h : gossip t nfc Verdict.reject Verdict.panic (blockValidator t nfc H) raw = .accept) :
    ∃ m b, decodeNamed t nfc false "p2p.Message" raw = .ok m ∧ newBlock t nfc (fBytes m 0) = .ok b := by
  unfold gossip at h
  split at h
  · cases h
  · cases h
  · rename_i m hm
    obtain ⟨b, hb, _⟩ := C09_block_accept_handler_decodes t nfc H _ h
    exact ⟨m, b, hm, hb⟩

/-- **PostTransactionsAnnouncement.** Whenever `transactionValidator` accepts a payload,
`NewTransaction` of the same payload (strict decode) — what `onTransactionAnnoucement` evaluates
before `panic(err)` — succeeds. -/
theorem C09_tx_accept_handler_decodes (t : Table) (nfc : NFC) (data : Bytes)
    (h : transactionValidator t nfc data = .accept) :
    ∃ tx, decodeNamed t nfc true "blockchain.Transaction" data = .ok tx ∧ txValid tx = true := by
  unfold transactionValidator at h
  split at h
  · cases h
  · split at h
    · cases h
    · cases h
    · rename_i tx htx
      split at h
      · rename_i hv; exact ⟨tx, htx, hv⟩
      · cases h

theorem C09_tx_gossip_accept_handler_decodes (t : Table) (nfc : NFC) (raw : Bytes)
    (h : gossip t nfc Verdict.reject Verdict.panic (transactionValidator t nfc) raw = .accept) :
    ∃ m tx, decodeNamed t nfc false "p2p.Message" raw = .ok m ∧
      decodeNamed t nfc true "blockchain.Transaction" (fBytes m 0) = .ok tx := by
  unfold gossip at h
  split at h
  · cases h
  · cases h
  · rename_i m hm
    obtain ⟨tx, htx, _⟩ := C09_tx_accept_handler_decodes t nfc _ h
    exact ⟨m, tx, hm, htx⟩

/-- **PostSingleCommits.** `singleCommitValidator` goes past its decoding front (no commits: ignore;
a well-formed first commit: the stateful checks) only if the strict decode succeeded; the event
handler `onSingleCommitsReceived` has an empty body, so nothing depends on it. -/
theorem C09_commits_nonreject_decodes (t : Table) (nfc : NFC) (data : Bytes)
    (h : commitsPrefix t nfc data = .empty ∨ commitsPrefix t nfc data = .stateful) :
    ∃ ev, decodeNamed t nfc true "consensus.EventPostSingleCommits" data = .ok ev := by
  unfold commitsPrefix at h
  split at h
  · rcases h with h | h <;> cases h
  · rcases h with h | h <;> cases h
  · rename_i ev hev; exact ⟨ev, hev⟩

/-- `transactionValidator` with the decoder as a parameter: `strict = true` is the code
(`blockchain.NewTransaction` = `DecodeStrict`), `strict = false` the variant that calls
`Transaction.Decode` -/
def C09txValidatorWith (t : Table) (nfc : NFC) (strict : Bool) (data : Bytes) : Verdict :=
  if data.isEmpty then .reject
  else
    match decodeNamed t nfc strict "blockchain.Transaction" data with
    | .error .panic => .panic
    | .error _ => .reject
    | .ok tx => if txValid tx then .accept else .reject

theorem C09_txValidatorWith_strict (t : Table) (nfc : NFC) (data : Bytes) :
    C09txValidatorWith t nfc true data = transactionValidator t nfc data := rfl

/-- a complete valid transaction (module "a", command "b", nonce 5, fee 7, 32-byte key, empty
params, one 64-byte signature) … -/
def C09txFull : Bytes :=
  [0x0a, 0x01, 0x61, 0x12, 0x01, 0x62, 0x18, 0x05, 0x20, 0x07, 0x2a, 0x20] ++ List.replicate 32 1 ++
    [0x32, 0x00, 0x3a, 0x40] ++ List.replicate 64 2

/-- … and one with the scalar fields omitted (key and signature only) -/
def C09txOmitted : Bytes := [0x2a, 0x20] ++ List.replicate 32 1 ++ [0x3a, 0x40] ++ List.replicate 64 2

/-- **Lenient accept does NOT imply strict accept.** A valid transaction followed by one byte, and a
transaction without module / command / nonce / fee, are accepted by the lenient validator variant
while `NewTransaction` fails on them (`unreadBytes`, `unexpectedFieldNumber`): with that validator
the handler's `panic(err)` is reachable from the network. The real (strict) validator rejects both
and accepts the transaction without the trailing byte. -/
theorem C09_tx_lenient_validator_counterexample :
    C09txValidatorWith allSchemas asciiNFC false (C09txFull ++ [0x00]) = .accept ∧
    decodeNamed allSchemas asciiNFC true "blockchain.Transaction" (C09txFull ++ [0x00])
      = .error .unreadBytes ∧
    C09txValidatorWith allSchemas asciiNFC false C09txOmitted = .accept ∧
    decodeNamed allSchemas asciiNFC true "blockchain.Transaction" C09txOmitted
      = .error .unexpectedFieldNumber ∧
    transactionValidator allSchemas asciiNFC (C09txFull ++ [0x00]) = .reject ∧
    transactionValidator allSchemas asciiNFC C09txOmitted = .reject ∧
    transactionValidator allSchemas asciiNFC C09txFull = .accept := by
  refine ⟨by decide +kernel, (C09_isError_iff _ _).mp (by decide +kernel), by decide +kernel,
    (C09_isError_iff _ _).mp (by decide +kernel), by decide +kernel, by decide +kernel,
    by decide +kernel⟩

/-- **The 2×2 matrix for PostTransactionsAnnouncement.** With the validator decoding in mode `sv` and
the handler in mode `sh`, "validator accepts ⇒ handler decodes" holds for all payloads exactly when
`sv = strict ∨ sh = lenient`; the code is (strict, strict). -/
theorem C09_tx_validator_handler_matrix (sv sh : Bool) :
    (∀ data, C09txValidatorWith allSchemas asciiNFC sv data = .accept →
      ∃ tx, decodeNamed allSchemas asciiNFC sh "blockchain.Transaction" data = .ok tx) ↔
    (sv = true ∨ sh = false) := by
  constructor
  · intro h
    cases sv with
    | true => exact Or.inl rfl
    | false =>
      cases sh with
      | false => exact Or.inr rfl
      | true =>
        obtain ⟨hacc, herr, _⟩ := C09_tx_lenient_validator_counterexample
        obtain ⟨tx, htx⟩ := h _ hacc
        rw [herr] at htx
        cases htx
  · intro hdep data h
    unfold C09txValidatorWith at h
    split at h
    · cases h
    · split at h
      · cases h
      · cases h
      · rename_i tx htx
        exact ⟨tx, C09_decoder_dependency asciiNFC _ sv sh hdep data tx htx⟩

/-- the implication direction of the matrix for any NFC implementation -/
theorem C09_tx_validator_covers_handler (nfc : NFC) (sv sh : Bool) (hdep : sv = true ∨ sh = false)
    (data : Bytes) (h : C09txValidatorWith allSchemas nfc sv data = .accept) :
    ∃ tx, decodeNamed allSchemas nfc sh "blockchain.Transaction" data = .ok tx := by
  unfold C09txValidatorWith at h
  split at h
  · cases h
  · split at h
    · cases h
    · cases h
    · rename_i tx htx
      exact ⟨tx, C09_decoder_dependency nfc _ sv sh hdep data tx htx⟩

/-! ## 4. RPC handlers: the byte-level front against the handler specifications -/

/-- the request body as `Sync.handleHighestCommon` takes it: `none` = does not decode -/
def C09hcbRequest (t : Table) (nfc : NFC) (data : Bytes) : Option (List Bytes) :=
  match decodeNamed t nfc false "sync.GetHighestCommonBlockRequest" data with
  | .ok q => some (fBytesArr q 0)
  | .error _ => none

/-- the request body as `Sync.handleBlocksFromID` takes it -/
def C09bfiRequest (t : Table) (nfc : NFC) (data : Bytes) : Option Bytes :=
  match decodeNamed t nfc false "sync.GetBlocksFromIDRequest" data with
  | .ok q => some (fBytes q 0)
  | .error _ => none

/-- `len(id) == 32` -/
def C09okLen (id : Bytes) : Bool := id.length == 32

private theorem hcb_some_ban_iff (c : List (Sync.Blk Bytes)) (ids : List Bytes) :
    Sync.handleHighestCommon C09okLen c (some ids) = .ban ↔
      (ids.isEmpty = true ∨ ids.all C09okLen = false) := by
  cases ids with
  | nil => simp [Sync.handleHighestCommon]
  | cons a r =>
    simp only [Sync.handleHighestCommon]
    by_cases hall : (a :: r).all C09okLen = true
    · rw [if_pos hall]
      constructor
      · intro h
        split at h
        · cases h
        · split at h <;> cases h
      · rintro (h | h)
        · simp at h
        · rw [hall] at h; cases h
    · rw [if_neg hall]
      simp only [true_iff]
      exact Or.inr (by simpa using hall)

private theorem procs_distinct :
    (procGetHighestCommonBlock == procGetLastBlock) = false ∧
    (procGetHighestCommonBlock == procGetTransactions) = false ∧
    (procGetBlocksFromID == procGetLastBlock) = false ∧
    (procGetBlocksFromID == procGetTransactions) = false ∧
    (procGetBlocksFromID == procGetHighestCommonBlock) = false := by
  decide +kernel

/-- **getHighestCommonBlock, every request byte string.** If the envelope decodes and names the
procedure, then for EVERY chain `c` the byte-level front bans exactly when the handler specification
`Sync.handleHighestCommon` bans on the decoded id list (undecodable body, no ids, an id that is not 32
bytes), and serves exactly when the specification answers (`none` or an id) — duplicates, unknown ids
and any order included; it never panics. The answer itself is characterised in
`C19_highest_common_exact` and only depends on the set of ids (`C19_highest_common_order_irrelevant`). -/
theorem C09_hcb_request_refines (nfc : NFC) (raw : Bytes) (r : List Value)
    (hr : decodeNamed allSchemas nfc false "p2p.Request" raw = .ok r)
    (hp : fBytes r 1 = procGetHighestCommonBlock) (c : List (Sync.Blk Bytes)) :
    (requestVerdict allSchemas nfc raw = .ban ↔
      Sync.handleHighestCommon C09okLen c (C09hcbRequest allSchemas nfc (fBytes r 2)) = .ban) ∧
    (requestVerdict allSchemas nfc raw = .serve ↔
      Sync.handleHighestCommon C09okLen c (C09hcbRequest allSchemas nfc (fBytes r 2)) ≠ .ban) := by
  obtain ⟨p1, p2, _⟩ := procs_distinct
  have hnp := C09_decodeNamed_no_panic nfc false "sync.GetHighestCommonBlockRequest"
    (by decide +kernel) (fBytes r 2)
  unfold requestVerdict C09hcbRequest
  rw [hr]
  simp only [hp, p1, p2, Bool.or_false, Bool.false_eq_true, if_false, beq_self_eq_true, if_true]
  cases hq : decodeNamed allSchemas nfc false "sync.GetHighestCommonBlockRequest" (fBytes r 2) with
  | error e =>
    have he : e ≠ .panic := fun hc => hnp (by rw [hq, hc])
    cases e <;> first | exact absurd rfl he | simp [Sync.handleHighestCommon]
  | ok q =>
    simp only [ne_eq]
    rw [hcb_some_ban_iff]
    have hall : (fBytesArr q 0).all (fun id => id.length == 32) = (fBytesArr q 0).all C09okLen := rfl
    rw [hall]
    by_cases he : (fBytesArr q 0).isEmpty = true
    · simp [he]
    · by_cases ha : (fBytesArr q 0).all C09okLen = true
      · simp [he, ha]
      · have ha' : (fBytesArr q 0).all C09okLen = false := by simpa using ha
        simp [he, ha']

/-- **getBlocksFromId, every request byte string**: the front bans exactly when
`Sync.handleBlocksFromID` bans on the decoded id (undecodable body or an id that is not 32 bytes), on
every chain, and serves (blocks or an error response) otherwise. -/
theorem C09_bfi_request_refines (nfc : NFC) (raw : Bytes) (r : List Value)
    (hr : decodeNamed allSchemas nfc false "p2p.Request" raw = .ok r)
    (hp : fBytes r 1 = procGetBlocksFromID) (c : List (Sync.Blk Bytes)) :
    (requestVerdict allSchemas nfc raw = .ban ↔
      Sync.handleBlocksFromID C09okLen c (C09bfiRequest allSchemas nfc (fBytes r 2)) = .ban) ∧
    (requestVerdict allSchemas nfc raw = .serve ↔
      Sync.handleBlocksFromID C09okLen c (C09bfiRequest allSchemas nfc (fBytes r 2)) ≠ .ban) := by
  obtain ⟨_, _, p3, p4, p5⟩ := procs_distinct
  have hnp := C09_decodeNamed_no_panic nfc false "sync.GetBlocksFromIDRequest"
    (by decide +kernel) (fBytes r 2)
  unfold requestVerdict C09bfiRequest
  rw [hr]
  simp only [hp, p3, p4, p5, Bool.or_false, Bool.false_eq_true, if_false, beq_self_eq_true, if_true]
  cases hq : decodeNamed allSchemas nfc false "sync.GetBlocksFromIDRequest" (fBytes r 2) with
  | error e =>
    have he : e ≠ .panic := fun hc => hnp (by rw [hq, hc])
    cases e <;> first | exact absurd rfl he | simp [Sync.handleBlocksFromID]
  | ok q =>
    simp only [Sync.handleBlocksFromID, C09okLen]
    by_cases hl : ((fBytes q 0).length == 32) = true
    · simp only [hl, if_true]
      cases Sync.heightOf c (fBytes q 0) <;> simp
    · simp [hl]

/-- **The work a getHighestCommonBlock request can cause is bounded by its size**: when the request
is served, every id is 32 bytes long and `33 · #ids ≤ |raw|`, so the number of database look-ups,
goroutines and the WaitGroup count of the handler are at most `|raw| / 33`. -/
theorem C09_hcb_lookups_bounded (nfc : NFC) (raw : Bytes) (r q : List Value)
    (hr : decodeNamed allSchemas nfc false "p2p.Request" raw = .ok r)
    (hq : decodeNamed allSchemas nfc false "sync.GetHighestCommonBlockRequest" (fBytes r 2) = .ok q)
    (hall : (fBytesArr q 0).all C09okLen = true) :
    33 * (fBytesArr q 0).length ≤ raw.length := by
  have h1 := (C09_decoded_fields_bounded nfc false _ raw r hr 2).1
  have h2 := (C09_decoded_fields_bounded nfc false _ _ q hq 0).2.1
  have h3 : ((fBytesArr q 0).map List.length).sum = 32 * (fBytesArr q 0).length := by
    generalize fBytesArr q 0 = l at hall
    induction l with
    | nil => rfl
    | cons a rest ih =>
      simp only [List.all_cons, Bool.and_eq_true, C09okLen, beq_iff_eq] at hall
      simp only [List.map_cons, List.sum_cons, List.length_cons, hall.1]
      have := ih (by simpa [C09okLen] using hall.2)
      omega
  omega

/-! ## 5. Bitmaps: the exact index / length conditions -/

/-- `Bits.read(i)` is in range iff `i < 8 · len(bits)` -/
theorem C09_bits_read_iff (bits : Bytes) (i : Nat) :
    (bitsRead bits i).isSome = true ↔ i < 8 * bits.length := by
  unfold bitsRead
  constructor
  · intro h
    by_cases hlt : i / 8 < bits.length
    · omega
    · rw [List.getElem?_eq_none (by omega)] at h
      cases h
  · intro h
    have hlt : i / 8 < bits.length := by omega
    rw [List.getElem?_eq_getElem hlt]
    rfl

/-- `Bits.write(i, v)` is in range iff `i < 8 · len(bits)`, and then keeps the length -/
theorem C09_bits_write_iff (bits : Bytes) (i : Nat) (v : Bool) :
    ((bitsWrite bits i v).isSome = true ↔ i < 8 * bits.length) ∧
    (∀ b', bitsWrite bits i v = some b' → b'.length = bits.length) := by
  unfold bitsWrite
  refine ⟨⟨?_, ?_⟩, ?_⟩
  · intro h
    by_cases hlt : i / 8 < bits.length
    · omega
    · rw [List.getElem?_eq_none (by omega)] at h
      cases h
  · intro h
    have hlt : i / 8 < bits.length := by omega
    rw [List.getElem?_eq_getElem hlt]
    rfl
  · intro b' h
    split at h
    · cases h
    · cases h; simp

/-- **The signer-selection loop, exactly.** The loop of `BLSVerifyAggSig` / `BLSVerifyWeightedAggSig`
over the first `n` keys runs without an index panic iff every index below `n` is inside the bitmap
and every index whose bit is SET has a key and a weight — for every key list, bitmap, weight list
and `n` (no guard assumed). -/
theorem C09_select_signers_iff (keys : List Bytes) (bits : Bytes) (weights : List Nat) (n : Nat) :
    (selectSigners keys bits weights n).isSome = true ↔
      ∀ i, i < n → i < 8 * bits.length ∧
        (bitsRead bits i = some true → i < keys.length ∧ i < weights.length) := by
  induction n with
  | zero => simp [selectSigners]
  | succ k ih =>
    unfold selectSigners
    constructor
    · intro h i hi
      cases hs : selectSigners keys bits weights k with
      | none => rw [hs] at h; cases h
      | some p =>
        obtain ⟨ks, w⟩ := p
        rw [hs] at h
        simp only at h
        by_cases hik : i < k
        · exact (ih.mp (by rw [hs]; rfl)) i hik
        · have : i = k := by omega
          subst this
          cases hb : bitsRead bits i with
          | none => rw [hb] at h; cases h
          | some bit =>
            refine ⟨(C09_bits_read_iff bits i).mp (by rw [hb]; rfl), ?_⟩
            intro hbit
            cases hbit
            rw [hb] at h
            simp only at h
            cases hk : keys[i]? with
            | none => rw [hk] at h; cases h
            | some key =>
              cases hw : weights[i]? with
              | none => rw [hk, hw] at h; cases h
              | some wi =>
                exact ⟨(List.getElem?_eq_some_iff.mp hk).1, (List.getElem?_eq_some_iff.mp hw).1⟩
    · intro h
      have hprev := ih.mpr (fun i hi => h i (by omega))
      cases hs : selectSigners keys bits weights k with
      | none => rw [hs] at hprev; cases hprev
      | some p =>
        obtain ⟨ks, w⟩ := p
        simp only
        obtain ⟨hin, hset⟩ := h k (by omega)
        have hr := (C09_bits_read_iff bits k).mpr hin
        cases hb : bitsRead bits k with
        | none => rw [hb] at hr; cases hr
        | some bit =>
          cases bit with
          | false => rfl
          | true =>
            obtain ⟨hk, hw⟩ := hset hb
            simp only [List.getElem?_eq_getElem hk, List.getElem?_eq_getElem hw]
            rfl

/-- **The guard is exact.** For a bitmap of `L` bytes, reading all indices below `n` is safe iff
`n ≤ 8·L`; so `len(bits) = ⌈n/8⌉` (the guard of the C06 fix) is sufficient, and any guard that lets
a shorter bitmap through lets a panic through. With all bits set the loop additionally needs `n` keys and weights. -/
theorem C09_bits_guard_exact (bits : Bytes) (n : Nat) :
    ((∀ i, i < n → (bitsRead bits i).isSome = true) ↔ n ≤ 8 * bits.length) ∧
    (bits.length = (n + 7) / 8 → n ≤ 8 * bits.length) ∧
    (bits.length < (n + 7) / 8 → ¬ n ≤ 8 * bits.length) := by
  refine ⟨⟨?_, ?_⟩, by omega, by omega⟩
  · intro h
    cases n with
    | zero => omega
    | succ k =>
      have := (C09_bits_read_iff bits k).mp (h k (by omega))
      omega
  · intro h i hi
    exact (C09_bits_read_iff bits i).mpr (by omega)

/-! ## non-vacuity -/

/-- allocation: a getHighestCommonBlock body with two ids decodes to 2·33 units from 68 bytes; a
length prefix pointing past the buffer, an element count that does not fit and a nested size past
the end are errors, nothing is allocated for them -/
example :
    (match decodeNamed allSchemas asciiNFC false "sync.GetHighestCommonBlockRequest"
        ([0x0a, 0x20] ++ List.replicate 32 7 ++ [0x0a, 0x20] ++ List.replicate 32 7) with
     | .ok q => C09allocUnits q == 66 && (fBytesArr q 0).length == 2
     | .error _ => false) = true ∧
    C09isError .byteSize (decodeNamed allSchemas asciiNFC false "sync.GetHighestCommonBlockRequest"
        [0x0a, 0xff, 0xff, 0xff, 0xff, 0x07, 0x01]) = true ∧
    C09isError .byteSize (decodeNamed allSchemas asciiNFC true "consensus.EventPostSingleCommits"
        [0x0a, 0x03, 0x0a, 0x01]) = true := by
  decide +kernel

/-- tree size: the static part is real — an empty input decodes to the 18 default nodes of a block
(bound: `C09static` = 21), and two empty elements (4 bytes) of an array of blocks / transactions decode
to 39 / 17 nodes while allocating 2 units: the per-byte factor of the tree bound cannot be 1 -/
example :
    (match decodeNamed allSchemas asciiNFC false "blockchain.Block" [] with
     | .ok v => C09treeSize v == 18 && C09allocUnits v == 0
     | .error _ => false) = true ∧
    (match decodeNamed allSchemas asciiNFC false "sync.GetBlocksFromIDResponse" [0x0a, 0x00, 0x0a, 0x00] with
     | .ok v => C09treeSize v == 39 && C09allocUnits v == 2
     | .error _ => false) = true ∧
    (match decodeNamed allSchemas asciiNFC false "txpool.GetTransactionsResponse" [0x0a, 0x00, 0x0a, 0x00] with
     | .ok v => C09treeSize v == 17 && C09allocUnits v == 2
     | .error _ => false) = true ∧
    C09static "blockchain.Block" = 21 ∧ C09static "labi.ExecuteTransactionRequest" = 35 := by
  decide +kernel

/-- the hypotheses of `C09_decode_alloc_linear` / `C09_strict_accept_implies_lenient` are satisfiable -/
example : C09Ranked allSchemas C09rank = true ∧ C09LenientIsLaxer allSchemas = true ∧
    schema9 ∈ allSchemas ∧ schema9.name = "blockchain.Transaction" := by
  refine ⟨C09_allSchemas_ranked, C09_allSchemas_lenient_is_laxer, ?_, rfl⟩
  simp [allSchemas]

/-- the check `C09LenientIsLaxer` is not vacuous: a struct whose lenient list has a stricter flag, or
another kind, fails it — and then strict-accept does not imply lenient-accept -/
example :
    let s : Schema := { name := "A", enc := [], dec := [{ num := 1, kind := .uint, strict := true }],
                        decStrict := [{ num := 1, kind := .uint, strict := false }] }
    C09LenientIsLaxer [s] = false ∧ (decodeStrict [s] asciiNFC s []).toBool = true ∧
      C09isError .fieldNumberNotFound (decode [s] asciiNFC s []) = true := by
  decide +kernel

/-- the cost functions count: the empty payload fails at the first (strict) envelope field; a
RawBlock holding the one-byte header `0x60` costs envelope + header (both stages are counted); the
`p2p.Message` envelope adds its own 3 calls -/
example : C09newBlockCost allSchemas asciiNFC [] = 2 ∧ C09requestCost allSchemas asciiNFC [] = 11 ∧
    C09newBlockCost allSchemas asciiNFC [0x0a, 0x01, 0x60] = 33 ∧
    C09blockGossipCost allSchemas asciiNFC [0x0a, 0x03, 0x0a, 0x01, 0x60] = 36 := by
  decide +kernel

/-- a block header with the four lengths `Validate` checks (previous id, generator address, state root — since
fix 4d58fae —, signature), and the RawBlock carrying only it -/
def C09hdr : Bytes :=
  [0x22, 0x20] ++ List.replicate 32 1 ++ [0x2a, 0x14] ++ List.replicate 20 2 ++ [0x4a, 0x20] ++
    List.replicate 32 4 ++ [0x7a, 0x40] ++ List.replicate 64 3
def C09blk : Bytes := [0x0a, 0x9c, 0x01] ++ C09hdr

/-- the hypotheses of `C09_block_accept_handler_decodes` / `C09_block_gossip_accept_handler_decodes` /
`C09_commits_nonreject_decodes` are satisfiable: with the constant hash function the block above is
accepted, bare and inside the `p2p.Message` envelope; a well-formed single commit reaches the stateful
part, an empty commit is rejected in the stateless front -/
example :
    blockValidator allSchemas asciiNFC (fun _ => []) C09blk = .accept ∧
    gossip allSchemas asciiNFC Verdict.reject Verdict.panic
      (blockValidator allSchemas asciiNFC (fun _ => [])) ([0x0a, 0x9f, 0x01] ++ C09blk) = .accept ∧
    gossip allSchemas asciiNFC Verdict.reject Verdict.panic
      (transactionValidator allSchemas asciiNFC) ([0x0a, 0x70] ++ C09txFull) = .accept ∧
    commitsPrefix allSchemas asciiNFC
      ([0x0a, 0x9c, 0x01] ++ ([0x0a, 0x20] ++ List.replicate 32 1 ++ [0x10, 0x05, 0x1a, 0x14] ++
        List.replicate 20 2 ++ [0x22, 0x60] ++ List.replicate 96 3)) = .stateful ∧
    commitsPrefix allSchemas asciiNFC [0x0a, 0x00] = .reject := by
  decide +kernel

/-- getBlocksFromId: a 32-byte id is served, a 1-byte id banned -/
example :
    requestVerdict allSchemas asciiNFC
      ([0x0a, 0x01, 0x61, 0x12, 0x0f] ++ procGetBlocksFromID ++ [0x1a, 0x22] ++
        ([0x0a, 0x20] ++ List.replicate 32 7)) = .serve ∧
    requestVerdict allSchemas asciiNFC
      ([0x0a, 0x01, 0x61, 0x12, 0x0f] ++ procGetBlocksFromID ++ [0x1a, 0x03, 0x0a, 0x01, 0x07]) = .ban := by
  decide +kernel

/-- requests: two equal ids (the duplicate-id request) are served; 31-byte id banned; no ids banned -/
example :
    requestVerdict allSchemas asciiNFC
      ([0x0a, 0x01, 0x61, 0x12, 0x15] ++ procGetHighestCommonBlock ++ [0x1a, 0x44] ++
        ([0x0a, 0x20] ++ List.replicate 32 7 ++ [0x0a, 0x20] ++ List.replicate 32 7)) = .serve ∧
    requestVerdict allSchemas asciiNFC
      ([0x0a, 0x01, 0x61, 0x12, 0x15] ++ procGetHighestCommonBlock ++ [0x1a, 0x21] ++
        ([0x0a, 0x1f] ++ List.replicate 31 7)) = .ban ∧
    requestVerdict allSchemas asciiNFC
      ([0x0a, 0x01, 0x61, 0x12, 0x15] ++ procGetHighestCommonBlock) = .ban := by
  decide +kernel

/-- … and the specification gives the duplicate-id request the answer of the single-id request -/
example :
    let c : List (Sync.Blk Bytes) := [{ id := [1], prev := [0], height := 0 }, { id := [2], prev := [1], height := 1 }]
    Sync.handleHighestCommon (fun _ => true) c (some [[2], [2], [1]]) = .id [2] ∧
    Sync.handleHighestCommon (fun _ => true) c (some [[2], [1]]) = .id [2] := by
  decide

/-- bitmaps: a 1-byte bitmap covers indices 0..7 only; an unset bit needs no key; a set bit without
weight panics -/
example : (selectSigners [[1]] [0x00] [] 8).isSome = true ∧ (selectSigners [[1]] [0x01] [] 1).isSome = false ∧
    (selectSigners [[1]] [0x01] [5] 1) = some ([[1]], 5) ∧ (selectSigners [[1]] [0x00] [] 9).isSome = false := by
  decide
