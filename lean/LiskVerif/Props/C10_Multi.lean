/-
C10 (proof side, multi-key) — the transcription of pkg/trie/smt `Verify` / `CalculateRoot` / `Prove`
(Model/SMTVerify.lean, the code after fixes/C10-*.patch) for ANY number of queries:

* `C10_multi_sound`     : an accepted multi-proof shows for every queried key what the map holds (no collision of
                          `H` between the inputs hashed by the verifier and those of the tree);
* `C10_multi_complete`  : `Verify (Prove keys)` accepts for every non-empty list of keys, and the generated queries
                          show what the map holds (no collision of `H` among the inputs of the tree);
* `C10_reg_*`           : kernel-evaluated regressions on a 3-key and a 4-key map: honest multi-proofs accepted,
                          every single-field tampering / forgery class refused.
The open statements `C10_multi_sound_Statement` / `C10_multi_complete_Statement` of Props/C10_Verify.lean: the first
is proved (`C10_multi_sound_statement_holds`); the second is FALSE as stated for `keys = []`
(`C10_multi_complete_no_query`) and proved for non-empty key lists (`C10_multi_complete_injective`).
-/
import LiskVerif.Lemmas.SMTMulti
import LiskVerif.Props.C10_Verify

open LiskVerif LiskVerif.SMT LiskVerif.SMTVerify

/-! ### multi-key soundness -/

/-- the work list `CalculateRoot` starts from: the position-filtered query proofs, sorted -/
def C10WorkList (H : HashFn) (proof : Proof) : List QP :=
  sortQPs ((filterQueries H proof.queries []).getD [])

/-- every input the verifier hashes while checking `proof`: the proven nodes (a leaf `0x00 ‖ key ‖ value`, or the
empty string for an empty node) and every branch `0x01 ‖ left ‖ right` computed by `CalculateRoot` -/
def C10MultiInputs (H : HashFn) (proof : Proof) : List Bytes :=
  proof.queries.map (fun q => C10NodeInput (toProof1 q [])) ++
    calcTrace H (calcFuel (C10WorkList H proof)) proof.siblings (C10WorkList H proof)

/-- **Multi-key soundness of the transcribed `Verify`**: let `H` have outputs of one length and NO COLLISION
between the (finitely many) inputs the verifier hashes for this proof (`C10MultiInputs`) and the inputs hashed to
compute the root of the map.  Then a proof for ANY list of query keys that `Verify` accepts against the root of
the map shows, for every queried key, what the map holds: the stored value if the query claims inclusion,
absence otherwise. -/
theorem C10_multi_sound (H : HashFn) (n : Nat) (hlen : ∀ x, (H x).length = n) (keyLen : Nat) (m : List KV)
    (hm : C10Map keyLen m) (keys : List Bytes) (proof : Proof)
    (hnc : NoColl H (C10MultiInputs H proof) (treeInputs H (8 * keyLen) (entriesOf m)))
    (h : verify H keys proof (mapRoot H keyLen m) keyLen = .ok true) :
    ∀ i (hi : i < keys.length) (hq : i < proof.queries.length),
      claim keys[i] proof.queries[i] = mget m keys[i] := by
  intro i hi hq
  obtain ⟨hl, hkeys, hqs⟩ := C10_verify_accepts_only_wellformed H _ _ _ _ h
  unfold verify at h
  split at h
  · simp at h
  split at h
  · next v hv =>
    -- a verdict of the first loop is never `ok true`
    exfalso
    have : ∀ (keys : List Bytes) (qs seen : List Query) (v : Verdict),
        checkQueries keyLen keys qs seen = some v → v ≠ .ok true := by
      intro keys qs
      induction qs generalizing keys with
      | nil => intro seen v h; cases keys <;> simp [checkQueries] at h
      | cons query qs ih =>
        intro seen v h
        cases keys with
        | nil => simp [checkQueries] at h
        | cons key keys =>
          simp only [checkQueries] at h
          split at h
          · next v' hv' =>
            simp only [Option.some.injEq] at h
            subst h
            unfold checkOne at hv'
            repeat' split at hv'
            all_goals first
              | (simp only [Option.some.injEq] at hv'; rw [← hv']; simp)
              | simp at hv'
          · exact ih keys _ v h
    exact this _ _ _ _ hv h
  next hnone =>
  split at h
  · simp at h
  next filtered hfilt =>
  split at h
  · simp at h
  next r hr =>
  have hrt : r = mapRoot H keyLen m := by simpa using h
  subst hrt
  -- the query and its representative in the work list
  obtain ⟨seen', hone⟩ := checkQueries_getElem _ _ _ hnone i hi hq
  obtain ⟨hk, hqk, hqh, hpre⟩ := checkOne_none_spec hone
  obtain ⟨hdist, hfrom, -, hrep⟩ := filterQueries_spec H _ _ _ hfilt List.Pairwise.nil
  obtain ⟨e, he, hep, heh, ebm⟩ := hrep _ (List.getElem_mem hq)
  have hwl : C10WorkList H proof = sortQPs filtered := by simp [C10WorkList, hfilt]
  have hinv : QInv keyLen (sortQPs filtered) := by
    have hmem : ∀ x ∈ sortQPs filtered, ∃ q ∈ proof.queries, x = qpOf H q := by
      intro x hx
      rw [sortQPs_eq, mem_isort] at hx
      rcases hfrom x hx with h' | h'
      · simp at h'
      · exact h'
    refine ⟨?_, ?_, sortQPs_sorted _, ?_⟩
    · intro x hx
      obtain ⟨q, hq', rfl⟩ := hmem x hx
      exact (hqs q hq').1
    · intro x hx
      obtain ⟨q, hq', rfl⟩ := hmem x hx
      exact (hqs q hq').2
    · rw [sortQPs_eq]
      exact ((isort_perm qpLe filtered).pairwise_iff (fun h e => h e.symm)).mpr hdist
  unfold calculateRoot at hr
  simp only at hr
  have hchain := calcLoop_chain H keyLen _ _ _ _ hinv hr e (by rw [sortQPs_eq, mem_isort]; exact he)
  obtain ⟨bmT, ssT, hb1, hb2, hb3⟩ := hchain
  generalize hq0 : proof.queries[i] = q at *
  have hheight : bmT.length = (stripPrefixFalse (toBools q.bitmap)).length := by
    rw [hb1]; unfold QP.height; rw [ebm]; rfl
  have hnode : (Proof1.nodeHash H ⟨q.key, q.value, bmT, ssT⟩) = e.hash := by
    rw [heh]
    unfold Proof1.nodeHash qpOf mkQP
    cases q.value <;> simp
  have hpath : e.binaryPath = (keyBits q.key).take bmT.length := by
    rw [hep, hheight]; rfl
  -- the extracted single-key proof verifies
  have hv1 : verify1 H keyLen keys[i] ⟨q.key, q.value, bmT, ssT⟩ (mapRoot H keyLen m) = true := by
    unfold verify1
    simp only [hk, hqk, decide_true, Bool.true_and, Bool.and_eq_true, Bool.or_eq_true, decide_eq_true_eq]
    refine ⟨⟨by rw [hheight]; exact hqh, ?_⟩, ?_⟩
    · rcases hpre with hp | hp
      · exact Or.inl hp.symm
      · exact Or.inr (by rw [hheight]; exact hp)
    · rw [hnode, ← hpath]; exact hb2
  have hnc1 : NoColl H (C10VerifyInputs H ⟨q.key, q.value, bmT, ssT⟩)
      (treeInputs H (8 * keyLen) (entriesOf m)) := by
    refine hnc.mono ?_ (fun _ hb => hb)
    intro a ha
    unfold C10VerifyInputs at ha
    unfold C10MultiInputs
    rw [List.mem_append]
    rcases List.mem_cons.mp ha with ha | ha
    · left
      rw [ha, List.mem_map]
      exact ⟨q, by rw [← hq0]; exact List.getElem_mem hq, rfl⟩
    · right
      rw [hwl]
      simp only at ha
      rw [hnode, ← hpath] at ha
      exact hb3 a ha
  have := C10_verify_sound H n hlen keyLen m hm keys[i] ⟨q.key, q.value, bmT, ssT⟩ hnc1 hv1
  exact (show claim keys[i] q = claim1 keys[i] ⟨q.key, q.value, bmT, ssT⟩ from rfl).trans this

/-- the contrapositive: a multi-key proof in which some query makes a claim that disagrees with the map is not
accepted against the root of the map (unless it exhibits a collision of `H`) -/
theorem C10_multi_no_false_claim (H : HashFn) (n : Nat) (hlen : ∀ x, (H x).length = n) (keyLen : Nat) (m : List KV)
    (hm : C10Map keyLen m) (keys : List Bytes) (proof : Proof)
    (hnc : NoColl H (C10MultiInputs H proof) (treeInputs H (8 * keyLen) (entriesOf m)))
    (i : Nat) (hi : i < keys.length) (hq : i < proof.queries.length)
    (hne : claim keys[i] proof.queries[i] ≠ mget m keys[i]) :
    verify H keys proof (mapRoot H keyLen m) keyLen ≠ .ok true :=
  fun h => hne (C10_multi_sound H n hlen keyLen m hm keys proof hnc h i hi hq)

/-- the idealised statement kept open in Props/C10_Verify.lean (`H` injective on all byte strings) follows -/
theorem C10_multi_sound_statement_holds : C10_multi_sound_Statement := by
  intro H n hlen hinj keyLen m hm keys proof h i hi hq
  exact C10_multi_sound H n hlen keyLen m hm keys proof (noColl_of_injective hinj _ _) h i hi hq

/-! ### multi-key completeness -/

/-- the standing assumptions of the completeness proof hold for a stored map and a hash with outputs of one
positive length and no collision among the inputs of the tree of the map and the empty string -/
theorem C10_treeCtx (H : HashFn) (n : Nat) (hlen : ∀ x, (H x).length = n) (hn : 0 < n) (keyLen : Nat) (m : List KV)
    (hm : C10Map keyLen m)
    (hnc : NoColl H ([] :: treeInputs H (8 * keyLen) (entriesOf m)) (treeInputs H (8 * keyLen) (entriesOf m))) :
    TreeCtx H n keyLen (entriesOf m) := by
  refine ⟨hlen, hn, wfe_entriesOf hm.nodup hm.keys, ?_, ?_, ?_, hnc.mono (fun a ha => List.mem_cons_of_mem _ ha)
    (fun _ hb => hb), hnc.mono (fun a ha => by rw [List.mem_singleton.mp ha]; simp) (fun _ hb => hb)⟩
  · intro e he
    simp only [entriesOf, List.mem_map] at he
    obtain ⟨kv, hkv, rfl⟩ := he
    exact hm.keys kv hkv
  · intro e he
    simp only [entriesOf, List.mem_map] at he
    obtain ⟨kv, _, rfl⟩ := he
    rfl
  · intro e he
    simp only [entriesOf, List.mem_map] at he
    obtain ⟨kv, hkv, rfl⟩ := he
    exact hm.values kv hkv

/-- a generated query shows what the map holds for the queried key -/
private theorem claim_of_pqspec {H : HashFn} {keyLen : Nat} {m : List KV} (hm : C10Map keyLen m) {k : Bytes} {pq : PQ}
    (s : PQSpec H keyLen (entriesOf m) k pq) : claim k (wireQ pq) = mget m k := by
  have hbelow : ∀ v, (k, v) ∈ m → (⟨(keyBits k).drop pq.height, k, v⟩ : Entry) ∈ descend (entriesOf m) pq.binaryPath := by
    intro v hv
    rw [mem_descend, s.path]
    refine ⟨⟨keyBits k, k, v⟩, ?_, by simp, rfl, rfl⟩
    simp only [entriesOf, List.mem_map]
    exact ⟨(k, v), hv, rfl⟩
  have habsent : (∀ v, (k, v) ∉ m) → mget m k = none := by
    intro h
    rw [mget_eq_none_iff]
    intro hmem
    obtain ⟨kv, hkv, hk⟩ := List.mem_map.mp hmem
    exact h kv.2 (by rw [← hk]; exact hkv)
  show (if pq.key = k ∧ pq.value ≠ [] then some pq.value else none) = mget m k
  rcases s.term with ⟨hv, _, hd⟩ | ⟨e, hd, hk, hv⟩
  · simp only [hv, ne_eq, not_true_eq_false, and_false, ↓reduceIte]
    symm
    apply habsent
    intro v hmem
    have := hbelow v hmem
    rw [hd] at this; simp at this
  · have he : e ∈ descend (entriesOf m) pq.binaryPath := by rw [hd]; simp
    obtain ⟨e0, he0, _, hk0, hv0⟩ := (mem_descend _).mp he
    simp only [entriesOf, List.mem_map] at he0
    obtain ⟨kv, hkv, rfl⟩ := he0
    simp only at hk0 hv0
    have hne : e.value ≠ [] := by rw [hv0]; exact hm.values kv hkv
    by_cases hkq : e.key = k
    · simp only [hk, hkq, hv, ne_eq, hne, not_false_eq_true, and_self, ↓reduceIte]
      have : (k, e.value) ∈ m := by rw [← hkq, hk0, hv0]; exact hkv
      exact (mget_eq_some_of_mem hm.nodup this).symm
    · simp only [hk, hkq, false_and, ↓reduceIte]
      symm
      apply habsent
      intro v hmem
      have := hbelow v hmem
      rw [hd, List.mem_singleton] at this
      apply hkq
      rw [← this]

/-- **Multi-key completeness of `Prove` / `Verify`**: let `H` have outputs of one positive length and no collision
among the (finitely many) inputs hashed to compute the root of the map, nor between them and the empty string.
Then for EVERY non-empty list of keys of the right length (absent keys, repeated keys, keys proven by the same
leaf included) `Prove` returns a proof, `Verify` accepts it against the root of the map, and every query shows
what the map holds for its key. -/
theorem C10_multi_complete (H : HashFn) (n : Nat) (hlen : ∀ x, (H x).length = n) (hn : 0 < n) (keyLen : Nat)
    (m : List KV) (hm : C10Map keyLen m)
    (hnc : NoColl H ([] :: treeInputs H (8 * keyLen) (entriesOf m)) (treeInputs H (8 * keyLen) (entriesOf m)))
    (keys : List Bytes) (hne : keys ≠ []) (hkeys : ∀ k ∈ keys, k.length = keyLen) :
    ∃ proof, prove H keyLen (buildH H (8 * keyLen) (entriesOf m)) keys = some proof ∧
      verify H keys proof (mapRoot H keyLen m) keyLen = .ok true ∧
      ∀ i (hi : i < keys.length) (hq : i < proof.queries.length), claim keys[i] proof.queries[i] = mget m keys[i] := by
  have c := C10_treeCtx H n hlen hn keyLen m hm hnc
  obtain ⟨proof, h1, h2, h3, h4⟩ := prove_verify c keys hne hkeys
  refine ⟨proof, h1, h2, ?_⟩
  intro i hi hq
  have hqi : proof.queries[i] =
      wireQ (queryInfo H keys[i] (buildH H (8 * keyLen) (entriesOf m)) (toBools keys[i])) := by
    simp only [h3, List.getElem_map]
  rw [hqi]
  exact claim_of_pqspec hm (h4 keys[i] (hkeys _ (List.getElem_mem hi)))

/-- the idealised form kept open in Props/C10_Verify.lean, for non-empty key lists (`H` injective) -/
theorem C10_multi_complete_injective (H : HashFn) (n : Nat) (hlen : ∀ x, (H x).length = n) (hn : 0 < n)
    (hinj : ∀ a b, H a = H b → a = b) (keyLen : Nat) (m : List KV) (hm : C10Map keyLen m) (keys : List Bytes)
    (hne : keys ≠ []) (hkeys : ∀ k ∈ keys, k.length = keyLen) :
    ∃ proof, prove H keyLen (buildH H (8 * keyLen) (entriesOf m)) keys = some proof ∧
      verify H keys proof (mapRoot H keyLen m) keyLen = .ok true ∧
      ∀ i (hi : i < keys.length) (hq : i < proof.queries.length), claim keys[i] proof.queries[i] = mget m keys[i] :=
  C10_multi_complete H n hlen hn keyLen m hm (noColl_of_injective hinj _ _) keys hne hkeys

/-- for the EMPTY key list `Prove` returns the empty proof and `Verify` answers with an error ("fail to compute
root"): the conclusion of `C10_multi_complete_Statement` is false for `keys = []`, the hypothesis `keys ≠ []` of
`C10_multi_complete` cannot be dropped -/
theorem C10_multi_complete_no_query (H : HashFn) (keyLen : Nat) (t : HT) (rt : Bytes) :
    (prove H keyLen t []).map (fun p => (p.siblings, p.queries.length)) = some ([], 0) ∧
    ∀ sibs, verify H [] ⟨sibs, []⟩ rt keyLen = .err := by
  refine ⟨rfl, fun sibs => rfl⟩

/-! ### kernel-evaluated regression theorems (toy hash `C10toyH` of Props/C10.lean, 1-byte keys)

`C10m3` : three keys (two part at bit 4, the third at bit 0); `C10m4` : four keys (00 / 01 part at the last bit,
80 / f0 at bit 1).  Honest multi-proofs generated by the transcription of `Prove` are accepted; every
single-field tampering is refused (`ok false` = `(false, nil)`, `err` = a non-nil error of `Verify`). -/

def C10m3 : List KV := [([0x10], [1, 1]), ([0x90], [2, 2]), ([0x18], [3, 3])]
def C10m4 : List KV := [([0x00], [1]), ([0x01], [2, 2]), ([0x80], [3]), ([0xF0], [4, 4, 4])]

def C10mProve (m : List KV) (keys : List Bytes) : Proof :=
  (prove C10toyH 1 (buildH C10toyH 8 (entriesOf m)) keys).getD ⟨[], []⟩
def C10mVerify (m : List KV) (keys : List Bytes) (p : Proof) : Verdict :=
  verify C10toyH keys p (mapRoot C10toyH 1 m) 1
/-- tamper with query `i` -/
def C10modQ (p : Proof) (i : Nat) (f : Query → Query) : Proof := { p with queries := p.queries.modify i f }

theorem C10m3_ok : C10Map 1 C10m3 :=
  ⟨by show (C10m3.map Prod.fst).Nodup; decide, by show ∀ kv ∈ C10m3, kv.1.length = 1; decide,
   by show ∀ kv ∈ C10m3, kv.2 ≠ []; decide⟩
theorem C10m4_ok : C10Map 1 C10m4 :=
  ⟨by show (C10m4.map Prod.fst).Nodup; decide, by show ∀ kv ∈ C10m4, kv.1.length = 1; decide,
   by show ∀ kv ∈ C10m4, kv.2 ≠ []; decide⟩

/-- query keys of the examples: `C10K1` = a stored key, an absent key ending in the leaf 80, an absent key ending
in an empty node; `C10K2` = all four stored keys; `C10K3` (for `C10m3`) = two stored keys, an absent key ending in
the leaf 90, an absent key ending in an empty node -/
def C10K1 : List Bytes := [[0x01], [0x81], [0x40]]
def C10K2 : List Bytes := [[0x00], [0x01], [0x80], [0xF0]]
def C10K3 : List Bytes := [[0x18], [0x91], [0x40], [0x10]]
def C10P1 : Proof := C10mProve C10m4 C10K1
def C10P2 : Proof := C10mProve C10m4 C10K2
def C10P3 : Proof := C10mProve C10m3 C10K3

/-- the generated proofs, spelled out -/
theorem C10_reg_proofs :
    (C10P1.siblings = [[130, 85], [246, 93]] ∧
     C10P1.queries = [⟨[0x01], [2, 2], [0x81]⟩, ⟨[0x80], [3], [0x03]⟩, ⟨[0x40], [], [0x03]⟩]) ∧
    (C10P2.siblings = [] ∧
     C10P2.queries = [⟨[0x00], [1], [0x81]⟩, ⟨[0x01], [2, 2], [0x81]⟩, ⟨[0x80], [3], [0x03]⟩, ⟨[0xF0], [4, 4, 4], [0x03]⟩]) ∧
    (C10P3.siblings = [] ∧
     C10P3.queries = [⟨[0x18], [3, 3], [0x11]⟩, ⟨[0x90], [2, 2], [0x01]⟩, ⟨[0x40], [], [0x03]⟩, ⟨[0x10], [1, 1], [0x11]⟩]) := by
  decide +kernel

/-- honest multi-proofs (2, 3 and 4 queries; inclusion, exclusion by another leaf, exclusion by an empty node,
the same key twice, two keys ending in the same leaf) are accepted -/
theorem C10_reg_honest_accepted :
    C10mVerify C10m4 C10K1 C10P1 = .ok true ∧
    C10mVerify C10m4 C10K2 C10P2 = .ok true ∧
    C10mVerify C10m3 C10K3 C10P3 = .ok true ∧
    C10mVerify C10m3 [[0x10], [0x90], [0x18]] (C10mProve C10m3 [[0x10], [0x90], [0x18]]) = .ok true ∧
    C10mVerify C10m4 [[0x01], [0xF0]] (C10mProve C10m4 [[0x01], [0xF0]]) = .ok true ∧
    C10mVerify C10m4 [[0x01], [0x01]] (C10mProve C10m4 [[0x01], [0x01]]) = .ok true ∧
    C10mVerify C10m4 [[0x80], [0xC0]] (C10mProve C10m4 [[0x80], [0xC0]]) = .ok true ∧
    C10mVerify C10m4 [[0xF0], [0xC0], [0xE1]] (C10mProve C10m4 [[0xF0], [0xC0], [0xE1]]) = .ok true := by
  decide +kernel

/-- dropping a query together with its key leaves an honest proof when the dropped query contributed no sibling -/
theorem C10_reg_subproof_accepted :
    C10mVerify C10m4 (C10K1.take 2) { C10P1 with queries := C10P1.queries.take 2 } = .ok true := by
  decide +kernel

/-- tampering class "value": a changed / removed / invented value of any one query is refused -/
theorem C10_reg_tamper_value :
    C10mVerify C10m4 C10K1 (C10modQ C10P1 0 fun q => { q with value := [9, 9] }) = .ok false ∧
    C10mVerify C10m4 C10K1 (C10modQ C10P1 1 fun q => { q with value := [] }) = .ok false ∧
    C10mVerify C10m4 C10K1 (C10modQ C10P1 2 fun q => { q with value := [7] }) = .err ∧
    C10mVerify C10m4 C10K2 (C10modQ C10P2 3 fun q => { q with value := [4, 4] }) = .ok false ∧
    C10mVerify C10m3 C10K3 (C10modQ C10P3 0 fun q => { q with value := [3] }) = .ok false ∧
    C10mVerify C10m3 C10K3 (C10modQ C10P3 2 fun q => { q with value := [1] }) ≠ .ok true := by
  decide +kernel

/-- tampering class "key" (fix "key length of proven nodes" included): another key, the queried absent key in
place of the leaf that excludes it, a shifted key / value boundary, an empty key -/
theorem C10_reg_tamper_key :
    C10mVerify C10m4 C10K1 (C10modQ C10P1 0 fun q => { q with key := [0x02] }) = .ok false ∧
    C10mVerify C10m4 C10K1 (C10modQ C10P1 1 fun q => { q with key := [0x81] }) = .ok false ∧
    C10mVerify C10m4 C10K1 (C10modQ C10P1 0 fun q => { q with key := [0x01, 2], value := [2] }) = .ok false ∧
    C10mVerify C10m4 C10K1 (C10modQ C10P1 0 fun q => { q with key := [] }) = .ok false ∧
    C10mVerify C10m3 C10K3 (C10modQ C10P3 1 fun q => { q with key := [0x91] }) ≠ .ok true ∧
    C10mVerify C10m3 C10K3 (C10modQ C10P3 3 fun q => { q with key := [0x10, 1], value := [1] }) = .ok false := by
  decide +kernel

/-- the one key change that IS accepted: an exclusion proof by an empty node may carry any key below that node —
the claim about the queried key (absent) is unchanged and right -/
theorem C10_reg_empty_node_key_free :
    C10mVerify C10m4 C10K1 (C10modQ C10P1 2 fun q => { q with key := [0x41] }) = .ok true ∧
    claim [0x40] ⟨[0x41], [], [0x03]⟩ = mget C10m4 [0x40] := by
  decide +kernel

/-- tampering class "bitmap" (fix "height bound" included): a flipped bit, a lengthened / shortened bitmap, a
leading zero byte, a bitmap longer than the key, an empty bitmap -/
theorem C10_reg_tamper_bitmap :
    C10mVerify C10m4 C10K1 (C10modQ C10P1 0 fun q => { q with bitmap := [0x80] }) = .err ∧
    C10mVerify C10m4 C10K1 (C10modQ C10P1 0 fun q => { q with bitmap := [0xC1] }) = .err ∧
    C10mVerify C10m4 C10K1 (C10modQ C10P1 1 fun q => { q with bitmap := [0x01] }) = .err ∧
    C10mVerify C10m4 C10K1 (C10modQ C10P1 1 fun q => { q with bitmap := [0x00, 0x03] }) = .ok false ∧
    C10mVerify C10m4 C10K1 (C10modQ C10P1 1 fun q => { q with bitmap := [0x01, 0x03] }) = .ok false ∧
    C10mVerify C10m4 C10K1 (C10modQ C10P1 2 fun q => { q with bitmap := [] }) = .err ∧
    C10mVerify C10m3 C10K3 (C10modQ C10P3 0 fun q => { q with bitmap := [0x13] }) ≠ .ok true ∧
    C10mVerify C10m3 C10K3 (C10modQ C10P3 2 fun q => { q with bitmap := [0x02] }) ≠ .ok true := by
  decide +kernel

/-- tampering class "sibling hashes" (fix "all sibling hashes used" included): a changed hash, swapped hashes, a
dropped hash, no hashes, an extra hash behind / in front, an empty hash -/
theorem C10_reg_tamper_siblings :
    C10mVerify C10m4 C10K1 { C10P1 with siblings := [[130, 85], [246, 94]] } = .ok false ∧
    C10mVerify C10m4 C10K1 { C10P1 with siblings := [[246, 93], [130, 85]] } = .ok false ∧
    C10mVerify C10m4 C10K1 { C10P1 with siblings := [[130, 85]] } = .err ∧
    C10mVerify C10m4 C10K1 { C10P1 with siblings := [] } = .err ∧
    C10mVerify C10m4 C10K1 { C10P1 with siblings := C10P1.siblings ++ [[1, 2]] } = .err ∧
    C10mVerify C10m4 C10K1 { C10P1 with siblings := [1, 2] :: C10P1.siblings } = .err ∧
    C10mVerify C10m4 C10K1 { C10P1 with siblings := [[], [246, 93]] } = .err ∧
    C10mVerify C10m4 C10K2 { C10P2 with siblings := [[1, 2]] } = .err ∧
    C10mVerify C10m3 C10K3 { C10P3 with siblings := [[1, 2]] } = .err := by
  decide +kernel

/-- tampering class "query list / parameters": fewer queries than keys, fewer keys than queries, keys in another
order than the queries, another root, another key length -/
theorem C10_reg_tamper_shape :
    C10mVerify C10m4 C10K1 { C10P1 with queries := C10P1.queries.take 2 } = .ok false ∧
    C10mVerify C10m4 (C10K1.take 2) C10P1 = .ok false ∧
    C10mVerify C10m4 [[0x01], [0x40], [0x81]] C10P1 = .ok false ∧
    verify C10toyH C10K1 C10P1 (C10toyH [1]) 1 = .ok false ∧
    verify C10toyH C10K1 C10P1 (mapRoot C10toyH 1 C10m4) 2 = .ok false ∧
    verify C10toyH C10K2 C10P2 (mapRoot C10toyH 1 C10m3) 1 = .ok false := by
  decide +kernel

/-- forgery class "position filter": a second claim at the position of a proven node (another value / an empty
node), a second query for a proven key with another value or bitmap (`seen` check), a claim whose zero-padded
path would collide with a proven position -/
theorem C10_reg_forge_position :
    C10mVerify C10m4 (C10K1 ++ [[0x82]]) { C10P1 with queries := C10P1.queries ++ [⟨[0x82], [5], [0x03]⟩] } = .ok false ∧
    C10mVerify C10m4 (C10K1 ++ [[0x82]]) { C10P1 with queries := C10P1.queries ++ [⟨[0x82], [], [0x03]⟩] } = .ok false ∧
    C10mVerify C10m4 (C10K1 ++ [[0x01]]) { C10P1 with queries := C10P1.queries ++ [⟨[0x01], [5], [0x81]⟩] } = .err ∧
    C10mVerify C10m4 (C10K1 ++ [[0x01]]) { C10P1 with queries := C10P1.queries ++ [⟨[0x01], [2, 2], [0x01]⟩] } = .err ∧
    C10mVerify C10m4 (C10K1 ++ [[0x03]]) { C10P1 with queries := C10P1.queries ++ [⟨[0x03], [9], [0x80]⟩] } ≠ .ok true := by
  decide +kernel

/-- forgery class "merge check": bogus deeper queries below a proven node that climb on junk sibling hashes (in
front / behind the honest ones), or on each other, towards the position of an honest query -/
theorem C10_reg_forge_merge :
    C10mVerify C10m4 (C10K1 ++ [[0x90]])
      { siblings := [9, 9] :: C10P1.siblings, queries := C10P1.queries ++ [⟨[0x90], [9, 9], [0x07]⟩] } ≠ .ok true ∧
    C10mVerify C10m4 (C10K1 ++ [[0x90]])
      { siblings := C10P1.siblings ++ [[9, 9]], queries := C10P1.queries ++ [⟨[0x90], [9, 9], [0x07]⟩] } ≠ .ok true ∧
    C10mVerify C10m4 (C10K1 ++ [[0x88], [0x80]])
      { siblings := C10P1.siblings,
        queries := C10P1.queries ++ [⟨[0x88], [9, 9], [0x1F]⟩, ⟨[0x80], [8], [0x1F]⟩] } ≠ .ok true ∧
    C10mVerify C10m3 (C10K3 ++ [[0x14]])
      { siblings := [[9, 9]], queries := C10P3.queries ++ [⟨[0x14], [9], [0x31]⟩] } ≠ .ok true := by
  decide +kernel

/-- `Verify` with no query at all is an error ("fail to compute root"), also for the proof `Prove` generates for
the empty key list: `C10_multi_complete_Statement` can only hold for non-empty key lists -/
theorem C10_reg_no_query_err :
    (C10mProve C10m4 []).siblings = [] ∧ (C10mProve C10m4 []).queries = [] ∧
    C10mVerify C10m4 [] (C10mProve C10m4 []) = .err := by
  decide +kernel

/-! ### non-vacuity of `C10_multi_sound`: all hypotheses hold for the honest 3-query and 4-query proofs -/

example : ∀ i (_ : i < C10K1.length) (_ : i < C10P1.queries.length),
    claim C10K1[i] C10P1.queries[i] = mget C10m4 C10K1[i] :=
  C10_multi_sound C10toyH 2 C10toyH_length 1 C10m4 C10m4_ok C10K1 C10P1
    (by unfold NoColl; decide +kernel) (by decide +kernel)

example : ∀ i (_ : i < C10K3.length) (_ : i < C10P3.queries.length),
    claim C10K3[i] C10P3.queries[i] = mget C10m3 C10K3[i] :=
  C10_multi_sound C10toyH 2 C10toyH_length 1 C10m3 C10m3_ok C10K3 C10P3
    (by unfold NoColl; decide +kernel) (by decide +kernel)

-- and `C10_multi_no_false_claim` on a forged value (the tampered proof has no collision with the tree either)
example : C10mVerify C10m4 C10K1 (C10modQ C10P1 0 fun q => { q with value := [9, 9] }) ≠ .ok true :=
  C10_multi_no_false_claim C10toyH 2 C10toyH_length 1 C10m4 C10m4_ok C10K1 _
    (by unfold NoColl; decide +kernel) 0 (by decide) (by decide +kernel) (by decide +kernel)

/-! ### non-vacuity of `C10_multi_complete`: the hypotheses hold for the toy hash and the example maps -/

example : ∃ proof, prove C10toyH 1 (buildH C10toyH 8 (entriesOf C10m4)) C10K1 = some proof ∧
    verify C10toyH C10K1 proof (mapRoot C10toyH 1 C10m4) 1 = .ok true ∧
    ∀ i (_ : i < C10K1.length) (_ : i < proof.queries.length), claim C10K1[i] proof.queries[i] = mget C10m4 C10K1[i] :=
  C10_multi_complete C10toyH 2 C10toyH_length (by decide) 1 C10m4 C10m4_ok (by unfold NoColl; decide +kernel)
    C10K1 (by decide) (by decide)

example : ∃ proof, prove C10toyH 1 (buildH C10toyH 8 (entriesOf C10m3)) C10K3 = some proof ∧
    verify C10toyH C10K3 proof (mapRoot C10toyH 1 C10m3) 1 = .ok true ∧
    ∀ i (_ : i < C10K3.length) (_ : i < proof.queries.length), claim C10K3[i] proof.queries[i] = mget C10m3 C10K3[i] :=
  C10_multi_complete C10toyH 2 C10toyH_length (by decide) 1 C10m3 C10m3_ok (by unfold NoColl; decide +kernel)
    C10K3 (by decide) (by decide)
