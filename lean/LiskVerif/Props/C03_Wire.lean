/-
C03 — the configuration values the validity rules use reach the components that enforce them (tie A, table
described in Props/C13_Wire.lean): block time → slot arithmetic, chain id → signature domain, payload limit.
-/
import LiskVerif.Lemmas.Wire

open LiskVerif LiskVerif.Wire

theorem C03_wire_block_time_path :
    wired "Engine.init" "consensus.ExecuterConfig" "BlockTime" "e.config.Genesis.BlockTime" = true ∧
    wired "NewExecuter" "Executer" "blockTime" "config.BlockTime" = true ∧
    wired "Executer.Init" "recv" "blockSlot"
      "validator.NewBlockSlot(param.GenesisBlock.Header.Timestamp, c.blockTime)" = true := by decide +kernel

/-- `blockTime > 0` (assumption of the slot rules) holds for the default -/
theorem C03_wire_default_block_time_positive :
    positiveDefault "GenesisConfig.InsertDefault" "BlockTime" "0" = true := by decide +kernel

theorem C03_wire_chain_id_and_payload_limit :
    wired "Engine.init" "blockchain.ChainConfig" "ChainID" "e.config.Genesis.ChainID" = true ∧
    wired "Engine.init" "blockchain.ChainConfig" "MaxTransactionsLength" "e.config.Genesis.MaxTransactionsSize" = true ∧
    wired "NewChain" "Chain" "chainID" "cfg.ChainID" = true ∧
    wired "NewChain" "Chain" "maxTransactionsLength" "cfg.MaxTransactionsLength" = true ∧
    positiveDefault "GenesisConfig.InsertDefault" "MaxTransactionsSize" "0" = true := by decide +kernel

/-- consensus, generator, pool and the endpoints work on the same chain object -/
theorem C03_wire_one_chain :
    wired "Engine.init" "consensus.ExecuterConfig" "Chain" "e.chain" = true ∧
    wired "Engine.init" "generator.GeneratorParams" "Chain" "e.chain" = true ∧
    wired "Engine.init" "generator.GeneratorParams" "Consensus" "e.consensusExec" = true ∧
    wired "NewExecuter" "Executer" "chain" "config.Chain" = true ∧
    (argsOf "Engine.Start" "e.transactionPool.Init").map (fun a => a.drop 2) =
      some ["blockchainDB", "e.chain", "e.p2pConn", "e.abi"] := by decide +kernel

/-- the syncer applies and deletes blocks through the executer's own validated path -/
theorem C03_wire_syncer_uses_validated_path :
    wired "Executer.Init" "recv" "syncer"
      "sync.NewSyncer(c.chain, c.blockSlot, c.conn, c.logger.With(\"module\", \"syncer\"), c.processValidated, c.deleteBlock)" = true := by
  decide +kernel
