/-
C08 — tie of the hand-written codec model to the Go source: `codec.varintShortestSize`
(pkg/codec/reader.go) and `codec.readKey` (pkg/codec/key.go) are REGENERATED from the Go source on
every run by tools/fngen (`LiskVerif/Gen/Fns.lean`); the theorems below state that the regenerated
definitions are the functions used by `Model/Codec.lean`. If the Go source changes, either the
translator fails or these theorems stop compiling.
-/
import LiskVerif.Model.Codec
import LiskVerif.Gen.Fns

open LiskVerif

/-- The regenerated `varintShortestSize` (an expression-less `switch` over `data < 1<<(7·k)`) is the
model's `Codec.varintShortestSize` (a chain of `n < 2^(7k)` tests), for every natural number. -/
theorem C08_gen_varintShortestSize_eq : ∀ n, Gen.varintShortestSize n = Codec.varintShortestSize n := by
  intro n
  unfold Gen.varintShortestSize Codec.varintShortestSize
  simp only [Nat.shiftLeft_eq, Nat.one_mul, decide_eq_true_eq]

/-- The regenerated `readKey` (`val & 7`, `val >> 3`; Go `int` read as a natural number) agrees with
the model's `Codec.readKey` (`key % 8`, `key / 8`): same wire type / field number, and an error in
exactly the same cases (`ErrInvalidData` ↦ `Err.invalidData`). -/
theorem C08_gen_readKey_eq (k : Nat) :
    (match Gen.readKey k with
      | .ok r => Except.ok r
      | .error _ => Except.error Codec.Err.invalidData) = Codec.readKey k := by
  unfold Gen.readKey Codec.readKey
  have h7 : k &&& 7 = k % 8 := Nat.and_two_pow_sub_one_eq_mod k 3
  have h3 : k >>> 3 = k / 8 := Nat.shiftRight_eq_div_pow k 3
  simp only [h7, h3]
  by_cases h0 : k % 8 = 0
  · simp [h0]
  · by_cases h2 : k % 8 = 2
    · simp [h2]
    · simp [h0, h2]

/-- the only error the regenerated `readKey` reports is `ErrInvalidData` -/
theorem C08_gen_readKey_error (k : Nat) (e : String) (h : Gen.readKey k = .error e) : e = "ErrInvalidData" := by
  unfold Gen.readKey at h
  simp only at h
  split at h
  · injection h with h; exact h.symm
  · cases h

/-! ### non-vacuity -/

example : (List.map Gen.varintShortestSize [0, 127, 128, 16383, 16384, 2 ^ 56 - 1, 2 ^ 56, 2 ^ 63 - 1, 2 ^ 63, 2 ^ 64 - 1]) =
    [1, 1, 2, 2, 3, 8, 9, 9, 10, 10] := by decide +kernel

example : Gen.readKey 10 = .ok (1, 2) ∧ Gen.readKey 8 = .ok (1, 0) ∧ Gen.readKey 11 = .error "ErrInvalidData" :=
  ⟨rfl, rfl, rfl⟩

example : Codec.readKey 10 = .ok (1, 2) := by
  rw [← C08_gen_readKey_eq]; rfl
