/-
C14 — gap closing.  Additional theorems about `LiskVerif.Model.TxPool` (the model is unchanged); helper
lemmas in `Lemmas/TxPoolMore.lean`.  Everything quantifies over all configurations with limits ≥ 1 and
ALL histories `ops` (adds with any verifier answer / publish answer / tie-break, removes, promotion rounds
with any verifier function, block applied / reverted) from the empty pool.

1. Replacement rule.  `C14_replace_rule_uint64`: the fixed Go test (`in < ex || in - ex < d` on uint64) is,
   for all values below 2^64, the model's overflow-free test `in < ex + d`; `C14_replace_list_iff` /
   `C14_replacement_iff`: a transaction for an occupied (sender, nonce) slot gets in IFF it pays the old fee
   plus the configured difference — or the pool was full and the capacity eviction removed the old one;
   `C14_lower_fee_never_replaces`; `C14_replace_guard_needed`: without the `in < ex` guard the uint64
   subtraction wraps and a LOWER fee is accepted; `C14_replace_orig_wraps`: the unpatched test wraps.
2. Per-sender limit.  `C14_sender_count_bounded` on `allTransactions` itself, for every history — in
   particular (`C14_limit_after_external_removal`) when the highest nonce was removed from outside the list
   before further adds; `C14_sender_limit_exact`: at the limit the decision reads the CURRENT highest
   pooled nonce of the sender.
3. Promotion.  `C14_reorg_exact`: the sender lists after one `reorg` tick as an explicit function
   (`reorgSpec`) of each list and the verifier answers; `C14_asked_run`, `C14_promotable_run_maximal`: the
   promotable run is the maximal gap-free continuation of the processable set; `C14_reorg_asked_fate`: every asked transaction is
   processable afterwards or gone, every other one stays unprocessable; `C14_lock_walk_fuel_irrelevant`.
4. Eviction.  `C14_eviction_exact`, `C14_unprocessables_exact`, `C14_eviction_priority`,
   `C14_evicted_may_outrank_incoming`, `C14_rejected_add_may_evict`.
5. Known finding as an iff: `C14_pending_promoted_iff`, `C14_first_promotable_iff`.
-/
import LiskVerif.Lemmas.TxPoolMore

open LiskVerif LiskVerif.TxPool

/-! ## 1. replacement rule -/

/-- Go's `a - b` on uint64 -/
def C14_u64sub (a b : Nat) : Nat := (a + 2 ^ 64 - b) % 2 ^ 64

/-- the fixed test of txlist.go `Add`: `incoming.Fee < existing.Fee || incoming.Fee-existing.Fee < minDiff` -/
def C14_goReplaceRejects (inc ex d : Nat) : Bool := decide (inc < ex) || decide (C14_u64sub inc ex < d)

/-- the same test with the `incoming.Fee < existing.Fee` guard removed -/
def C14_unguardedReplaceRejects (inc ex d : Nat) : Bool := decide (C14_u64sub inc ex < d)

/-- the unpatched test `incoming.Fee < existing.Fee + minDiff` on uint64 -/
def C14_origReplaceRejects (inc ex d : Nat) : Bool := decide (inc < (ex + d) % 2 ^ 64)

/-- For all uint64 values — including fees next to 2^64 — the fixed Go test is the model's test. -/
theorem C14_replace_rule_uint64 (inc ex d : Nat) (hi : inc < 2 ^ 64) (he : ex < 2 ^ 64) (_hd : d < 2 ^ 64) :
    C14_goReplaceRejects inc ex d = true ↔ inc < ex + d := by
  unfold C14_goReplaceRejects C14_u64sub
  simp only [Bool.or_eq_true, decide_eq_true_eq]
  omega

/-- The sender-list decision on an occupied nonce, exactly: accepted iff `old.fee + minFeeDiff ≤ tx.fee`;
then the old transaction is the one dropped, otherwise the list is unchanged. -/
theorem C14_replace_list_iff (cfg : Cfg) (a : Acct) (tx old : Tx) (hg : a.get tx.nonce = some old) :
    ((a.add cfg tx).2.1 = true ↔ old.fee + cfg.minFeeDiff ≤ tx.fee) ∧
    ((a.add cfg tx).2.1 = true → (a.add cfg tx).2.2 = some old) ∧
    ((a.add cfg tx).2.1 = false → a.add cfg tx = (a, false, none)) := by
  obtain ⟨hrej, hacc⟩ := acct_add_occupied cfg a tx old hg
  by_cases hfee : old.fee + cfg.minFeeDiff ≤ tx.fee
  · rw [hacc hfee]; simp [hfee]
  · rw [hrej (by omega)]; simp [hfee]

/-- The model decides a replacement as the fixed uint64 code does, for every fee below 2^64. -/
theorem C14_replace_model_matches_go (cfg : Cfg) (a : Acct) (tx old : Tx) (hg : a.get tx.nonce = some old)
    (hi : tx.fee < 2 ^ 64) (he : old.fee < 2 ^ 64) (hd : cfg.minFeeDiff < 2 ^ 64) :
    (a.add cfg tx).2.1 = !C14_goReplaceRejects tx.fee old.fee cfg.minFeeDiff := by
  have h1 := (C14_replace_list_iff cfg a tx old hg).1
  have h2 := C14_replace_rule_uint64 tx.fee old.fee cfg.minFeeDiff hi he hd
  cases hb : (a.add cfg tx).2.1 <;> cases hc : C14_goReplaceRejects tx.fee old.fee cfg.minFeeDiff <;>
    simp_all <;> omega

/-- Without the `incoming < existing` guard the subtraction wraps: a strictly lower fee is accepted unless
the configured difference exceeds `2^64 - (existing - incoming)`. -/
theorem C14_replace_guard_needed (inc ex d : Nat) (_hi : inc < 2 ^ 64) (he : ex < 2 ^ 64) (hlt : inc < ex) :
    (C14_unguardedReplaceRejects inc ex d = false ↔ d + (ex - inc) ≤ 2 ^ 64) ∧
    C14_goReplaceRejects inc ex d = true := by
  unfold C14_unguardedReplaceRejects C14_goReplaceRejects C14_u64sub
  simp only [decide_eq_false_iff_not, Bool.or_eq_true, decide_eq_true_eq]
  omega

/-- The unpatched test wraps: fee 100 replaces fee 2^64-1 (minimum difference 10). -/
theorem C14_replace_orig_wraps :
    C14_origReplaceRejects 100 (2 ^ 64 - 1) 10 = false ∧ C14_goReplaceRejects 100 (2 ^ 64 - 1) 10 = true ∧
    C14_unguardedReplaceRejects 100 200 10 = false ∧ C14_goReplaceRejects 100 200 10 = true := by
  decide

/-- Replacement at the pool, after any history, as an iff (no room hypothesis): a transaction that passes
the admission guards and whose (sender, nonce) slot is held by `old` gets into the pool iff it pays
`old.fee + minFeeDiff`, or the pool was full and the capacity eviction picked `old` itself. -/
theorem C14_replacement_iff (cfg : Cfg) (hmax : 1 ≤ cfg.maxTx) (hper : 1 ≤ cfg.maxPerAcct) (ops : List Op)
    (tx old : Tx) (v : Verdict) (pubOk : Bool) (tie : Nat) :
    let p := run cfg ops
    old ∈ p.all → old.sender = tx.sender → old.nonce = tx.nonce →
    (∀ t ∈ p.all, t.id ≠ tx.id) → cfg.minEntrance ≤ tx.prio →
    (isFull cfg p && tooCheap p.heap tx) = false → v ≠ Verdict.invalid →
    (tx ∈ (add cfg p tx v pubOk tie).1.all ↔
      (old.fee + cfg.minFeeDiff ≤ tx.fee ∨ (isFull cfg p = true ∧ pickMin (evictCands p) tie = some old))) := by
  intro p hold hs hn hid hent hcheap hv
  exact add_occupied_iff hmax hper (run_inv hmax hper ops) tx old v pubOk tie hold hs hn hid hent hcheap hv

/-- A lower fee never replaces — nor an equal one or a too small increase: whatever the verifier, publish
and tie-break answers, if `tx.fee < old.fee + minFeeDiff` the new transaction stays out and the old one stays
in, unless `old` was the victim of the capacity eviction of a full pool. -/
theorem C14_lower_fee_never_replaces (cfg : Cfg) (hmax : 1 ≤ cfg.maxTx) (hper : 1 ≤ cfg.maxPerAcct)
    (ops : List Op) (tx old : Tx) (v : Verdict) (pubOk : Bool) (tie : Nat) :
    let p := run cfg ops
    old ∈ p.all → old.sender = tx.sender → old.nonce = tx.nonce → old.id ≠ tx.id →
    tx.fee < old.fee + cfg.minFeeDiff →
    ¬ (isFull cfg p = true ∧ pickMin (evictCands p) tie = some old) →
    tx ∉ (add cfg p tx v pubOk tie).1.all ∧ old ∈ (add cfg p tx v pubOk tie).1.all := by
  intro p hold hs hn hne hfee hvict
  exact add_occupied_rejected hmax hper (run_inv hmax hper ops) tx old v pubOk tie hold hs hn hne hfee hvict

/-! ## 2. per-sender limit -/

/-- After ANY history every sender has at most `maxPerAcct` transactions in `allTransactions` (counted on
the pool index itself, not on the sender list). -/
theorem C14_sender_count_bounded (cfg : Cfg) (hmax : 1 ≤ cfg.maxTx) (hper : 1 ≤ cfg.maxPerAcct) (ops : List Op)
    (s : Nat) : ((run cfg ops).all.filter (fun t => t.sender == s)).length ≤ cfg.maxPerAcct :=
  sender_count_le (run_inv hmax hper ops) s

/-- The same, spelled out for the histories of the seeded change C14-4: any history, then a removal from
outside the sender list (`Remove`, block applied, a promotion round dropping an invalid suffix, a capacity
eviction inside an `add`), then any further operations. -/
theorem C14_limit_after_external_removal (cfg : Cfg) (hmax : 1 ≤ cfg.maxTx) (hper : 1 ≤ cfg.maxPerAcct)
    (before after : List Op) (ext : Op) (s : Nat) :
    ((run cfg (before ++ ext :: after)).all.filter (fun t => t.sender == s)).length ≤ cfg.maxPerAcct ∧
    ∀ e ∈ (run cfg (before ++ ext :: after)).accts, e.2.txs.length ≤ cfg.maxPerAcct :=
  ⟨C14_sender_count_bounded cfg hmax hper _ s, fun e he => ((run_inv hmax hper _).acctOk e he).bound⟩

/-- At the limit the decision reads the current pool: a transaction with a new nonce for a sender that has
`maxPerAcct` pooled transactions (pool not full) is compared with `top`, the pooled transaction of that
sender with the highest nonce *now*; above it the pool is unchanged, below it `top` is dropped from
`allTransactions` and the new one inserted. -/
theorem C14_sender_limit_exact (cfg : Cfg) (hmax : 1 ≤ cfg.maxTx) (hper : 1 ≤ cfg.maxPerAcct) (ops : List Op)
    (tx : Tx) (v : Verdict) (pubOk : Bool) (tie : Nat) :
    let p := run cfg ops
    (∀ t ∈ p.all, t.id ≠ tx.id) → cfg.minEntrance ≤ tx.prio → v ≠ Verdict.invalid →
    p.all.length < cfg.maxTx →
    (∀ x ∈ p.all, x.sender = tx.sender → x.nonce ≠ tx.nonce) →
    (p.all.filter (fun t => t.sender == tx.sender)).length = cfg.maxPerAcct →
    ∃ top ∈ p.all, top.sender = tx.sender ∧ (∀ x ∈ p.all, x.sender = tx.sender → x.nonce ≤ top.nonce) ∧
      (top.nonce < tx.nonce → (add cfg p tx v pubOk tie).1.all = p.all) ∧
      (tx.nonce < top.nonce →
        (add cfg p tx v pubOk tie).1.all = tx :: p.all.filter (fun x => x.id != top.id)) := by
  intro p hid hent hv hroom hslot hcnt
  have h : C14Inv cfg p := run_inv hmax hper ops
  have hfull : isFull cfg p = false := by simp [isFull]; omega
  have hcheap : (isFull cfg p && tooCheap p.heap tx) = false := by rw [hfull]; rfl
  rw [add_admitted pubOk tie hid hent hcheap hv, hfull]
  simp only [Bool.false_eq_true, if_false]
  have hlen := (sender_filter_perm h tx.sender).length_eq
  rw [hcnt] at hlen
  cases ha : findAcct p.accts tx.sender with
  | none => rw [ha] at hlen; simp at hlen; omega
  | some a =>
    rw [ha] at hlen
    simp only [Option.getD_some] at hlen
    have hmem := findAcct_some ha
    have hf := acct_facts h tx.sender
    rw [ha] at hf
    simp only [Option.getD_some] at hf
    obtain ⟨top, htop, htopn, hrej, hacc⟩ := addCore_limit h tx pubOk a ha hslot hlen.symm
    refine ⟨top, hf.inAll top htop, hf.sender top htop, ?_, hrej, hacc⟩
    intro x hx hxs
    rw [htopn]
    exact maxNonce_ge a x (hf.owns x hx hxs)

/-- Below the limit (and with a free slot, pool not full) the transaction is simply inserted. -/
theorem C14_below_limit_exact (cfg : Cfg) (hmax : 1 ≤ cfg.maxTx) (hper : 1 ≤ cfg.maxPerAcct) (ops : List Op)
    (tx : Tx) (v : Verdict) (pubOk : Bool) (tie : Nat) :
    let p := run cfg ops
    (∀ t ∈ p.all, t.id ≠ tx.id) → cfg.minEntrance ≤ tx.prio → v ≠ Verdict.invalid →
    p.all.length < cfg.maxTx →
    (∀ x ∈ p.all, x.sender = tx.sender → x.nonce ≠ tx.nonce) →
    (p.all.filter (fun t => t.sender == tx.sender)).length < cfg.maxPerAcct →
    (add cfg p tx v pubOk tie).1.all = tx :: p.all := by
  intro p hid hent hv hroom hslot hcnt
  have h : C14Inv cfg p := run_inv hmax hper ops
  have hfull : isFull cfg p = false := by simp [isFull]; omega
  have hcheap : (isFull cfg p && tooCheap p.heap tx) = false := by rw [hfull]; rfl
  rw [add_admitted pubOk tie hid hent hcheap hv, hfull]
  simp only [Bool.false_eq_true, if_false]
  apply addCore_free h tx pubOk hslot _ hper
  intro a ha
  have hlen := (sender_filter_perm h tx.sender).length_eq
  rw [ha] at hlen
  simp only [Option.getD_some] at hlen
  omega

/-! ## 3. promotion round, exact; fuel -/

/-- One `reorg` tick after any history, exactly: the list of every sender `s` becomes
`reorgSpec v` of the old list — unchanged if it has nothing promotable; otherwise its processable set is the
longest prefix of `asked = processable nonces ++ promotable run` whose transactions the verifier does not
answer `invalid`, and the asked transactions from the first `invalid` one on are removed (the list is
unregistered when it gets empty).  Lists are transformed independently of each other. -/
theorem C14_reorg_exact (cfg : Cfg) (hmax : 1 ≤ cfg.maxTx) (hper : 1 ≤ cfg.maxPerAcct) (ops : List Op)
    (v : Nat → Verdict) (s : Nat) :
    findAcct (reorg v (run cfg ops)).accts s = (findAcct (run cfg ops).accts s).bind (reorgSpec v) :=
  reorg_exact (run_inv hmax hper ops) v s

/-- The promotable run is maximal and gap-free: it starts right after the highest processable nonce and is an
interval of nonces all present in the list (so `asked` is strictly ascending). -/
theorem C14_asked_run (cfg : Cfg) (hmax : 1 ≤ cfg.maxTx) (hper : 1 ≤ cfg.maxPerAcct) (ops : List Op) :
    ∀ e ∈ (run cfg ops).accts,
      e.2.asked.Pairwise (· < ·) ∧ e.2.askedTxs.map (·.nonce) = e.2.asked ∧
      ∃ first m, e.2.promotableNonces = List.range' first m ∧
        ∀ hi, e.2.proc.getLast? = some hi → first = hi + 1 := by
  intro e he
  have hai := (run_inv hmax hper ops).acctOk e he
  obtain ⟨first, m, hr, hfirst, _⟩ := promotableNonces_spec e.2
  exact ⟨asked_pairwise hai, askedTxs_map_nonce hai, first, m, hr, hfirst⟩

/-- The promotable run is the MAXIMAL gap-free continuation of the processable set: when non-empty it is
`first, …, first+m` with `first` right after the highest processable nonce, every nonce of it is in the list,
and the list has no entry at `first+m+1` (it stops only at a gap). -/
theorem C14_promotable_run_maximal (cfg : Cfg) (hmax : 1 ≤ cfg.maxTx) (hper : 1 ≤ cfg.maxPerAcct) (ops : List Op) :
    ∀ e ∈ (run cfg ops).accts, e.2.promotableNonces ≠ [] →
      ∃ first m, e.2.promotableNonces = List.range' first (m + 1) ∧
        (∀ hi, e.2.proc.getLast? = some hi → first = hi + 1) ∧
        (∀ n ∈ e.2.promotableNonces, ∃ t ∈ e.2.txs, t.nonce = n) ∧
        ∀ t ∈ e.2.txs, t.nonce ≠ first + m + 1 := by
  intro e he hne
  have hai := (run_inv hmax hper ops).acctOk e he
  obtain ⟨first, m, hr, hfirst, hmaxm⟩ := promotable_maximal hai hne
  obtain ⟨_, _, _, _, hin⟩ := promotableNonces_spec e.2
  exact ⟨first, m, hr, hfirst, hin, hmaxm⟩

/-- Fate of every transaction of a list with something to promote, after the round: an asked transaction is
processable afterwards or has left the pool — it is processable iff no asked transaction up to and including
it was answered `invalid`; a transaction that was not asked stays pooled and unprocessable. -/
theorem C14_reorg_asked_fate (cfg : Cfg) (hmax : 1 ≤ cfg.maxTx) (hper : 1 ≤ cfg.maxPerAcct) (ops : List Op)
    (v : Nat → Verdict) (s : Nat) (a : Acct) (t : Tx) :
    let p := run cfg ops
    findAcct p.accts s = some a → a.promotableNonces ≠ [] → t ∈ a.txs →
    (t ∈ a.askedTxs →
      (t ∈ (reorg v p).all ↔ isProc (reorg v p) t) ∧
      (isProc (reorg v p) t ↔ ∀ u ∈ a.askedTxs, u.nonce ≤ t.nonce → v u.id ≠ Verdict.invalid)) ∧
    (t ∉ a.askedTxs → t ∈ (reorg v p).all ∧ ¬ isProc (reorg v p) t) := by
  intro p ha hprom hta
  have h : C14Inv cfg p := run_inv hmax hper ops
  have h' : C14Inv cfg (reorg v p) := reorg_inv h v
  have hmem := findAcct_some ha
  have hai : AcctInv cfg s a := h.acctOk _ hmem
  have hts : t.sender = s := hai.sender t hta
  have hasked := askedTxs_map_nonce hai
  have hnemp : a.promotableNonces.isEmpty = false := by
    cases hh : a.promotableNonces with
    | nil => exact absurd hh hprom
    | cons _ _ => rfl
  have hex := reorg_exact h v s
  rw [ha] at hex
  simp only [Option.bind_some] at hex
  unfold reorgSpec at hex
  rw [hnemp] at hex
  simp only [Bool.false_eq_true, if_false] at hex
  -- membership of `t` in the pool afterwards
  have hin : t ∈ (reorg v p).all ↔ t.nonce ∉ a.asked.drop (acceptedLen v a) := by
    constructor
    · intro htall
      obtain ⟨a', ha', hta'⟩ := h'.allInAcct t htall
      have := findAcct_of_mem h'.acctsNodup ha'
      rw [hts, hex] at this
      split at this
      · cases this
      · cases this
        have := (List.mem_filter.1 hta').2
        simpa using this
    · intro hnd
      have hmemf : t ∈ a.txs.filter (fun x => !(a.asked.drop (acceptedLen v a)).contains x.nonce) :=
        List.mem_filter.2 ⟨hta, by simpa using hnd⟩
      have hne : (a.txs.filter (fun x => !(a.asked.drop (acceptedLen v a)).contains x.nonce)).isEmpty = false := by
        cases hh : a.txs.filter (fun x => !(a.asked.drop (acceptedLen v a)).contains x.nonce) with
        | nil => rw [hh] at hmemf; cases hmemf
        | cons _ _ => rfl
      rw [hne] at hex
      simp only [Bool.false_eq_true, if_false] at hex
      exact h'.acctInAll _ (findAcct_some hex) t hmemf
  have hproc : isProc (reorg v p) t → t.nonce ∈ a.asked.take (acceptedLen v a) := by
    intro hp
    obtain ⟨a', ha', _, hn'⟩ := (isProc_iff_findAcct h' t).1 hp
    rw [hts, hex] at ha'
    split at ha'
    · cases ha'
    · cases ha'; exact hn'
  have hnonce : t ∈ a.askedTxs ↔ t.nonce ∈ a.asked := by
    rw [← hasked]
    constructor
    · intro hm; exact List.mem_map.2 ⟨t, hm, rfl⟩
    · intro hm
      obtain ⟨u, hu, hun⟩ := List.mem_map.1 hm
      rw [← inj_of_nodup_map _ _ hai.nodup u (askedTxs_subset hu) t hta hun]; exact hu
  constructor
  · intro htask
    have hiff := reorg_isProc_iff h v ha hprom htask
    refine ⟨⟨?_, ?_⟩, hiff⟩
    · intro htall
      -- pooled and asked, hence in the accepted prefix
      have hnd := hin.1 htall
      have hsplit : t.nonce ∈ a.asked.take (acceptedLen v a) ++ a.asked.drop (acceptedLen v a) := by
        rw [List.take_append_drop]; exact hnonce.1 htask
      have htake : t.nonce ∈ a.asked.take (acceptedLen v a) := by
        rcases List.mem_append.1 hsplit with h1 | h1
        · exact h1
        · exact absurd h1 hnd
      have htakeTx : t ∈ a.askedTxs.take (acceptedLen v a) := by
        have : t.nonce ∈ (a.askedTxs.take (acceptedLen v a)).map (·.nonce) := by
          rw [List.map_take, hasked]; exact htake
        obtain ⟨u, hu, hun⟩ := List.mem_map.1 this
        rw [← inj_of_nodup_map _ _ hai.nodup u (askedTxs_subset (List.mem_of_mem_take hu)) t hta hun]; exact hu
      have htw : a.askedTxs.takeWhile (fun t => v t.id != Verdict.invalid) = a.askedTxs.take (acceptedLen v a) :=
        List.prefix_iff_eq_take.1 (List.takeWhile_prefix _)
      rw [← htw] at htakeTx
      apply hiff.2
      have := (mem_takeWhile_of_ascending (fun x : Tx => x.nonce) _ a.askedTxs
        (by rw [hasked]; exact asked_pairwise hai) t htask).1 htakeTx
      intro u hu hle
      simpa using this u hu hle
    · intro hp
      obtain ⟨a', ha', hta', _⟩ := hp
      exact h'.acctInAll _ ha' t hta'
  · intro hnask
    have hn : t.nonce ∉ a.asked := fun hh => hnask (hnonce.2 hh)
    refine ⟨hin.2 (fun hh => hn (List.mem_of_mem_drop hh)), ?_⟩
    intro hp
    exact hn (List.mem_of_mem_take (hproc hp))

/-- The fuel of the lock walk (`C14_no_reentrant_lock` uses 8) is irrelevant: the call depth of the fixed
table is below 8, so every larger fuel gives the same walk — no path is cut off. -/
theorem C14_lock_walk_fuel_irrelevant (n : Nat) (hn : 8 ≤ n) (f : Fn) (w : Walk) :
    walk fixedTable n f w = walk fixedTable 8 f w := by
  induction n with
  | zero => omega
  | succ m ih =>
    by_cases hm : 8 ≤ m
    · rw [← walk_fuel fixedTable fixedTable_rankOk m f (by have := fnRank_le f; omega) w]
      exact ih hm
    · have : m = 7 := by omega
      subst this; rfl

/-- Hence the lock check passes with every fuel ≥ 8. -/
theorem C14_lock_check_any_fuel (n : Nat) (hn : 8 ≤ n) :
    (allFns.all fun f => let w := walk fixedTable n f {}; w.ok && w.held.isEmpty && w.pending.isEmpty) = true := by
  have : (allFns.all fun f => let w := walk fixedTable n f {}; w.ok && w.held.isEmpty && w.pending.isEmpty)
      = lockCheck fixedTable := by
    unfold lockCheck
    congr 1
    funext f
    rw [C14_lock_walk_fuel_irrelevant n hn f {}]
  rw [this]
  decide

/-! ## 4. eviction policy -/

/-- The capacity eviction of an `add` into a full pool, exactly.  The victim is `pickMin (evictCands p) tie`:
(a) if some list has an "unprocessable" entry (`GetUnprocessables`), the victim is one of those with minimal
fee priority; (b) otherwise it is the last processable transaction — the one with the highest processable
nonce — of some sender, minimal in fee priority among these; `tie` selects among equal priorities.  The victim
is gone from all three indexes afterwards, and for a sender without pooled transactions the result is the old
pool minus the victim plus the new transaction (the pool stays full, the call returns). -/
theorem C14_eviction_exact (cfg : Cfg) (hmax : 1 ≤ cfg.maxTx) (hper : 1 ≤ cfg.maxPerAcct) (ops : List Op)
    (tx : Tx) (v : Verdict) (pubOk : Bool) (tie : Nat) :
    let p := run cfg ops
    let p' := (add cfg p tx v pubOk tie).1
    (∀ t ∈ p.all, t.id ≠ tx.id) → cfg.minEntrance ≤ tx.prio → v ≠ Verdict.invalid →
    isFull cfg p = true → tooCheap p.heap tx = false →
    ∃ victim, pickMin (evictCands p) tie = some victim ∧ victim ∈ p.all ∧
      (minCands (evictCands p))[tie % (minCands (evictCands p)).length]? = some victim ∧
      (unprocCands p ≠ [] → victim ∈ unprocCands p ∧ ∀ u ∈ unprocCands p, victim.prio ≤ u.prio) ∧
      (unprocCands p = [] →
        (∃ e ∈ p.accts, e.2.processables.getLast? = some victim ∧ ∀ n ∈ e.2.proc, n ≤ victim.nonce) ∧
        ∀ u ∈ procCands p, victim.prio ≤ u.prio) ∧
      (victim ∉ p'.all ∧ victim ∉ p'.heap ∧ ∀ e ∈ p'.accts, victim ∉ e.2.txs) ∧
      (∀ x ∈ p'.all, x = tx ∨ (x ∈ p.all ∧ x ≠ victim)) ∧
      ((∀ x ∈ p.all, x.sender ≠ tx.sender) → p'.all = tx :: p.all.filter (fun x => x.id != victim.id)) := by
  intro p p' hid hent hv hfull hcheap
  have h : C14Inv cfg p := run_inv hmax hper ops
  have h' : C14Inv cfg p' := add_inv hmax hper h tx v pubOk tie
  have hlen : cfg.maxTx ≤ p.all.length := by simpa [isFull] using hfull
  have hne : p.all ≠ [] := by intro h0; rw [h0] at hlen; simp at hlen; omega
  obtain ⟨t, hpick, htall, hev, hevall, _⟩ := evict_spec h hne tie
  obtain ⟨_, hmin, hidx⟩ := pickMin_spec hpick
  have hcheap' : (isFull cfg p && tooCheap p.heap tx) = false := by rw [hcheap]; simp
  have hp' : p' = (addCore cfg (evict p tie) tx pubOk).1 := by
    show (add cfg p tx v pubOk tie).1 = _
    rw [add_admitted pubOk tie hid hent hcheap' hv, if_pos hfull]
  have hsub : ∀ x ∈ p'.all, x = tx ∨ (x ∈ p.all ∧ x ≠ t) := by
    intro x hx
    rw [hp'] at hx
    rcases addCore_all_subset cfg _ tx pubOk x hx with rfl | hx
    · exact Or.inl rfl
    · right
      rw [hevall] at hx
      obtain ⟨hxall, hxid⟩ := List.mem_filter.1 hx
      exact ⟨hxall, fun hxt => by subst hxt; simp at hxid⟩
  have hgone : t ∉ p'.all := by
    intro ht
    rcases hsub t ht with rfl | ⟨_, hh⟩
    · exact hid _ htall rfl
    · exact hh rfl
  refine ⟨t, hpick, htall, hidx, ?_, ?_, ⟨hgone, fun hh => hgone (h'.heapPerm.mem_iff.1 hh),
    fun e he hh => hgone (h'.acctInAll e he t hh)⟩, hsub, ?_⟩
  · intro hu
    have hec : evictCands p = unprocCands p := by
      unfold evictCands
      have : (unprocCands p).isEmpty = false := by
        cases hh : unprocCands p with
        | nil => exact absurd hh hu
        | cons _ _ => rfl
      rw [this]; rfl
    rw [hec] at hpick hmin
    exact ⟨pickMin_mem hpick, hmin⟩
  · intro hu
    have hec : evictCands p = procCands p := by
      unfold evictCands; rw [hu]; rfl
    rw [hec] at hpick hmin
    refine ⟨?_, hmin⟩
    have := pickMin_mem hpick
    unfold procCands at this
    obtain ⟨e, he, hl⟩ := List.mem_filterMap.1 this
    exact ⟨e, he, hl, (processables_getLast (h.acctOk e he) hl).2.2⟩
  · intro hfresh
    rw [hp']
    rw [addCore_free (evict_inv h tie) tx pubOk ?_ ?_ hper, hevall]
    · intro x hx hxs
      exact absurd hxs (hfresh x (evict_all_subset p tie x hx))
    · intro a ha
      have hmem := findAcct_some ha
      have hai := (evict_inv h tie).acctOk _ hmem
      obtain ⟨x, hx⟩ := List.exists_mem_of_ne_nil _ hai.nonempty
      have hxall := evict_all_subset p tie x ((evict_inv h tie).acctInAll _ hmem x hx)
      exact absurd (hai.sender x hx) (hfresh x hxall)

/-- Class (a) of the eviction really consists of unprocessable transactions as long as no list entry lies below
a processable nonce of its list: then `GetUnprocessables` returns exactly the entries whose nonce is not in the
processable set.  (`C14_quirk_low_nonce_blocks_promotion` shows the condition is needed.) -/
theorem C14_unprocessables_exact (cfg : Cfg) (hmax : 1 ≤ cfg.maxTx) (hper : 1 ≤ cfg.maxPerAcct) (ops : List Op) :
    ∀ e ∈ (run cfg ops).accts,
      (∀ t ∈ e.2.txs, t.nonce ∉ e.2.proc → ∀ n ∈ e.2.proc, n < t.nonce) →
      ∀ t, t ∈ e.2.unprocessables ↔ t ∈ e.2.txs ∧ t.nonce ∉ e.2.proc := by
  intro e he hnormal t
  exact mem_unprocessables_iff ((run_inv hmax hper ops).acctOk e he) hnormal t

/-- What the fee-priority guard gives: the incoming transaction strictly beats the lowest fee priority in the
pool, and the victim is minimal among the eviction candidates; so the victim has a strictly lower priority than
the incoming one — unless a strictly cheaper pooled transaction is shielded from eviction because it is not a
candidate (a processable one while unprocessables exist, or a processable one that is not the last of its
sender). -/
theorem C14_eviction_priority (cfg : Cfg) (hmax : 1 ≤ cfg.maxTx) (hper : 1 ≤ cfg.maxPerAcct) (ops : List Op)
    (tx victim : Tx) (tie : Nat) :
    let p := run cfg ops
    isFull cfg p = true → tooCheap p.heap tx = false → pickMin (evictCands p) tie = some victim →
    (∃ u ∈ p.all, u.prio < tx.prio ∧ ∀ x ∈ p.all, u.prio ≤ x.prio) ∧
    (victim.prio < tx.prio ∨
      ∃ u ∈ p.all, u ∉ evictCands p ∧ u.prio < victim.prio ∧ u.prio < tx.prio) := by
  intro p hfull hcheap hpick
  have h : C14Inv cfg p := run_inv hmax hper ops
  have hlen : cfg.maxTx ≤ p.all.length := by simpa [isFull] using hfull
  have hne : p.all ≠ [] := by intro h0; rw [h0] at hlen; simp at hlen; omega
  obtain ⟨_, hmin, _⟩ := pickMin_spec hpick
  unfold tooCheap at hcheap
  cases hm : minPrio p.heap with
  | none =>
    have := minPrio_none _ hm
    have hl := h.heapPerm.length_eq
    rw [this] at hl
    exact absurd (List.eq_nil_of_length_eq_zero hl.symm) hne
  | some m =>
    rw [hm] at hcheap
    have hlt : m < tx.prio := by simpa using hcheap
    obtain ⟨u, hu, hum⟩ := minPrio_mem _ _ hm
    have huall : u ∈ p.all := h.heapPerm.mem_iff.1 hu
    have humin : ∀ x ∈ p.all, u.prio ≤ x.prio := by
      intro x hx; rw [hum]; exact minPrio_le _ _ hm x (h.heapPerm.mem_iff.2 hx)
    refine ⟨⟨u, huall, by omega, humin⟩, ?_⟩
    by_cases hc : u ∈ evictCands p
    · left; have := hmin u hc; omega
    · by_cases hv : victim.prio < tx.prio
      · exact Or.inl hv
      · right; exact ⟨u, huall, hc, by omega, by omega⟩

/-- "A transaction is never evicted to make room for a lower-priority one" does NOT hold for the code (nor
the model): with a cheap processable transaction in the pool, `evictUnprocessable` removes an unprocessable
transaction of fee priority 100 to let in one of fee priority 50. -/
theorem C14_evicted_may_outrank_incoming :
    let cfg : Cfg := { maxTx := 2, maxPerAcct := 4, minFeeDiff := 1, minEntrance := 0 }
    let cheap : Tx := { id := 1, sender := 1, nonce := 0, fee := 100, size := 100 }
    let dear : Tx := { id := 2, sender := 2, nonce := 7, fee := 10000, size := 100 }
    let mid : Tx := { id := 3, sender := 3, nonce := 0, fee := 5000, size := 100 }
    let ok (t : Tx) : Op := Op.add { tx := t, v := .ok, pubOk := true, tie := 0 }
    let p := run cfg [ok cheap, Op.reorg (fun _ => .ok), ok dear]
    pickMin (evictCands p) 0 = some dear ∧ mid.prio < dear.prio ∧
    (run cfg [ok cheap, Op.reorg (fun _ => .ok), ok dear, ok mid]).all.map (·.id) = [3, 1] := by
  decide

/-- Remark (code and model agree): the capacity eviction runs BEFORE the sender list decides, so an `Add` that is
then rejected (here: replacement fee too low) has already evicted a pooled transaction — the pool loses
transaction 2 although nothing was added. -/
theorem C14_rejected_add_may_evict :
    let cfg : Cfg := { maxTx := 2, maxPerAcct := 4, minFeeDiff := 10, minEntrance := 0 }
    let a : Tx := { id := 1, sender := 1, nonce := 0, fee := 1000, size := 100 }
    let b : Tx := { id := 2, sender := 2, nonce := 0, fee := 500, size := 100 }
    let c : Tx := { id := 3, sender := 1, nonce := 0, fee := 1005, size := 100 }
    let ok (t : Tx) : Op := Op.add { tx := t, v := .ok, pubOk := true, tie := 0 }
    let r := add cfg (run cfg [ok a, ok b]) c .ok true 0
    r.2 = false ∧ r.1.all.map (·.id) = [1] := by
  decide

/-! ## 5. the known finding as an iff -/

theorem C14_verdict_cases (x : Verdict) : x ≠ Verdict.invalid ↔ (x = Verdict.ok ∨ x = Verdict.pending) := by
  cases x <;> simp

/-- Known finding, exact form: after a promotion round an asked transaction is processable iff the verifier
answered `ok` OR `pending` for every asked transaction up to and including it — `pending` counts as `ok`. -/
theorem C14_pending_promoted_iff (cfg : Cfg) (hmax : 1 ≤ cfg.maxTx) (hper : 1 ≤ cfg.maxPerAcct) (ops : List Op)
    (v : Nat → Verdict) (s : Nat) (a : Acct) (t : Tx) :
    let p := run cfg ops
    findAcct p.accts s = some a → a.promotableNonces ≠ [] → t ∈ a.askedTxs →
    (isProc (reorg v p) t ↔
      ∀ u ∈ a.askedTxs, u.nonce ≤ t.nonce → (v u.id = Verdict.ok ∨ v u.id = Verdict.pending)) := by
  intro p ha hprom ht
  rw [reorg_isProc_iff (run_inv hmax hper ops) v ha hprom ht]
  constructor
  · intro hh u hu hle; exact (C14_verdict_cases _).1 (hh u hu hle)
  · intro hh u hu hle; exact (C14_verdict_cases _).2 (hh u hu hle)

/-- For the transaction with the lowest asked nonce (e.g. the first transaction of a sender without
processables): processable after the round ⇔ the verifier answered `ok` or `pending`. -/
theorem C14_first_promotable_iff (cfg : Cfg) (hmax : 1 ≤ cfg.maxTx) (hper : 1 ≤ cfg.maxPerAcct) (ops : List Op)
    (v : Nat → Verdict) (s : Nat) (a : Acct) (t : Tx) :
    let p := run cfg ops
    findAcct p.accts s = some a → a.promotableNonces ≠ [] → t ∈ a.askedTxs →
    (∀ u ∈ a.askedTxs, t.nonce ≤ u.nonce) →
    (isProc (reorg v p) t ↔ (v t.id = Verdict.ok ∨ v t.id = Verdict.pending)) := by
  intro p ha hprom ht hlow
  have h : C14Inv cfg p := run_inv hmax hper ops
  have hai := h.acctOk _ (findAcct_some ha)
  rw [C14_pending_promoted_iff cfg hmax hper ops v s a t ha hprom ht]
  constructor
  · intro hh; exact hh t ht (Nat.le_refl _)
  · intro hh u hu hle
    have hn : u.nonce = t.nonce := Nat.le_antisymm hle (hlow u hu)
    rw [inj_of_nodup_map _ _ hai.nodup u (askedTxs_subset hu) t (askedTxs_subset ht) hn]
    exact hh

/-- Quirk of `GetUnprocessables` / `GetPromotable` kept by the model (they skip `len(processables)` of the
sorted nonces, i.e. assume the processable nonces are the lowest of the list): after a block revert brings
back lower nonces (3, 4) of a sender whose nonces 5, 6 are processable, no later round promotes anything for
that sender, and the "unprocessable" eviction candidates are the processable 5 and 6. -/
theorem C14_quirk_low_nonce_blocks_promotion :
    let cfg : Cfg := { maxTx := 8, maxPerAcct := 8, minFeeDiff := 1, minEntrance := 0 }
    let mk (i n : Nat) : Tx := { id := i, sender := 1, nonce := n, fee := 1000, size := 100 }
    let arg (t : Tx) : AddArg := { tx := t, v := .ok, pubOk := true, tie := 0 }
    let p := run cfg [Op.add (arg (mk 5 5)), Op.add (arg (mk 6 6)), Op.add (arg (mk 7 7)), Op.reorg (fun _ => .ok),
      Op.remove 7, Op.reverted [arg (mk 3 3), arg (mk 4 4)], Op.add (arg (mk 8 7)), Op.reorg (fun _ => .ok),
      Op.reorg (fun _ => .ok)]
    p.accts.map (fun e => (e.2.proc, e.2.sortedNonces, e.2.unprocessables.map (·.nonce))) =
      [([5, 6], [3, 4, 5, 6, 7], [5, 6, 7])] := by
  decide

/-! ## non-vacuity -/

namespace C14MoreExamples

def cfg : Cfg := { maxTx := 3, maxPerAcct := 2, minFeeDiff := 10, minEntrance := 0 }
def mk (i s n fee : Nat) : Tx := { id := i, sender := s, nonce := n, fee := fee, size := 100 }
def ok (t : Tx) : Op := Op.add { tx := t, v := .ok, pubOk := true, tie := 0 }

/-- uint64 rule at the edge: 2^64-1 does not replace 2^64-5 with difference 10, and does with difference 4 -/
example : C14_goReplaceRejects (2 ^ 64 - 1) (2 ^ 64 - 5) 10 = true ∧
    C14_goReplaceRejects (2 ^ 64 - 1) (2 ^ 64 - 5) 4 = false := by decide

/-- `C14_replacement_iff`, fee branch: hypotheses hold and the transaction gets in -/
example :
    let p := run cfg [ok (mk 1 1 0 1000)]
    mk 1 1 0 1000 ∈ p.all ∧ (∀ t ∈ p.all, t.id ≠ (mk 2 1 0 1010).id) ∧
    (isFull cfg p && tooCheap p.heap (mk 2 1 0 1010)) = false ∧
    mk 2 1 0 1010 ∈ (add cfg p (mk 2 1 0 1010) .ok true 0).1.all ∧
    mk 2 1 0 1009 ∉ (add cfg p (mk 2 1 0 1009) .ok true 0).1.all := by decide

/-- `C14_replacement_iff`, eviction branch: full pool, the old holder of the slot is the capacity victim, and a
LOWER fee (smaller transaction, higher priority) takes the slot -/
example :
    let c : Cfg := { maxTx := 1, maxPerAcct := 2, minFeeDiff := 10, minEntrance := 0 }
    let old : Tx := { id := 1, sender := 1, nonce := 0, fee := 1000, size := 100 }
    let tx : Tx := { id := 2, sender := 1, nonce := 0, fee := 900, size := 10 }
    let p := run c [Op.add { tx := old, v := .ok, pubOk := true, tie := 0 }]
    isFull c p = true ∧ pickMin (evictCands p) 0 = some old ∧ tooCheap p.heap tx = false ∧
    (add c p tx .ok true 0).1.all = [tx] := by decide

/-- the history of seeded change C14-4: the highest nonce (9) is removed from outside, the list is refilled to
the limit with lower nonces, one more arrives — the model drops the current highest (5), count stays 2 -/
example :
    (run cfg [ok (mk 1 1 5 1000), ok (mk 2 1 9 1000), Op.remove 2, ok (mk 3 1 3 1000), ok (mk 4 1 4 1000)]).all.map
      (·.id) = [4, 3] := by decide

/-- `C14_sender_limit_exact`: hypotheses hold (count = limit, free slot, room) -/
example :
    let p := run cfg [ok (mk 1 1 5 1000), ok (mk 3 1 3 1000)]
    (p.all.filter (fun t => t.sender == 1)).length = cfg.maxPerAcct ∧ p.all.length < cfg.maxTx ∧
    (add cfg p (mk 4 1 4 1000) .ok true 0).1.all.map (·.id) = [4, 3] ∧
    (add cfg p (mk 4 1 6 1000) .ok true 0).1.all.map (·.id) = [3, 1] := by decide

/-- `reorgSpec` on a list with nonces 0,1,2,4: asked = [0,1,2]; second answer invalid → processable [0], the
transactions at 1 and 2 leave, 4 stays unprocessable -/
example :
    let c : Cfg := { maxTx := 8, maxPerAcct := 8, minFeeDiff := 10, minEntrance := 0 }
    let p := run c [ok (mk 10 1 0 1000), ok (mk 11 1 1 1000), ok (mk 12 1 2 1000), ok (mk 14 1 4 1000)]
    let q := reorg (fun id => if id = 11 then .invalid else .ok) p
    (p.accts.map (fun e => (e.2.asked, e.2.promotableNonces))) = [([0, 1, 2], [0, 1, 2])] ∧
    q.accts.map (fun e => (e.2.proc, e.2.txs.map (·.id))) = [([0], [14, 10])] ∧
    (p.accts.map (fun e => (reorgSpec (fun id => if id = 11 then .invalid else .ok) e.2).map
      (fun a => (a.proc, a.txs.map (·.id))))) = [some ([0], [14, 10])] := by decide

/-- `C14_eviction_exact`, both classes: unprocessable victim; processable victim = last processable -/
example :
    let p := run cfg [ok (mk 1 1 0 1000), ok (mk 2 2 0 500), ok (mk 3 3 0 800)]
    isFull cfg p = true ∧ unprocCands p ≠ [] ∧ pickMin (evictCands p) 0 = some (mk 2 2 0 500) ∧
    tooCheap p.heap (mk 4 4 0 900) = false ∧
    (add cfg p (mk 4 4 0 900) .ok true 0).1.all.map (·.id) = [4, 3, 1] := by decide
example :
    let p := run cfg [ok (mk 1 1 0 1000), ok (mk 2 1 1 500), ok (mk 3 3 0 800), Op.reorg (fun _ => .ok)]
    unprocCands p = [] ∧ pickMin (evictCands p) 0 = some (mk 2 1 1 500) ∧
    (add cfg p (mk 4 4 0 900) .ok true 0).1.all.map (·.id) = [4, 3, 1] := by decide

/-- `C14_unprocessables_exact`: the condition holds and the unprocessable entries are those above the run -/
example :
    let c : Cfg := { maxTx := 8, maxPerAcct := 8, minFeeDiff := 10, minEntrance := 0 }
    let p := run c [ok (mk 10 1 0 1000), ok (mk 11 1 1 1000), Op.reorg (fun _ => .ok), ok (mk 14 1 4 1000)]
    p.accts.map (fun e => (e.2.proc, e.2.unprocessables.map (·.id),
      decide (∀ t ∈ e.2.txs, t.nonce ∉ e.2.proc → ∀ n ∈ e.2.proc, n < t.nonce))) = [([0, 1], [14], true)] := by
  decide

/-- `C14_first_promotable_iff`: pending is promoted, invalid is not -/
example :
    let p := run cfg [Op.add { tx := mk 7 1 5 1000, v := .pending, pubOk := true, tie := 0 }]
    (p.accts.map (fun e => (e.2.promotableNonces, e.2.askedTxs.map (·.id)))) = [([5], [7])] ∧
    (reorg (fun _ => .pending) p).accts.map (fun e => e.2.proc) = [[5]] ∧
    (reorg (fun _ => .invalid) p).all = [] := by decide

/-- `C14_promotable_run_maximal`: nonces 0,1,2,4 → run 0..2, stops at the gap -/
example :
    (run { maxTx := 8, maxPerAcct := 8, minFeeDiff := 10, minEntrance := 0 }
      [ok (mk 10 1 0 1000), ok (mk 11 1 1 1000), ok (mk 12 1 2 1000), ok (mk 14 1 4 1000)]).accts.map
      (fun e => e.2.promotableNonces) = [[0, 1, 2]] := by decide

example : walk fixedTable 50 Fn.AddTx {} = walk fixedTable 8 Fn.AddTx {} :=
  C14_lock_walk_fuel_irrelevant 50 (by decide) _ _

end C14MoreExamples
