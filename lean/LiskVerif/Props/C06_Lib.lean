/-
C06 (library part) — the helpers of `pkg/collection` behind the certificate code:
`bytes.FindIndex` (the position of a BLS key in the validator key list = the bit of the aggregation
bitmap, pkg/crypto/bls.go) and `ints.Min` / `ints.Max` (height windows of certificates and BFT
votes).  Model: `LiskVerif/Model/Collection.lean` (tied to the Go code by the LIBCOLL correspondence
harness).  Helper lemmas: `LiskVerif/Lemmas/Collection.lean`.
-/
import LiskVerif.Lemmas.Collection

open LiskVerif LiskVerif.Collection

/-! ### bytes.FindIndex -/

/-- `FindIndex(keys, k)` is `-1` if `k` is not in the list, else the index of its FIRST occurrence. -/
theorem C06_lib_findIndex_spec (keys : List Bytes) (k : Bytes) :
    (bytesFindIndex keys k = -1 ∧ k ∉ keys) ∨
    (∃ i, ∃ hi : i < keys.length, bytesFindIndex keys k = (i : Int) ∧ keys[i] = k ∧
      ∀ j, ∀ hj : j < i, keys[j]'(by omega) ≠ k) := by
  rcases findIndexFrom_spec (fun v => bytesEqual v k) 0 keys with ⟨h1, h2⟩ | ⟨i, hi, h1, h2, h3⟩
  · left
    refine ⟨by simpa [bytesFindIndex, findIndex] using h1, ?_⟩
    intro hk
    have := h2 k hk
    simp [bytesEqual] at this
  · right
    refine ⟨i, hi, by simpa [bytesFindIndex, findIndex] using h1, by simpa [bytesEqual] using h2, ?_⟩
    intro j hj
    have := h3 j hj
    simpa [bytesEqual] using this

/-- `-1` iff absent -/
theorem C06_lib_findIndex_neg_iff (keys : List Bytes) (k : Bytes) :
    bytesFindIndex keys k = -1 ↔ k ∉ keys := by
  rcases C06_lib_findIndex_spec keys k with ⟨h1, h2⟩ | ⟨i, hi, h1, h2, _⟩
  · exact ⟨fun _ => h2, fun _ => h1⟩
  · constructor
    · intro h; rw [h1] at h; omega
    · intro h; exact absurd (h2 ▸ List.getElem_mem hi) h

/-- a member is found at an index inside the list, and that index holds the key -/
theorem C06_lib_findIndex_mem (keys : List Bytes) (k : Bytes) (h : k ∈ keys) :
    ∃ i, ∃ hi : i < keys.length, bytesFindIndex keys k = (i : Int) ∧ keys[i] = k := by
  rcases C06_lib_findIndex_spec keys k with ⟨_, h2⟩ | ⟨i, hi, h1, h2, _⟩
  · exact absurd h h2
  · exact ⟨i, hi, h1, h2⟩

/-- Injective on members: two keys of the list with the same index are the same key, so two
different signers never set the same bit of the aggregation bitmap. -/
theorem C06_lib_findIndex_injective (keys : List Bytes) (a b : Bytes) (ha : a ∈ keys) (hb : b ∈ keys)
    (h : bytesFindIndex keys a = bytesFindIndex keys b) : a = b := by
  obtain ⟨i, hi, e1, e2⟩ := C06_lib_findIndex_mem keys a ha
  obtain ⟨j, hj, f1, f2⟩ := C06_lib_findIndex_mem keys b hb
  rw [e1, f1] at h
  have : i = j := by omega
  subst this
  rw [← e2, ← f2]

/-- In a duplicate-free key list every position is the index of its own key (the bitmap position
identifies the validator). -/
theorem C06_lib_findIndex_nodup (keys : List Bytes) (hn : keys.Nodup) (i : Nat) (hi : i < keys.length) :
    bytesFindIndex keys keys[i] = (i : Int) := by
  obtain ⟨j, hj, e1, e2⟩ := C06_lib_findIndex_mem keys keys[i] (List.getElem_mem hi)
  rw [e1]
  have hp := List.pairwise_iff_getElem.mp hn
  rcases Nat.lt_trichotomy j i with h | h | h
  · exact absurd e2 (hp j i hj hi h)
  · rw [h]
  · exact absurd e2.symm (hp i j hi hj h)

/-- With duplicates the later copies are never reported: a duplicated key maps to its first position. -/
theorem C06_lib_findIndex_duplicate : bytesFindIndex [[1], [2], [1]] [1] = 0 := by decide

/-! ### ints.Max / ints.Min -/

private theorem ge_trans (a b c : Int) (h1 : decide (a ≥ b) = true) (h2 : decide (b ≥ c) = true) :
    decide (a ≥ c) = true := by simp at *; omega
private theorem ge_total (a b : Int) : (decide (a ≥ b) || decide (b ≥ a)) = true := by
  simp; omega
private theorem le_trans' (a b c : Int) (h1 : decide (a ≤ b) = true) (h2 : decide (b ≤ c) = true) :
    decide (a ≤ c) = true := by simp at *; omega
private theorem le_total' (a b : Int) : (decide (a ≤ b) || decide (b ≤ a)) = true := by
  simp; omega

/-- with zero arguments `Max` / `Min` panic -/
theorem C06_lib_max_empty : intsMax [] = .error .emptyArgs := rfl
theorem C06_lib_min_empty : intsMin [] = .error .emptyArgs := rfl

/-- For every argument count >= 1, `Max` returns an argument that is >= all arguments. -/
theorem C06_lib_max_spec (nums : List Int) (h : nums ≠ []) :
    ∃ m, intsMax nums = .ok m ∧ m ∈ nums ∧ ∀ x ∈ nums, x ≤ m := by
  unfold intsMax
  have hl : ¬ nums.length = 0 := by
    intro e; exact h (List.length_eq_zero_iff.mp e)
  simp only [hl, if_false]
  cases hs : isort (fun a b => decide (a ≥ b)) nums with
  | nil =>
    have := (isort_perm (fun a b => decide (a ≥ b)) nums).length_eq
    rw [hs] at this; simp at this; omega
  | cons x r =>
    obtain ⟨hm, hall⟩ := isort_head_spec _ ge_trans ge_total nums x r hs
    refine ⟨x, rfl, hm, ?_⟩
    intro y hy
    have := hall y hy
    simpa using this

/-- For every argument count >= 1, `Min` returns an argument that is <= all arguments. -/
theorem C06_lib_min_spec (nums : List Int) (h : nums ≠ []) :
    ∃ m, intsMin nums = .ok m ∧ m ∈ nums ∧ ∀ x ∈ nums, m ≤ x := by
  unfold intsMin
  have hl : ¬ nums.length = 0 := by
    intro e; exact h (List.length_eq_zero_iff.mp e)
  simp only [hl, if_false]
  cases hs : isort (fun a b => decide (a ≤ b)) nums with
  | nil =>
    have := (isort_perm (fun a b => decide (a ≤ b)) nums).length_eq
    rw [hs] at this; simp at this; omega
  | cons x r =>
    obtain ⟨hm, hall⟩ := isort_head_spec _ le_trans' le_total' nums x r hs
    refine ⟨x, rfl, hm, ?_⟩
    intro y hy
    have := hall y hy
    simpa using this

/-- the value is determined by these two properties, so it does not depend on the (unstable) sort
algorithm used -/
theorem C06_lib_max_unique (nums : List Int) (m m' : Int) (h1 : m ∈ nums) (h2 : ∀ x ∈ nums, x ≤ m)
    (h1' : m' ∈ nums) (h2' : ∀ x ∈ nums, x ≤ m') : m = m' := by
  have := h2 m' h1'; have := h2' m h1; omega

theorem C06_lib_max_pair (a b : Int) : intsMax [a, b] = .ok (if a ≥ b then a else b) := by
  obtain ⟨m, e, hm, hall⟩ := C06_lib_max_spec [a, b] (by simp)
  rw [e]; congr 1
  have h1 := hall a (by simp); have h2 := hall b (by simp)
  simp at hm
  split <;> omega

theorem C06_lib_min_pair (a b : Int) : intsMin [a, b] = .ok (if a ≤ b then a else b) := by
  obtain ⟨m, e, hm, hall⟩ := C06_lib_min_spec [a, b] (by simp)
  rw [e]; congr 1
  have h1 := hall a (by simp); have h2 := hall b (by simp)
  simp at hm
  split <;> omega

/-- the panic is exactly the empty argument list -/
theorem C06_lib_max_panics_iff (nums : List Int) : (∃ e, intsMax nums = .error e) ↔ nums = [] := by
  constructor
  · rintro ⟨e, he⟩
    apply Classical.byContradiction; intro hne
    obtain ⟨m, hm, _⟩ := C06_lib_max_spec nums hne
    rw [hm] at he; cases he
  · rintro rfl; exact ⟨_, rfl⟩

theorem C06_lib_min_panics_iff (nums : List Int) : (∃ e, intsMin nums = .error e) ↔ nums = [] := by
  constructor
  · rintro ⟨e, he⟩
    apply Classical.byContradiction; intro hne
    obtain ⟨m, hm, _⟩ := C06_lib_min_spec nums hne
    rw [hm] at he; cases he
  · rintro rfl; exact ⟨_, rfl⟩

/-- ints.Include / ints.Unique / ints.IsUnique -/
theorem C06_lib_include_iff (l : List Int) (t : Int) : intsInclude l t = true ↔ t ∈ l := by
  induction l with
  | nil => simp [intsInclude]
  | cons v r ih =>
    simp only [intsInclude, List.mem_cons]
    by_cases h : v = t
    · simp [h]
    · have : ¬ t = v := fun e => h e.symm
      simp [h, this, ih]

theorem C06_lib_intsUnique_spec (l : List Int) : IsUniqueOf l (intsUnique l) := by
  constructor
  · exact (isort_perm _ (dedup l)).nodup_iff.mpr (nodup_dedup l)
  · intro x; unfold intsUnique; rw [mem_isort, mem_dedup]

theorem C06_lib_intsIsUnique_iff (l : List Int) : intsIsUnique l = true ↔ l.Nodup := by
  unfold intsIsUnique intsUnique
  rw [beq_iff_eq, (isort_perm _ (dedup l)).length_eq]
  exact dedup_length_eq_iff l

/-! ### non-vacuity -/

example : bytesFindIndex [[1], [2], [3]] [2] = 1 := by decide
example : bytesFindIndex [[1], [2], [3]] [4] = -1 := by decide
example : bytesFindIndex [[1], [2], [3]] [3] = 2 :=
  C06_lib_findIndex_nodup [[1], [2], [3]] (by decide) 2 (by decide)
example : intsMax [3, -4, 9, 9, 0] = .ok 9 := by decide
example : intsMin [3, -4, 9, -4, 0] = .ok (-4) := by decide
example : intsMax [5] = .ok 5 := by decide
example : intsMin [] = .error .emptyArgs := by decide
example : intsUnique [3, 1, 3, 1] = [1, 3] := by decide
