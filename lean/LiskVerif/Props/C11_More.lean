/-
C11 — Regular Merkle tree, continued: the statements that `Props/C11.lean` keeps as `*_Statement`.

Helper lemmas: `LiskVerif/Lemmas/RMTMore.lean` (exact layer structure, the node store as the set of
proper aligned blocks, right witness, single-leaf walks, the layer-by-layer specification `calcSpec` /
`sibSpec` of `calculatePathNodes` / `getSiblingHashes` for several leaves and the refinement proofs).

Proved in full (the `*_Statement` of `Props/C11.lean`):
* `C11_store : C11_store_Statement` — `Append` keeps the node store exact;
* `C11_update_via_proof : C11_update_via_proof_Statement` — `Update` through a proof gives (root, append
  path, size) of the modified list, for any duplicate-free list of positions (`C11_update_via_proof_single`:
  one position);
* `C11_proof_sound_multi : C11_proof_sound_multi_Statement` — an accepted proof for distinct leaf indexes
  shows that every query is the hash of the leaf at its index (branch hash injective).
Also: `C11_append_total` — `Append` never fails on a tree built by appends, so every list of leaves builds a
tree; `C11_built` — the invariant of such trees.

False as written, with the corrected statements:
* `C11_right_witness_Statement_false` (for `2^64 + 1` leaves `CalculateRootFromRightWitness` runs out of its
  64 layers) and `C11_right_witness_bounded_partial` (every split point, at most `2^63` leaves);
* `C11_proof_complete_Statement_false` (for `2^29 + 1` leaves the 32-bit index parser fails and
  `GenerateProof` returns an error) and `C11_proof_complete_sets_partial` (any duplicate-free list of leaf
  hashes in any order; extra hypotheses: height at most 30 and no branch hash equals a leaf hash — without
  the second one the `hash -> location` index may return an inner node for a queried leaf hash;
  `C11_proof_complete_single_partial`: one query).
-/
import LiskVerif.Props.C11
import LiskVerif.Lemmas.RMTMore

open LiskVerif LiskVerif.RMT

/-! ### trees built by appends -/

/-- what is known about a tree built by appends over the leaf hashes `L`: (root, append path, size)
follow the binary counter of perfect subtrees and every proper block is stored at its location -/
structure C11.Built (hf : HashFns) (t : Tree) (L : List Bytes) : Prop where
  root : t.core.root = rootH hf L
  path : t.core.path = peaks hf L
  size : t.core.size = L.length
  stored : Stored hf t L
  h2l : H2L hf t L

private theorem appendTreeAll_inv (hf : HashFns) : ∀ (data : List Bytes) (t t' : Tree) (c : Ctr),
    Ctr.WF 0 c → Ctr.Canon c → t.core = coreOf hf c → Stored hf t (Ctr.flat c) → H2L hf t (Ctr.flat c) →
    C11.appendTreeAll hf t data = some t' →
    ∃ c', Ctr.WF 0 c' ∧ Ctr.Canon c' ∧ t'.core = coreOf hf c' ∧ Stored hf t' (Ctr.flat c') ∧
      H2L hf t' (Ctr.flat c') ∧ Ctr.flat c' = Ctr.flat c ++ data.map hf.leaf := by
  intro data
  induction data with
  | nil =>
    intro t t' c hw hc hcore hst hh h
    simp only [C11.appendTreeAll, Option.some.injEq] at h
    subst h
    exact ⟨c, hw, hc, hcore, hst, hh, by simp⟩
  | cons v vs ih =>
    intro t t' c hw hc hcore hst hh h
    simp only [C11.appendTreeAll] at h
    split at h
    · rename_i hok
      obtain ⟨h1, h2⟩ := append_step hf t c v hw hc hcore hst hok
      have hw' := Ctr.WF_inc (s := [hf.leaf v]) hw (by simp)
      have hc' := Ctr.Canon_inc [hf.leaf v] hc
      have hsz : t.core.size = (Ctr.flat c).length := by
        rw [hcore, Ctr.length_flat hw]; simp [coreOf]
      have h3 := append_h2l hf t (Ctr.flat c) v hh hsz
      rw [← Ctr.flat_inc] at h2 h3
      obtain ⟨c', a, b, d, e, e', g⟩ := ih _ t' _ hw' hc' h1 h2 h3 h
      exact ⟨c', a, b, d, e, e', by rw [g, Ctr.flat_inc]; simp⟩
    · cases h

/-- Every tree built by appends from the empty tree satisfies `C11.Built`. -/
theorem C11_built (hf : HashFns) (data : List Bytes) (t : Tree)
    (h : C11.appendTreeAll hf (emptyTree hf) data = some t) : C11.Built hf t (data.map hf.leaf) := by
  have h0 : (emptyTree hf).core = coreOf hf [] := by
    simp [emptyTree, initCore, coreOf, Ctr.flat, Ctr.path, Ctr.toNat, rootH_nil]
  have hst0 : Stored hf (emptyTree hf) (Ctr.flat []) := by
    intro layer k hp
    exfalso
    have := proper_lt hp
    simp [Ctr.flat] at this
  have hh0 : H2L hf (emptyTree hf) (Ctr.flat []) := by
    constructor
    · intro x loc hm; simp [emptyTree] at hm
    · intro k x hk; simp [Ctr.flat] at hk
  obtain ⟨c', hw, _, hcore, hst, hh, hfl⟩ :=
    appendTreeAll_inv hf data _ t [] (by simp [Ctr.WF]) (by simp [Ctr.Canon]) h0 hst0 hh0 h
  simp only [Ctr.flat, List.nil_append] at hfl
  rw [hfl] at hst hh
  have hlen : Ctr.toNat c' = (data.map hf.leaf).length := by
    have := Ctr.length_flat hw
    rw [hfl] at this; simpa using this.symm
  exact ⟨by rw [hcore, ← hfl]; rfl, by rw [hcore, ← hfl, ← Ctr.path_eq_peaks hf hw]; rfl,
    by rw [hcore, ← hlen]; rfl, hst, hh⟩

private theorem appendTreeAll_some (hf : HashFns) : ∀ (data : List Bytes) (t : Tree) (c : Ctr),
    Ctr.WF 0 c → Ctr.Canon c → t.core = coreOf hf c → Stored hf t (Ctr.flat c) →
    ∃ t', C11.appendTreeAll hf t data = some t' := by
  intro data
  induction data with
  | nil => intro t c _ _ _ _; exact ⟨t, rfl⟩
  | cons v vs ih =>
    intro t c hw hc hcore hst
    have hok := append_ok hf t c v hw hc hcore hst
    obtain ⟨h1, h2⟩ := append_step hf t c v hw hc hcore hst hok
    rw [← Ctr.flat_inc] at h2
    simp only [C11.appendTreeAll, hok, if_true]
    exact ih _ _ (Ctr.WF_inc (s := [hf.leaf v]) hw (by simp)) (Ctr.Canon_inc [hf.leaf v] hc) h1 h2

/-- `Append` never returns an error on a tree built by appends: every list of leaves builds a tree
(so the hypothesis `C11.appendTreeAll hf (emptyTree hf) data = some t` of the theorems below is
satisfied by exactly one `t` for every `data`). -/
theorem C11_append_total (hf : HashFns) (data : List Bytes) :
    ∃ t, C11.appendTreeAll hf (emptyTree hf) data = some t := by
  have h0 : (emptyTree hf).core = coreOf hf [] := by
    simp [emptyTree, initCore, coreOf, Ctr.flat, Ctr.path, Ctr.toNat, rootH_nil]
  have hst0 : Stored hf (emptyTree hf) (Ctr.flat []) := by
    intro layer k hp
    exfalso
    have := proper_lt hp
    simp [Ctr.flat] at this
  exact appendTreeAll_some hf data _ [] (by simp [Ctr.WF]) (by simp [Ctr.Canon]) h0 hst0

/-! ### the node store -/

/-- `Append` keeps the node store exact: after any run of successful appends every node of the
LIP-0031 tree over the current leaves is stored at the location the implementation assigns to it
(the newest entry of the `location -> hash` index at that location is the node's hash). -/
theorem C11_store : C11_store_Statement := by
  intro hf data t h e he
  have hb := C11_built hf data t h
  by_cases hnil : data.map hf.leaf = []
  · rw [hnil, nodeList] at he; cases he
  · have hpos : 1 ≤ (data.map hf.leaf).length := by
      cases hd : data.map hf.leaf with
      | nil => exact absurd hd hnil
      | cons a r => simp
    obtain ⟨layer, k, h1, h2, h3⟩ := nodeList_proper hf (data.map hf.leaf) _ (data.map hf.leaf) 0 rfl hpos
      (by rw [List.drop_zero, List.take_length]) (Nat.dvd_zero _) (Or.inr (by simp)) e he
    rw [h3, ← hb.stored layer k h2, h1]

/-- non-vacuity: a tree of five leaves is built by appends (so its 9 nodes are stored) -/
example : ∃ t, C11.appendTreeAll C11.pairHash (emptyTree C11.pairHash) [[1], [2], [3], [4], [5]] = some t ∧
    (nodeList C11.pairHash ([[1], [2], [3], [4], [5]].map C11.pairHash.leaf) 0).length = 9 := by
  decide +kernel

/-! ### right witness -/

/-- Every split point: the append path of the first `i` leaves and the right witness generated by the
full tree reconstruct the root. The bound on the size is needed: `CalculateRootFromRightWitness`
works on 64 layers with `uint64` arithmetic (for `2^64 + 1` leaves and `i = 3` it returns an error:
`C11_right_witness_Statement_false` below). Extra hypothesis: `data.length ≤ 2^63`. -/
theorem C11_right_witness_bounded_partial (hf : HashFns) (data : List Bytes) (t : Tree) (i : Nat)
    (h : C11.appendTreeAll hf (emptyTree hf) data = some t) (hi : i ≤ data.length)
    (hbound : data.length ≤ 2 ^ 63) :
    ∃ w, genWitness t i = some w ∧
      rootFromRightWitness hf i (peaks hf ((data.take i).map hf.leaf)) w = some (root hf data) := by
  have hb := C11_built hf data t h
  have := rightWitness_correct hf t (data.map hf.leaf) hb.stored hb.size hb.path (by simpa using hbound) i
    (by simpa using hi)
  rw [← List.map_take] at this
  exact this

/-- non-vacuity and a concrete check of all split points of a tree of six leaves -/
example : ∃ t, C11.appendTreeAll C11.pairHash (emptyTree C11.pairHash) [[1], [2], [3], [4], [5], [6]] = some t ∧
    ∀ i ∈ [0, 1, 2, 3, 4, 5, 6], ∃ w, genWitness t i = some w ∧
      rootFromRightWitness C11.pairHash i (peaks C11.pairHash (([[1], [2], [3], [4], [5], [6]].take i).map C11.pairHash.leaf)) w
        = some (root C11.pairHash [[1], [2], [3], [4], [5], [6]]) := by
  have hex : ∃ t, C11.appendTreeAll C11.pairHash (emptyTree C11.pairHash) [[1], [2], [3], [4], [5], [6]] = some t := by
    cases h : C11.appendTreeAll C11.pairHash (emptyTree C11.pairHash) [[1], [2], [3], [4], [5], [6]] with
    | none => exact absurd h (by decide +kernel)
    | some t => exact ⟨t, rfl⟩
  obtain ⟨t, ht⟩ := hex
  refine ⟨t, ht, ?_⟩
  intro i hi
  exact C11_right_witness_bounded_partial C11.pairHash _ t i ht
    (by simp at hi; rcases hi with h | h | h | h | h | h | h <;> subst h <;> decide) (by decide)

/-! ### update through a proof, one leaf -/

/-- `Update` of one leaf through its proof: if it succeeds, (root, append path, size) are those of the
list with that leaf replaced. -/
theorem C11_update_via_proof_single (hf : HashFns) (data : List Bytes) (t t' : Tree) (p : Nat) (u : Bytes)
    (h : C11.appendTreeAll hf (emptyTree hf) data = some t) (hp : p < data.length)
    (hu : update hf t [2 ^ getHeight data.length + p] [u] = some t') :
    t'.core = ⟨root hf (data.set p u), peaks hf ((data.set p u).map hf.leaf), data.length⟩ := by
  have hb := C11_built hf data t h
  have hlen : (data.map hf.leaf).length = data.length := by simp
  have := update_single hf t t' (data.map hf.leaf) hb.stored hb.size hb.path p (by simpa using hp) u
    (by rw [hlen]; exact hu)
  rw [this, hlen]
  simp [root, List.map_set]

/-- non-vacuity: a successful update of leaf 3 of a tree of five leaves -/
example : ((C11.appendTreeAll C11.pairHash (emptyTree C11.pairHash) [[1], [2], [3], [4], [5]]).bind
    fun t => update C11.pairHash t [2 ^ getHeight 5 + 3] [[9]]).isSome = true := by
  decide +kernel

/-- and the result has the root of the modified list -/
example : ((C11.appendTreeAll C11.pairHash (emptyTree C11.pairHash) [[1], [2], [3], [4], [5]]).bind
    fun t => update C11.pairHash t [2 ^ getHeight 5 + 3] [[9]]).map (·.core.root)
      = some (root C11.pairHash [[1], [2], [3], [9], [5]]) := by
  decide +kernel

/-! ### update through a proof, any set of leaves -/

/-- `Update` through a proof yields the tree of the modified list: the statement of `Props/C11.lean`, in
full (any duplicate-free list of leaf positions in any order; success of `Update` is a hypothesis, so
no bound on the size is needed). -/
theorem C11_update_via_proof : C11_update_via_proof_Statement := by
  intro hf data t t' pos upd h hnd hlen hlt hu
  have hb := C11_built hf data t h
  have hl : (data.map hf.leaf).length = data.length := by simp
  have := update_multi hf t t' (data.map hf.leaf) hb.stored hb.size hb.path pos upd hnd
    (by simpa using hlt) hlen (by rw [hl]; exact hu)
  have hmap : ((pos.zip upd).foldl (fun d pu => d.set pu.1 pu.2) data).map hf.leaf
      = setMany (data.map hf.leaf) (pos.zip (upd.map hf.leaf)) := by
    have := map_setMany hf.leaf (pos.zip upd) data
    simp only [setMany] at this ⊢
    rw [this, List.zip_map_right]
    rfl
  simp only
  rw [this, hl, root, hmap]

/-- non-vacuity: a successful update of the leaves 4, 0 and 2 (in this order) of a tree of five leaves,
and its root is the root of the modified list -/
example : ((C11.appendTreeAll C11.pairHash (emptyTree C11.pairHash) [[1], [2], [3], [4], [5]]).bind
    fun t => update C11.pairHash t ([4, 0, 2].map fun p => 2 ^ getHeight 5 + p) [[9], [8], [7]]).map (·.core.root)
      = some (root C11.pairHash [[8], [2], [7], [4], [9]]) := by
  decide +kernel

/-! ### proof generation and verification, one leaf -/

/-- Completeness of `GenerateProof` + `VerifyProof` for one queried leaf hash: in a tree built by appends
whose leaf hashes are pairwise distinct and are not branch hashes (domain separation), the proof
generated for a leaf hash verifies against the root. Extra hypotheses with respect to
`C11_proof_complete_Statement`: one query, no branch hash equals a leaf hash, height at most 30 (the
32-bit index parser). -/
theorem C11_proof_complete_single_partial (hf : HashFns) (data : List Bytes) (t : Tree) (q : Bytes)
    (h : C11.appendTreeAll hf (emptyTree hf) data = some t) (hnd : (data.map hf.leaf).Nodup)
    (hsep : ∀ a b x, x ∈ data.map hf.leaf → hf.branch a b ≠ x)
    (hq : q ∈ data.map hf.leaf) (hb : getHeight data.length ≤ 30) :
    ∃ p, generateProof t [q] = some p ∧ verifyProof hf [q] p t.core.root = true := by
  have hbt := C11_built hf data t h
  obtain ⟨k, hk⟩ := List.getElem?_of_mem hq
  have hb' : getHeight (data.map hf.leaf).length ≤ 30 := by simpa using hb
  refine ⟨_, generateProof_single hf t _ hbt.stored hbt.size hbt.h2l hnd hsep k q hk hb', ?_⟩
  rw [hbt.root]
  exact verify_generated_single hf _ k q hk hb'

/-- the toy hash separates leaves and branches on leaves that do not start with a zero or a one -/
example : ((C11.appendTreeAll C11.pairHash (emptyTree C11.pairHash) [[7], [8], [9]]).bind
    fun t => (generateProof t [[8]]).map fun p => verifyProof C11.pairHash [[8]] p t.core.root) = some true := by
  decide +kernel

/-! ### soundness of `VerifyProof` for several indexes -/

/-- Soundness for several indexes: under injectivity of the branch hash, a proof accepted for distinct
leaf indexes against the root of `l` shows that every query is the hash of the leaf at its index
(the statement of `Props/C11.lean`, in full: any order of the indexes, no bound on the size). -/
theorem C11_proof_sound_multi : C11_proof_sound_multi_Statement := by
  intro hf hinj l pos q sibs hnd hlt hlen hv
  exact verify_sound_multi hf hinj l pos q sibs hnd hlt hlen hv

/-- non-vacuity: a proof for the leaves 3 and 1 (in this order) of a tree of five leaves is accepted -/
example : verifyProof C11.pairHash [[4], [2]]
    ⟨5, [3, 1].map (fun p => 2 ^ getHeight 5 + p), [[1], [3], [5]]⟩
    (rootH C11.pairHash [[1], [2], [3], [4], [5]]) = true := by
  decide +kernel

example : ([[1], [2], [3], [4], [5]] : List Bytes)[([3, 1] : List Nat)[0]]? = ([[4], [2]] : List Bytes)[0]? :=
  C11_proof_sound_multi C11.pairHash C11.pairHash_inj [[1], [2], [3], [4], [5]] [3, 1] [[4], [2]] [[1], [3], [5]]
    (by decide) (by decide) rfl (by decide +kernel) 0 (by decide)

/-! ### proof generation and verification, any set of leaves -/

private theorem getElem?_idxOf_mem (L : List Bytes) (x : Bytes) (hx : x ∈ L) : L[L.idxOf x]? = some x := by
  have hlt : L.idxOf x < L.length := List.idxOf_lt_length_iff.mpr hx
  rw [List.getElem?_eq_getElem hlt, List.getElem_idxOf hlt]

private theorem zip_idxOf (L : List Bytes) : ∀ (q : List Bytes), (∀ x ∈ q, x ∈ L) →
    ∀ e ∈ (q.map fun x => L.idxOf x).zip q, L[e.1]? = some e.2 := by
  intro q
  induction q with
  | nil => intro _ e he; cases he
  | cons x xs ih =>
    intro hq e he
    simp only [List.map_cons, List.zip_cons_cons, List.mem_cons] at he
    rcases he with rfl | he
    · exact getElem?_idxOf_mem L x (hq x (by simp))
    · exact ih (fun y hy => hq y (by simp [hy])) e he

/-- Completeness of `GenerateProof` + `VerifyProof` for any duplicate-free list of leaf hashes (in any
order): `C11_proof_complete_Statement` with two extra hypotheses — no branch hash equals a leaf hash
(domain separation; otherwise the `hash -> location` index may return an inner node for a query) and
height at most 30 (the 32-bit index parser of the implementation). -/
theorem C11_proof_complete_sets_partial (hf : HashFns) (data : List Bytes) (t : Tree) (q : List Bytes)
    (h : C11.appendTreeAll hf (emptyTree hf) data = some t) (hnd : (data.map hf.leaf).Nodup)
    (hne : q ≠ []) (hqnd : q.Nodup) (hq : ∀ x ∈ q, x ∈ data.map hf.leaf)
    (hsep : ∀ a b x, x ∈ data.map hf.leaf → hf.branch a b ≠ x) (hb : getHeight data.length ≤ 30) :
    ∃ p, generateProof t q = some p ∧ verifyProof hf q p t.core.root = true := by
  have hbt := C11_built hf data t h
  have hb' : getHeight (data.map hf.leaf).length ≤ 30 := by simpa using hb
  rw [hbt.root]
  refine generate_verify_multi hf t _ hbt.stored hbt.size hbt.h2l hnd hsep
    (q.map fun x => (data.map hf.leaf).idxOf x) q ?_ ?_ (by simp) (zip_idxOf _ q hq) hb'
  · rw [List.Nodup, List.pairwise_map]
    refine List.Pairwise.imp_of_mem ?_ hqnd
    intro a b ha hb hab e
    apply hab
    have h1 := getElem?_idxOf_mem _ a (hq a ha)
    have h2 := getElem?_idxOf_mem _ b (hq b hb)
    rw [e, h2] at h1
    exact (Option.some.inj h1).symm
  · intro e
    apply hne
    simpa using e

/-- domain separation of the toy hash on leaves that start with a byte other than 0 and 1 -/
private theorem pairHash_sep (a b x : Bytes) (hx : x ∈ ([[7], [8], [9], [10], [11]] : List Bytes)) :
    C11.pairHash.branch a b ≠ x := by
  intro e
  simp only [C11.pairHash] at e
  cases a with
  | nil =>
    simp only [List.length_nil, List.replicate_zero, List.nil_append] at e
    simp only [List.mem_cons, List.not_mem_nil, or_false] at hx
    rcases hx with rfl | rfl | rfl | rfl | rfl <;> simp at e
  | cons a0 ar =>
    simp only [List.length_cons, List.replicate_succ, List.cons_append] at e
    simp only [List.mem_cons, List.not_mem_nil, or_false] at hx
    rcases hx with rfl | rfl | rfl | rfl | rfl <;> simp at e

/-- non-vacuity: the hypotheses hold for a tree of five leaves and the queries `[10], [7], [9]` -/
example : ∃ t p, C11.appendTreeAll C11.pairHash (emptyTree C11.pairHash) [[7], [8], [9], [10], [11]] = some t ∧
    generateProof t [[10], [7], [9]] = some p ∧ verifyProof C11.pairHash [[10], [7], [9]] p t.core.root = true := by
  have hex : ∃ t, C11.appendTreeAll C11.pairHash (emptyTree C11.pairHash) [[7], [8], [9], [10], [11]] = some t := by
    cases h : C11.appendTreeAll C11.pairHash (emptyTree C11.pairHash) [[7], [8], [9], [10], [11]] with
    | none => exact absurd h (by decide +kernel)
    | some t => exact ⟨t, rfl⟩
  obtain ⟨t, ht⟩ := hex
  obtain ⟨p, h1, h2⟩ := C11_proof_complete_sets_partial C11.pairHash [[7], [8], [9], [10], [11]] t [[10], [7], [9]] ht
    (by decide) (by simp) (by decide) (by decide) (fun a b x hx => pairHash_sep a b x (by simpa [C11.pairHash] using hx))
    (by decide)
  exact ⟨t, p, ht, h1, h2⟩

/-! ### the statements of `Props/C11.lean` that are false as written -/

/-- `C11_right_witness_Statement` is false as written: for `2^64 + 1` leaves and the split point 3 the
right witness has 64 hashes, of which `CalculateRootFromRightWitness` can consume only 62 in its 64 layers;
it returns an error. (The bounded statement is `C11_right_witness_bounded_partial`.) -/
theorem C11_right_witness_Statement_false : ¬ C11_right_witness_Statement := by
  intro hS
  obtain ⟨t, ht⟩ := C11_append_total C11.pairHash (List.replicate (2 ^ 64 + 1) [])
  have hb := C11_built C11.pairHash _ t ht
  have hlen : ((List.replicate (2 ^ 64 + 1) ([] : Bytes)).map C11.pairHash.leaf).length = 2 ^ 64 + 1 := by
    rw [List.length_map, List.length_replicate]
  obtain ⟨w, hw1, hw2⟩ := hS C11.pairHash _ t 3 ht (by rw [List.length_replicate]; decide)
  obtain ⟨w', hw1', hw2'⟩ := rightWitness_fails C11.pairHash t _ hb.stored hb.size hlen
  rw [hw1] at hw1'
  have : w = w' := Option.some.inj hw1'
  subst this
  rw [← List.map_take] at hw2'
  rw [hw2'] at hw2
  cases hw2

private theorem replicate_two_inj : ∀ a b : Nat, List.replicate (a + 1) (2 : UInt8) = List.replicate (b + 1) 2 → a = b := by
  intro a b h
  have := congrArg List.length h
  simpa using this

private theorem pairHash_ne_replicate_two (a b : Bytes) (k : Nat) :
    C11.pairHash.branch a b ≠ List.replicate (k + 1) 2 := by
  intro e
  simp only [C11.pairHash] at e
  cases a with
  | nil => simp [List.replicate_succ] at e
  | cons a0 ar => simp [List.replicate_succ] at e

/-- `N` distinct leaves that are not branch hashes of the toy hash -/
private def bigData (N : Nat) : List Bytes := (List.range N).map fun k => List.replicate (k + 1) 2

private theorem locIndex_none_of_high (h : Nat) (hh : 30 < h) : locIndex (0, 0) h = none := by
  unfold locIndex
  simp only
  rw [if_neg (by omega)]
  have hw : 31 ≤ max (h - 0) (bitLen 0) := by
    have : h - 0 ≤ max (h - 0) (bitLen 0) := Nat.le_max_left _ _
    omega
  have : 2 ^ 31 ≤ 2 ^ max (h - 0) (bitLen 0) := Nat.pow_le_pow_right (by decide) hw
  rw [if_pos (by omega)]

private theorem generateProof_fails (N : Nat) (hN : 1 ≤ N) (hH : 30 < getHeight N) (t : Tree)
    (ht : C11.appendTreeAll C11.pairHash (emptyTree C11.pairHash) (bigData N) = some t) :
    (bigData N).map C11.pairHash.leaf = bigData N ∧ ((bigData N).map C11.pairHash.leaf).Nodup ∧
    [2] ∈ bigData N ∧ generateProof t [[2]] = none := by
  have hlen : (bigData N).length = N := by simp [bigData]
  have hleaf : (bigData N).map C11.pairHash.leaf = bigData N := by simp [C11.pairHash]
  have hnd : (bigData N).Nodup :=
    List.Pairwise.map _ (fun a b (hab : a ≠ b) e => hab (replicate_two_inj a b e)) List.nodup_range
  have h0 : (bigData N)[0]? = some [2] := by
    unfold bigData
    rw [List.getElem?_map, List.getElem?_range (by omega)]
    rfl
  have hmem : ([2] : Bytes) ∈ bigData N := List.mem_of_getElem? h0
  have hb := C11_built C11.pairHash (bigData N) t ht
  rw [hleaf] at hb
  have hloc : t.getLoc [2] = some (0, 0) :=
    getLoc_leaf C11.pairHash t (bigData N) hb.h2l hnd (by
      intro a b x hx
      simp only [bigData, List.mem_map, List.mem_range] at hx
      obtain ⟨k, _, rfl⟩ := hx
      exact pairHash_ne_replicate_two a b k) 0 [2] h0
  refine ⟨hleaf, by rw [hleaf]; exact hnd, hmem, ?_⟩
  unfold generateProof
  rw [hb.size, hlen, if_neg (by omega)]
  simp only [getIndexes, hloc, locIndex_none_of_high _ hH]

private theorem getHeight_big : getHeight (2 ^ 29 + 1) = 31 := by
  unfold getHeight clog2
  rw [if_neg (by decide), Nat.add_sub_cancel, Nat.log2_two_pow]

/-- `C11_proof_complete_Statement` is false as written: for a tree of `2^29 + 1` leaves (height 31) the
index of a leaf does not fit the 32-bit index parser and `GenerateProof` returns an error. -/
theorem C11_proof_complete_Statement_false : ¬ C11_proof_complete_Statement := by
  intro hS
  obtain ⟨t, ht⟩ := C11_append_total C11.pairHash (bigData (2 ^ 29 + 1))
  obtain ⟨hleaf, hnd, hmem, hnone⟩ := generateProof_fails (2 ^ 29 + 1) (by omega) (by rw [getHeight_big]; decide) t ht
  obtain ⟨p, hp, _⟩ := hS C11.pairHash (bigData (2 ^ 29 + 1)) t [[2]] ht hnd (by simp) (by simp) (by
    intro x hx
    simp only [List.mem_singleton] at hx
    rw [hx, hleaf]; exact hmem)
  rw [hnone] at hp
  cases hp
