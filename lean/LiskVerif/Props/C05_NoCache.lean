/-
C05 — no component that takes part in apply / delete keeps consensus state in memory (tie A + the reason).

Props/C05.lean and C05_More.lean prove for the node model that `delete ∘ apply` restores the PERSISTENT state
(`C05_delete_apply_identity`, `C05_delete_apply_all_keys`), that the persistent state is a function of the chain
(`C05_state_function_of_chain`) and that a reorganisation is confluent (`C05_reorg_confluence`); Props/C02_Fork.lean
proves for the BFT model that the state after any history of blocks, deleted tips, dropped candidates and restarts
is the state of a fresh node that processed only the chain which is left (`C02_history_independent`).  In all of
them the execution of a block is a function of the persistent state it is applied to.  The real node is made of
objects (`liskbft.Module`, its `API`, `blockchain.Chain`, `DataAccess`, `consensus.Executer`) that live across
blocks; `Executer.deleteBlock` reverts the database underneath them and cannot revert a struct field.  The
theorems carry over to the BEHAVIOUR of the node only if these objects compute from the persistent state alone.

Part 1 (semantics, all machines and histories): a node is a persistent state `P`, component memory `H` and a step
function.  If the persistent effect of a step does not depend on `H` (`ReadsPersistedOnly`) and deletion restores the
persistent state (`DeleteInverts` — what the theorems named above establish for the models), then after ANY history
of applied blocks, rejected blocks, candidates computed on a dropped store (forged by the node itself), deleted tips
and restarts the node is in the persistent state of a fresh node that was given only the surviving chain, that node
accepts every block of it, and both accept exactly the same next block with the same result.  A toy parameter cache
kept in `H` across blocks — the persistent state is restored exactly by every deletion — violates the conclusion
after a reorganisation of depth 2, and of depth 1 when the node computed a candidate for the next height.

Part 2 (tie A): tools/compgen regenerates `Gen/CompState.lean` from pkg/consensus/liskbft, pkg/blockchain and
pkg/consensus on every check run: every struct field with a syntactic kind of its type, every method of the
components, every write to a component field (assignment, index assignment, append, delete(), inc/dec, address
taken), constructor initialisers and constructor calls, package-level variables and their writers.  The theorems
state the exact tables: a new field of `liskbft.Module` (a retained parameter store), a method that writes a
receiver field, a per-call cache that is handed a shared map, a package-level memo, a new writer of the chain /
executer fields breaks a named theorem.
Out of scope of the tables (stated in tools/compgen/main.go): writes through an alias of a field, through a method
called on the value of a field, and inside a function a field is passed to.
-/
import LiskVerif.Gen.CompState
import LiskVerif.Props.C02_Fork

/-! ## Part 1: why the components must not remember -/

namespace LiskVerif.NoHidden

/-- a node: persistent state `P` (the database), component memory `H` (struct fields), blocks `B`.
`apply p h b` = (the new persistent state if the block is accepted, the new memory); the memory may change even if
the block is rejected or its store is dropped.  `delete` removes the tip.  `h0` = the memory of a fresh object. -/
structure Machine (P H B : Type) where
  apply : P → H → B → Option P × H
  delete : P → H → P × H
  h0 : H

/-- one step of a node's history -/
inductive Hist (B : Type) where
  /-- a block is offered: applied, or rejected -/
  | block (b : B)
  /-- the tip block is deleted (no-op on the bare genesis state) -/
  | delete
  /-- the objects are replaced by new ones over the same database -/
  | restart
  /-- a candidate is computed on a staged store that is dropped (the node forges, or validation fails late) -/
  | candidate (b : B)

/-- the node with its history: persistent state, memory, and the chain which is left -/
structure NodeSt (P H B : Type) where
  p : P
  h : H
  kept : List B

variable {P H B : Type}

def hstep (m : Machine P H B) (w : NodeSt P H B) : Hist B → NodeSt P H B
  | .block b =>
    match (m.apply w.p w.h b).1 with
    | some p' => { p := p', h := (m.apply w.p w.h b).2, kept := w.kept ++ [b] }
    | none => { w with h := (m.apply w.p w.h b).2 }
  | .delete =>
    match w.kept with
    | [] => w
    | _ :: _ => { p := (m.delete w.p w.h).1, h := (m.delete w.p w.h).2, kept := w.kept.dropLast }
  | .restart => { w with h := m.h0 }
  | .candidate b => { w with h := (m.apply w.p w.h b).2 }

def hrun (m : Machine P H B) (w : NodeSt P H B) (hs : List (Hist B)) : NodeSt P H B := hs.foldl (hstep m) w

/-- a node that starts on the persistent state `p0` -/
def hinit (m : Machine P H B) (p0 : P) : NodeSt P H B := { p := p0, h := m.h0, kept := [] }

/-- the FRESH node: new objects, given the blocks of a chain in order -/
def fstep (m : Machine P H B) (s : P × H) (b : B) : P × H :=
  match (m.apply s.1 s.2 b).1 with
  | some p' => (p', (m.apply s.1 s.2 b).2)
  | none => (s.1, (m.apply s.1 s.2 b).2)

def fresh (m : Machine P H B) (p0 : P) (c : List B) : P × H := c.foldl (fstep m) (p0, m.h0)

/-- the persistent state after a chain all of whose blocks are accepted (by objects without memory) -/
def prun (m : Machine P H B) : P → List B → Option P
  | p, [] => some p
  | p, b :: c =>
    match (m.apply p m.h0 b).1 with
    | some p' => prun m p' c
    | none => none

/-- the persistent effect of a step is a function of the persistent state: nothing is read from memory -/
def ReadsPersistedOnly (m : Machine P H B) : Prop :=
  (∀ p h h' b, (m.apply p h b).1 = (m.apply p h' b).1) ∧ (∀ p h h', (m.delete p h).1 = (m.delete p h').1)

/-- deleting an applied block restores the persistent state (on the states satisfying `Inv`, which steps preserve) -/
def DeleteInverts (m : Machine P H B) (Inv : P → Prop) : Prop :=
  ∀ p h b p', Inv p → (m.apply p h b).1 = some p' → Inv p' ∧ ∀ h', (m.delete p' h').1 = p

theorem readsPersistedOnly_of_subsingleton [Subsingleton H] (m : Machine P H B) : ReadsPersistedOnly m :=
  ⟨fun p h h' b => by rw [Subsingleton.elim h h'], fun p h h' => by rw [Subsingleton.elim h h']⟩

private theorem prun_snoc (m : Machine P H B) (p : P) (c : List B) (b : B) :
    prun m p (c ++ [b]) = (prun m p c).bind (fun q => (m.apply q m.h0 b).1) := by
  induction c generalizing p with
  | nil =>
    simp only [List.nil_append, prun, Option.bind]
    cases (m.apply p m.h0 b).1 <;> rfl
  | cons a t ih =>
    simp only [List.cons_append, prun]
    cases (m.apply p m.h0 a).1 with
    | none => rfl
    | some p' => exact ih p'

private theorem prun_inv (m : Machine P H B) (Inv : P → Prop) (hdi : DeleteInverts m Inv) (c : List B) :
    ∀ p q, Inv p → prun m p c = some q → Inv q := by
  induction c with
  | nil => intro p q hp h; simp only [prun, Option.some.injEq] at h; exact h ▸ hp
  | cons a t ih =>
    intro p q hp h
    simp only [prun] at h
    cases ha : (m.apply p m.h0 a).1 with
    | none => rw [ha] at h; cases h
    | some p' => rw [ha] at h; exact ih p' q (hdi p m.h0 a p' hp ha).1 h

private theorem fresh_of_prun (m : Machine P H B) (hro : ReadsPersistedOnly m) (c : List B) :
    ∀ p h q, prun m p c = some q → (c.foldl (fstep m) (p, h)).1 = q := by
  induction c with
  | nil => intro p h q hq; simp only [prun, Option.some.injEq] at hq; simpa using hq
  | cons a t ih =>
    intro p h q hq
    simp only [prun] at hq
    cases ha : (m.apply p m.h0 a).1 with
    | none => rw [ha] at hq; cases hq
    | some p' =>
      rw [ha] at hq
      have ha' : (m.apply p h a).1 = some p' := by rw [hro.1 p h m.h0 a]; exact ha
      have hs : fstep m (p, h) a = (p', (m.apply p h a).2) := by simp only [fstep, ha']
      simp only [List.foldl_cons, hs]
      exact ih p' _ q hq

private def NodeOk (m : Machine P H B) (p0 : P) (w : NodeSt P H B) : Prop :=
  prun m p0 w.kept = some w.p

private theorem nodeOk_step (m : Machine P H B) (Inv : P → Prop) (hro : ReadsPersistedOnly m)
    (hdi : DeleteInverts m Inv) (p0 : P) (hI : Inv p0) (w : NodeSt P H B) (x : Hist B)
    (hw : NodeOk m p0 w) : NodeOk m p0 (hstep m w x) := by
  unfold NodeOk at *
  cases x with
  | block b =>
    cases ha : (m.apply w.p w.h b).1 with
    | none => simp only [hstep, ha]; exact hw
    | some p' =>
      simp only [hstep, ha]
      rw [prun_snoc, hw]
      show (m.apply w.p m.h0 b).1 = some p'
      rw [← hro.1 w.p w.h m.h0 b]; exact ha
  | delete =>
    cases hk : w.kept with
    | nil => simp only [hstep, hk]; rw [hk] at hw; exact hw
    | cons a t =>
      simp only [hstep, hk]
      -- the chain is l ++ [b]
      have hne : (a :: t) ≠ [] := List.cons_ne_nil a t
      have hsplit : a :: t = (a :: t).dropLast ++ [(a :: t).getLast hne] := (List.dropLast_concat_getLast hne).symm
      rw [hk, hsplit, prun_snoc] at hw
      cases hl : prun m p0 (a :: t).dropLast with
      | none => rw [hl] at hw; cases hw
      | some pl =>
        rw [hl] at hw
        simp only [Option.bind] at hw
        have hIl : Inv pl := prun_inv m Inv hdi _ p0 pl hI hl
        rw [(hdi pl m.h0 _ w.p hIl hw).2 w.h]
  | restart => exact hw
  | candidate b => exact hw

private theorem nodeOk_run (m : Machine P H B) (Inv : P → Prop) (hro : ReadsPersistedOnly m)
    (hdi : DeleteInverts m Inv) (p0 : P) (hI : Inv p0) (hs : List (Hist B)) :
    ∀ w, NodeOk m p0 w → NodeOk m p0 (hrun m w hs) := by
  induction hs with
  | nil => intro w hw; exact hw
  | cons x t ih => intro w hw; exact ih (hstep m w x) (nodeOk_step m Inv hro hdi p0 hI w x hw)

end LiskVerif.NoHidden

open LiskVerif LiskVerif.NoHidden

/-- **No hidden state ⇒ every history is confluent with the fresh node.**  If the persistent effect of apply and
delete is a function of the persistent state and deletion restores it, then after ANY history (blocks applied or
rejected, candidates computed on dropped stores, tips deleted to any depth, repeatedly, restarts):
the fresh node that is given only the surviving chain accepts every block of it and ends in the persistent state of
the node with the history; and the two accept exactly the same next block, with the same resulting state. -/
theorem C05_no_hidden_state_confluent {P H B : Type} (m : Machine P H B) (Inv : P → Prop)
    (hro : ReadsPersistedOnly m) (hdi : DeleteInverts m Inv) (p0 : P) (hI : Inv p0) (hs : List (Hist B)) :
    prun m p0 (hrun m (hinit m p0) hs).kept = some (hrun m (hinit m p0) hs).p ∧
    (fresh m p0 (hrun m (hinit m p0) hs).kept).1 = (hrun m (hinit m p0) hs).p ∧
    ∀ b, (m.apply (hrun m (hinit m p0) hs).p (hrun m (hinit m p0) hs).h b).1 =
      (m.apply (fresh m p0 (hrun m (hinit m p0) hs).kept).1 (fresh m p0 (hrun m (hinit m p0) hs).kept).2 b).1 := by
  have hok : prun m p0 (hrun m (hinit m p0) hs).kept = some (hrun m (hinit m p0) hs).p :=
    nodeOk_run m Inv hro hdi p0 hI hs (hinit m p0) rfl
  have hf := fresh_of_prun m hro _ p0 m.h0 _ hok
  refine ⟨hok, hf, ?_⟩
  intro b
  unfold fresh at *
  rw [hf]
  exact hro.1 _ _ _ b

/-- two nodes whose histories leave the same chain are in the same persistent state, whatever each of them saw -/
theorem C05_same_chain_same_state {P H B : Type} (m : Machine P H B) (Inv : P → Prop)
    (hro : ReadsPersistedOnly m) (hdi : DeleteInverts m Inv) (p0 : P) (hI : Inv p0) (hs₁ hs₂ : List (Hist B))
    (h : (hrun m (hinit m p0) hs₁).kept = (hrun m (hinit m p0) hs₂).kept) :
    (hrun m (hinit m p0) hs₁).p = (hrun m (hinit m p0) hs₂).p := by
  have h1 := (C05_no_hidden_state_confluent m Inv hro hdi p0 hI hs₁).1
  have h2 := (C05_no_hidden_state_confluent m Inv hro hdi p0 hI hs₂).1
  rw [h, h2] at h1
  exact (Option.some.inj h1).symm

/-! ### the BFT model of C01 / C02 is such a machine -/

namespace LiskVerif.NoHidden

/-- the BFT model as a machine: the persistent state is the BFT store together with the stored state diffs (here:
the states before each block on the chain, newest first); the model has NO component memory (`H = Unit`) -/
def bftMachine : Machine (List BFT.State) Unit BFT.Header where
  apply st _ h :=
    match st with
    | [] => (none, ())
    | s :: r =>
      match BFT.process s h with
      | .ok s' => (some (s' :: s :: r), ())
      | .error _ => (none, ())
  delete st _ := (st.tail, ())
  h0 := ()

end LiskVerif.NoHidden

/-- the general theorem applies to the BFT model (`process` of Model/BFT.lean — the model the real
`liskbft.Module.BeforeTransactionsExecute` is compared with line by line in C01 / C02): a node without component
memory is history independent.  (`C02_history_independent` is the same fact with parameter changes and restarts of
the module object as events of their own.) -/
theorem C05_bft_model_has_no_hidden_state (s0 : BFT.State) (hs : List (Hist BFT.Header)) :
    prun bftMachine [s0] (hrun bftMachine (hinit bftMachine [s0]) hs).kept =
      some (hrun bftMachine (hinit bftMachine [s0]) hs).p := by
  refine (C05_no_hidden_state_confluent bftMachine (fun _ => True)
    (readsPersistedOnly_of_subsingleton bftMachine) ?_ [s0] trivial hs).1
  intro p h b p' _ hp
  refine ⟨trivial, fun _ => ?_⟩
  cases p with
  | nil => simp [bftMachine] at hp
  | cons s r =>
    simp only [bftMachine] at hp ⊢
    cases hpr : BFT.process s b with
    | error e => rw [hpr] at hp; simp at hp
    | ok s' =>
      rw [hpr] at hp
      simp only [Option.some.injEq] at hp
      rw [← hp]; rfl

/-! ### the defect class: a parameter cache kept in the module object across blocks -/

namespace LiskVerif.NoHidden.Toy

/-- persistent state: the BFT parameter ("who generates the next block") written for each height, newest first —
`p.length` is the height of the next block.  A block `(gen, next)` is valid iff `gen` is the parameter in force; it
writes `next` for the height after.  Deleting the tip removes what the block wrote. -/
def paramInForce (p : List Nat) : Nat := p.headD 0

/-- the module as it is: the parameters are read from the store for every block -/
def honest : Machine (List Nat) Unit (Nat × Nat) where
  apply p _ b := (if paramInForce p = b.1 then some (b.2 :: p) else none, ())
  delete p _ := (p.tail, ())
  h0 := ()

/-- the module with a parameter cache kept across blocks: "the parameters of a height that was decoded once never
change" — true on a growing chain, false once `delete` reverts the store underneath -/
def cached : Machine (List Nat) (List (Nat × Nat)) (Nat × Nat) where
  apply p h b :=
    let par := match h.lookup p.length with | some v => v | none => paramInForce p
    (if par = b.1 then some (b.2 :: p) else none,
     if (h.lookup p.length).isSome then h else (p.length, par) :: h)
  delete p h := (p.tail, h)
  h0 := []

/-- branch A: block 1 by generator 1 hands over to 3, block 2 by 3; both deleted; branch B: block 1 by 1 hands over to 2 -/
def reorgDepth2 : List (Hist (Nat × Nat)) := [.block (1, 3), .block (3, 3), .delete, .delete, .block (1, 2)]

/-- depth 1: the node computed a candidate for height 2 (it is itself the generator 3) before block 1 was replaced -/
def reorgDepth1Forged : List (Hist (Nat × Nat)) := [.block (1, 3), .candidate (3, 3), .delete, .block (1, 2)]

end LiskVerif.NoHidden.Toy

open LiskVerif.NoHidden.Toy in
/-- **THE DEFECT CLASS.**  The cache machine restores the persistent state exactly on every deletion
(`DeleteInverts`), and after the reorganisation the node's persistent state IS the state of the fresh node that
was given only the surviving chain `[(1, 2)]` — yet the next block `(2, 2)` (by the generator the store names) is
REJECTED by the node and accepted by the fresh node: the step is not a function of the persistent state
(`ReadsPersistedOnly` fails).  Depth 2, and depth 1 when the node computed a candidate for the next height. -/
theorem C05_hidden_cache_counterexample :
    DeleteInverts cached (fun _ => True) ∧ ¬ ReadsPersistedOnly cached ∧
    (let w := hrun cached (hinit cached [1]) reorgDepth2
     w.kept = [(1, 2)] ∧ w.p = (fresh cached [1] w.kept).1 ∧
     (cached.apply w.p w.h (2, 2)).1 = none ∧
     (cached.apply (fresh cached [1] w.kept).1 (fresh cached [1] w.kept).2 (2, 2)).1 = some [2, 2, 1]) ∧
    (let w := hrun cached (hinit cached [1]) reorgDepth1Forged
     w.kept = [(1, 2)] ∧ w.p = (fresh cached [1] w.kept).1 ∧
     (cached.apply w.p w.h (2, 2)).1 = none ∧
     (cached.apply (fresh cached [1] w.kept).1 (fresh cached [1] w.kept).2 (2, 2)).1 = some [2, 2, 1]) := by
  refine ⟨?_, ?_, by decide, by decide⟩
  · intro p h b p' _ hp
    refine ⟨trivial, fun _ => ?_⟩
    have hp' : (if (match h.lookup p.length with | some v => v | none => paramInForce p) = b.1
        then some (b.2 :: p) else none) = some p' := hp
    by_cases hc : (match h.lookup p.length with | some v => v | none => paramInForce p) = b.1
    · rw [if_pos hc] at hp'; simp only [Option.some.injEq] at hp'; rw [← hp']; rfl
    · rw [if_neg hc] at hp'; cases hp'
  · intro hro
    have := hro.1 [2, 1] [] [(2, 3)] (2, 2)
    revert this
    decide

open LiskVerif.NoHidden.Toy in
/-- non-vacuity of `C05_no_hidden_state_confluent`: the honest machine satisfies both hypotheses, and on the same
two histories the node accepts the block the fresh node accepts -/
example :
    ReadsPersistedOnly honest ∧ DeleteInverts honest (fun _ => True) ∧
    (honest.apply (hrun honest (hinit honest [1]) reorgDepth2).p () (2, 2)).1 = some [2, 2, 1] ∧
    (honest.apply (hrun honest (hinit honest [1]) reorgDepth1Forged).p () (2, 2)).1 = some [2, 2, 1] := by
  refine ⟨readsPersistedOnly_of_subsingleton honest, ?_, by decide, by decide⟩
  intro p h b p' _ hp
  refine ⟨trivial, fun _ => ?_⟩
  have hp' : (if paramInForce p = b.1 then some (b.2 :: p) else none) = some p' := hp
  by_cases hc : paramInForce p = b.1
  · rw [if_pos hc] at hp'; simp only [Option.some.injEq] at hp'; rw [← hp']; rfl
  · rw [if_neg hc] at hp'; cases hp'

/-! ## Part 2: the components hold configuration and references only (regenerated facts) -/

namespace LiskVerif.NoHidden

open LiskVerif.Gen.CompState

/-- (name, type, kind) of the fields of a struct, in declaration order -/
def fieldsOf (pkg strct : String) : List (String × String × String) :=
  (fields.filter (fun f => f.pkg == pkg && f.strct == strct)).map (fun f => (f.name, f.typ, f.kind))

/-- (function, field, how) of every write to a field of a component struct, in source order -/
def writesOf (pkg strct : String) : List (String × String × String) :=
  (writes.filter (fun w => w.pkg == pkg && w.strct == strct)).map (fun w => (w.fn, w.field, w.how))

/-- (function, field, value) of every composite-literal element of a component struct -/
def initsOf (pkg strct : String) : List (String × String × String) :=
  (inits.filter (fun i => i.pkg == pkg && i.strct == strct)).map (fun i => (i.fn, i.field, i.value))

def isPrefixL : List Char → List Char → Bool
  | [], _ => true
  | _ :: _, [] => false
  | a :: as, b :: bs => a == b && isPrefixL as bs

def containsL (needle : List Char) : List Char → Bool
  | [] => needle.isEmpty
  | c :: cs => isPrefixL needle (c :: cs) || containsL needle cs

/-- the type text mentions the name -/
def mentions (typ name : String) : Bool := containsL name.toList typ.toList

def isComponent (pkg strct : String) : Bool := components.contains (pkg, strct)

/-- kinds of a type that cannot remember anything by themselves -/
def plainKind (k : String) : Bool := k == "basic" || k == "local:basic"

end LiskVerif.NoHidden

open LiskVerif.Gen.CompState

/-- the components whose fields, methods and writers the tables below describe -/
theorem C05_components_exact :
    components =
      [("consensus/liskbft", "Module"), ("consensus/liskbft", "API"), ("consensus/liskbft", "Endpoint"),
       ("consensus/liskbft", "bftParamsCache"), ("blockchain", "Chain"), ("blockchain", "DataAccess"),
       ("blockchain", "blockCache"), ("consensus", "Executer")] := by decide +kernel

/-- **`liskbft.Module`, `API`, `Endpoint` hold configuration only**: the exact field lists.  A decoded-parameter
store, cached votes or heights, a mutex guarding shared data would be a new field. -/
theorem C05_bft_module_fields_exact :
    fieldsOf "consensus/liskbft" "Module" =
      [("batchSize", "int", "basic"), ("maxLengthBlock", "int", "basic"), ("api", "*API", "pointer"),
       ("endpoint", "*Endpoint", "pointer")] ∧
    fieldsOf "consensus/liskbft" "API" = [("moduleID", "uint32", "basic"), ("batchSize", "int", "basic")] ∧
    fieldsOf "consensus/liskbft" "Endpoint" = [("moduleID", "uint32", "basic")] := by decide +kernel

/-- **no method of the BFT module writes a receiver field, except `Init`** (and the `init` of API / Endpoint it
calls): the exact write tables; `NewModule` fills only the two component references, with empty objects. -/
theorem C05_bft_module_written_only_by_init :
    writesOf "consensus/liskbft" "Module" =
      [("Module.Init", "batchSize", "assign"), ("Module.Init", "maxLengthBlock", "assign")] ∧
    writesOf "consensus/liskbft" "API" = [("API.init", "moduleID", "assign"), ("API.init", "batchSize", "assign")] ∧
    writesOf "consensus/liskbft" "Endpoint" = [("Endpoint.init", "moduleID", "assign")] ∧
    initsOf "consensus/liskbft" "Module" = [("NewModule", "api", "&API{}"), ("NewModule", "endpoint", "&Endpoint{}")] ∧
    initsOf "consensus/liskbft" "API" = [] ∧ initsOf "consensus/liskbft" "Endpoint" = [] ∧
    ((methods.filter (fun m => m.pkg == "consensus/liskbft" && m.strct == "Module")).map (·.name)) =
      ["Init", "ID", "Name", "Endpoint", "API", "InitGenesisState", "BeforeTransactionsExecute"] := by decide +kernel

/-- **no map / slice / channel / function / struct / foreign-typed field in Module, API, Endpoint**; the only fields
that are not plain values are the two justified references `Module.api` and `Module.endpoint` — pointers to the two
components whose own fields are plain values (previous theorems), created once by `NewModule`. -/
theorem C05_bft_no_mutable_container_fields :
    ((fields.filter (fun f => f.pkg == "consensus/liskbft" &&
        (f.strct == "Module" || f.strct == "API" || f.strct == "Endpoint") && !plainKind f.kind)).map
      (fun f => (f.strct, f.name, f.typ))) = [("Module", "api", "*API"), ("Module", "endpoint", "*Endpoint")] ∧
    (fieldsOf "consensus/liskbft" "API").all (fun f => plainKind f.2.2) = true ∧
    (fieldsOf "consensus/liskbft" "Endpoint").all (fun f => plainKind f.2.2) = true := by decide +kernel

/-- **the decoded-parameter cache is per call**: `bftParamsCache` is the only struct of pkg/consensus/liskbft with a
map field; its single constructor creates the map (`make`) — it is not handed a map that lives elsewhere —; the
constructor is called exactly once, in `Module.BeforeTransactionsExecute`, and bound to a new local; no struct
field of the three packages has a type mentioning it (it is never stored); its writers are its own two methods. -/
theorem C05_params_cache_is_per_call :
    ((fields.filter (fun f => f.pkg == "consensus/liskbft" && f.kind == "map")).map (fun f => (f.strct, f.name, f.typ))) =
      [("bftParamsCache", "data", "map[uint32]*BFTParams")] ∧
    fieldsOf "consensus/liskbft" "bftParamsCache" =
      [("paramsStore", "statemachine.ImmutableStore", "extern"), ("data", "map[uint32]*BFTParams", "map")] ∧
    initsOf "consensus/liskbft" "bftParamsCache" =
      [("newBFTParamsCache", "paramsStore", "paramsStore"), ("newBFTParamsCache", "data", "make(map[uint32]*BFTParams)")] ∧
    ((ctorCalls.filter (fun c => c.callee == "newBFTParamsCache")).map (fun c => (c.fn, c.bind, c.target))) =
      [("Module.BeforeTransactionsExecute", "define", "paramsCache")] ∧
    (fields.filter (fun f => mentions f.typ "bftParamsCache")) = [] ∧
    writesOf "consensus/liskbft" "bftParamsCache" =
      [("bftParamsCache.cache", "data", "index-assign"), ("bftParamsCache.GetParameters", "data", "index-assign")] := by
  decide +kernel

/-- **no package-level memo**: the package-level variables of the three packages that are not plain values are
constants in effect (the empty key, two sentinel errors, the empty hash, two signing tags, one compiled regular
expression), and NO function assigns to, appends to, indexes into or deletes from a package-level variable. -/
theorem C05_no_package_level_memo :
    ((globals.filter (fun g => !plainKind g.kind)).map (fun g => (g.pkg, g.name, g.kind, g.init))) =
      [("consensus/liskbft", "emptyKey", "slice", "[]byte{}"),
       ("consensus/liskbft", "ErrBFTParamsNotFound", "call", "errors.New(\"bFT parameters does not exist\")"),
       ("consensus/liskbft", "ErrGeneratorKeysNotFound", "call", "errors.New(\"generator keys does not exist\")"),
       ("blockchain", "emptyHash", "call", "crypto.Hash([]byte{})"),
       ("blockchain", "TagBlockHeader", "slice", "[]byte(\"LSK_BH_\")"),
       ("blockchain", "TagTransaction", "slice", "[]byte(\"LSK_TX_\")"),
       ("blockchain", "alphanumericRegex", "call", "regexp.MustCompile(\"^[a-zA-Z0-9]*$\")")] ∧
    globalWrites = [] := by decide +kernel

/-- **`blockchain.Chain` and `DataAccess`**: exact fields; `Chain` is written by `Chain.Init` only, `DataAccess` by
nobody after its constructor.  The one piece of memory below them is the block cache (next theorem). -/
theorem C05_chain_and_data_access_writes_exact :
    fieldsOf "blockchain" "Chain" =
      [("maxTransactionsLength", "uint32", "basic"), ("maxBlockCache", "int", "basic"), ("chainID", "codec.Hex", "extern"),
       ("keepEventsForHeights", "int", "basic"), ("database", "*db.DB", "pointer"), ("dataAccess", "*DataAccess", "pointer"),
       ("genesisBlock", "*Block", "pointer")] ∧
    writesOf "blockchain" "Chain" =
      [("Chain.Init", "database", "assign"), ("Chain.Init", "dataAccess", "assign"), ("Chain.Init", "genesisBlock", "assign")] ∧
    initsOf "blockchain" "Chain" =
      [("NewChain", "chainID", "cfg.ChainID"), ("NewChain", "maxTransactionsLength", "cfg.MaxTransactionsLength"),
       ("NewChain", "maxBlockCache", "cfg.MaxBlockCache"), ("NewChain", "keepEventsForHeights", "cfg.KeepEventsForHeights")] ∧
    fieldsOf "blockchain" "DataAccess" =
      [("database", "*db.DB", "pointer"), ("cache", "*blockCache", "pointer"), ("keepEventsForHeights", "int", "basic")] ∧
    writesOf "blockchain" "DataAccess" = [] ∧
    initsOf "blockchain" "DataAccess" =
      [("NewDataAccess", "database", "db"), ("NewDataAccess", "cache", "newBlockCache(maxCacheSize)"),
       ("NewDataAccess", "keepEventsForHeights", "keepEventsForHeights")] := by decide +kernel

/-- **the block cache is the memory of the chain, and exactly this**: two maps, a size and the current height,
written by `push`, `pop` and `replace` only (the (method, field, how) table).  It IS part of the model
(`Node.St.cache`): `C05_cache_restored`, `C05_cached_tip_restored`, `C04_cache_loaded` and the C20CACHE correspondence
cover what it holds after apply / delete; a further memo next to it would be a new field or a new writer. -/
theorem C05_block_cache_writes_exact :
    fieldsOf "blockchain" "blockCache" =
      [("cachedBlocks", "map[string]*Block", "map"), ("heightIndex", "map[uint32]string", "map"), ("size", "int", "basic"),
       ("maxSize", "int", "basic"), ("currentHeight", "uint32", "basic"), ("mutex", "*sync.RWMutex", "pointer")] ∧
    writesOf "blockchain" "blockCache" =
      [("blockCache.push", "heightIndex", "delete"), ("blockCache.push", "cachedBlocks", "delete"),
       ("blockCache.push", "size", "incdec"), ("blockCache.push", "cachedBlocks", "index-assign"),
       ("blockCache.push", "heightIndex", "index-assign"), ("blockCache.push", "currentHeight", "assign"),
       ("blockCache.push", "size", "incdec"),
       ("blockCache.pop", "heightIndex", "delete"), ("blockCache.pop", "cachedBlocks", "delete"),
       ("blockCache.pop", "size", "incdec"), ("blockCache.pop", "currentHeight", "incdec"),
       ("blockCache.replace", "cachedBlocks", "assign"), ("blockCache.replace", "heightIndex", "assign"),
       ("blockCache.replace", "size", "assign"), ("blockCache.replace", "cachedBlocks", "index-assign"),
       ("blockCache.replace", "heightIndex", "index-assign"), ("blockCache.replace", "currentHeight", "assign"),
       ("blockCache.replace", "size", "incdec")] ∧
    ((fields.filter (fun f => f.pkg == "blockchain" && mentions f.typ "blockCache")).map (fun f => (f.strct, f.name))) =
      [("DataAccess", "cache")] := by decide +kernel

/-- **`consensus.Executer`**: exact fields (configuration, component references, channels) and the exact write
table: `Init` fills six references; afterwards only `process` writes, and only `lastBlockReceived` (the receive
time of the tip: an INPUT of the fork-choice tie-break, `rl` in the model) and `syncying` (set around a sync).
Neither is read by `processValidated` / `deleteBlock` / `verifyBlock`; a cached height, store or parameter set
would be a new field or a new row. -/
theorem C05_executer_writes_exact :
    fieldsOf "consensus" "Executer" =
      [("blockTime", "uint32", "basic"), ("batchSize", "int", "basic"), ("abi", "labi.ABI", "extern"),
       ("chain", "*blockchain.Chain", "pointer"), ("conn", "*p2p.Connection", "pointer"),
       ("certificatePool", "*certificate.Pool", "pointer"), ("liskBFT", "*liskbft.Module", "pointer"),
       ("ctx", "context.Context", "extern"), ("database", "*db.DB", "pointer"), ("logger", "log.Logger", "extern"),
       ("blockSlot", "*validator.BlockSlot", "pointer"), ("syncying", "bool", "basic"),
       ("events", "*event.EventEmitter", "pointer"), ("processCh", "chan *ProcessContext", "chan"),
       ("closeCh", "chan bool", "chan"), ("syncer", "*sync.Syncer", "pointer"),
       ("lastBlockReceived", "*time.Time", "pointer"), ("certificateTime", "*time.Ticker", "pointer")] ∧
    writesOf "consensus" "Executer" =
      [("Executer.Init", "ctx", "assign"), ("Executer.Init", "logger", "assign"), ("Executer.Init", "database", "assign"),
       ("Executer.Init", "certificateTime", "assign"), ("Executer.Init", "blockSlot", "assign"),
       ("Executer.Init", "syncer", "assign"),
       ("Executer.process", "lastBlockReceived", "assign"), ("Executer.process", "lastBlockReceived", "assign"),
       ("Executer.process", "syncying", "assign"), ("Executer.process", "syncying", "assign")] ∧
    ((fields.filter (fun f => f.pkg == "consensus" && f.strct == "Executer" && (f.kind == "map" || f.kind == "slice"))) = []) := by
  decide +kernel

/-- the components are created once and wired by reference: the module inside `NewExecuter`, the data access layer
inside `Chain.Init`, the block cache inside `NewDataAccess`, the parameter cache per block (see above) -/
theorem C05_constructor_calls_exact :
    ctorCalls.map (fun c => (c.fn, c.callee, c.bind, c.target)) =
      [("Module.BeforeTransactionsExecute", "newBFTParamsCache", "define", "paramsCache"),
       ("Chain.Init", "NewDataAccess", "assign", "c.dataAccess"),
       ("NewDataAccess", "newBlockCache", "field-init", "DataAccess.cache"),
       ("NewExecuter", "liskbft.NewModule", "field-init", "Executer.liskBFT")] := by decide +kernel

/-- completeness of the write tables: every field of a component is unexported (no other package can assign it),
no map / slice field of a component is handed to a function, and no address of a component field is taken -/
theorem C05_component_fields_are_private :
    (fields.filter (fun f => isComponent f.pkg f.strct)).all
      (fun f => match f.name.toList with | c :: _ => c.isLower | [] => false) = true ∧
    passes = [] ∧
    (writes.filter (fun w => w.how == "addr" || w.how == "addr-nested" || w.how == "assign-all")) = [] := by
  decide +kernel
