/-
C10 (proof side) — statements and checks about the transcription of pkg/trie/smt `Verify` / `CalculateRoot` /
`Prove` (Model/SMTVerify.lean, the code after fixes/C10-*.patch).

Proved here: every accepted proof passed the structural checks that make the rest of `Verify` panic free
(key lengths, height bound); kernel-evaluated regression examples for the six defects found in the unfixed
code.  The multi-key soundness / completeness of the merge algorithm is kept as `_Statement` (it is checked on
every run by the correspondence harness: model-free oracle "accepted ⇒ claims agree with the map" on generated,
tampered and forged proofs, and differential comparison Go `Verify` vs this transcription); the single-key case
is proved for the specification verifier `SMT.verify1` in Props/C10.lean, and `verifySingle` (= `verify1` on the
wire format) is compared with Go `Verify` on every single-query proof of every run.
-/
import LiskVerif.Lemmas.SMTVerify
import LiskVerif.Props.C10

open LiskVerif LiskVerif.SMT LiskVerif.SMTVerify

/-- full multi-key soundness of `verify`: for a stored map and a hash without collisions, an accepted proof
shows for every queried key what the map holds. -/
def C10_multi_sound_Statement : Prop :=
  ∀ (H : HashFn) (n : Nat), (∀ x, (H x).length = n) → (∀ a b, H a = H b → a = b) →
    ∀ (keyLen : Nat) (m : List KV), C10Map keyLen m →
      ∀ (keys : List Bytes) (proof : Proof),
        verify H keys proof (mapRoot H keyLen m) keyLen = .ok true →
          ∀ i (hi : i < keys.length) (hq : i < proof.queries.length),
            claim keys[i] proof.queries[i] = mget m keys[i]

/-- full multi-key completeness: the proof generated for any list of keys of the right length verifies and
shows what the map holds. -/
def C10_multi_complete_Statement : Prop :=
  ∀ (H : HashFn) (n : Nat), (∀ x, (H x).length = n) → (∀ a b, H a = H b → a = b) →
    ∀ (keyLen : Nat) (m : List KV), C10Map keyLen m →
      ∀ (keys : List Bytes), (∀ k ∈ keys, k.length = keyLen) →
        ∃ proof, prove H keyLen (buildH H (8 * keyLen) (entriesOf m)) keys = some proof ∧
          verify H keys proof (mapRoot H keyLen m) keyLen = .ok true ∧
          ∀ i (hi : i < keys.length) (hq : i < proof.queries.length),
            claim keys[i] proof.queries[i] = mget m keys[i]

/-! ### structural checks of accepted proofs -/

private theorem checkOne_none {keyLen : Nat} {key : Bytes} {query : Query} {seen : List Query}
    (h : checkOne keyLen key query seen = none) :
    key.length = keyLen ∧ query.key.length = keyLen ∧
      (stripPrefixFalse (toBools query.bitmap)).length ≤ 8 * keyLen := by
  unfold checkOne at h
  split at h
  · simp at h
  · next h1 =>
    split at h
    · simp at h
    · next h2 =>
      split at h
      · simp at h
      · split at h
        · simp at h
        · split at h
          · simp at h
          · next h3 =>
            exact ⟨by simpa using h1, by simpa using h2, by omega⟩

private theorem checkOne_some {keyLen : Nat} {key : Bytes} {query : Query} {seen : List Query} {v : Verdict}
    (h : checkOne keyLen key query seen = some v) : v ≠ .ok true := by
  unfold checkOne at h
  repeat' split at h
  all_goals first
    | (simp only [Option.some.injEq] at h; rw [← h]; simp)
    | simp at h

private theorem checkQueries_none {keyLen : Nat} :
    ∀ (keys : List Bytes) (qs seen : List Query), keys.length = qs.length →
      checkQueries keyLen keys qs seen = none →
      (∀ k ∈ keys, k.length = keyLen) ∧
      (∀ q ∈ qs, q.key.length = keyLen ∧ (stripPrefixFalse (toBools q.bitmap)).length ≤ 8 * keyLen)
  | [], [], _, _, _ => by simp
  | [], _ :: _, _, hl, _ => by simp at hl
  | _ :: _, [], _, hl, _ => by simp at hl
  | key :: keys, query :: qs, seen, hl, h => by
    have hl' : keys.length = qs.length := by simpa using hl
    simp only [checkQueries] at h
    split at h
    · simp at h
    · next hone =>
      have h1 := checkOne_none hone
      have ih := checkQueries_none keys qs (query :: seen) hl' h
      refine ⟨?_, ?_⟩
      · intro k hkm
        rcases List.mem_cons.mp hkm with rfl | hkm
        · exact h1.1
        · exact ih.1 k hkm
      · intro q hqm
        rcases List.mem_cons.mp hqm with rfl | hqm
        · exact h1.2
        · exact ih.2 q hqm

private theorem checkQueries_some {keyLen : Nat} :
    ∀ (keys : List Bytes) (qs seen : List Query) (v : Verdict),
      checkQueries keyLen keys qs seen = some v → v ≠ .ok true
  | [], _, _, _, h => by simp [checkQueries] at h
  | _ :: _, [], _, _, h => by simp [checkQueries] at h
  | key :: keys, query :: qs, seen, v, h => by
    simp only [checkQueries] at h
    split at h
    · next v' hv' => simp only [Option.some.injEq] at h; rw [← h]; exact checkOne_some hv'
    · exact checkQueries_some keys qs _ v h

/-- an accepted proof has as many queries as keys, all queried and all proven keys have the key length of the
tree, and no proven node is deeper than the key has bits — the facts that keep `binaryPath` / `binaryKey`
indexing of `CalculateRoot` in range (defects 1 and 2 of the unfixed code). -/
theorem C10_verify_accepts_only_wellformed (H : HashFn) (keys : List Bytes) (proof : Proof) (rt : Bytes)
    (keyLen : Nat) (h : verify H keys proof rt keyLen = .ok true) :
    keys.length = proof.queries.length ∧ (∀ k ∈ keys, k.length = keyLen) ∧
    (∀ q ∈ proof.queries, q.key.length = keyLen ∧
      (stripPrefixFalse (toBools q.bitmap)).length ≤ 8 * keyLen) := by
  unfold verify at h
  split at h
  · simp at h
  · next hl =>
    have hl' : keys.length = proof.queries.length := by simpa using hl
    split at h
    · next v hv => exact absurd h (checkQueries_some _ _ _ _ hv)
    · next hnone => exact ⟨hl', checkQueries_none keys proof.queries [] hl' hnone⟩

/-! ### the transcription of `Verify` on a single query refines the specification verifier -/

private theorem checkOne_none_full {keyLen : Nat} {key : Bytes} {query : Query} {seen : List Query}
    (h : checkOne keyLen key query seen = none) :
    query.bitmap.headD 1 ≠ 0 ∧
      (key = query.key ∨ (stripPrefixFalse (toBools query.bitmap)).length ≤
        commonPrefixLen (toBools key) (toBools query.key)) := by
  unfold checkOne at h
  split at h
  · simp at h
  · split at h
    · simp at h
    · split at h
      · simp at h
      · split at h
        · simp at h
        · next h4 =>
          split at h
          · simp at h
          · split at h
            · next h6 => exact ⟨by simpa using h4, Or.inl h6⟩
            · split at h
              · simp at h
              · next h7 => exact ⟨by simpa using h4, Or.inr (by omega)⟩

/-- **`Verify` with one query implies the specification verifier**: whatever single-query proof the transcribed
`Verify` accepts, `SMT.verify1` accepts too (on the same data in its top-down format). -/
theorem C10_verify_single_refines (H : HashFn) (keyLen : Nat) (qk : Bytes) (q : Query) (sibs : List Bytes)
    (rt : Bytes) (h : verify H [qk] ⟨sibs, [q]⟩ rt keyLen = .ok true) :
    verifySingle H keyLen qk q sibs rt = true := by
  have hwf := C10_verify_accepts_only_wellformed H _ _ _ _ h
  have hqk : qk.length = keyLen := hwf.2.1 qk (by simp)
  have hkey : q.key.length = keyLen := (hwf.2.2 q (by simp)).1
  have hh : (stripPrefixFalse (toBools q.bitmap)).length ≤ 8 * keyLen := (hwf.2.2 q (by simp)).2
  unfold verify at h
  simp only [List.length_cons, List.length_nil, bne_self_eq_false, Bool.false_eq_true, ↓reduceIte,
    checkQueries] at h
  split at h
  · next v hv =>
    split at hv
    · next v' hv' => simp only [Option.some.injEq] at hv; exact absurd h (hv ▸ checkOne_some hv')
    · simp at hv
  · next hnone =>
    have hone : checkOne keyLen qk q [] = none := by
      split at hnone
      · simp at hnone
      · assumption
    obtain ⟨hhead, hpre⟩ := checkOne_none_full hone
    simp only [filterQueries, List.find?_nil, List.reverse_cons, List.reverse_nil, List.nil_append] at h
    simp only [calculateRoot, sortQPs, isort, insertBy] at h
    split at h
    · simp at h
    · next r hr =>
      have hrt : r = rt := by simpa using h
      subst hrt
      have hbits : (stripPrefixFalse (toBools q.bitmap)).length ≤ (toBools q.key).length := by
        unfold toBools; rw [keyBits_length, hkey]; exact hh
      have hrec := calcLoop_single H q.key q.value _ _ _ _ _ hbits hr
      unfold verifySingle verify1 toProof1
      simp only [List.length_reverse, hqk, hkey, decide_true, hh, Bool.true_and, Bool.and_eq_true,
        bne_iff_ne, ne_eq, Bool.or_eq_true, decide_eq_true_eq]
      refine ⟨by simpa using hhead, ?_, ?_⟩
      · rcases hpre with hp | hp
        · exact Or.inl hp.symm
        · exact Or.inr hp
      · have hn : (Proof1.nodeHash H ⟨q.key, q.value, (stripPrefixFalse (toBools q.bitmap)).reverse, sibs.reverse⟩) =
            (mkQP H q.key q.value (stripPrefixFalse (toBools q.bitmap))).hash := by
          unfold Proof1.nodeHash mkQP
          cases q.value <;> simp
        rw [hn]
        exact hrec

/-- **Soundness of the transcribed `Verify` for single-key proofs** (the `|queries| = 1` part of
`C10_multi_sound_Statement`): an accepted single-query proof shows what the map holds for the queried key,
provided `H` has no collision between the inputs hashed by the verifier and those of the tree. -/
theorem C10_multi_sound_partial (H : HashFn) (n : Nat) (hlen : ∀ x, (H x).length = n) (keyLen : Nat)
    (m : List KV) (hm : C10Map keyLen m) (qk : Bytes) (q : Query) (sibs : List Bytes)
    (hnc : NoColl H (C10VerifyInputs H (toProof1 q sibs)) (treeInputs H (8 * keyLen) (entriesOf m)))
    (h : verify H [qk] ⟨sibs, [q]⟩ (mapRoot H keyLen m) keyLen = .ok true) :
    claim qk q = mget m qk := by
  have hs := C10_verify_single_refines H keyLen qk q sibs _ h
  unfold verifySingle at hs
  simp only [Bool.and_eq_true] at hs
  have := C10_verify_sound H n hlen keyLen m hm qk (toProof1 q sibs) hnc hs.2
  exact (show claim qk q = claim1 qk (toProof1 q sibs) from rfl).trans this

/-! ### regression examples (kernel evaluation of the transcription with the toy hash of Props/C10.lean)

The six defects of the unfixed `Verify` / `CalculateRoot`, on a three-key map with 1-byte keys: the honest proofs
are accepted, every forgery is refused. -/

def C10exMap2 : List KV := [([0x40], [1, 1]), ([0xC0], [2, 2]), ([0x41], [3, 3])]
def C10exRoot2 : Bytes := mapRoot C10toyH 1 C10exMap2
def C10exProve (keys : List Bytes) : Proof :=
  (prove C10toyH 1 (buildH C10toyH 8 (entriesOf C10exMap2)) keys).getD ⟨[], []⟩

-- present, absent (other leaf), absent (empty node) and mixed queries verify; claims are those of the map
example : verify C10toyH [[0xC0]] (C10exProve [[0xC0]]) C10exRoot2 1 = .ok true := by decide +kernel
example : verify C10toyH [[0x41], [0xC1], [0x00], [0x40]] (C10exProve [[0x41], [0xC1], [0x00], [0x40]]) C10exRoot2 1
    = .ok true := by decide +kernel
example : (C10exProve [[0x41], [0xC1], [0x00]]).queries.map (fun q => (q.key, q.value)) =
    [([0x41], [3, 3]), ([0xC0], [2, 2]), ([0x00], [])] := by decide +kernel

-- defect 1: key/value boundary of the proven leaf shifted (would be an exclusion proof of the stored key c0)
example : verify C10toyH [[0xC0]]
    { C10exProve [[0xC0]] with queries := [⟨[0xC0, 2], [2], ((C10exProve [[0xC0]]).queries.map (·.bitmap)).headD []⟩] }
    C10exRoot2 1 = .ok false := by decide +kernel
-- defect 2: bitmap longer than the key (the Go code sliced out of range)
example : verify C10toyH [[0xC0]] { C10exProve [[0xC0]] with queries := [⟨[0xC0], [2, 2], [1, 0]⟩] }
    C10exRoot2 1 = .ok false := by decide +kernel
-- defect 3: forged claim whose zero-padded path (00000001) collides with the path (1) of the proven node
example : verify C10toyH [[0xC0], [0x01]]
    { C10exProve [[0xC0]] with queries := (C10exProve [[0xC0]]).queries ++ [⟨[0x01], [9, 9], [0x80]⟩] }
    C10exRoot2 1 ≠ .ok true := by decide +kernel
-- defect 4: second, different claim at the position of a proven node (inclusion of the absent key c1)
example : verify C10toyH [[0xC0], [0xC1]]
    { C10exProve [[0xC0]] with queries := (C10exProve [[0xC0]]).queries ++
        [⟨[0xC1], [9, 9], ((C10exProve [[0xC0]]).queries.map (·.bitmap)).headD []⟩] }
    C10exRoot2 1 = .ok false := by decide +kernel
-- defect 5: bogus deeper query below the proven node with a junk sibling hash to climb on
example : verify C10toyH [[0xC0], [0x80]]
    { siblings := [9, 9] :: (C10exProve [[0xC0]]).siblings,
      queries := (C10exProve [[0xC0]]).queries ++ [⟨[0x80], [9, 9], [0x02]⟩] }
    C10exRoot2 1 ≠ .ok true := by decide +kernel
-- defect 6: unused sibling hash
example : verify C10toyH [[0xC0]]
    { C10exProve [[0xC0]] with siblings := (C10exProve [[0xC0]]).siblings ++ [[9, 9]] }
    C10exRoot2 1 = .err := by decide +kernel
-- wrong root
example : verify C10toyH [[0xC0]] (C10exProve [[0xC0]]) (C10toyH [1]) 1 = .ok false := by decide +kernel

-- non-vacuity of `C10_multi_sound_partial` / `C10_verify_single_refines`: the hypotheses hold for the honest
-- single-key proofs of a stored key (0x41) and of an absent key (0x43, ends in an empty node)
theorem C10exMap2_ok : C10Map 1 C10exMap2 :=
  ⟨by show (C10exMap2.map Prod.fst).Nodup; decide, by show ∀ kv ∈ C10exMap2, kv.1.length = 1; decide,
   by show ∀ kv ∈ C10exMap2, kv.2 ≠ []; decide⟩

example : (C10exProve [[0x41]]).queries = [⟨[0x41], [3, 3], [0x81]⟩] ∧
    (C10exProve [[0x43]]).queries = [⟨[0x43], [], [0x41]⟩] := by decide +kernel

example : claim [0x41] ⟨[0x41], [3, 3], [0x81]⟩ = mget C10exMap2 [0x41] :=
  C10_multi_sound_partial C10toyH 2 C10toyH_length 1 C10exMap2 C10exMap2_ok [0x41] ⟨[0x41], [3, 3], [0x81]⟩
    (C10exProve [[0x41]]).siblings (by unfold NoColl; decide +kernel) (by decide +kernel)

example : claim [0x43] ⟨[0x43], [], [0x41]⟩ = mget C10exMap2 [0x43] :=
  C10_multi_sound_partial C10toyH 2 C10toyH_length 1 C10exMap2 C10exMap2_ok [0x43] ⟨[0x43], [], [0x41]⟩
    (C10exProve [[0x43]]).siblings (by unfold NoColl; decide +kernel) (by decide +kernel)
